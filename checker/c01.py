"""C01 — see DESIGN.md §7."""
from valuelevel import *

RULE = "random histories (3-8 steps) of by-key writes (json::set_by_key / deserialize_by_key / mut_any+assign with canonical, whitespace-padded, trailing-data, wrong-type and empty payloads), read-backs through an equivalent key (index form), failing accesses and reads on every instance; whole-tree snapshot by generated plain field access before, after every mutating op and at the end, compared with the reference interpreter's copy"
ASSUMPTIONS = ['accessors/validators do not alias other fields (generated ones own their storage)']


def run(rep, rng, tier):
    run_valuelevel(rep, "C01", cases_c01, rng, tier, RULE, ASSUMPTIONS)
