"""C02 — see DESIGN.md §7."""
from valuelevel import *

RULE = "every instance (type × runtime state) of the value-level corpus × every node path × {exact key, surplus keys, one malformed key per level from: index=len, 2^64, 2^64-1, -1, unknown/prefix/suffixed/upper-cased names, '', '01', '+0', '-0', ' 0', '0 '} × {key list, '/' path} × ops ser/de/ref_any/mut_any; expected outcome (kind, depth, message, call log, snapshot) from the independent top-down reference walk"
ASSUMPTIONS = ['accessors/validators are the generated ones (own storage, no aliasing)']


def run(rep, rng, tier):
    run_valuelevel(rep, "C02", cases_c02, rng, tier, RULE, ASSUMPTIONS)
