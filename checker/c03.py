"""C03 — see DESIGN.md §7."""
from typelevel import *

RULE = 'every corpus type × 7 target representations × (plain, exact-size): full item sequence of nodes::<N,D>() compared with the depth-first enumeration of the generated schema; every leaf key in 4 representations resolved back; distinct by exact case'
ASSUMPTIONS = ['iteration depth D is the smallest supported value ≥ max_depth (harness instantiates D ∈ {0..6,8})']


def run(rep, rng, tier):
    run_typelevel(rep, "C03", cases_c03, rng, tier, RULE, ASSUMPTIONS)
