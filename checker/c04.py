"""C04 — see DESIGN.md §7."""
from typelevel import *

RULE = 'every (sampled for long arrays) node of every corpus type × 9 source representations × 10 targets (transcode result, depth, type), recording callback log, Chain at every split point for 4 representation pairs, callback failure at every call index'
ASSUMPTIONS = ['separators / . é 😀; names contain no separator or JSON delimiter (generator invariant)']


def run(rep, rng, tier):
    run_typelevel(rep, "C04", cases_c04, rng, tier, RULE, ASSUMPTIONS, allow_bv=True)
