"""C05 — see DESIGN.md §7."""
from valuelevel import *

RULE = 'every non-deny leaf of every instance × every sample value of its type (integers incl. extremes, bool, strings incl. non-ASCII, heapless capacity boundary, Option, array, unit, serde struct, unit enum): set, get with buffer lengths 0..6, len-1, len, len+1, set(get) identity; postcard get/set incl. short buffers and trailing bytes; f32/f64 (subnormal, extreme, fractions) bit-exact set/get/set on the implementation only'
ASSUMPTIONS = ['strings contain no JSON escape characters', 'float text conversion (ryu / float parsing) is not modelled: floats are checked on the implementation only']


def run(rep, rng, tier):
    run_valuelevel(rep, "C05", cases_c05, rng, tier, RULE, ASSUMPTIONS)
