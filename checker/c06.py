"""C06 — see DESIGN.md §7."""
from typelevel import *

RULE = 'Metadata and a structure-recording Walk of every corpus type vs brute-force enumeration of the schema; every node transcoded into buffers sized from the metadata (index slots, path bytes for 1- and 4-byte separators, JSON, packed) and one slot less for the deepest key'
ASSUMPTIONS = ['leaf count < 2^64']


def run(rep, rng, tier):
    run_typelevel(rep, "C06", cases_c06, rng, tier, RULE, ASSUMPTIONS, allow_bv=True)
    # the one place in the repository where the metadata sizes a buffer: `MqttClient::new` admits a prefix iff
    # prefix + "/settings" + Metadata::max_length("/") fits MAX_TOPIC_LENGTH (probe shared with the C10 check)
    import mqcheck
    n, _bad = mqcheck.prefix_probe(rep)
    rep.coverage["mqtt_prefix_limit_cases"] = n
