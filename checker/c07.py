"""C07 — see DESIGN.md §7."""
from mqcheck import *


def run(rep, rng, tier):
    run_mqtt(rep, "C07", rng, tier)
