"""C08 — packed key arithmetic is a lossless stack of bit fields."""
from common import *

M64 = (1 << 64) - 1
EMPTY = 1 << 63


def decode(w):
    tz = (w & -w).bit_length() - 1
    l = 63 - tz
    return l, (w >> (64 - l)) if l else 0


def encode(l, c):
    return ((2 * c + 1) << (63 - l)) & M64


def gen_cases(rng, tier):
    n = 400 if tier == "quick" else 20000
    cases = []

    def add(s):
        cases.append(f"pk k{len(cases)} {s}")

    def fields(total_target):
        fs, tot = [], 0
        while tot < total_target:
            b = rng.choice([0, 1, 1, 2, 3, 4, 5, 7, 8, 9, 16, 17, 31, 32, 33, 62, 63, rng.randrange(64)])
            if tot + b > total_target:
                b = total_target - tot
            v = rng.randrange(1 << b) if b else 0
            if rng.random() < 0.2:
                v = (1 << b) - 1 if b else 0
            fs.append((b, v))
            tot += b
            if b == 0 and rng.random() < 0.5:
                break
        return fs

    for i in range(n):
        target = rng.choice([63, 63, 62, 64, 1, 0, rng.randrange(64), rng.randrange(1, 130)])
        fs = fields(min(target, 63))
        if target > 63:
            fs.append((min(target - 63, 63), 0))  # does not fit: must fail and leave the key unchanged
        ops = [f"push {b} {v}" for b, v in fs] + ["len", "cap", "into_lsb"]
        ops += [f"pop {b}" for b, _ in fs if b <= 63] + ["empty", f"pop {rng.choice([1, 1, 2, 63])}", "len"]
        add(f"word {EMPTY} " + " ; ".join(ops))
    # random interleavings from arbitrary non-zero words
    for i in range(n):
        w = rng.choice([rng.randrange(1, 1 << 64), 1 << rng.randrange(64), (1 << rng.randrange(1, 65)) - 1,
                        rng.randrange(1, 1 << 64) | 1])
        ops = []
        for _ in range(rng.randrange(1, 12)):
            r = rng.random()
            if r < 0.4:
                b = rng.choice([0, 1, 2, 3, 8, 31, 63, rng.randrange(64)])
                ops.append(f"push {b} {rng.randrange(1 << b) if b else 0}")
            elif r < 0.8:
                ops.append(f"pop {rng.choice([0, 1, 2, 3, 8, 31, 63, rng.randrange(64)])}")
            else:
                ops.append(rng.choice(["len", "cap", "empty", "into_lsb"]))
        add(f"word {w} " + " ; ".join(ops))
    # LSB bijection: all single-bit words, neighbours of powers of two, random
    words = set()
    for k in range(64):
        for d in (-1, 0, 1):
            x = ((1 << k) + d) & M64
            if x:
                words.add(x)
    words.add(M64)
    for _ in range(n):
        words.add(rng.randrange(1, 1 << 64))
    for w in sorted(words):
        add(f"word {w} into_lsb ; from_lsb ; len")
        add(f"word {w} from_lsb")
        add(f"new_from_lsb {w}")
        add(f"new {w}")
        add(f"word {w} clear ; len ; empty")
    add("new_from_lsb 0")
    add("new 0")
    # from_lsb ∘ into_lsb and into_lsb ∘ from_lsb are checked by chaining through the oracle
    for k in range(65):
        for d in (-1, 0, 1):
            x = (1 << k) + d
            if 0 <= x <= M64:
                add(f"bits_for {x}")
    for _ in range(n // 4):
        add(f"bits_for {rng.randrange(1 << rng.randrange(1, 65))}")
    return cases


def oracle(case, out):
    toks = case.split()[2:]
    if "panic" in out or "bad-op" in out:
        return f"in-contract operation gave {out!r}"
    if toks[0] == "bits_for":
        n = int(toks[1])
        exp = max(1, n.bit_length())
        return None if out == str(exp) else f"bits_for({n}) = {out}, minimal non-zero width is {exp}"
    if toks[0] in ("new", "new_from_lsb"):
        v = int(toks[1])
        if v == 0:
            exp = "none"
        elif toks[0] == "new":
            exp = f"some {v}"
        else:
            ll = v.bit_length() - 1
            exp = f"some {encode(ll, v - (1 << ll))}"      # every non-zero word is the LSB form of exactly one key
        return None if out == exp else f"{toks[0]}({v}) = {out}, expected {exp}"
    w = int(toks[1])
    l, c = decode(w)
    ops = " ".join(toks[2:]).split(" ; ")
    outs = out.split(" | ")
    if len(ops) != len(outs):
        return f"{len(ops)} ops but {len(outs)} outcomes"
    cur = w
    for o, r in zip(ops, outs):
        o = o.split()
        if o[0] == "push":
            b, v = int(o[1]), int(o[2])
            if l + b <= 63:
                l, c = l + b, (c << b) | v
                cur = encode(l, c)
                exp = f"some {cur} {63 - l}"
            else:
                exp = "none"
        elif o[0] == "pop":
            b = int(o[1])
            if b <= l:
                val = c >> (l - b)
                c &= (1 << (l - b)) - 1
                l -= b
                cur = encode(l, c)
                exp = f"some {cur} {val}"
            else:
                exp = "none"
        elif o[0] == "len":
            exp = str(l)
        elif o[0] == "cap":
            exp = str(63 - l)
        elif o[0] == "empty":
            exp = "true" if l == 0 else "false"
        elif o[0] == "into_lsb":
            exp = str((1 << l) | c)
            if int(r) != 0 and exp == r:
                # bijection: from_lsb of it must give the word back (checked when the case chains it)
                pass
        elif o[0] == "clear":
            l, c = 0, 0
            cur = encode(0, 0)
            exp = str(cur)
        elif o[0] == "from_lsb":
            # applies to the *current word* interpreted as an LSB value
            ll = cur.bit_length() - 1
            exp = str(encode(ll, cur - (1 << ll)))
        else:
            return "unknown op"
        if r != exp:
            return f"op {' '.join(o)} on (len={l}, word={cur}): got {r!r}, stack semantics give {exp!r}"
    # chained bijection check for `into_lsb ; from_lsb` cases
    if ops[:2] == ["into_lsb", "from_lsb"]:
        lsb = int(outs[0])
        ll = lsb.bit_length() - 1
        if encode(ll, lsb - (1 << ll)) != w:
            return f"from_lsb(into_lsb({w})) != {w}"
    return None


def nontrivial(case, out):
    toks = case.split()[2:]
    if toks[0] in ("bits_for", "new", "new_from_lsb"):
        return (toks[0], toks[1])
    kinds = tuple(sorted(set(o.split()[0] for o in " ".join(toks[2:]).split(" ; "))))
    some = "some" in out
    none = "none" in out
    return (",".join(kinds) + ("+ok" if some else "") + ("+fail" if none else ""), case.split(" ", 2)[2])


def run(rep, rng, tier):
    pl = proof_layer("C08", allow_bv=True, thorough=(tier == "thorough"))
    cases = gen_cases(rng, tier)
    r = paired_run(rep, cases, oracle, nontrivial)
    for f in pl["failures"]:
        rep.violation("proof", {"theorem_or_translator": f, "property_module": "MiniconfVerif.Props.C08"}, no_input=True)
    rep.coverage = {
        "obligations": pl["obligations"],
        "discharged": pl["discharged"] if not pl["failures"] else min(pl["discharged"], pl["obligations"] - 1),
        "checker_cmd": "cd lean && lake build MiniconfVerif.Props.C08 && lake env lean MiniconfVerif/Audit/C08.lean"
                       + (" && lake env leanchecker MiniconfVerif.Props.C08" if tier == "thorough" else ""),
        "trusted_base": ["Lean 4.33.0 kernel"] + axiom_summary(pl) + [
            "extract/gen_packed.py (Rust expression → BitVec 64 translator, regenerated this run)",
            "harness/src/pk.rs + checker/c08.py (correspondence and independent stack-semantics oracle)"],
        "theorems": pl["theorems"],
        "evaluations": r["n"] if r else 0,
        "distinct_nontrivial": r["distinct"] if r else 0,
        "rule": "cases = push/pop/len/lsb sequences on Packed words (fill to capacity, overflow by one field, zero-width "
                "fields, random interleavings from arbitrary non-zero words, all single-bit words ±1, bits_for at 2^k-1,2^k,2^k+1); "
                "distinct = distinct (op-kind set, success/failure mix, exact case text); every case is run on the real "
                "miniconf::Packed, on the Lean model (generated definitions) and against a Python big-int stack oracle",
        "samples": cases[:2] + cases[len(cases) // 2: len(cases) // 2 + 1] + cases[-1:],
        "traces_validated_against_impl": r["n"] - r["diffs"] if r else 0,
        "model_disagreements": r["diffs"] if r else None,
        "oracle_failures": r["oracle_failures"] if r else None,
        "input_distribution": r["hist"] if r else {},
    }
    rep.assumptions = ["usize is 64 bit (32-bit targets out of scope)",
                       "bv_decide axioms accepted for single-word lemmas (listed in trusted_base)",
                       "control skeleton of pop_msb/push_lsb (Self::new(..).map(|..| ..)) is matched syntactically by the translator"]
