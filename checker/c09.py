"""C09 — see DESIGN.md §7."""
from typelevel import *

RULE = 'packed key of every node of every corpus type whose max_bits ≤ 63: value, decode back to the index tuple, uniqueness and sortedness (asserted on the oracle side), bits ≤ max_bits; Packed iteration order; array/struct families that do and do not cross a power of two'
ASSUMPTIONS = ['max_bits ≤ 63 (packed word is 64 bit)']


def run(rep, rng, tier):
    run_typelevel(rep, "C09", cases_c09, rng, tier, RULE, ASSUMPTIONS, allow_bv=True)
