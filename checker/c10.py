"""C10 — see DESIGN.md §7."""
from mqcheck import *


def run(rep, rng, tier):
    run_mqtt(rep, "C10", rng, tier)
