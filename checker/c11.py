"""C11 — see DESIGN.md §7."""
from typelevel import *

RULE = 'every corpus type × depth limit D ∈ supported values ≤ max_depth+2 × 4 targets; every (sampled) node as root in 2 (quick) or 5 representations; index capacities 0..max_depth, path capacities 0..12 and full-1, full; heapless::String<3>; 3 polls past the end; invalid roots'
ASSUMPTIONS = ['D ∈ {0..6,8} instantiated by the harness']


def run(rep, rng, tier):
    run_typelevel(rep, "C11", cases_c11, rng, tier, RULE, ASSUMPTIONS)
