"""C12 — see DESIGN.md §7."""
from valuelevel import *

RULE = 'every type carrying get/get_mut/validate/deny × all single callback gates, all pairs, random larger combinations (fail / replace depth 0 or 7) × every node path × ops ser/de/ref/mut; call log, result kind/depth/message and snapshot vs the reference interpreter'
ASSUMPTIONS = ['callbacks are the generated logging functions']


def run(rep, rng, tier):
    run_valuelevel(rep, "C12", cases_c12, rng, tier, RULE, ASSUMPTIONS)
