"""C13 — see DESIGN.md §7."""
from mqcheck import *


def run(rep, rng, tier):
    run_mqtt(rep, "C13", rng, tier)
