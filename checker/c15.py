"""C15 — path and JSON-path strings split into keys exactly as documented."""
import itertools

from common import *

ALPHA = ["/", ".", "a", "é", "😀", "'", "[", "]"]
SEPS = ["/", ".", "é", "😀", "€", "a"]
# characters sharing the UTF-8 lead byte / the trailing bytes with a multi-byte separator
# (a byte-level search for the separator must not split at them)
TWINS = {"é": ["è", "©", "Ã"], "😀": ["😁", "☀", "𐀀"], "€": ["→", "¬", "₭"], "/": ["／"], ".": ["．"], "a": ["á"]}


def enc(s):
    return "e" if s == "" else ".".join(str(ord(c)) for c in s)


def enc_list(l):
    return "-" if not l else ",".join(enc(x) for x in l)


def dec(s):
    return "" if s == "e" else "".join(chr(int(t)) for t in s.split("."))


def dec_list(s):
    return [] if s == "-" else [dec(x) for x in s.split(",")]


def jref(s):
    """reference reading of the documented JSON-style notation (jsonpath.rs docs)"""
    keys = []
    while True:
        if s.startswith(".'"):
            rest = s[2:]
            e = rest.find("'")
            if e < 0:
                break
            keys.append(rest[:e])
            s = rest[e + 1:]
        elif s.startswith("."):
            rest = s[1:]
            cands = [i for i in (rest.find("."), rest.find("[")) if i >= 0]
            e = min(cands) if cands else len(rest)
            keys.append(rest[:e])
            s = rest[e:]
        elif s.startswith("['"):
            rest = s[2:]
            e = rest.find("']")
            if e < 0:
                break
            keys.append(rest[:e])
            s = rest[e + 2:]
        elif s.startswith("["):
            rest = s[1:]
            e = rest.find("]")
            if e < 0:
                break
            keys.append(rest[:e])
            s = rest[e + 1:]
        else:
            break
    return keys, s


NOTATIONS = [lambda n: "." + n, lambda n: "[" + n + "]", lambda n: "['" + n + "']", lambda n: ".'" + n + "'"]


def gen_cases(rng, tier):
    maxlen = 5 if tier == "quick" else 6
    cases, meta = [], {}

    def add(s, m=None):
        cid = f"s{len(cases)}"
        cases.append(f"st {cid} {s}")
        if m is not None:
            meta[cid] = m

    for L in range(maxlen + 1):
        for tup in itertools.product(ALPHA, repeat=L):
            t = "".join(tup)
            for sep in ("/", ".", "é", "😀"):
                add(f"split {ord(sep)} {enc(t)}")
            add(f"jsplit {enc(t)}")
    # per separator: exhaustive strings over {sep, its byte-level twins, one ASCII char}
    for sep in SEPS:
        alpha = [sep] + TWINS[sep] + ["x"]
        for L in range(1, 5 if tier == "quick" else 6):
            for tup in itertools.product(alpha, repeat=L):
                add(f"split {ord(sep)} {enc(''.join(tup))}")
    # random longer strings, all separators
    pool = ALPHA + ["€", "b", "0", "9", "́", "\U0010ffff", " ", "\x00"] + sum(TWINS.values(), [])
    for _ in range(3000 if tier == "quick" else 100000):
        t = "".join(rng.choice(pool) for _ in range(rng.randrange(7, 40)))
        add(f"split {ord(rng.choice(SEPS))} {enc(t)}")
        if rng.random() < 0.5:
            add(f"jsplit {enc(t)}")
    # structured JSON paths: names free of delimiters, every notation mix
    names_pool = ["foo", "bar", "4", "", "é", "😀x", "a b", "0", "18446744073709551615", "/", "x/y"]
    for _ in range(3000 if tier == "quick" else 60000):
        names = [rng.choice(names_pool) for _ in range(rng.randrange(0, 7))]
        text = "".join(rng.choice(NOTATIONS)(n) for n in names)
        add(f"jsplit {enc(text)}", {"names": names})
    # all notation mixtures for short sequences (exhaustive): 4^k mixtures, k ≤ 3
    for k in range(1, 4):
        for names in itertools.product(["foo", "5", ""], repeat=k):
            for nts in itertools.product(range(4), repeat=k):
                text = "".join(NOTATIONS[i](n) for i, n in zip(nts, names))
                add(f"jsplit {enc(text)}", {"names": list(names)})
    return cases, meta


def make_oracle(meta):
    def oracle(case, out):
        toks = case.split()
        cid, op = toks[1], toks[2]
        if out in ("panic", "bad-op"):
            return f"splitter gave {out!r}"
        o = out.split()
        if op == "split":
            sep, text = chr(int(toks[3])), dec(toks[4])
            exp = text.split(sep)[1:]
            got = dec_list(o[0])
            if got != exp:
                return f"PathIter::root({text!r}) with separator {sep!r} yields {got!r}, str.split(S).skip(1) gives {exp!r}"
            if o[1] != "0":
                return "iterator yielded again after returning None (not fused)"
            return None
        text = dec(toks[3])
        got = dec_list(o[0])
        if o[1] != "0":
            return "JsonPathIter yielded again after returning None (not fused)"
        m = meta.get(cid)
        if m is not None and got != m["names"]:
            return f"written form {text!r} of keys {m['names']!r} parses to {got!r}"
        rk, rrest = jref(text)
        if got != rk or dec(o[2]) != rrest:
            return f"JsonPathIter({text!r}) = {got!r} rest {dec(o[2])!r}; documented rule table gives {rk!r} rest {rrest!r}"
        return None
    return oracle


def nontrivial(case, out):
    toks = case.split()
    op = toks[2]
    nkeys = 0 if out.split()[0] == "-" else out.split()[0].count(",") + 1
    if nkeys == 0:
        return None
    return (f"{op}:{min(nkeys, 6)}keys", " ".join(toks[2:]))


# ------------------------------------------------------------------ paths as keys on real types

def usize_from_str(t):
    """Rust `usize::from_str` (64 bit): optional `+`, then decimal digits only"""
    if t.startswith("+"):
        t = t[1:]
    if not t or any(c not in "0123456789" for c in t):
        return None
    v = int(t)
    return v if v < 2 ** 64 else None


def resolve(s, segs):
    """the documented walk with string keys: (`outcome depth`, callback log)"""
    import treecases as T
    import spec as S
    log, d = [], 0
    for k in segs:
        if s[0] == "leaf":
            return f"tooLong {d}", log
        n = S.nchildren(s)
        names = [S.name_of(s, i) for i in range(n)] if s[0] == "node" and S.name_of(s, 0) is not None else None
        if names is not None:
            i = names.index(k) if k in names else None
        else:
            i = usize_from_str(k)
            if i is not None and i >= n:
                i = None
        if i is None:
            return f"notFound {d + 1}", log
        log.append(f"{i}:{T.enc(names[i]) if names is not None else '-'}:{n}")
        s = S.child(s, i)
        d += 1
    return (f"ok {d}" if s[0] == "leaf" else f"tooShort {d}"), log


def key_cases(rng, tier):
    """`Path<&str, S>` / `JsonPath` used as KEYS on generated types: the keys the traversal sees are
    `split(S).skip(1)` of the text (anything before the first separator is ignored, doubled / trailing separators are
    empty keys) and the documented reading of the JSON notation"""
    import treecases as T
    import spec as S
    import typelevel as TL
    types = TL.enumerable(T.load_corpus())
    c = TL.Cases(types)
    seps = {"path47": "/", "path46": ".", "path233": "é", "path128512": "😀"}
    junks = ["", "x", "0", "éa", " ", "+1"]
    for t in types:
        s = T.tup(t["schema"])
        nodes = T.all_nodes(s, limit=40 if tier == "quick" else 150)
        for rep, sep in seps.items():
            if not TL.rep_ok(s, rep):
                continue
            for p in nodes:
                ks = T.key_strs(s, p)
                clean = "".join(sep + k for k in ks)
                variants = {j + clean for j in junks if sep not in j}
                variants.add(clean + sep)                       # trailing separator: one more (empty) key
                if ks:
                    cut = rng.randrange(len(ks))
                    variants.add("".join(sep + k for k in ks[:cut]) + sep + "".join(sep + k for k in ks[cut:]))  # doubled
                    variants.add("".join(sep + k for k in ks[:-1]) + sep + "+" + ks[-1])   # `+` numeral
                for text in sorted(variants):
                    segs = text.split(sep)[1:]
                    res, log = resolve(s, segs)
                    c.add(t["tid"], f"trav P{ord(sep)}:{T.enc(text)} -", f"{res} cb={','.join(log) or '-'}",
                          f"Path<&str, {sep!r}>({text!r}) as keys on {t['label']} must be the keys {segs!r}", "pathkeys:" + rep)
                    # the same text handed over by reference (`&Path<String, S>`, the documented `transcode(&path)` idiom)
                    if rng.random() < 0.35:
                        c.add(t["tid"], f"trav R{ord(sep)}:{T.enc(text)} -", f"{res} cb={','.join(log) or '-'}",
                              f"&Path<String, {sep!r}>({text!r}) as keys on {t['label']} must be the keys {segs!r}", "pathkeys-ref:" + rep)
        # the written form of a node (what `Transcode` produces) is the text whose split is the node's keys
        for p in nodes:
            typ = T.node_type(s, p)
            for target in ("path47", "path128512", "json"):
                if not TL.rep_ok(s, target):
                    continue
                shown, fail = T.show_target(s, p, target, TL.BIG)
                if fail is None:
                    c.add(t["tid"], f"xcode {T.render(s, p, 'indices')} {target} {TL.BIG}", f"{typ} {len(p)} {shown}",
                          f"written {target} form of node {p} of {t['label']}", "written:" + target)
        if TL.rep_ok(s, "json"):
            for p in nodes:
                info = T.level_info(s, p)
                for style in range(3):
                    txt, segs = "", []
                    for j, (i, n, _cnt) in enumerate(info):
                        k = n if n is not None else str(i)
                        segs.append(k)
                        txt += [f".{k}" if n is not None else f"[{k}]", f"['{k}']", f".'{k}'"][(j + style) % 3 if style else 0]
                    for tail in ("", "junk", "[", ".", "[]", "]x", "['", ".''"):
                        keys, _rest = jref(txt + tail)      # the documented reading of the notation
                        res, log = resolve(s, keys)
                        c.add(t["tid"], f"trav J:{T.enc(txt + tail)} -", f"{res} cb={','.join(log) or '-'}",
                              f"JsonPath({txt + tail!r}) as keys on {t['label']} must be the keys {keys!r}", "jsonkeys")
    return c


def run(rep, rng, tier):
    pl = proof_layer("C15", thorough=(tier == "thorough"))
    cases, meta = gen_cases(rng, tier)
    r = paired_run(rep, cases, make_oracle(meta), nontrivial)
    kc = key_cases(rng, tier)
    r2 = paired_run(rep, kc.lines, kc.oracle, kc.nontrivial)
    for f in pl["failures"]:
        rep.violation("proof", {"theorem_or_translator": f, "property_module": "MiniconfVerif.Props.C15"}, no_input=True)
    rep.coverage = {
        "obligations": pl["obligations"],
        "discharged": pl["discharged"] if not pl["failures"] else min(pl["discharged"], pl["obligations"] - 1),
        "checker_cmd": "cd lean && lake build MiniconfVerif.Props.C15 && lake env lean MiniconfVerif/Audit/C15.lean",
        "trusted_base": ["Lean 4.33.0 kernel"] + axiom_summary(pl) + [
            "Model/PathIter.lean is hand-written; tied to node.rs/jsonpath.rs by the `st` correspondence stream of this run",
            "harness/src/st.rs, checker/c15.py (Python str.split oracle and rule-table reference)"],
        "theorems": pl["theorems"],
        "evaluations": (r["n"] if r else 0) + (r2["n"] if r2 else 0),
        "path_and_jsonpath_as_keys_on_corpus_types": {"cases": r2["n"] if r2 else 0, "model_disagreements": r2["diffs"] if r2 else None,
                                                        "oracle_failures": r2["oracle_failures"] if r2 else None},
        "distinct_nontrivial": r["distinct"] if r else 0,
        "exhaustive": True,
        "rule": f"all strings over {ALPHA} up to length {5 if tier == 'quick' else 6} × separators / . é 😀 for PathIter and the same "
                "strings for JsonPathIter (exhaustive), random longer strings over a larger pool and 6 separators, "
                "random and exhaustive (k ≤ 3) mixtures of the four JSON notations; non-trivial = yields at least one key; "
                "distinct by exact input",
        "samples": [cases[9], cases[1000], cases[-1]],
        "traces_validated_against_impl": r["n"] - r["diffs"] if r else 0,
        "model_disagreements": r["diffs"] if r else None,
        "oracle_failures": r["oracle_failures"] if r else None,
        "input_distribution": r["hist"] if r else {},
    }
    rep.assumptions = ["strings are valid UTF-8 (Rust &str); separators exercised by the implementation run: / . a é € 😀 "
                       "(the theorems hold for every separator character)"]
