"""C16 — no key or payload can make a tree operation panic."""
from valuelevel import *
import typelevel as TL

RULE = ("arbitrary Unicode strings as '/'- and '😀'-paths and JSON paths, arbitrary integers (incl. 2^64, ±2^127), arbitrary "
        "non-zero packed words, chained combinations, arbitrary payload text / bytes and output buffers from length 0 on every "
        "instance (type × runtime state) through json/postcard get/set, ref_any, mut_any; the same garbage keys through "
        "traverse_by_key / transcode / NodeIter::root on every corpus type incl. a zero-sized array of 2^63+1 elements; "
        "bits_for / LSB conversions on arbitrary words. Every case runs under catch_unwind in the overflow-checked dev "
        "profile (and, thorough tier, in the release profile, whose outcomes must be identical); oracle: a result, never a panic")
ASSUMPTIONS = ["panics inside serde-json-core, postcard, heapless, itoa are not excluded by the theorems (only by these runs)",
               "quick tier runs the dev (overflow-checked) profile only; the release profile is part of the thorough tier",
               "Packed::push_lsb/pop_msb called directly are used within their documented argument contract (bits ≤ 63)"]


def garbage_typelevel(types, rng, tier):
    c = TL.Cases(types)
    pool = ["/", ".", "a", "é", "😀", "'", "[", "]", "0", "1", "9", "-", "+", " ", "foo", "bar", "start"]
    for t in types:
        for _ in range(8 if tier == "quick" else 80):
            txt = "".join(rng.choice(pool) for _ in range(rng.randrange(0, 10)))
            w = rng.choice([1, 2 ** 63, 2 ** 64 - 1, rng.randrange(1, 2 ** 64), 1 << rng.randrange(64)])
            ints = [rng.choice([0, 1, -1, 2 ** 64, 2 ** 127 - 1, -2 ** 127, rng.randrange(-5, 300)]) for _ in range(rng.randrange(0, 5))]
            spec = rng.choice([f"P47:{enc(txt)}", f"P128512:{enc(txt)}", f"J:{enc(txt)}", f"Q:{w}",
                               "L:" + ",".join(f"i{i}" for i in ints), f"C[Q:{w}][P47:{enc(txt)}]",
                               f"C[L:" + ",".join(f"i{i}" for i in ints) + f"][Q:{w}]"])
            target = rng.choice(["unit", "idx", "idx8", "path47", "path128512", "json", "packed"])
            cap = rng.choice([0, 1, 2, 3, 7, 64, 10 ** 6])
            why = f"arbitrary key on {t['label']}"
            c.add(t["tid"], f"trav {spec} -", None, why, "trav")
            c.add(t["tid"], f"xcode {spec} {target} {cap}", None, why, "xcode")
            it_target = target if target != "idx8" else "idx"
            if TL.leaf_count(T.tup(t["schema"])) > 900:
                continue  # huge arrays: a full iteration is (correctly) longer than the item cap of this run
            c.add(t["tid"], f"iter {rng.choice([0, 1, 2, 3])} {spec} {it_target} {cap} 1 0 1000", None, why, "iterroot")
        # VALID keys of every depth into a Packed target and as the root of an iteration over Packed keys: a key that needs
        # more bits than the word has left must come back as an error, whatever room is left
        s_ = T.tup(t["schema"])

        def max_children(x):
            return 0 if x[0] == "leaf" else max([T.S.nchildren(x)] + [max_children(T.S.child(x, i)) for i in range(min(T.S.nchildren(x), 3))])
        if max_children(s_) <= 2 ** 63:      # beyond: the region of known finding F5, exercised by the garbage keys above
            deep = [p for p in T.all_nodes(s_, limit=60)]
            for p in (deep if tier != "quick" else deep[:4] + deep[-8:]):
                src = T.render(s_, p, "indices")
                c.add(t["tid"], f"xcode {src} packed 64", None, f"valid key {p} of {t['label']} into Packed", "xcode:valid>packed")
                if len(p) <= 4 and TL.leaf_count(s_) <= 900:
                    c.add(t["tid"], f"iter 4 {src} packed 64 1 0 1000", None,
                          f"iteration over Packed keys rooted at {p} of {t['label']}", "iterroot:packed")
        # VALID roots with targets that cannot hold even the root's own key, every state length: the iterator reports
        # error items and terminates, it never indexes outside its state
        s = T.tup(t["schema"])
        if TL.leaf_count(s) <= 900:
            nodes = [p for p in T.all_nodes(s, limit=40) if len(p) <= 4]
            for p in (nodes if tier != "quick" else rng.sample(nodes, min(len(nodes), 10))):
                for D in [d for d in (1, 2, 3, 4) if d >= len(p)][:2 if tier == "quick" else 4]:
                    for target, cap in (("idx", 0), ("idx", 1), ("idx", max(len(p) - 1, 0)), ("path47", len(p)), ("hpath47", 3),
                                        ("json", 2)):
                        c.add(t["tid"], f"iter {D} {T.render(s, p, 'indices')} {target} {cap} 2 0 1000", None,
                              f"iteration rooted at {p} of {t['label']} into a {target} target of capacity {cap}", "iterroot:smallcap")
        # a USED iterator re-rooted: `next()` called a few times or to exhaustion, then `root(valid key)`, then iterated
        if TL.leaf_count(s) <= 900:
            nodes_ = [p for p in T.all_nodes(s, limit=30) if 1 <= len(p) <= 4]
            for p in (nodes_ if tier != "quick" else rng.sample(nodes_, min(len(nodes_), 4))):
                for pre in (1, 3, TL.leaf_count(s) + 2):
                    c.add(t["tid"], f"iter 4 H{pre};{T.render(s, p, 'indices')} idx 64 2 0 1000", None,
                          f"{pre} x next() on a fresh iterator of {t['label']}, then root({p}), then iteration", "iterroot:used")
        # near-valid JSON paths: the written form of a node with its tail cut / a delimiter dropped or doubled
        if TL.rep_ok(s, "json"):
            for p in T.all_nodes(s, limit=12):
                txt = T.json_text(s, p)
                quoted = "".join(f"['{k}']" for k in T.key_strs(s, p))
                for base in (txt, quoted):
                    for k in range(len(base) + 1):
                        for mut in (base[:k], base[:k] + "'", base[:k] + "['", base[:k] + "é", base[:k] + "]" + base[k:]):
                            c.add(t["tid"], f"trav J:{enc(mut)} -", None, f"mutilated JSON path {mut!r} on {t['label']}", "trav:json")
    return c


def splitter_cases(tier):
    """every short string over the delimiters through both splitters (a key conversion must return for every string)"""
    import itertools
    out = []
    alpha = [".", "[", "]", "'", "a", "0", "é"]
    for L in range(0, 5 if tier == "quick" else 7):
        for tup in itertools.product(alpha, repeat=L):
            t = "".join(tup)
            out.append(f"st j{len(out)} jsplit {enc(t)}")
    for L in range(0, 4 if tier == "quick" else 6):
        for tup in itertools.product(["/", "é", "a", "😀"], repeat=L):
            t = "".join(tup)
            for sep in ("/", "é", "😀"):
                out.append(f"st s{len(out)} split {ord(sep)} {enc(t)}")
    return out


def run(rep, rng, tier):
    c, r = run_valuelevel(rep, "C16", cases_c16, rng, tier, RULE, ASSUMPTIONS)
    types = T.load_corpus()
    g = garbage_typelevel(types, rng, tier)
    r2 = paired_run(rep, g.lines, g.oracle, g.nontrivial)
    # packed words / splitters: arbitrary words
    pk = []
    for i in range(400 if tier == "quick" else 20000):
        w = rng.choice([rng.randrange(1, 2 ** 64), 1 << rng.randrange(64), 2 ** 64 - 1])
        pk.append(f"pk p{i} word {w} into_lsb ; from_lsb ; len ; cap ; empty")
        pk.append(f"pk q{i} bits_for {rng.choice([0, 2 ** 64 - 1, 2 ** 63, rng.randrange(2 ** 64)])}")
    r3 = paired_run(rep, pk, lambda case, out: ("panic" if "panic" in out or "bad-op" in out else None), lambda c_, o: ("pk", c_))
    sp = splitter_cases(tier)
    r4 = paired_run(rep, sp, lambda case, out: (f"splitter gave {out!r}" if out in ("panic", "bad-op") else None),
                    lambda c_, o: ("st", c_))
    total = [x for x in (r, r2, r3, r4) if x]
    rep.coverage["evaluations"] = sum(x["n"] for x in total) - c.n_decl - g.n_decl
    rep.coverage["distinct_nontrivial"] = sum(x["distinct"] for x in total)
    rep.coverage["model_disagreements"] = sum(x["diffs"] for x in total)
    rep.coverage["oracle_failures"] = sum(x["oracle_failures"] for x in total)
    rep.coverage["profiles"] = ["dev"]
    if tier == "thorough":
        # release profile: same cases, outcomes must be identical to the dev profile and panic-free
        ok, msg = build_harness("release")
        if not ok:
            rep.violation("proof", {"what": "release harness does not build", "log": msg}, no_input=True)
        else:
            for lines, res in ((c.lines, r), (g.lines, r2), (pk, r3), (sp, r4)):
                rc, rel, err = run_lines(harness_bin("release"), lines)
                for l in lines:
                    cid = l.split(" ", 2)[1]
                    if rel.get(cid) != res["impl"].get(cid):
                        if known_open("C16", l, rel.get(cid) or "", "release"):
                            continue
                        # the release-profile face of the open finding F5 (shift by 64: a panic in the overflow-checked
                        # profile, a garbage index in release) on the same input
                        why_dev = getattr(g, "why", {}).get(cid, "") if lines is g.lines else ""
                        if res["impl"].get(cid) == "panic" and known_open("C16", l, "panic", why_dev):
                            k = known_open("C16", l, "panic", why_dev)
                            if k["what"] not in rep.known:
                                rep.known.append(k["what"])
                            continue
                        rep.violation("oracle", {"case": l, "release": rel.get(cid), "dev": res["impl"].get(cid),
                                                 "why": "release and overflow-checked profiles disagree"})
                        break
            rep.coverage["profiles"] = ["dev", "release"]
