"""C17 — the Python client resolves each request exactly once from its own responses."""
import itertools
import json

from common import *

RT = "dt/sinara/dev/response"
PFX = "dt/sinara/dev"


def cp(s):
    return "e" if s == "" else ".".join(str(ord(c)) for c in s)


def jstr(s):
    return json.dumps(s)


def well_formed_responses(kind, rng):
    """(list of (payload, code)) a device could send for this request"""
    r = rng.random()
    if kind == "list":
        if r < 0.6:
            paths = [f"/n/{i}" for i in range(rng.randrange(0, 4))]
            return [(p, "Continue") for p in paths] + [("", "Ok")]
        if r < 0.7:
            # the settings tree is a single leaf (its path is the empty string), or an empty path among others
            paths = rng.choice([[""], ["/n/0", "", "/n/2"], ["", ""]])
            return [(p, "Continue") for p in paths] + [("", "Ok")]
        if r < 0.85:
            return [("/leaf", "Ok")]                                # list on a leaf
        return [("/x", "Continue"), ("Pending multipart response", "Error")]
    if kind == "set":
        return [("OK", "Ok")] if r < 0.7 else [("Key not found (depth: 1)", "Error")]
    if kind in ("get", "clear"):
        if r < 0.6:
            return [(rng.choice(["5", "true", "-3", '"abc"', "[1,2]", "null", '{"a":1}']), "Ok")]
        if r < 0.75:
            return [("Variant absent (depth: 1)", "Error")]
        if r < 0.85:
            return [("", "Ok")]                                     # empty final payload
        return [("1", "Continue"), ("2", "Ok")]                    # not a leaf
    return []


def expected(variant, reqs, msgs):
    """reference reading (independent of the Lean model): reqs = [(kind, path, payload)],
    msgs = [(topic, payload, cdspec, code)] in delivery order"""
    inflight = {}
    done = {}
    for k, (kind, _p, _v) in enumerate(reqs):
        if kind != "dump":
            inflight[k] = []
    for topic, payload, cdspec, code in msgs:
        if topic != "R" or cdspec is None or code is None:
            continue
        if not (isinstance(cdspec, int) and cdspec in inflight):
            continue
        if code == "Continue":
            inflight[cdspec].append(payload)
        elif code == "Ok":
            ret = inflight.pop(cdspec)
            if payload:
                ret.append(payload)
            done[cdspec] = ("ok", ret)
        else:
            inflight.pop(cdspec)
            done[cdspec] = ("exc", code, payload)
    out = []
    for k, (kind, _p, _v) in enumerate(reqs):
        if kind == "dump":
            out.append(f"r{k}=ok:null")
            continue

        def post(ret):
            if kind == "list":
                return "exc:AssertionError" if not ret else "ok:[" + ",".join(jstr(x) for x in ret) + "]"
            if len(ret) != 1:
                return "exc:MiniconfException:Not a leaf:[" + ",".join(jstr(x) for x in ret) + "]"
            return "ok:" + (jstr(ret[0]) if kind == "set" else ret[0])
        if k in done:
            d = done[k]
            out.append(f"r{k}=" + (post(d[1]) if d[0] == "ok" else f"exc:MiniconfException:{d[1]}:{jstr(d[2])}"))
        elif variant == "async":
            out.append(f"r{k}=pending")
        else:
            out.append(f"r{k}=timeout:" + post(inflight[k]))
    pubs = []
    for kind, path, val in reqs:
        pubs.append(f"{cp(PFX + '/settings' + path)}|{cp(val) if val is not None else '-'}|{0 if kind == 'dump' else 1}")
    return " ".join(out) + f" inflight={len(inflight)} pubs=" + ",".join(pubs)


def gen_cases(rng, tier):
    cases, exp = [], {}

    def add(variant, reqs, msgs, kind, inpub=0):
        cid = f"p{len(cases)}"
        toks = []
        for i, (k, path, val) in enumerate(reqs):
            if inpub and i == len(reqs) - 1:
                toks.append(f"inpub:{inpub}")     # the first `inpub` messages overtake the return of the last publish()
            toks.append(f"set:{cp(path)}:{cp(val)}" if k == "set" else f"{k}:{cp(path)}")
        for topic, payload, cdspec, code in msgs:
            t = "R" if topic == "R" else cp(topic)
            c = "-" if cdspec is None else (f"r{cdspec}" if isinstance(cdspec, int) else cdspec)
            ctok = "-" if code is None else (code if code[:1].isupper() else cp(code))
            toks.append(f"msg:{t}:{'X' + payload.hex() if isinstance(payload, bytes) else cp(payload)}:{c}:{ctok}")
        cases.append(f"py {cid} {variant} " + " ".join(toks))
        exp[cid] = (expected(variant, reqs, msgs), kind)

    kinds = ["get", "set", "list", "clear", "dump"]
    n = 250 if tier == "quick" else 6000
    for variant in ("async", "sync"):
        # exhaustive interleavings for up to 3 concurrent requests
        for _ in range(n // 10):
            reqs = []
            for _k in range(rng.randrange(1, 4)):
                kind = rng.choice(kinds)
                reqs.append((kind, rng.choice(["/a", "/b/c", "", "/arr/1"]), rng.choice(["5", "true", '"x"']) if kind == "set" else None))
            seqs = [[("R", p, k, c) for p, c in well_formed_responses(kind, rng)] for k, (kind, _p, _v) in enumerate(reqs)]
            labels = [k for k, s in enumerate(seqs) for _ in s]
            perms = set(itertools.permutations(labels))
            for perm in list(perms)[:60]:
                its = [iter(s) for s in seqs]
                add(variant, reqs, [next(its[k]) for k in perm], "interleave")
        # random: up to 6 concurrent requests, malformed / duplicate / foreign messages mixed in
        for _ in range(n):
            reqs = []
            for _k in range(rng.randrange(1, 7)):
                kind = rng.choice(kinds)
                reqs.append((kind, rng.choice(["/a", "/b/c", "", "/arr/1", "rel"]), rng.choice(["5", "true", '"x"', "[1,2]"]) if kind == "set" else None))
            seqs = [[("R", p, k, c) for p, c in well_formed_responses(kind, rng)] for k, (kind, _p, _v) in enumerate(reqs)]
            msgs = []
            its = [list(s) for s in seqs]
            while any(its):
                k = rng.choice([i for i, s in enumerate(its) if s])
                msgs.append(its[k].pop(0))
                r = rng.random()
                # what a message that belongs to no request carries is arbitrary bytes, not necessarily UTF-8
                zz = rng.choice(["zz", "zz", b"\xff\xfe", b"\xc3", b"ok\x80"])
                if r < 0.1:
                    msgs.append(msgs[-1])                                                  # duplicate
                elif r < 0.2:
                    msgs.append((rng.choice(["other/topic", PFX + "/settings/a", RT + "x"]), zz, k, "Ok"))   # foreign topic
                elif r < 0.3:
                    msgs.append(("R", zz, "deadbeef", "Ok"))                            # unknown correlation data
                elif r < 0.36:
                    msgs.append(("R", zz, None, "Ok"))                                  # no correlation data
                elif r < 0.42:
                    msgs.append(("R", zz, k, None))                                     # no code
                elif r < 0.46:
                    msgs.append(("R", zz, None, None))                                  # no properties at all
                elif r < 0.5:
                    msgs.append(("R", "7", rng.randrange(len(reqs)), rng.choice(["Ok", "Error", "Continue", "ok", "Weird"])))
            add(variant, reqs, msgs, "random", inpub=rng.choice([0, 0, 0, 1, 2]) if msgs else 0)
        # responses overtaking the return of publish(): the last request's own answer (or a part of it) is dispatched
        # while its publish() is still in progress
        for _ in range(max(n // 5, 20)):
            reqs = []
            for _k in range(rng.randrange(1, 4)):
                kind = rng.choice(["get", "set", "list", "clear"])
                reqs.append((kind, rng.choice(["/a", "/b/c", ""]), rng.choice(["5", "true"]) if kind == "set" else None))
            seqs = [[("R", p, k, c) for p, c in well_formed_responses(kind, rng)] for k, (kind, _p, _v) in enumerate(reqs)]
            own = seqs[-1]
            early = rng.randrange(1, len(own) + 1)
            rest = own[early:]
            others = [m for s_ in seqs[:-1] for m in s_]
            rng.shuffle(others)
            # keep each request's own order
            others.sort(key=lambda m: 0)
            msgs = own[:early]
            pool = [list(s_) for s_ in seqs[:-1]] + [rest]
            while any(pool):
                k = rng.choice([i for i, s_ in enumerate(pool) if s_])
                msgs.append(pool[k].pop(0))
            add(variant, reqs, msgs, "race", inpub=early)
    return cases, exp


def norm_cases(rng, tier):
    cases, exp = [], {}
    pool = ["/a/b", "c", "../d", "", "x", "/", "/a", "b/c", "/a/b/", "é", "/x/y/z", "."]
    for i in range(300 if tier == "quick" else 5000):
        paths = [rng.choice(pool) for _ in range(rng.randrange(1, 8))]
        cid = f"n{i}"
        cases.append(f"py {cid} norm " + " ".join(cp(p) for p in paths))
        cur, out = "", []
        for p in paths:
            if p.startswith("/") or p == "":
                cur = p.rsplit("/", 1)[0] if "/" in p else ""
                out.append(p)
            else:
                out.append(cur + "/" + p)
        exp[cid] = (" ".join(cp(x) for x in out), "norm")
        assert all(x == "" or x.startswith("/") for x in out)
    return cases, exp


def cli_cases(rng, tier):
    """command-line argument sequences through the real `_handle_commands` of both clients: `PATH` get, `PATH=VALUE`
    set, `PATH=` clear, `PATH?` list, `PATH!` dump; VALUE is canonical JSON that may itself contain `/`, `=`, `?`, `!`.
    Oracle: each argument's PATH part resolved against the directory of the last absolute PATH."""
    cases, exp = [], {}
    paths = ["/a/b", "c", "d/e", "", "x", "/", "/a", "b/c", "/a/b/", "é", "/x/y/z", "two", "/deep/er/leaf"]
    values = ['1', '"x/y"', '{"k":"1/2"}', '[1,2]', 'true', 'null', '"a=b"', '"/abs/olute"', '"q?"', '"bang!"', '-0.5', '""']
    for i in range(300 if tier == "quick" else 5000):
        args, want, cur = [], [], ""
        for _ in range(rng.randrange(1, 8)):
            p = rng.choice(paths)
            kind = rng.choice("GGSSCLD")
            if p.startswith("/") or p == "":
                cur = p.rsplit("/", 1)[0] if "/" in p else ""
                full = p
            else:
                full = cur + "/" + p
            if kind == "G":
                args.append(p); want.append("G" + cp(full))
            elif kind == "S":
                v = rng.choice(values)
                args.append(p + "=" + v); want.append("S" + cp(full) + "=" + cp(v))
            elif kind == "C":
                args.append(p + "="); want.append("C" + cp(full))
            elif kind == "L":
                args.append(p + "?"); want.append("L" + cp(full))
            else:
                args.append(p + "!"); want.append("D" + cp(full))
        for variant in ("clia", "clis"):
            cid = f"k{len(cases)}"
            cases.append(f"py {cid} {variant} " + " ".join(cp(a) for a in args))
            exp[cid] = (" ".join(want), "cli")
    return cases, exp


def run(rep, rng, tier):
    pl = proof_layer("C17", thorough=(tier == "thorough"))
    for f in pl["failures"]:
        rep.violation("proof", {"theorem_or_translator": f, "property_module": "MiniconfVerif.Props.C17"}, no_input=True)
    cases, exp = gen_cases(rng, tier)
    c2, e2 = norm_cases(rng, tier)
    cases += c2
    exp.update(e2)
    c3, e3 = cli_cases(rng, tier)
    cases += c3
    exp.update(e3)

    def oracle(case, out):
        cid = case.split(" ", 2)[1]
        want, _k = exp[cid]
        if out != want:
            return f"the real client gave {out[:300]!r}; reading each request's own responses gives {want[:300]!r}"
        return None

    def nontrivial(case, out):
        cid = case.split(" ", 2)[1]
        return (exp[cid][1], case.split(" ", 2)[2])
    r = paired_run(rep, cases, oracle, nontrivial, impl_runner=run_pydriver)
    rep.coverage = {
        "obligations": pl["obligations"],
        "discharged": pl["discharged"] if not pl["failures"] else min(pl["discharged"], max(pl["obligations"] - 1, 0)),
        "checker_cmd": "cd lean && lake build MiniconfVerif.Props.C17 && lake env lean MiniconfVerif/Audit/C17.lean",
        "trusted_base": ["Lean 4.33.0 kernel"] + axiom_summary(pl) + [
            "Model/PyClient.lean: hand-written model of _dispatch / _do tail / _Path.normalize, tied to the Python source by "
            "running the REAL miniconf.async_ and miniconf.sync clients (pyharness/pydriver.py) on the same event lists",
            "pyharness/stubs: stub paho / aiomqtt packages (the real ones are not installable offline)"],
        "theorems": pl["theorems"],
        "evaluations": len(cases),
        "distinct_nontrivial": r["distinct"] if r else 0,
        "rule": "both client variants × (all interleavings, capped at 60, of the well-formed response sequences of 1-3 concurrent "
                "get/set/list/clear/dump requests; random interleavings of up to 6 requests mixed with duplicates, foreign "
                "topics, unknown/missing correlation data, missing code, late messages with odd codes) + sequences of "
                "absolute/relative CLI paths; command-line argument sequences (get / set with JSON values containing / = ? ! / "
                "clear / list / dump) through the real _handle_commands of both clients; distinct by exact event list",
        "samples": [cases[0], cases[len(cases) // 2], cases[-1]],
        "traces_validated_against_impl": (r["n"] - r["diffs"]) if r else 0,
        "model_disagreements": r["diffs"] if r else None,
        "oracle_failures": r["oracle_failures"] if r else None,
        "input_distribution": r["hist"] if r else {},
    }
    rep.assumptions = ["dispatcher steps are atomic (paho network thread vs caller thread, asyncio scheduling not modelled)",
                       "a fresh uuid per request (the driver assigns distinct correlation data)",
                       "payloads are canonical JSON / escape-free text; sync timeouts are taken via the same code path by "
                       "setting the request's Event (Event.wait's result is ignored by the client)"]
