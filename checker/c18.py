"""C18 — device responses decode in the Python client to the device's actual state.

End to end, no broker: the real Python client (both variants) publishes its requests into stub
MQTT modules; exactly those publications (topic, payload, response topic, correlation data) are
delivered to the REAL Rust MqttClient + minimq in the in-memory world; the response PUBLISH packets
the Rust client puts on the wire (topic, payload, correlation data, raw user properties) are fed
unchanged into the real Python dispatcher; the caller's result is compared with (a) the Lean model
of the dispatcher on the same messages and (b) what the device holds according to an independent
simulator of the settings type."""
import json
import re

from common import *
from mqcommon import Fam, PREFIX, RESP, cp, uncp, parse_trace, display, model_items, compare_model

SETTLE = ["un8", "adv2500", "un40"]


def jstr(s):
    return json.dumps(s)


def run_py(lines, full):
    env_extra = {"PYDRIVER_PUBS_FULL": "1"} if full else {}
    ENV.update(env_extra)
    try:
        return run_pydriver(lines)
    finally:
        for k in env_extra:
            ENV.pop(k, None)


GOOD = {"bool": ["true", "false"], "u8": ["7", "255", "100", "101", "200"], "u16": ["65535", "12"], "u32": ["4294967295", "5"],
        "i32": ["-5", "2147483647"], "hstr64": ['"abc"', '"' + "x" * 60 + '"', '""']}
BAD = {"bool": ["1", '"x"'], "u8": ["256", "-1", '"s"', "[1]"], "u16": ["65536", "true"], "u32": ["4294967296", "null"],
       "i32": ["2147483648", '"s"'], "hstr64": ['"' + "z" * 65 + '"', "5"]}


def gen_requests(rng, F, mode):
    """[(kind, path, json-or-None)] — every leaf and internal node with every request kind, plus invalid paths"""
    leaves = [p for p, _ in F.leaves]
    internals = sorted(F.internal)
    invalid = ["/nope", leaves[0] + "/x", "/9", "/inner/y", "/arr/3", "/arr/+1", "/arr/01"]
    reqs = []
    for p in leaves:
        ty = F.types[p]
        reqs += [("get", p, None), ("list", p, None), ("clear", p, None), ("set", p, rng.choice(GOOD[ty])),
                 ("set", p, rng.choice(BAD[ty])), ("get", p, None)]
    for p in internals:
        reqs += [("get", p, None), ("list", p, None), ("set", p, "1"), ("clear", p, None)]
    for p in invalid:
        reqs += [("get", p, None), ("list", p, None), ("set", p, "1")]
    if mode == "burst":
        reqs = [r for r in reqs if r[0] != "set"]
    rng.shuffle(reqs)
    reqs.insert(rng.randrange(len(reqs)), ("dump", rng.choice(internals), None))
    return reqs[:rng.choice([12, 25, 60, 200])]


def req_tokens(reqs):
    return [f"set:{cp(p)}:{cp(v)}" if k == "set" else f"{k}:{cp(p)}" for k, p, v in reqs]


def expected_result(F, kind, path, val, mode, xerr=None):
    """what the caller must get, from the settings simulator.  Returns a list of acceptable (prefix, exact?) pairs."""
    err = lambda text, exact=True: ("exc:MiniconfException:Error:" + (jstr(text) if exact else jstr(text)[:-1]), exact)
    if kind == "dump":
        return [("ok:null", True)]
    if kind == "set":
        r = F.set(path, val)
        if r[0] == "ok":
            return [('ok:"OK"', True)]
        # a (de)serializer error carries serde's text: miniconf's own Display of the error the same write gives on a copy of
        # the settings, computed by the harness outside the client (`xerr`), has to arrive whole
        full = (xerr or {}).get((cp(PREFIX + "/settings" + path), cp(val)))
        if r[0] != "err" and full is not None and full.startswith(display(r)):
            return [err(full)]
        return [err(display(r), exact=(r[0] == "err"))]
    c = F.classify(path)
    if c[0] == "err":
        return [err(display(c))]
    if c[0] == "leaf":
        p = c[1]
        if not F.present(p):
            return [err(display(("err", "absent", 1)))]
        v = F.json(p)
        return [("ok:[" + jstr(v) + "]", True)] if kind == "list" else [("ok:" + v, True)]
    # internal node: the device lists the leaf paths below it
    paths = F.leaves_below(c[1])       # the node iterator is type-level: absent Options are listed too
    lst = "[" + ",".join(jstr(p) for p in paths) + "]"
    ok = [("ok:" + lst, True)] if kind == "list" else [("exc:MiniconfException:Not a leaf:" + lst, True)]
    if mode == "burst":
        ok.append(err("Pending multipart response"))
    return ok


def run(rep, rng, tier):
    pl = proof_layer("C18", thorough=(tier == "thorough"))
    for f in pl["failures"]:
        rep.violation("proof", {"theorem_or_translator": f, "property_module": "MiniconfVerif.Props.C18"}, no_input=True)
    n = 24 if tier == "quick" else 400
    plans = []
    for i in range(n):
        fam = [0, 1, 2, 1][i % 4]
        variant = ["async", "sync"][(i // 4) % 2]
        mode = "burst" if rng.random() < 0.3 else "seq"
        F = Fam(fam)
        pre = []
        if fam == 1 and rng.random() < 0.7:
            if rng.random() < 0.7:
                v = rng.randrange(256)
                pre.append(f"optsome{v}")
                F.opt_present, F.val["/opt"] = True, v
            for p, j in (("/arr/1", str(rng.randrange(65536))), ("/inner/name", '"' + "n" * rng.choice([0, 3, 64]) + '"'),
                         ("/a", str(-rng.randrange(2 ** 31)))):
                if rng.random() < 0.6:
                    pre.append(f"set:{cp(p)}:{cp(j)}")
                    assert F.set(p, j) == ("ok",)
        reqs = gen_requests(rng, Fam(fam), mode)
        # burst mode: groups of 1-3 requests reach the device between two update() calls
        ends, k = set(), -1
        while k < len(reqs):
            k += rng.choice([1, 2, 2, 3])
            ends.add(k)
        first = {0} | {e + 1 for e in ends}
        plans.append({"id": f"e{i}", "fam": fam, "variant": variant, "mode": mode, "F": F, "pre": pre, "reqs": reqs,
                      "group_ends": ends, "group_first": first})
    # pass 1: what does the Python client put on the wire for these requests?
    p1 = run_py([f"py {pl_['id']} {pl_['variant']} " + " ".join(req_tokens(pl_["reqs"])) for pl_ in plans], full=True)
    ok, msg = build_harness("dev")
    if not ok:
        rep.violation("proof", {"what": "harness does not build against /repo", "log": msg}, no_input=True)
        return
    mq_lines = []
    for pl_ in plans:
        out = p1.get(pl_["id"], "")
        pubs = out.split(" pubs=", 1)[1].split(",") if " pubs=" in out else []
        if len(pubs) != len(pl_["reqs"]):
            rep.violation("oracle", {"case": pl_["id"], "why": f"the Python client published {len(pubs)} messages for "
                                     f"{len(pl_['reqs'])} requests: {out[:300]}"})
            pl_["skip"] = True
            continue
        ev = list(SETTLE) + pl_["pre"]
        pl_["wire"] = []
        for k, pub in enumerate(pubs):
            topic, payload, _has, rt, cd, retain = pub.split("|")
            payload = "e" if payload == "-" else payload
            pl_["wire"].append((uncp(topic), uncp(payload), None if rt == "-" else uncp(rt), cd))
            ev.append(f"pub:{topic}:{payload}:{rt}:{cd}:0:{retain}")
            kind_k, path_k, _v = pl_["reqs"][k]
            if pl_["mode"] == "seq" and kind_k == "list" and path_k in pl_["F"].internal and rng.random() < 0.5:
                # the application asks for a dump through the API while the list answer is being streamed: refused
                # (busy), the list must still complete
                ev += [f"un{rng.choice([1, 2, 3])}", "dump:-"]
            if pl_["mode"] == "seq" or k in pl_["group_ends"]:
                ev.append("un40")
        ev.append("un40")
        pl_["ev"] = ev
        mq_lines.append(f"mq {pl_['id']} {pl_['fam']} 4096 " + " ".join(ev))
    rc, impl, err = run_lines(harness_bin("dev"), mq_lines)
    # pass 2: the device's response packets, unchanged, into the Python dispatcher
    py_lines, n_resp, mlines = [], 0, []
    for fam in (0, 1, 2):
        mlines.append(f"V vm{fam} 1000 {fam} {Fam(fam).tree_text()}")
    mq_parsed = {}
    hist = {}
    for pl_ in plans:
        if pl_.get("skip"):
            continue
        out = impl.get(pl_["id"])
        if out is None or out.startswith("panic"):
            rep.violation("oracle", {"case": f"mq {pl_['id']} …", "why": "the Rust client panicked or produced no trace", "impl": (out or "")[:200]})
            pl_["skip"] = True
            continue
        recs = parse_trace(out)
        pl_["xerr"] = next((r_.get("xerr", {}) for r_ in recs if r_["k"] == "END"), {})
        # everything the device sent after the initial dump, in wire order
        msgs = []
        seen_req = False
        for r in recs:
            if r["k"] == "ev" and r.get("tok", "").startswith("?"):
                continue
            for p in r["pkts"]:
                if p["t"] != "PUB" or p["d"] != "0":
                    continue
                if p["topic"] == PREFIX + "/alive":
                    continue
                if p["rt"] != "-" or p["cd"] != "-" or p["topic"] == RESP:
                    pass
                if p["payload"] is None:
                    rep.violation("oracle", {"case": pl_["id"], "why": f"non-UTF-8 response payload {p['raw']}"})
                    continue
                msgs.append(p)
        toks = []
        for p in msgs:
            if p["topic"] != RESP:
                continue       # a broker only delivers the subscribed response topic
            up = p.get("up", "-")
            toks.append((p["cd"], f"msg:{cp(p['topic'])}:{cp(p['payload'])}:{p['cd'] if p['cd'] != '-' else '-'}:{'K' + up if up != '-' else '-'}"))
            hist[p["code"]] = hist.get(p["code"], 0) + 1
        n_resp += len(toks)
        rt = req_tokens(pl_["reqs"])
        if pl_["mode"] == "seq":
            # as in sequential use: each request is followed by the device's answer to it; sometimes the
            # answer (or its first part) overtakes the return of publish()
            seq = []
            for k, tok in enumerate(rt):
                own = [t for cd, t in toks if cd == "%02x" % k * 16]
                early = rng.choice([0, 0, 1, len(own)]) if own else 0
                if early:
                    seq.append(f"inpub:{early}")
                    hist["overtaking"] = hist.get("overtaking", 0) + 1
                seq.append(tok)
                seq += own
            seq += [t for cd, t in toks if len(cd) != 32]
            pl_["line"] = f"py {pl_['id']} {pl_['variant']} " + " ".join(seq)
        else:
            pl_["line"] = f"py {pl_['id']} {pl_['variant']} " + " ".join(rt + [t for _cd, t in toks])
        py_lines.append(pl_["line"])
        try:
            items, exp = model_items(pl_["ev"], recs, pl_["fam"])
            mq_parsed[pl_["id"]] = (items, exp)
            mlines.append(f"mqm {pl_['id']} 1000 {pl_['fam']} {cp(PREFIX)} " + " ".join(items))
        except Exception as e:
            rep.violation("proof", {"what": f"trace analysis crashed: {type(e).__name__}: {e}", "case": pl_["id"]}, no_input=True)
    by = {pl_["id"]: pl_ for pl_ in plans}

    def oracle(case, out):
        pl_ = by[case.split(" ", 2)[1]]
        F = pl_["F"]
        parts = re.split(r"(?:^| )(r\d+)=", out.rsplit(" inflight=", 1)[0])
        res = dict(zip(parts[1::2], parts[2::2]))
        # wire-level agreement of what Python sent with what the Rust client understands
        for k, (kind, path, val) in enumerate(pl_["reqs"]):
            topic, payload, rt, cd = pl_["wire"][k]
            if topic != PREFIX + "/settings" + path:
                return f"request {k}: Python published to {topic!r}, the device listens on {PREFIX + '/settings' + path!r}"
            if kind != "dump" and (rt != RESP or len(cd) != 32):
                return f"request {k}: response topic {rt!r} / correlation data {cd!r}"
        for k, (kind, path, val) in enumerate(pl_["reqs"]):
            want = expected_result(F, kind, path, val, pl_["mode"], pl_.get("xerr"))
            got = res.get(f"r{k}")
            if got is None:
                return f"no result for request {k}"
            if pl_["mode"] == "burst" and k not in pl_["group_first"] and kind != "dump" and got in (
                    "pending", "timeout:exc:MiniconfException:Not a leaf:[]", "timeout:exc:AssertionError"):
                continue    # the device discards a request it cannot answer right now (previous response unacknowledged)
            if not any((got == w) if exact else got.startswith(w) for w, exact in want):
                return (f"request {k} ({kind} {path!r} {val!r}): the Python caller got {got[:200]!r}; the device holds "
                        f"{' or '.join(w for w, _ in want)[:300]!r}")
        if pl_["mode"] == "seq" and " inflight=0 " not in out:
            return f"requests left in flight: {out.split(' inflight=')[1][:20]}"
        return None

    def nontrivial(case, out):
        pl_ = by[case.split(" ", 2)[1]]
        return ((pl_["fam"], pl_["variant"], pl_["mode"]), case)
    r = paired_run(rep, py_lines, oracle, nontrivial, impl_runner=lambda ls: run_py(ls, full=False))
    # the Rust side of these very histories against the Mqtt model (same refinement check as C07)
    n_mdiff = 0
    dok, dmsg = build_driver()
    if dok:
        drc, model, derr = run_lines(driver_bin(), mlines)
        for cid, (items, exp) in mq_parsed.items():
            mo = model.get(cid)
            d = compare_model(items, exp, mo) if mo and mo != "bad-op" else f"model gave {mo!r}"
            if d:
                n_mdiff += 1
                if n_mdiff <= 3:
                    rep.violation("model-diff", {"correspondence": "mq/mqm", "case": "mq " + cid + " " + " ".join(by[cid]["ev"]), "what": d},
                                  no_input=True)
    n_req = sum(len(p["reqs"]) for p in plans if not p.get("skip"))
    rep.coverage = {
        "obligations": pl["obligations"],
        "discharged": pl["discharged"] if not pl["failures"] else min(pl["discharged"], max(pl["obligations"] - 1, 0)),
        "checker_cmd": "cd lean && lake build MiniconfVerif.Props.C18 && lake env lean MiniconfVerif/Audit/C18.lean",
        "trusted_base": ["Lean 4.33.0 kernel"] + axiom_summary(pl) + [
            "extract/gen_consts.py: literals of lib.rs / async_.py / sync.py regenerated into Gen/Consts.lean on every run",
            "Model/Mqtt.lean and Model/PyClient.lean (hand-written), each tied to its implementation by the correspondence runs "
            "of this check (py stream against both Python clients, mq/mqm against the real Rust client on the same histories)",
            "harness/src/mq.rs broker stub (packet decoder: topic, payload, correlation data, raw user properties), "
            "pyharness stubs for paho / aiomqtt, checker/mqcommon.py settings simulator"],
        "theorems": pl["theorems"],
        "evaluations": n_req,
        "distinct_nontrivial": r["distinct"] if r else 0,
        "rule": "three settings types × {async, sync} × {sequential, burst}: every leaf and internal node with get/list/set(good)/"
                "set(bad)/clear, invalid paths, one dump, after random prior state changes; one evaluation = one request carried "
                "Python → Rust → Python; distinct by (family, variant, mode, full message list)",
        "samples": [py_lines[0][:400]] if py_lines else [],
        "traces_validated_against_impl": (r["n"] - r["diffs"]) if r else 0,
        "model_disagreements": (r["diffs"] if r else 0) + n_mdiff,
        "oracle_failures": r["oracle_failures"] if r else None,
        "input_distribution": {"histories": len(py_lines), "requests": n_req, "response_packets": n_resp, "codes": hist},
    }
    rep.assumptions = ["a broker that delivers to the Python client exactly the PUBLISH packets on its response topic, in order "
                       "(QoS/DUP retransmissions excluded)", "uuid1 replaced by distinct 16-byte values (the length the source uses)",
                       "payloads are UTF-8 (a non-UTF-8 response would be reported)"]
