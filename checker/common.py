"""Shared machinery of ./check: regenerate Gen/, proof layer (lake build + axiom audit),
harness build, paired execution (implementation vs Lean driver), evidence, replays,
known findings."""
import hashlib
import json
import os
import re
import subprocess
import sys
import time

VERIF = os.path.dirname(os.path.dirname(os.path.abspath(__file__)))
REPO = os.environ.get("VERIF_REPO", "/repo")
LEAN = os.path.join(VERIF, "lean")
HARNESS = os.path.join(VERIF, "harness")
WORK = os.path.join(VERIF, "work")
# VERIF_EVIDENCE_DIR: only for experiments on a deliberately changed tree (tools/try_mutation.sh), so that the
# committed evidence always describes the unchanged tree
EVIDENCE = os.environ.get("VERIF_EVIDENCE_DIR") or os.path.join(VERIF, "evidence")
REPLAYS = os.path.join(VERIF, "replays")

ALLOWED_AXIOMS = {"propext", "Classical.choice", "Quot.sound"}
BV_AXIOM = re.compile(r"\._native\.bv_decide\.ax_\d+(_\d+)?$")
FORBIDDEN = re.compile(r"\bsorry\b|\badmit\b|^\s*axiom\s|native_decide|implemented_by|\bunsafe\s|maxHeartbeats\s+0")

ENV = dict(os.environ)
ENV["CARGO_NET_OFFLINE"] = "true"


def sh(cmd, cwd=None, timeout=3600, env=None, input_bytes=None):
    t0 = time.time()
    p = subprocess.run(cmd, cwd=cwd, stdout=subprocess.PIPE, stderr=subprocess.PIPE, timeout=timeout,
                       env=env or ENV, input=input_bytes)
    return p.returncode, p.stdout.decode("utf-8", "replace"), p.stderr.decode("utf-8", "replace"), time.time() - t0


def write_if_changed(path, text):
    try:
        if open(path).read() == text:
            return False
    except FileNotFoundError:
        pass
    os.makedirs(os.path.dirname(path), exist_ok=True)
    open(path, "w").write(text)
    return True


# ---------------------------------------------------------------- Gen (translator)

def regen():
    """Run every translator; returns list of (generator, error) for failures."""
    sys.path.insert(0, os.path.join(VERIF, "extract"))
    import importlib
    failures = []
    for mod, src, out in GENERATORS:
        try:
            m = importlib.import_module(mod)
            text = m.generate(os.path.join(REPO, src)) if isinstance(src, str) else m.generate(
                *[os.path.join(REPO, s) for s in src])
            write_if_changed(os.path.join(LEAN, "MiniconfVerif", "Gen", out), text)
        except Exception as e:  # Unsupported or anything else: the translator is part of the proof layer
            failures.append((mod, f"{type(e).__name__}: {e}"))
    return failures


GENERATORS = [
    ("gen_packed", "miniconf/src/packed.rs", "Packed.lean"),
    ("gen_consts", ("miniconf_mqtt/src/lib.rs", "py/miniconf-mqtt/miniconf/async_.py", "py/miniconf-mqtt/miniconf/sync.py",
                    "py/miniconf-mqtt/miniconf/common.py"), "Consts.lean"),
    ("gen_core", ("miniconf/src/error.rs", "miniconf/src/key.rs", "miniconf/src/node.rs", "miniconf/src/walk.rs",
                  "miniconf/src/iter.rs"), "Core.lean"),
    ("gen_text", ("miniconf/src/node.rs", "miniconf/src/jsonpath.rs", "miniconf/src/key.rs"), "Text.lean"),
    ("gen_impls", ("miniconf/src/impls.rs", "miniconf/src/key.rs", "miniconf/src/tree.rs"), "Impls.lean"),
    ("gen_leaf", "miniconf/src/leaf.rs", "Leaf.lean"),
    ("gen_py", ("py/miniconf-mqtt/miniconf/async_.py", "py/miniconf-mqtt/miniconf/sync.py",
                "py/miniconf-mqtt/miniconf/common.py"), "Py.lean"),
    ("gen_transcode", ("miniconf/src/node.rs", "miniconf/src/jsonpath.rs", "miniconf/src/tree.rs"), "Transcode.lean"),
    ("gen_mqtt", "miniconf_mqtt/src/lib.rs", "Mqtt.lean"),
    ("gen_helpers", ("miniconf/src/json.rs", "miniconf/src/postcard.rs"), "Helpers.lean"),
    ("gen_keys", ("miniconf/src/key.rs", "miniconf/src/iter.rs", "miniconf/src/packed.rs"), "Keys.lean"),
    ("gen_wrappers", "miniconf/src/impls.rs", "Wrappers.lean"),
    # the OUTPUT of the derive macro (its own source, run by /verif/expander) on every type of the generated corpus
    ("gen_derive", ("miniconf_derive/src/tree.rs", "miniconf_derive/src/field.rs", os.path.join(HARNESS, "src", "gen_types.rs")),
     "Derive.lean"),
    ("gen_derive_ties", ("miniconf_derive/src/tree.rs", "miniconf_derive/src/field.rs", os.path.join(HARNESS, "src", "gen_types.rs")),
     os.path.join("..", "Lemmas", "GenTieDerive.lean")),
    ("gen_derive_vties", ("miniconf_derive/src/tree.rs", "miniconf_derive/src/field.rs", os.path.join(HARNESS, "src", "gen_types.rs")),
     os.path.join("..", "Lemmas", "GenTieDeriveValue.lean")),
    # the arms of the generated `match index { … }` of all four by-key functions (deny / accessor / validator chains), and
    # their comparison with the declared attributes (`Arm.shapeOf`), kernel-checked
    ("gen_derive_arms", ("miniconf_derive/src/tree.rs", "miniconf_derive/src/field.rs", os.path.join(HARNESS, "src", "gen_types.rs")),
     "DeriveArms.lean"),
    ("gen_derive_arm_ties", ("miniconf_derive/src/tree.rs", "miniconf_derive/src/field.rs", os.path.join(HARNESS, "src", "gen_types.rs")),
     os.path.join("..", "Lemmas", "GenTieDeriveArms.lean")),
]


# ---------------------------------------------------------------- proof layer

def generator_modules(gen):
    """Lean modules written by translator `gen`."""
    out = set()
    for g, _src, rel in GENERATORS:
        if g == gen:
            path = os.path.normpath(os.path.join("MiniconfVerif", "Gen", rel))
            out.add(path[:-len(".lean")].replace(os.sep, "."))
    return out


def import_closure(mod):
    """Modules of this project that `mod` imports, transitively (read from the `import` lines)."""
    seen, todo = set(), [mod]
    while todo:
        m = todo.pop()
        if m in seen:
            continue
        seen.add(m)
        path = os.path.join(LEAN, *m.split(".")) + ".lean"
        try:
            src = strip_lean_comments(open(path).read())
        except FileNotFoundError:
            continue
        todo += [i for i in re.findall(r"^import\s+(\S+)", src, flags=re.M) if i.startswith("MiniconfVerif")]
    return seen


def strip_lean_comments(src):
    out, i, depth = [], 0, 0
    while i < len(src):
        if src.startswith("/-", i):
            depth += 1
            i += 2
        elif depth and src.startswith("-/", i):
            depth -= 1
            i += 2
        elif depth:
            i += 1
        elif src.startswith("--", i):
            j = src.find("\n", i)
            i = len(src) if j < 0 else j
        else:
            out.append(src[i])
            i += 1
    return "".join(out)


def theorems_of(prop_file):
    src = strip_lean_comments(open(prop_file).read())
    ns = re.search(r"^namespace\s+(\S+)", src, flags=re.M).group(1)
    names = re.findall(r"^theorem\s+(\S+)", src, flags=re.M)
    return ns, names


def forbidden_scan():
    hits = []
    for root, _d, files in os.walk(os.path.join(LEAN, "MiniconfVerif")):
        for f in files:
            if f.endswith(".lean"):
                p = os.path.join(root, f)
                for n, line in enumerate(strip_lean_comments(open(p).read()).split("\n"), 1):
                    if FORBIDDEN.search(line):
                        hits.append(f"{os.path.relpath(p, LEAN)}:{n}: {line.strip()}")
    p = os.path.join(LEAN, "Main.lean")
    for n, line in enumerate(strip_lean_comments(open(p).read()).split("\n"), 1):
        if FORBIDDEN.search(line):
            hits.append(f"Main.lean:{n}: {line.strip()}")
    return hits


def proof_layer(prop_id, allow_bv=False, thorough=False):
    """Build Props/<id> and audit axioms.  Returns dict with obligations, discharged,
    failures (list of str), axioms (per theorem)."""
    res = {"obligations": 0, "discharged": 0, "failures": [], "axioms": {}, "theorems": [], "translators_elsewhere": []}
    gen_fail = regen()
    mod = f"MiniconfVerif.Props.{prop_id}"
    # A translator that cannot read the source leaves its output module stale: every theorem that depends on that
    # module is then no longer about the current code, so the failure is charged to exactly the properties whose
    # theorem module imports the output (transitively).  A property that never looks at that part of the source
    # keeps its proof: nothing it rests on is stale.
    deps = import_closure(mod) if gen_fail else set()
    for g, e in gen_fail:
        outs = generator_modules(g)
        if deps & outs:
            res["failures"].append(f"translator {g}: {e}")
        else:
            res["translators_elsewhere"].append(f"{g} -> {sorted(outs)}: {e}")
            print(f"note: translator {g} failed ({e}); {mod} does not import {sorted(outs)}", file=sys.stderr)
    prop_file = os.path.join(LEAN, "MiniconfVerif", "Props", f"{prop_id}.lean")
    ns, names = theorems_of(prop_file)
    res["obligations"] = len(names)
    res["theorems"] = [f"{ns}.{n}" for n in names]
    rc, out, err, dt = sh(["lake", "build", mod], cwd=LEAN)
    res["build_s"] = round(dt, 1)
    if rc != 0:
        errs = [l for l in (out + err).split("\n") if "error" in l.lower()][:8]
        res["failures"].append(f"lake build {mod} failed: " + " / ".join(errs))
        return res
    for h in forbidden_scan():
        res["failures"].append("forbidden token: " + h)
    audit = os.path.join(LEAN, "MiniconfVerif", "Audit", f"{prop_id}.lean")
    text = f"import {mod}\n" + "".join(f"#print axioms {ns}.{n}\n" for n in names)
    write_if_changed(audit, text)
    rc, out, err, dt = sh(["lake", "env", "lean", audit], cwd=LEAN)
    if rc != 0:
        res["failures"].append("axiom audit failed: " + (out + err)[:400])
        return res
    # parse "'X' depends on axioms: [a, b]" / "'X' does not depend on any axioms"
    flat = re.sub(r"\s+", " ", out)
    for m in re.finditer(r"'([^']+)' (does not depend on any axioms|depends on axioms: \[([^\]]*)\])", flat):
        name = m.group(1)
        axs = [a.strip() for a in (m.group(3) or "").split(",") if a.strip()]
        res["axioms"][name] = axs
        bad = [a for a in axs if a not in ALLOWED_AXIOMS and not (allow_bv and BV_AXIOM.search(a))]
        if bad:
            res["failures"].append(f"{name}: axioms outside the allow-list: {bad}")
        else:
            res["discharged"] += 1
    missing = [t for t in res["theorems"] if t not in res["axioms"]]
    for t in missing:
        res["failures"].append(f"{t}: no axiom report")
    if thorough:
        rc, out, err, dt = sh(["lake", "env", "leanchecker", mod], cwd=LEAN)
        res["leanchecker_rc"] = rc
        if rc != 0:
            res["failures"].append("leanchecker: " + (out + err)[:300])
    return res


def axiom_summary(pl):
    s = set()
    for axs in pl["axioms"].values():
        for a in axs:
            s.add("bv_decide (Lean compiler + CaDiCaL/LRAT, ofReduceBool)" if BV_AXIOM.search(a) else a)
    return sorted(s)


# ---------------------------------------------------------------- harness + driver

_built = {}


def build_driver():
    if "driver" in _built:
        return _built["driver"]
    rc, out, err, dt = sh(["lake", "build", "driver"], cwd=LEAN)
    _built["driver"] = (rc == 0, (out + err)[-600:])
    return _built["driver"]


def build_harness(profile="dev"):
    key = "harness-" + profile
    if key in _built:
        return _built[key]
    lock = os.path.join(HARNESS, "Cargo.lock")
    if not os.path.exists(lock):
        import shutil
        shutil.copy(os.path.join(REPO, "Cargo.lock"), lock)
    cmd = ["cargo", "build", "--offline", "--quiet"] + (["--release"] if profile == "release" else [])
    rc, out, err, dt = sh(cmd, cwd=HARNESS)
    _built[key] = (rc == 0, (out + err)[-1500:])
    return _built[key]


def harness_bin(profile="dev"):
    return os.path.join(HARNESS, "target", "release" if profile == "release" else "debug", "harness")


def driver_bin():
    return os.path.join(LEAN, ".lake", "build", "bin", "driver")


def run_lines(binary, lines, timeout=1800):
    data = ("\n".join(lines) + "\n").encode()
    rc, out, err, dt = sh([binary], input_bytes=data, timeout=timeout)
    res = {}
    for l in out.split("\n"):
        if not l:
            continue
        cid, _, rest = l.partition(" ")
        res[cid] = rest
    return rc, res, err


# ---------------------------------------------------------------- reporting

def load_known():
    p = os.path.join(VERIF, "known_findings.json")
    if not os.path.exists(p):
        return []
    return json.load(open(p))


def known_open(prop_id, case_line, outcome, why=""):
    for k in load_known():
        if k.get("property") != prop_id or k.get("status") != "open":
            continue
        sig = k.get("signature", {})
        if (re.search(sig.get("case_regex", "$^"), case_line) and re.search(sig.get("outcome_regex", ""), outcome or "")
                and re.search(sig.get("why_regex", ""), why or "")):
            return k
    return None


class Report:
    def __init__(self, prop_id, tier, seed):
        self.prop = prop_id
        self.tier = tier
        self.seed = seed
        self.t0 = time.time()
        self.violations = []  # (kind, detail dict)
        self.known = []
        self.coverage = {}
        self.assumptions = []

    def violation(self, kind, detail, no_input=False):
        """kind: 'oracle' (impl breaks the property on a concrete input), 'model-diff'
        (model and impl disagree), 'proof' (proof layer broken)."""
        self.violations.append({"kind": kind, "detail": detail, "no_failing_input": no_input})

    def finish(self, level="proof"):
        os.makedirs(EVIDENCE, exist_ok=True)
        os.makedirs(REPLAYS, exist_ok=True)
        wall = round(time.time() - self.t0, 1)
        rc = 0
        # a concrete failing input beats a no-input report
        concrete = [v for v in self.violations if not v["no_failing_input"]]
        report = concrete if concrete else self.violations
        lines = []
        if report:
            rc = 1
            blob = json.dumps(report, sort_keys=True).encode()
            h = hashlib.sha1(blob).hexdigest()[:10]
            path = os.path.join(REPLAYS, f"{self.prop}-{h}.json")
            json.dump({"property": self.prop, "seed": self.seed, "tier": self.tier, "violations": report,
                       "all": self.violations}, open(path, "w"), indent=1)
            suffix = "" if concrete else " no-failing-input-found"
            lines.append(f"VIOLATION property={self.prop} replay={path}{suffix}")
        for k in self.known:
            print(f"KNOWN-FINDING: property={self.prop} {k}")
        ev = {
            "property_id": self.prop,
            "tier": self.tier,
            "seed": self.seed,
            "level": level,
            "coverage": self.coverage,
            "assumptions": self.assumptions,
            "wall_s": wall,
            "violations": len(report),
        }
        json.dump(ev, open(os.path.join(EVIDENCE, f"{self.prop}.json"), "w"), indent=1)
        for l in lines:
            print(l)
        if rc == 0:
            print(f"OK property={self.prop} tier={self.tier} seed={self.seed} wall_s={wall} "
                  f"obligations={self.coverage.get('discharged')}/{self.coverage.get('obligations')} "
                  f"evaluations={self.coverage.get('evaluations')}")
        return rc


def paired_run(rep, cases, oracle, nontrivial, profile="dev", need_driver=True, max_report=5, canon_pair=None,
               impl_runner=None):
    """cases: list of case lines `<stream> <id> …`.  Runs impl and model, diffs, applies the
    oracle (impl only).  `oracle(case_line, impl_outcome) -> None | str(failure)`.
    `nontrivial(case_line, impl_outcome) -> hashable key | None`."""
    if impl_runner is not None:
        impl = impl_runner(cases)
    else:
        ok, msg = build_harness(profile)
        if not ok:
            rep.violation("proof", {"what": "harness does not build against /repo", "log": msg}, no_input=True)
            return None
        rc, impl, err = run_lines(harness_bin(profile), cases)
    ids = [c.split(" ", 2)[1] for c in cases]
    by_id = dict(zip(ids, cases))
    model = {}
    model_ok = False
    if need_driver:
        dok, dmsg = build_driver()
        if dok:
            drc, model, derr = run_lines(driver_bin(), cases)
            model_ok = drc == 0
        if not model_ok:
            rep.violation("proof", {"what": "Lean driver unavailable", "log": dmsg if not dok else derr[-400:]}, no_input=True)
    diffs, fails, keys = [], [], set()
    hist = {}
    for cid in ids:
        io = impl.get(cid)
        if io is None:
            fails.append((by_id[cid], "<no output: harness crashed or hung>", "implementation produced no outcome"))
            continue
        f = oracle(by_id[cid], io)
        if f:
            fails.append((by_id[cid], io, f))
        if model_ok:
            mo = model.get(cid)
            same = canon_pair(by_id[cid], io, mo) if canon_pair else (mo == io)
            if not same:
                diffs.append((by_id[cid], io, mo))
        k = nontrivial(by_id[cid], io)
        if k is not None:
            keys.add(k)
            hist[str(k[0])] = hist.get(str(k[0]), 0) + 1
    for case, io, why in fails:
        k = known_open(rep.prop, case, io, why)
        if k:
            msg = k["what"]
            if msg not in rep.known:
                rep.known.append(msg)
        else:
            if sum(1 for v in rep.violations if v["kind"] == "oracle") < max_report:
                rep.violation("oracle", {"case": case, "impl": io, "why": why})
    # model disagreements: a concrete failing input only if the oracle also fails on it
    failing_cases = {c for c, _i, _w in fails}
    for case, io, mo in diffs:
        if case in failing_cases:
            continue
        if sum(1 for v in rep.violations if v["kind"] == "model-diff") < max_report:
            rep.violation("model-diff", {"correspondence": case.split(" ", 1)[0], "case": case, "impl": io, "model": mo,
                                         "what": "implementation and Lean model disagree; oracle found no property failure on this input"},
                          no_input=True)
    return {"impl": impl, "model": model, "diffs": len(diffs), "oracle_failures": len(fails),
            "distinct": len(keys), "hist": hist, "n": len(cases)}


def hypothesis_check(rep, decl_lines, expect_unfit=()):
    """Evaluate the decidable versions of the theorems' hypotheses (Model/Hyp.lean; soundness in Lemmas/Hyp.lean) on
    every declared corpus type (`T` lines) / instance (`V` lines) with the Lean driver.  A corpus object outside the
    hypotheses would make the theorems say nothing about it: reported (the proof layer then does not cover what is
    run).  `fits` may fail only for the labels in `expect_unfit` (nodes with more than 2^63 children: finding F5)."""
    dok, dmsg = build_driver()
    if not dok:
        return {}
    q, meta = [], {}
    for l in decl_lines:
        f = l.split(" ")
        if f[0] == "T":
            q.append(f"Tw w{len(q)} {f[2]}")
        elif f[0] == "V":
            q.append(f"Vw w{len(q)} {f[2]} {f[3]}")
        else:
            continue
        meta[f"w{len(q) - 1}"] = l[:120]
    drc, out, derr = run_lines(driver_bin(), list(decl_lines) + q)
    stats = {"objects": len(q), "wf": 0, "small": 0, "fits": 0, "outside": []}
    for cid, decl in meta.items():
        o = out.get(cid, "")
        flags = dict(x.split("=") for x in o.split(" ") if "=" in x)
        bad = [k for k, v in flags.items() if v != "1" and not (k == "fits" and any(e in decl for e in expect_unfit))]
        for k, v in flags.items():
            if v == "1":
                stats[k] = stats.get(k, 0) + 1
        if not flags or bad:
            stats["outside"].append({"decl": decl, "flags": o})
    if stats["outside"]:
        rep.violation("proof", {"what": "corpus objects outside the hypotheses of the theorems (WF / Small / Fits): the "
                                        "theorems do not speak about them", "objects": stats["outside"][:5]}, no_input=True)
    return stats


def run_pydriver(lines):
    """the real Python client (py/miniconf-mqtt in /repo) driven through stub paho/aiomqtt packages"""
    env = dict(ENV)
    env["MINICONF_PY"] = os.path.join(REPO, "py", "miniconf-mqtt")
    env["PYDRIVER_SYNC_FAST"] = "1"
    # with SYNC_FAST the driver wakes the requests that are still blocked at the end of a case itself; the client's own
    # timeout must then never fire on its own (0.2 s did, twice in 14 000 cases of a thorough run on a loaded machine,
    # and the late response was then appended to an already abandoned request)
    env.setdefault("PYDRIVER_SYNC_TIMEOUT", "30")
    # always compile the client from the current source: never read or write byte-code caches in /repo
    env["PYTHONDONTWRITEBYTECODE"] = "1"
    env["PYTHONPYCACHEPREFIX"] = os.path.join(WORK, "no-pycache")
    data = ("\n".join(lines) + "\n").encode()
    rc, out, err, dt = sh([sys.executable, os.path.join(VERIF, "pyharness", "pydriver.py")], input_bytes=data, env=env,
                          timeout=3600)
    res = {}
    for l in out.split("\n"):
        if l:
            cid, _, rest = l.partition(" ")
            res[cid] = rest
    return res
