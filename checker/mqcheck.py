"""History generation, execution and packet-level oracles for the MQTT properties."""
import re

from mqcommon import *


# ------------------------------------------------------------------------------- history generation

def gen_request(rng, F, flavor):
    """one `pub:` event (a request PUBLISH from the broker to the client)"""
    leaves = [p for p, _ in F.leaves]
    internals = sorted(F.internal)
    r = rng.random()
    if r < 0.45:
        path = rng.choice(leaves)
    elif r < 0.65:
        path = rng.choice(internals)
    elif r < 0.75:
        path = rng.choice(leaves) + "/x"
    elif r < 0.82:
        path = "/" + rng.choice(["nope", "", "0", "arr/9", "l9", "inner/y", "lutab/12", "lutab/01", "lutab/21", "trip/0"])
    elif r < 0.85:
        # below a node that may be absent at run time (Option / other enum variant): a valid or an invalid remainder, and a
        # decimal numeral beyond usize at an array level (a key is any string: it has to be refused, not to overflow)
        path = rng.choice(["/o/nope", "/o/p/deeper", "/o/", "/opt/x", "/opt/", "/mode/A/x", "/mode/C",
                           "/lutab/18446744073709551616", "/lutab/18446744073709551617", "/arr/36893488147419103233",
                           "/lutab/340282366920938463463374607431768211457", "/arr/00000000000000000000001", "/18446744073709551616"])
    elif r < 0.9:
        path = rng.choice(["foo", "x/y", "bar"])           # no leading slash: everything before the first '/' is ignored
    else:
        path = None                                           # foreign topic
    # foreign topics, among them one whose head has exactly the length of the client's own prefix and that continues
    # with "/settings<valid leaf path>" (a sibling device id)
    sibling = PREFIX[:-1] + ("w" if PREFIX[-1] != "w" else "x") + "/settings" + rng.choice(leaves)
    topic = (PREFIX + "/settings" + path) if path is not None else rng.choice(
        [PREFIX + "/other/x", "zz/settings/foo", PREFIX + "/alive", PREFIX + "/setting", sibling, sibling,
         # under the client's own prefix, not under "/settings", but with a level at least as long as "/settings" followed
         # by a valid path (a check of the level's LENGTH instead of its text would take these for requests)
         PREFIX + "/telemetry" + rng.choice(leaves), PREFIX + "/telemetry" + rng.choice(internals or leaves),
         PREFIX + "/settingsX" + rng.choice(leaves), PREFIX + "/response" + rng.choice(leaves),
         PREFIX + "/SETTINGS" + rng.choice(leaves), PREFIX + "/settings" + "/settings" + rng.choice(leaves)])
    kind = rng.random()
    if kind < 0.45:
        payload = ""
    else:
        ty = F.types.get(path if path is not None else topic[len(PREFIX + "/settings"):])
        good = {"bool": ["true", "false"], "u8": ["7", "255", "0", "100", "101", "200"], "u16": ["65535", "12"],
                "u32": ["4294967295", "5"], "i32": ["-5", "2147483647"],
                "hstr64": ['"abc"', '"' + "x" * 60 + '"', '"' + "y" * 64 + '"'],
                "hstr256": ['"abc"', '"' + "x" * 150 + '"', '"' + "y" * 256 + '"', '"' + "w" * 129 + '"'],
                "arr3i16": ["[1,2,3]", "[-5,0,32767]", " [ 7 , 8 , 9 ] ", "[-32768,1,1]"]}.get(ty, ["1"])
        bad = ['"str"', "-1", "256", "nul", "{", "1 x", "", "[1]", "99999999999", '"' + "z" * 65 + '"', " 7 ", "1e9",
               # payloads whose first part parses and which fail later (a non-atomic write would leave a compound leaf half-updated)
               '[10,20,"x"]', "[10,20]", "[10,20,30", "[10,20,99999]", "[10,20,30,40]", '"' + "z" * 257 + '"']
        late = {"arr3i16": ['[10,20,"x"]', "[10,20]", "[10,20,30", "[10,20,99999]", "[10,20,30,40]"],
                "hstr256": ['"' + "z" * 257 + '"', '"abc'], "hstr64": ['"' + "z" * 65 + '"', '"abc']}.get(ty)
        if late and rng.random() < 0.5:
            bad = late
        payload = rng.choice(good) if rng.random() < 0.7 else rng.choice(bad)
        if payload == "":
            payload = "0"
    rr = rng.random()
    if flavor == "limits" and rr < 0.3:
        rt = "r" * rng.choice([127, 128, 129, 160])
    elif rr < 0.8:
        rt = RESP
    else:
        rt = None
    cr = rng.random()
    if flavor == "limits" and cr < 0.4:
        cd = "ab" * rng.choice([31, 32, 33, 40])
    elif cr < 0.8:
        cd = "".join(f"{rng.randrange(256):02x}" for _ in range(rng.choice([1, 2, 16])))
    else:
        cd = None
    return f"pub:{cp(topic)}:{cp(payload)}:{cp(rt) if rt is not None else '-'}:{cd if cd is not None else '-'}:{rng.choice([0, 0, 1])}:0"


LATE_TRIP = ['[10,20,"x"]', "[10,20]", "[10,20,30", "[10,20,99999]", "[10,20,30,40]"]


def gen_history(rng, fam, flavor, length):
    """flavor: 'requests' | 'dump' | 'faults' | 'limits'"""
    F = Fam(fam)
    ev = []
    # buffers large enough for one maximal response unless the history has no MQTT requests
    small = flavor == "dump" and rng.random() < 0.5
    bufsize = rng.choice([300, 400]) if small else rng.choice([2048, 3000, 4096])
    # the device clock is a 32-bit millisecond counter: some histories begin shortly before it wraps, so that the
    # wrap falls into the start-up sequence (dump time-out) or into the later traffic
    if rng.random() < 0.3:
        ev += [f"clk{2 ** 32 - rng.choice([50, 500, 1500, 1990, 2500, 7000])}"]
    if not small and rng.random() < 0.4:
        # (2048 bytes with a 512-byte transmit buffer leave the session state room for well under ten small publications:
        # beyond ten minimq 0.10 refuses the publication although can_publish() said yes — known finding F7, exercised by a
        # dedicated history of the C14 check, not by the random ones)
        bufsize = 2048
        # a small transmit buffer next to a large session state: several unacknowledged publications fit, so one update()
        # runs several passes of the list / dump loop (with minimq's default even split it is exactly one)
        ev += ["txmax512"]
    if flavor == "faults" and rng.random() < 0.3:
        # a slow link: `send()` takes a few bytes per call, so CONNECT / alive / SUBSCRIBE drain over many update() calls and
        # minimq reports NotReady in between (no clock advance meanwhile; such histories are judged by the packet-level
        # oracle only, the per-update model comparison assumes whole-packet writes)
        # (the slow phase ends before any inbound request: minimq 0.10 itself asserts `pending_write.is_none()` when it has to
        # answer an inbound packet while a partial write is pending — third-party, part of the environment)
        ev += [f"txchunk{rng.choice([7, 9, 13])}", f"un{rng.choice([40, 60])}", "txchunkoff"]
    if flavor == "faults" and rng.random() < 0.25:
        # the SUBACK of the first connection is withheld, then the link is lost and the session is kept
        ev += ["suback0", f"un{rng.choice([6, 7, 9])}", rng.choice(["sess1", "sess1", "sess0"]), "drop", "suback1"]
    # connect and (usually) let the initial dump finish
    ev += [f"un{rng.choice([6, 7, 8, 10])}"]
    if flavor == "faults" and rng.random() < 0.3:
        ev += [f"adv{rng.choice([500, 1999])}", f"un{rng.randrange(1, 5)}"]
    if rng.random() < 0.25:
        ev += ["prop1"]     # requests carry their properties in the other order (correlation data before response topic)
    if flavor == "dump" and fam == 3 and rng.random() < 0.7:
        ev += [f"set:{cp('/text')}:{cp(chr(34) + 'n' * rng.choice([10, 130, 200, 256]) + chr(34))}"]
    if fam == 3 and rng.random() < 0.7:
        ev += [f"optsome{rng.randrange(1, 256)}", f"mode{rng.choice('abb')}{rng.randrange(256)}"]
        if rng.random() < 0.5:
            ev += ["vlock1"]    # the validator on the payload of `mode/B` rejects from now on
    if flavor == "dump" and fam == 1 and rng.random() < 0.6:
        ev += [f"set:{cp('/inner/name')}:{cp(chr(34) + 'n' * rng.choice([10, 40, 60, 64]) + chr(34))}"]
        if rng.random() < 0.5:
            ev += [f"optsome{rng.randrange(256)}"]
    ev += [f"adv{rng.choice([2000, 2500, 1999, 3000])}"]
    if not small and rng.random() < 0.3:
        # a request racing with the expiry of the dump timeout (handled in state Wait / Init)
        for _ in range(rng.choice([1, 1, 2])):
            root = rng.choice(sorted(F.internal) + [p for p, _ in F.leaves])
            rt = rng.choice([cp(RESP), cp(RESP), "-"])
            ev.append(f"pub:{cp(PREFIX + '/settings' + root)}:e:{rt}:{rng.randrange(256):02x}:0:0")
            ev.append(f"un{rng.choice([1, 1, 2])}")
    if flavor == "faults" and rng.random() < 0.35:
        # the link is lost while the initial dump is stalled half-way (acknowledgements withheld)
        ev += [f"un{rng.choice([2, 3, 4])}", "auto0", f"un{rng.choice([2, 3, 5])}", rng.choice(["sess0", "sess1"]), "drop", "auto1",
               f"un{rng.choice([6, 7, 9])}", f"adv{rng.choice([2000, 2600])}"]
    ev += [f"un{rng.choice([3, 12, 25, 40])}"]
    if fam == 3 and rng.random() < 0.45:
        # writes to the payload of the present enum variant `mode/B` while its validator rejects, then while it accepts:
        # the first is answered Error ("Invalid value (depth: 2)"), update() returns false, the leaf holds the new value
        topic = cp(PREFIX + "/settings/mode/B")
        ev += [f"modeb{rng.randrange(256)}", "vlock1",
               f"pub:{topic}:{cp(str(rng.randrange(256)))}:{rng.choice([cp(RESP), '-'])}:{rng.randrange(256):02x}:0:0",
               f"un{rng.choice([1, 2, 3])}", rng.choice(["vlock0", "vlock0", "modea7"]),
               f"pub:{topic}:{cp(str(rng.randrange(256)))}:{cp(RESP)}:{rng.randrange(256):02x}:0:0", f"un{rng.choice([2, 4])}"]
    if fam == 3 and not small and rng.random() < 0.4:
        # a refused write to the compound leaf `/trip` ([i16; 3]) whose payload fails only after its first elements have parsed,
        # then a Get of it: the settings are unchanged, not half-written
        trip = cp(PREFIX + "/settings/trip")
        ev += [f"set:{cp('/trip')}:{cp('[1,2,3]')}",
               f"pub:{trip}:{cp(rng.choice(LATE_TRIP))}:{cp(RESP)}:"
               f"{rng.randrange(256):02x}:0:0", f"un{rng.choice([2, 3])}",
               f"pub:{trip}:e:{cp(RESP)}:{rng.randrange(256):02x}:0:0", f"un{rng.choice([2, 3])}"]
    for _ in range(length):
        r = rng.random()
        if r < 0.4 and small:
            ev.append(f"un{rng.choice([1, 3])}")
        elif r < 0.4:
            ev.append(gen_request(rng, F, flavor))
            if rng.random() < 0.25:
                # a burst: several requests queued between two update() calls (one is handled per call)
                for _ in range(rng.choice([1, 1, 2])):
                    ev.append(gen_request(rng, F, flavor))
            ev.append(f"un{rng.choice([1, 2, 3, 5, 12])}")
            if rng.random() < 0.35:
                # a burst of list / dump requests on internal nodes while a multipart answer may be pending
                root = rng.choice(sorted(F.internal))
                ev.append(f"pub:{cp(PREFIX + '/settings' + root)}:e:{cp(RESP)}:{rng.randrange(256):02x}:0:0")
                for _ in range(rng.randrange(1, 5)):
                    ev.append(f"un{rng.choice([1, 1, 2])}")
                    rt = rng.choice([cp(RESP), cp(RESP), "-"])
                    ev.append(f"pub:{cp(PREFIX + '/settings' + rng.choice(sorted(F.internal)))}:e:{rt}:{rng.randrange(256):02x}:0:0")
                ev.append(f"un{rng.choice([3, 8, 20])}")
        elif r < 0.44 and flavor == "limits":
            # a Dump request (no response topic) on an internal node whose correlation data exceeds the cache
            root = rng.choice(sorted(F.internal))
            cd = "cd" * rng.choice([33, 40, 64])
            ev.append(f"pub:{cp(PREFIX + '/settings' + root)}:e:-:{cd}:{rng.choice([0, 1])}:0")
            ev.append(f"un{rng.choice([1, 3, 12])}")
        elif r < 0.47 and flavor == "dump" and fam in (1, 3):
            # a dump spread over many update() calls (acknowledgements one at a time) while the application toggles the
            # Option / switches the enum variant under it
            ev += [f"optsome{rng.randrange(1, 256)}", f"dump:{rng.choice(['-', '-', cp('/o') if fam == 3 else '-'])}", "auto0"]
            for _ in range(rng.randrange(2, 9)):
                ev += [f"un{rng.choice([1, 2])}", "ack1"]
                if rng.random() < 0.3:
                    ev.append(rng.choice(["optnone", f"optsome{rng.randrange(1, 256)}"] +
                                         ([f"mode{rng.choice('ocab')}{rng.randrange(256)}"] if fam == 3 else [])))
            ev += ["ackall", "auto1", f"un{rng.choice([5, 20])}"]
        elif r < 0.5:
            ev.append(f"un{rng.choice([1, 2, 4, 9])}")
        elif r < 0.58:
            ev.append(f"adv{rng.choice([1, 100, 1999, 2000, 5000])}")
        elif r < 0.66 and flavor in ("dump", "faults", "requests"):
            p = rng.choice(["-"] + [cp(x) for x in sorted(F.internal) + [pp for pp, _ in F.leaves] + ["/nope"]])
            ev.append(f"dump:{p}")
            ev.append(f"un{rng.choice([1, 3, 8, 20])}")
        elif r < 0.74:
            p, ty = rng.choice(F.leaves)
            v = {"bool": "true", "u8": str(rng.randrange(256)), "u16": "9", "u32": "77", "i32": "-3",
                 "hstr64": '"' + "q" * rng.choice([0, 5, 60]) + '"',
                 "hstr256": '"' + "q" * rng.choice([0, 5, 60, 140, 250]) + '"',
                 "arr3i16": f"[{rng.randrange(-9, 9)},{rng.randrange(-300, 300)},3]"}[ty]
            ev.append(f"set:{cp(p)}:{cp(v)}")
        elif r < 0.8 and fam in (1, 3):
            ev.append(rng.choice(["optnone", f"optsome{rng.randrange(256)}"] +
                                 ([f"mode{rng.choice('ocab')}{rng.randrange(256)}"] * 2 + ["vlock0", "vlock1"] if fam == 3 else [])))
        elif r < 0.88 and flavor in ("faults", "dump"):
            ev += rng.choice([["auto0", f"un{rng.randrange(2, 8)}", f"ack{rng.randrange(1, 3)}", f"un{rng.randrange(1, 5)}", "auto1"],
                              ["auto0", f"un{rng.randrange(2, 6)}", "ackall", "auto1", "un3"]])
        elif r < 0.92 and flavor == "faults":
            # a List answer abandoned half-way: its Continue messages are stalled by withheld acknowledgements, then the
            # client is restarted (API reset, or the link is lost); whatever comes next must not use the stale request
            root = rng.choice(sorted(F.internal))
            ev += [f"pub:{cp(PREFIX + '/settings' + root)}:e:{cp(RESP)}:{rng.randrange(256):02x}:0:0", "auto0",
                   f"un{rng.choice([2, 3, 4])}"]
            ev += rng.choice([["reset"], [rng.choice(["sess0", "sess1"]), "drop"]])
            ev += ["auto1", f"un{rng.choice([6, 8, 9])}", f"adv{rng.choice([2000, 2600])}", f"un{rng.choice([15, 30])}"]
            if rng.random() < 0.5:
                ev += [f"dump:{rng.choice(['-', cp(root)])}", f"un{rng.choice([8, 20])}"]
        elif r < 0.96 and flavor == "faults":
            # after a drop the link stays down until the client has reconnected (TCP, CONNECT, CONNACK)
            ev += [rng.choice(["sess0", "sess1"]), "drop", f"un{rng.choice([5, 6, 9])}"]
            if rng.random() < 0.7:
                ev += [f"adv{rng.choice([2000, 2600])}", f"un{rng.choice([5, 15, 30])}"]
        elif flavor == "faults":
            ev.append("reset")
            ev.append(f"un{rng.choice([2, 8])}")
        else:
            ev.append("u")
    ev.append(f"un{rng.choice([2, 10, 30])}")
    return bufsize, ev


# ------------------------------------------------------------------------------- oracles

def analyze(events, recs, fam, bufsize=0):
    """walk a history and its trace; returns dict property -> list of failure strings, and stats.
    Everything here is computed from the packet log / hook trace and the independent settings
    simulator `Fam`; nothing from the Lean model."""
    F = Fam(fam)
    fails = {"C07": [], "C10": [], "C13": [], "C14": []}
    stats = {"requests": 0, "sets_ok": 0, "lists": 0, "dumps": 0, "epochs": 0, "busy": 0, "gets": 0, "errors": 0}
    ri = 0
    pending = []          # requests on the wire to the client
    good_updates = 0      # update() calls since the last CONNECT with the link up and acknowledgements flowing
    updates_after_timeout = 0
    last_now = None
    acks_on = True
    last_st = None        # protocol state after the most recent update()
    epoch = None
    mp = None             # the multipart answer in progress: {'kind','expect','i','rt','cd'}
    lost = False

    def new_epoch():
        return {"alive": False, "sub": False, "sub_now": None, "dumped": False}

    def start_dump(root, cd=None):
        stats["dumps"] += 1
        return {"kind": "dump", "expect": F.leaves_below(root), "i": 0, "rt": None, "cd": cd}

    xerr = next((r_.get("xerr", {}) for r_ in recs if r_["k"] == "END"), {})

    def next_rec():
        nonlocal ri
        r = recs[ri]
        ri += 1
        return r

    def pump(slots, arm_pubs, now):
        """reference behaviour of the list / dump pump for `slots` granted publish slots"""
        nonlocal mp
        q = list(arm_pubs)
        for _ in range(slots):
            if mp is None:
                break
            exp = mp["expect"]
            if mp["kind"] == "dump":
                if mp["i"] >= len(exp):
                    mp = None               # walk finished: multipart requests are accepted again
                    break
                leaf = exp[mp["i"]]
                mp["i"] += 1
                if not F.present(leaf):
                    continue                # absent at runtime: skipped silently
                if not q:
                    if not lost:
                        fails["C10"].append(f"dump had a publish slot at t={now} but did not publish leaf {leaf}")
                    continue
                p = q.pop(0)
                if epoch is not None and not epoch["sub"]:
                    fails["C13"].append(f"dump item {leaf} before the subscription of this connection")
                if p["topic"] != PREFIX + "/settings" + leaf or p["cd"] != (mp["cd"] or "-") or p["rt"] != "-":
                    fails["C10"].append(f"dump published {p['topic']} (cd {p['cd']}) where leaf {leaf} is due (order / skip / repeat)")
                    if mp.get("initial"):
                        fails["C13"].append(f"the unrequested dump of this connection is not one full dump of the settings: it "
                                            f"published {p['topic']} where leaf {leaf} is due at t={now}")
                elif p["code"] == "Error":
                    if p["payload"] != TOO_LARGE:
                        fails["C10"].append(f"dump of {leaf}: unexpected error payload {p['payload']!r}")
                    elif bufsize >= 2048 and len(F.json(leaf).encode()) <= 300:
                        fails["C10"].append(f"dump of {leaf}: reported as too large although its value ({len(F.json(leaf))} bytes) "
                                            f"fits the transmit buffer of a {bufsize}-byte client")
                elif p["code"] != "Ok" or p["payload"] != F.json(leaf):
                    fails["C10"].append(f"dump of {leaf}: payload {p['payload']!r} code {p['code']}, the value at that time is {F.json(leaf)}")
            else:
                if not q:
                    if not lost:
                        fails["C07"].append(f"list had a publish slot at t={now} but sent nothing")
                    continue
                p = q.pop(0)
                if p["topic"] != mp["rt"] or p["cd"] != (mp["cd"] or "-"):
                    fails["C07"].append(f"list answer on {p['topic']} cd {p['cd']}, expected {mp['rt']} cd {mp['cd']}")
                if mp["i"] < len(exp):
                    if p["code"] != "Continue" or p["payload"] != exp[mp["i"]]:
                        fails["C07"].append(f"list answer {p['code']} {p['payload']!r} where Continue {exp[mp['i']]!r} is due")
                    mp["i"] += 1
                else:
                    if p["code"] != "Ok" or p["payload"] != "":
                        fails["C07"].append(f"list must end with Ok and empty payload, got {p['code']} {p['payload']!r}")
                    mp = None
                    break
        for p in q:
            fails["C07"].append(f"publication not attributable to any request or dump: {p['topic']} {p['code']} {p['payload']!r}")

    for ev in events:
        n_upd = 1 if ev == "u" else (int(ev[2:]) if ev.startswith("un") else 0)
        if n_upd:
            for _ in range(n_upd):
                r = next_rec()
                tr = r["trace"]
                upd = [x for x in tr if x.startswith("upd:")][0].split(":")
                st0, conn = upd[1], upd[2] == "1"
                now = r["now"]
                slots = tr.count("slot")
                if not conn:
                    mp = None
                last_now = now
                if conn and acks_on:
                    good_updates += 1
                    if epoch is not None and epoch.get("sub_now") is not None and now >= epoch["sub_now"] + 2000:
                        updates_after_timeout += 1
                for p in r["pkts"]:
                    if p["t"] == "CONNECT":
                        good_updates = 0
                        updates_after_timeout = 0
                        stats["epochs"] += 1
                        epoch = new_epoch()
                        mp = None
                        m = re.search(r"will=([^|]*)\|([^|]*)\|q(\d)\|r(\d)", p["raw"])
                        if not m or uncp(m.group(1)) != PREFIX + "/alive" or m.group(2) != "e" or m.group(4) != "1":
                            fails["C13"].append(f"CONNECT without the retained empty will on the alive topic: {p['raw']}")
                    elif p["t"] == "SUB":
                        if epoch is None or not epoch["alive"] or epoch["sub"]:
                            fails["C13"].append(f"SUBSCRIBE out of order at t={now}")
                        elif p["filter"] != PREFIX + "/settings/#" or p["nl"] != "1":
                            fails["C13"].append(f"SUBSCRIBE {p['filter']} nl={p['nl']}")
                        if epoch is not None:
                            epoch["sub"] = True
                            epoch["sub_now"] = now
                    elif p["t"] == "PUB" and p["d"] == "0" and p["topic"] == PREFIX + "/alive":
                        if epoch is None or epoch["alive"]:
                            fails["C13"].append(f"alive message outside the start of an epoch at t={now}")
                        else:
                            epoch["alive"] = True
                            if p["r"] != "1" or p["payload"] != "1":
                                fails["C13"].append(f"alive message not retained '1': {p['raw']}")
                # Init -> Multipart starts the one unrequested full dump of this epoch
                if st0 == "init" and r["st"] in ("multipart", "single"):
                    mp = start_dump("")
                    mp["initial"] = True
                    if epoch is not None:
                        if epoch["dumped"]:
                            fails["C13"].append("second unrequested full dump in one connection")
                        epoch["dumped"] = True
                        if epoch["sub_now"] is None or now < epoch["sub_now"] + 2000:
                            fails["C13"].append(f"initial dump started at t={now}, subscription sent at t={epoch['sub_now']}")
                req = None
                msg = [x for x in tr if x.startswith("msg:")]
                canpub = False
                if msg and pending:
                    req = pending.pop(0)
                    canpub = msg[0].split(":")[3] == "1"
                pubs = [p for p in r["pkts"] if p["t"] == "PUB" and p["d"] == "0" and p["topic"] != PREFIX + "/alive"]
                # the state-machine arm publishes before poll(): its publications come first, a reply (at most one) last
                in_settings = req is not None and req["topic"].startswith(PREFIX + "/settings")
                path = req["topic"][len(PREFIX + "/settings"):] if in_settings else None
                n_arm = len(pubs)
                # run the pump on the slots of this update with all but possibly the last publication
                # (decide below whether the last one is a reply)
                reply_expected = None
                if in_settings:
                    if req["payload"] != "":
                        if req["rt"] is not None and canpub:
                            reply_expected = True
                    elif canpub:
                        c0 = F.classify(path)
                        if c0[0] == "leaf":
                            reply_expected = True if F.present(c0[1]) else (req["rt"] is not None)
                        elif c0[0] == "err":
                            reply_expected = req["rt"] is not None
                        else:
                            reply_expected = "maybe"    # refused (busy / too long) => a reply, accepted => none
                # how many publications the state-machine arm itself can account for in this update: one per granted slot,
                # but no more than what is left of the multipart answer in progress (a dump skips absent leaves silently
                # and its last slot only concludes the walk)
                if st0 != "multipart" or mp is None:
                    arm_cap = 0
                elif mp["kind"] == "dump":
                    # (every slot takes the next leaf of the walk, present or not: only the present ones among the next
                    # `slots` leaves are published)
                    arm_cap = sum(1 for l in mp["expect"][mp["i"]:mp["i"] + slots] if F.present(l))
                else:
                    arm_cap = min(slots, len(mp["expect"]) - mp["i"] + 1)
                if reply_expected is True or (reply_expected == "maybe" and req["rt"] is not None and pubs
                                              and pubs[-1]["code"] == "Error" and pubs[-1]["topic"] == req["rt"]
                                              and len(pubs) > arm_cap):
                    arm_pubs, tail = pubs[:-1], pubs[-1:]
                else:
                    arm_pubs, tail = pubs, []
                if st0 == "multipart":
                    pump(slots, arm_pubs, now)
                else:
                    for p in arm_pubs:
                        fails["C07"].append(f"publication while idle not attributable to any request: {p['topic']} {p['code']} {p['payload']!r}")
                # now the request
                changed = False
                reply = None
                if in_settings:
                    stats["requests"] += 1
                    if req["payload"] != "":
                        res = F.set(path, req["payload"])
                        changed = res[0] == "ok"
                        stats["sets_ok"] += int(changed)
                        if req["rt"] is not None and canpub:
                            reply = (req["rt"], "Ok" if changed else "Error", display(res), req["cd"])
                    elif canpub:
                        c = F.classify(path)
                        if c[0] == "leaf":
                            stats["gets"] += 1
                            if F.present(c[1]):
                                reply = (req["rt"] or req["topic"], "Ok", F.json(c[1]), req["cd"], "maybe-too-large")
                            elif req["rt"] is not None:
                                reply = (req["rt"], "Error", DISPLAY["absent"].format(d=F.absent_depth(c[1])), req["cd"])
                        elif c[0] == "err":
                            stats["errors"] += 1
                            if req["rt"] is not None:
                                reply = (req["rt"], "Error", display(c), req["cd"])
                        else:
                            idle = mp is None and st0 in ("single", "multipart")
                            if idle:
                                if req["rt"] is not None and len(req["rt"].encode()) > 128:
                                    reply = (req["rt"], "Error", "Response topic too long", req["cd"])
                                elif req["cd"] is not None and len(req["cd"]) // 2 > 32:
                                    if req["rt"] is not None:
                                        reply = (req["rt"], "Error", "Correlation data too long", req["cd"])
                                elif req["rt"] is not None:
                                    mp = {"kind": "list", "expect": F.leaves_below(c[1]), "i": 0, "rt": req["rt"], "cd": req["cd"]}
                                    stats["lists"] += 1
                                else:
                                    mp = start_dump(c[1], req["cd"])
                            else:
                                stats["busy"] += 1
                                if req["rt"] is not None:
                                    reply = (req["rt"], "Error", "Pending multipart response", req["cd"])
                elif req is not None:
                    stats["requests"] += 1
                if (r["ret"] == "t") != changed and not lost:
                    fails["C14"].append(f"update() returned {r['ret']} at t={now} but a Set was {'applied' if changed else 'not applied'}"
                                        f" ({req['topic'] if req else 'no request'} {req['payload'] if req else ''})")
                if reply is not None:
                    ok = False
                    if tail:
                        p = tail[0]
                        if p["topic"] == reply[0] and p["cd"] == (reply[3] or "-"):
                            if p["code"] == reply[1] and p["payload"] is not None and (
                                    p["payload"] == reply[2] or (reply[2].endswith(": ") and p["payload"].startswith(reply[2]))):
                                ok = True
                                # a (de)serializer error carries serde's text: the whole of it, as miniconf displays the error
                                # (computed by the harness on a copy of the settings, outside the client)
                                full = xerr.get((cp(req["topic"]), cp(req["payload"])))
                                if reply[2].endswith(": ") and full is not None and full.startswith(reply[2]) and p["payload"] != full:
                                    ok = False
                                    reply = (reply[0], reply[1], full, reply[3])
                            elif len(reply) > 4 and p["code"] == "Error" and (p["payload"] or "").startswith("(De)serialization"):
                                ok = True       # the value does not fit the transmit buffer
                    if not ok and not lost:
                        fails["C07"].append(f"request {req['topic']} payload {req['payload']!r}: expected one {reply[1]} response "
                                            f"{reply[2]!r} on {reply[0]} (cd {reply[3]}); this update published "
                                            f"{[(p['topic'], p['code'], p['payload'], p['cd']) for p in pubs]}")
                else:
                    for p in tail:
                        fails["C07"].append(f"response without a request asking for it: {p['topic']} {p['code']} {p['payload']!r}")
                # the client must not become idle in an epoch without having done its unrequested full dump
                if r["st"] == "single" and epoch is not None and epoch["sub"] and not epoch["dumped"] and not epoch.get("flagged"):
                    epoch["flagged"] = True
                    fails["C13"].append(f"client idle at t={now} although the full dump of this connection never happened")
                    fails["C10"].append(f"the initial dump after connecting never happened (client idle at t={now})")
                if "sessreset" in tr:
                    mp = None
                    epoch = new_epoch()
                    good_updates = 0
                    updates_after_timeout = 0
                if not conn:
                    lost = False
                last_st = r["st"]
            continue
        if ev.startswith("pub:"):
            f = ev[4:].split(":")
            if not lost:
                pending.append({"topic": uncp(f[0]), "payload": uncp(f[1]), "rt": None if f[2] == "-" else uncp(f[2]),
                                "cd": None if f[3] == "-" else f[3]})
        elif ev.startswith("dump:"):
            r = next_rec()
            root = "" if ev[5:] == "-" else uncp(ev[5:])
            c = F.classify(root, typelevel=True) if root else ("internal", "")
            if r["tok"] == "D:ok":
                if c[0] == "err":
                    fails["C10"].append(f"dump({root!r}) accepted for an invalid path")
                else:
                    mp = start_dump(c[1])
                    if last_st == "init" and epoch is not None:
                        # the application called dump() in the one update between the timeout and the start of the
                        # initial dump: `Init + Multipart` takes its dump in place of the unrequested one (the properties
                        # quantify the start-up sequence over histories without API dumps; C10 holds for this dump)
                        epoch["dumped"] = True
        elif ev.startswith("set:"):
            next_rec()
            _, p, j = ev.split(":")
            F.set(uncp(p), uncp(j))
        elif ev.startswith("optsome"):
            F.opt_present = True
            if fam == 3:
                F.val["/o/p"] = F.val["/o/q"] = int(ev[7:])
            else:
                F.val["/opt"] = int(ev[7:])
        elif ev == "optnone":
            F.opt_present = False
        elif ev.startswith("mode") and fam == 3:
            F.mode = ev[4]
            if ev[4] in "ab":
                F.val["/mode/" + ev[4].upper()] = int(ev[5:] or 0)
        elif ev in ("vlock0", "vlock1"):
            F.vlock = ev == "vlock1"
        elif ev == "auto0":
            acks_on = False
        elif ev in ("auto1",):
            acks_on = True
        elif ev == "drop":
            pending.clear()
            lost = True
            mp = None
            good_updates = 0
            updates_after_timeout = 0
        elif ev == "reset":
            mp = None
            epoch = new_epoch()     # the documented API restart on the same connection
            good_updates = 0
            updates_after_timeout = 0
    # progress: a connection that has been serviced long enough (with acknowledgements flowing) must have subscribed, and
    # once the dump time-out has elapsed after the subscription it must have started its full dump
    if epoch is not None and not lost and good_updates >= 25:
        if epoch["alive"] and not epoch["sub"]:
            fails["C13"].append(f"the client never subscribed on this connection ({good_updates} serviced update() calls after CONNECT)")
        elif epoch["sub"] and not epoch["dumped"] and last_now is not None and last_now >= epoch["sub_now"] + 2000 \
                and updates_after_timeout >= 8:
            fails["C13"].append(f"the full dump of this connection never started (subscribed at t={epoch['sub_now']}, now t={last_now})")
    end = [r for r in recs if r["k"] == "END"]
    if end and "settings" in end[-1]:
        want = ",".join(f"{p}={F.json(p) if F.present(p) else 'absent'}" for p, _ in F.leaves)
        got = end[-1]["settings"].replace("%22", '"').replace("%2C", ",")
        if got != want:
            fails["C14"].append(f"final settings {got} but the accepted writes give {want}")
    return fails, stats


# ------------------------------------------------------------------------------- runner

def prefix_probe(rep):
    """the constructor's topic-length assert against the longest topic a dump really builds (oracle only); returns
    (cases run, failures)"""
    n, bad = 0, 0
    ok, msg = build_harness("dev")
    if not ok:
        rep.violation("proof", {"what": "harness does not build against /repo", "log": msg}, no_input=True)
        return 0, 0
    # the constructor's topic-length assert against the longest topic a dump really builds: for every family the longest
    # admissible prefix (and one byte less) must be accepted and its initial dump must publish every leaf on
    # `<prefix>/settings<path>`; one byte more must be refused by `MqttClient::new` (independent reading of the limit:
    # len(prefix) + len("/settings") + longest leaf path <= 128)
    plines, want = [], {}
    for fam in (0, 1, 2, 3):
        F = Fam(fam)
        longest = max(len(p_.encode()) for p_, _ in F.leaves)
        kmax = 128 - len("/settings") - longest - len(PREFIX)
        for k in (0, kmax - 1, kmax, kmax + 1):
            cid = f"n{fam}x{k}"
            plines.append(f"mq {cid} {fam} 2048 pfx{k} un8 adv2000 un80")
            want[cid] = (fam, k, k <= kmax)
    _rc, pout, _err = run_lines(harness_bin("dev"), plines)
    base = {}
    for cid, (fam, k, admitted) in want.items():
        out = pout.get(cid) or ""
        n += 1
        pubs = [t for t in re.findall(r"PUB\(t=([0-9.e]+),", out)]
        pre = cp(PREFIX + "p" * k + "/settings")
        dumped = sorted(t[len(pre):] for t in pubs if t.startswith(pre + "."))
        why = None
        if admitted:
            if out.startswith("panic"):
                why = f"family {fam}: a prefix of {len(PREFIX) + k} bytes satisfies the documented limit but the client panicked: {out[:160]}"
            elif k == 0:
                base[fam] = dumped
            elif len(dumped) != len(base.get(fam, dumped)):
                why = (f"family {fam}, prefix of {len(PREFIX) + k} bytes: the initial dump published {len(dumped)} leaves, "
                       f"{len(base[fam])} with the short prefix")
        elif not (out.startswith("panic") and "assertion_failed" in out):
            why = (f"family {fam}: with a prefix of {len(PREFIX) + k} bytes the longest leaf topic has 129 bytes, more than "
                   f"MAX_TOPIC_LENGTH, but MqttClient::new accepted it: {out[:120]}")
        if why:
            bad += 1
            rep.violation("oracle", {"case": f"mq {cid} {fam} 2048 pfx{k} un8 adv2000 un80", "why": why})
    return n, bad


FLAVORS = {"C07": ["requests", "requests", "limits", "faults"], "C10": ["dump", "dump", "faults", "requests"],
           "C13": ["faults", "faults", "requests"], "C14": ["limits", "requests", "faults", "dump"]}


def run_mqtt(rep, prop_id, rng, tier):
    pl = proof_layer(prop_id, thorough=(tier == "thorough"))
    for f in pl["failures"]:
        rep.violation("proof", {"theorem_or_translator": f, "property_module": f"MiniconfVerif.Props.{prop_id}"}, no_input=True)
    n_hist = 120 if tier == "quick" else 3000
    hist = []
    for i in range(n_hist):
        fam = rng.choice([0, 1, 1, 2, 3, 3])
        flavor = rng.choice(FLAVORS[prop_id])
        bufsize, ev = gen_history(rng, fam, flavor, rng.randrange(3, 14))
        hist.append((fam, flavor, bufsize, ev))
    if prop_id == "C14":
        # known finding F7, kept visible: a session state that holds more than ten unacknowledged publications (4096 bytes, of
        # which the transmit buffer takes 512) and a dump / list of more than ten leaves in one update()
        hist.append((3, "limits", 4096, ["txmax512", "un8", "adv2000", "un12"]))
        rt_ = cp(PREFIX + "/response")
        hist.append((3, "limits", 4096, ["txmax512", "auto0", "un8", "adv2000", "un3", "auto1", "un30",
                                         f"pub:{cp(PREFIX + '/settings')}:e:{rt_}:aa:0:0", "un6"]))
    ok, msg = build_harness("dev")
    if not ok:
        rep.violation("proof", {"what": "harness does not build against /repo", "log": msg}, no_input=True)
        return
    lines = [f"mq h{i} {fam} {bufsize} " + " ".join(ev) for i, (fam, _fl, bufsize, ev) in enumerate(hist)]
    rc, impl, err = run_lines(harness_bin("dev"), lines)
    dok, dmsg = build_driver()
    mlines = []
    for fam in (0, 1, 2, 3):
        mlines.append(f"V vm{fam} 1000 {fam} {Fam(fam).tree_text()}")
    parsed = {}
    totals = {}
    n_or_fail, n_diff, distinct = 0, 0, set()
    for i, (fam, flavor, bufsize, ev) in enumerate(hist):
        out = impl.get(f"h{i}")
        case = lines[i]
        if out is None or out.startswith("panic") or "NEWERR" in out or "ARGERR" in out:
            if out is None or out.startswith("panic"):
                k = known_open(prop_id, case, out or "", "")
                if k:
                    if k["what"] not in rep.known:
                        rep.known.append(k["what"])
                else:
                    if sum(1 for v in rep.violations if v["kind"] == "oracle") < 5:
                        rep.violation("oracle", {"case": case, "impl": (out or "<no output>")[:200],
                                                 "why": "the client panicked (or produced no outcome): no request is answered, "
                                                        "no dump completes after that"})
                    n_or_fail += 1
            continue
        try:
            recs = parse_trace(out)
            fails, stats = analyze(ev, recs, fam, bufsize)
            items, exp = model_items(ev, recs, fam)
        except Exception as e:  # an unparsable trace is a broken check, reported as such
            rep.violation("proof", {"what": f"trace analysis crashed: {type(e).__name__}: {e}", "case": case}, no_input=True)
            continue
        if not any(e.startswith("txchunk") for e in ev):
            parsed[i] = (items, exp)
        for k, v in stats.items():
            totals[k] = totals.get(k, 0) + v
        distinct.add((fam, flavor, tuple(sorted((k, min(v, 3)) for k, v in stats.items()))))
        for why in fails[prop_id][:1]:
            n_or_fail += 1
            k = known_open(prop_id, case, out, why)
            if k:
                if k["what"] not in rep.known:
                    rep.known.append(k["what"])
            elif sum(1 for v in rep.violations if v["kind"] == "oracle") < 5:
                rep.violation("oracle", {"case": case, "why": why, "impl_tail": out[-400:]})
        if i in parsed:
            mlines.append(f"mqm h{i} 1000 {fam} {cp(PREFIX)} " + " ".join(items))
    if dok:
        drc, model, derr = run_lines(driver_bin(), mlines)
        for i, (items, exp) in parsed.items():
            mo = model.get(f"h{i}")
            d = compare_model(items, exp, mo) if mo and mo != "bad-op" else f"model gave {mo!r}"
            if d:
                n_diff += 1
                if sum(1 for v in rep.violations if v["kind"] == "model-diff") < 3:
                    rep.violation("model-diff", {"correspondence": "mq/mqm", "case": lines[i], "what": d}, no_input=True)
    else:
        rep.violation("proof", {"what": "Lean driver unavailable", "log": dmsg}, no_input=True)
    n_pfx = 0
    if prop_id == "C10":
        n_pfx, bad_ = prefix_probe(rep)
        n_or_fail += bad_
    n_updates = sum(len([x for x in p[1] if x["k"] == "U"]) for p in parsed.values())
    rep.coverage = {
        "obligations": pl["obligations"],
        "discharged": pl["discharged"] if not pl["failures"] else min(pl["discharged"], max(pl["obligations"] - 1, 0)),
        "checker_cmd": f"cd lean && lake build MiniconfVerif.Props.{prop_id} && lake env lean MiniconfVerif/Audit/{prop_id}.lean",
        "trusted_base": ["Lean 4.33.0 kernel"] + axiom_summary(pl) + [
            "Model/Mqtt.lean (hand-written mirror of miniconf_mqtt/src/lib.rs update/poll/iter_list/iter_dump) stepped on the "
            "environment observations recorded by the cfg(quartiq_miniconf_verif) hooks + packet log of this run",
            "harness/src/mq.rs: in-memory TcpClientStack, MQTT v5 broker stub, mock clock (minimq 0.10 runs for real)",
            "checker/mqcommon.py + mqcheck.py: observation derivation, independent settings simulator and packet-level oracles"],
        "theorems": pl["theorems"],
        "evaluations": len(hist),
        "distinct_nontrivial": len(distinct),
        "rule": "random histories over 4 settings families: update() calls, clock advances, Get/Set/List/Dump requests (valid, "
                "invalid, too-long and foreign topics; valid/malformed JSON; with/without response topic and correlation data; "
                "lengths around 128/32), API dump/reset, direct settings writes, Option toggles, withheld PUBACKs, connection "
                "drops with session present/absent; distinct = (family, flavor, capped counts of requests/sets/lists/dumps/"
                "epochs/busy refusals)",
        "samples": [lines[0][:500], lines[len(lines) // 2][:500]],
        "traces_validated_against_impl": len(parsed) - n_diff,
        "transitions": n_updates,
        "model_disagreements": n_diff,
        "oracle_failures": n_or_fail,
        "input_distribution": totals,
    }
    rep.assumptions = ["minimq 0.10 (QoS handshakes, retransmission, buffers) is the environment: its decisions are observed, not modelled",
                       "histories for the model correspondence avoid partial socket writes (publications are compared per update())",
                       "the one update() after a silent connection loss still 'sends' into the void; those publications are not compared"]
