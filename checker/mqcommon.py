"""MQTT checks (C07, C10, C13, C14): histories for the in-memory world (harness/src/mq.rs drives
the real MqttClient + minimq), parsing of the packet log / hook trace, derivation of the
model's observations, and an independent settings simulator for the oracles."""
import json
import re

from common import *

PREFIX = "dt/sinara/dev"
RESP = "dt/sinara/dev/response"
TOO_LARGE = "Serialized value too large"


def cp(s):
    return "e" if s == "" else ".".join(str(ord(c)) for c in s)


def uncp(s):
    return "" if s == "e" else "".join(chr(int(x)) for x in s.split("."))


# ------------------------------------------------------------------------------- settings families

class Fam:
    """independent simulator of the three settings types of harness/src/mq.rs"""

    def __init__(self, fam):
        self.fam = fam
        if fam == 0:
            self.leaves = [("/foo", "bool"), ("/bar", "u32")]
            self.val = {"/foo": False, "/bar": 0}
        elif fam == 1:
            self.leaves = [("/a", "i32"), ("/opt", "u8"), ("/arr/0", "u16"), ("/arr/1", "u16"), ("/arr/2", "u16"),
                           ("/inner/x", "bool"), ("/inner/name", "hstr64"), ("/v", "u8")]
            self.val = {"/a": 0, "/opt": None, "/arr/0": 0, "/arr/1": 0, "/arr/2": 0, "/inner/x": False,
                        "/inner/name": "", "/v": 0}
        elif fam == 3:
            self.leaves = ([("/o/p", "u8"), ("/o/q", "u8")] + [(f"/lutab/{i}", "u8") for i in range(12)] +
                           [("/trip", "arr3i16"), ("/text", "hstr256"), ("/k", "u8"), ("/mode/A", "u8"), ("/mode/B", "u8")])
            self.val = {p: 0 for p, _ in self.leaves}
            self.val["/trip"] = [0, 0, 0]
            self.val["/text"] = ""
        else:
            self.leaves = [(f"/l{i}", "u8") for i in range(6)]
            self.val = {p: 0 for p, _ in self.leaves}
        self.types = dict(self.leaves)
        self.internal = set()
        for p, _ in self.leaves:
            parts = p.split("/")[1:]
            for k in range(len(parts)):
                self.internal.add("/" + "/".join(parts[:k]) if k else "")
        self.opt_present = False
        self.vlock = False        # family 3: the validator on the payload of `mode/B` rejects while set
        self.mode = "o"           # family 3: active variant of `mode` (o = Off, c = Cal (skipped), a, b)

    def tree_text(self):
        if self.fam == 0:
            return "N 0 - n:foo,bar 2 a:0:-:-:-:-:0:0:0 L l:bool b0 a:0:-:-:-:-:0:0:0 L l:u32 i0"
        a0 = "a:0:-:-:-:-:0:0:0"
        if self.fam == 1:
            return (f"N 0 - n:a,opt,arr,inner,v 5 {a0} L l:i32 i0 {a0} G option 1 L l:u8 i0 "
                    f"{a0} A 3 L l:u16 i0 L l:u16 i0 L l:u16 i0 "
                    f"{a0} N 0 - n:x,name 2 {a0} L l:bool b0 {a0} L l:hstr64 se "
                    f"a:1:-:-:-:-:0:0:1 L l:u8 i0")
        if self.fam == 3:
            return (f"N 0 - n:o,lutab,trip,text,k,mode 6 {a0} G option 1 N 0 - n:p,q 2 {a0} L l:u8 i0 {a0} L l:u8 i0 "
                    f"{a0} A 12 " + " ".join("L l:u8 i0" for _ in range(12)) +
                    f" {a0} L l:arr3i16 A(i0,i0,i0) {a0} L l:hstr256 se {a0} L l:u8 i0 "
                    f"{a0} N 0 x n:A,B 2 {a0} L l:u8 i0 a:2:-:-:-:-:0:0:1 L l:u8 i0")
        return "N 0 - n:l0,l1,l2,l3,l4,l5 6 " + " ".join(f"{a0} L l:u8 i0" for _ in range(6))

    def norm(self, path):
        """keys of a path the way Path<_, '/'> reads it: everything before the first '/' ignored"""
        return path.split("/")[1:]

    def classify(self, path, typelevel=False):
        """('leaf', p) | ('internal', p) | ('err', kind, depth); `typelevel`: as `traverse_by_key` / `root()` see the
        path (runtime presence is ignored)"""
        if typelevel:
            try:
                self._tl = True
                return self.classify(path)
            finally:
                self._tl = False
        keys = self.norm(path)
        cur = ""
        for d, k in enumerate(keys):
            if cur in self.types:
                # an absent Option is reported before surplus keys
                if not self.present(cur):
                    return ("err", "absent", self.absent_depth(cur))
                return ("err", "tooLong", d)
            if self.fam == 3 and cur == "/o" and not self.present("/o"):
                return ("err", "absent", 1)       # `None`: reported at the Option, whatever follows
            children = self.children(cur)
            if re.fullmatch(r"\+?[0-9]+", k) and str(int(k)) in children and str(int(k)).isdigit():
                k = str(int(k))          # usize::from_str accepts a leading '+' and leading zeros
            if k not in children:
                # arrays: numeric parse
                return ("err", "notFound", d + 1)
            cur = cur + "/" + children[k]
        if cur in self.types:
            return ("leaf", cur)
        if self.fam == 3 and cur == "/o" and not self.present("/o"):
            return ("err", "absent", 1)
        return ("internal", cur)

    def children(self, node):
        """key text -> canonical child name (array indices accept +N and leading zeros? no: usize parse)"""
        out = {}
        seen = []
        for p, _ in self.leaves:
            if p.startswith(node + "/"):
                c = p[len(node) + 1:].split("/")[0]
                if c not in seen:
                    seen.append(c)
        for c in seen:
            out[c] = c
            if c.isdigit():
                out["+" + c] = c
        return out

    def leaves_below(self, node):
        return [p for p, _ in self.leaves if p == node or p.startswith(node + "/")]

    def present(self, p):
        if getattr(self, "_tl", False):
            return True
        if self.fam == 3:
            if p.startswith("/o/") or p == "/o":
                return self.opt_present
            if p.startswith("/mode/"):
                return self.mode == p[-1].lower()
            return True
        return not (p == "/opt" and not self.opt_present)

    def absent_depth(self, p):
        """depth of the `Absent` error for a leaf that is not present"""
        return 2 if p.startswith("/mode/") else 1

    def json(self, p):
        v = self.val[p]
        if isinstance(v, bool):
            return "true" if v else "false"
        if isinstance(v, str):
            return '"' + v + '"'
        if isinstance(v, list):
            return "[" + ",".join(str(x) for x in v) + "]"
        return str(v)

    def set(self, path, text):
        """returns ('ok',) | ('err', kind, depth[, msg]) | ('inner', depth) | ('final',); updates values as the
        documented semantics say (validator rejection and trailing data leave the new value)"""
        c = self.classify(path)
        if c[0] == "err":
            return c
        if c[0] == "internal":
            return ("err", "tooShort", len(self.norm(path)))
        p = c[1]
        depth = len(self.norm(path))
        if not self.present(p):
            return ("err", "absent", self.absent_depth(p))
        ty = self.types[p]
        t = text.lstrip(" \n\t\r")
        clean = None
        if ty in ("u8", "u16", "u32", "i32"):
            m = re.match(r"-?(0|[1-9][0-9]*)", t)
            lo, hi = {"u8": (0, 255), "u16": (0, 65535), "u32": (0, 2 ** 32 - 1), "i32": (-2 ** 31, 2 ** 31 - 1)}[ty]
            if not m or (m.group(0).startswith("-") and lo == 0) or not lo <= int(m.group(0)) <= hi:
                return ("inner", depth)
            v, clean = int(m.group(0)), t[m.end():].strip(" \n\t\r") == ""
        elif ty == "bool":
            if t.startswith("true"):
                v, clean = True, t[4:].strip(" \n\t\r") == ""
            elif t.startswith("false"):
                v, clean = False, t[5:].strip(" \n\t\r") == ""
            else:
                return ("inner", depth)
        elif ty == "arr3i16":
            # all or nothing: three in-range integers, otherwise the leaf keeps its value
            m = re.match(r"\[\s*(-?(?:0|[1-9][0-9]*))\s*,\s*(-?(?:0|[1-9][0-9]*))\s*,\s*(-?(?:0|[1-9][0-9]*))\s*\]", t)
            if not m or not all(-32768 <= int(x) <= 32767 for x in m.groups()):
                return ("inner", depth)
            v, clean = [int(x) for x in m.groups()], t[m.end():].strip(" \n\t\r") == ""
        else:
            m = re.match(r'"([^"\\]*)"', t)
            if not m or len(m.group(1).encode()) > (256 if ty == "hstr256" else 64):
                return ("inner", depth)
            v, clean = m.group(1), t[m.end():].strip(" \n\t\r") == ""
        self.val[p] = v
        if p == "/v" and v > 100:
            return ("err", "invalid", 1, "too big")
        if p == "/mode/B" and self.vlock:
            return ("err", "invalid", 2, "b locked")
        if not clean:
            return ("final",)
        return ("ok",)


DISPLAY = {
    "absent": "Variant absent (depth: {d})", "tooShort": "Key does not reach a leaf (depth: {d})",
    "notFound": "Key not found (depth: {d})", "tooLong": "Key goes beyond leaf (depth: {d})",
    "invalid": "Invalid value (depth: {d}): {m}", "access": "Node accessor failed (depth: {d}): {m}",
}


def display(r):
    if r[0] == "err":
        return DISPLAY[r[1]].format(d=r[2], m=r[3] if len(r) > 3 else "")
    if r[0] == "inner":
        return f"(De)serialization (depth: {r[1]}): "
    if r[0] == "final":
        return "(De)serializer finalization: "
    return "OK"


# ------------------------------------------------------------------------------- trace parsing

TOK = re.compile(r"U:(t|f|err)\{([^}]*)\}|CONNECT\(([^)]*)\)|PUB\(([^)]*)\)|SUB\(([^)]*)\)|PUBACK\(([^)]*)\)|PING|DISCONNECT|"
                 r"D:(ok|err)|S:(ok|err)|G:\S+|END|state_settings=\S*|\?\S+|BAD\S*|PKT\(\d+\)")


def parse_trace(out):
    """list of records: {'k':'U', ret, trace[], now, st, rt, pkts[]} | {'k':'D'|'S'|'ev', ...}.
    Packets are attached to the preceding update (or event)."""
    recs = []
    cur = None
    for tok in out.split(" "):
        if tok.startswith("U:"):
            m = re.fullmatch(r"U:(t|f|err)\{(.*)\}", tok)
            body = m.group(2)
            tr, now, st = body.rsplit(";", 2)
            cur = {"k": "U", "ret": m.group(1), "trace": [x for x in tr.split(",") if x], "now": int(now.split("=")[1]),
                   "st": st.split("=")[1].split(":")[0], "hasrt": st.endswith(":1"), "pkts": []}
            recs.append(cur)
        elif tok.startswith(("CONNECT(", "PUB(", "SUB(", "PUBACK(", "PING", "DISCONNECT", "BAD", "PKT(")):
            pkt = parse_pkt(tok)
            if cur is None:
                cur = {"k": "ev", "tok": "start", "pkts": []}
                recs.append(cur)
            cur["pkts"].append(pkt)
        elif tok.startswith("END"):
            recs.append({"k": "END", "pkts": []})
            cur = recs[-1]
        elif tok.startswith("state_settings="):
            recs[-1]["settings"] = tok.split("=", 1)[1]
        elif tok.startswith("xerr="):
            # error texts of refused Set requests, computed by the harness outside the client (miniconf's own Display of the
            # error `json::set_by_key` returns on a copy of the settings)
            body = tok.split("=", 1)[1]
            recs[-1]["xerr"] = {} if body == "-" else {tuple(x.split("~")[:2]): uncp(x.split("~")[2]) for x in body.split(";")}
        else:
            cur = {"k": "ev", "tok": tok, "pkts": []}
            recs.append(cur)
    return recs


def parse_pkt(tok):
    if tok.startswith("PUB("):
        f = dict(x.split("=", 1) for x in tok[4:-1].split(","))
        p = f["p"]
        return {"t": "PUB", "topic": uncp(f["t"]), "payload": (uncp(p) if not p.startswith("x") else None), "raw": p,
                "q": f["q"], "r": f["r"], "d": f["d"], "code": f["code"], "cd": f["cd"], "rt": f["rt"], "up": f.get("up", "-")}
    if tok.startswith("SUB("):
        a = tok[4:-1].split(",")
        return {"t": "SUB", "filter": uncp(a[0]), "nl": a[1].split("=")[-1], "q": a[2].split("=")[-1]}
    if tok.startswith("CONNECT("):
        return {"t": "CONNECT", "raw": tok}
    return {"t": tok.split("(")[0]}


# ------------------------------------------------------------------------------- model observations

def gate_for(fam, path, payload, vlock):
    """how the user callbacks behave during one write: the validator that would reject it (at most one lies on a path)"""
    keys = path.split("/")[1:]
    if fam == 1 and keys == ["v"]:
        m = re.match(r"\s*(\d+)", payload)
        if m and 100 < int(m.group(1)) <= 255:
            return "1=vf!" + cp("too big")
    if fam == 3 and keys[:2] == ["mode", "B"] and vlock:
        return "2=vf!" + cp("b locked")
    return "-"


def poll_tok(req, canpub, fits, gate):
    if req is None:
        return "i"
    return "m~" + "~".join([cp(req["topic"]), cp(req["payload"]), cp(req["rt"]) if req["rt"] is not None else "-",
                            req["cd"] if req["cd"] is not None else "-", str(int(canpub)), str(int(fits)), gate])


def model_items(events, recs, fam):
    """zip the event list with the parsed records and build the `mqm` items + what to compare.
    Returns (items, expectations) where expectations[i] describes the impl's behaviour for item i."""
    items, exp = [], []
    pending_reqs = []     # requests sent to the client, not yet handed to the closure
    ri = 0
    lost_window = False
    vlock = False

    def next_rec(kind):
        nonlocal ri
        while ri < len(recs) and recs[ri]["k"] not in ("U", "ev", "END"):
            ri += 1
        r = recs[ri]
        ri += 1
        return r

    for ev in events:
        n_upd = 1 if ev == "u" else (int(ev[2:]) if ev.startswith("un") else 0)
        if n_upd:
            for _ in range(n_upd):
                r = next_rec("U")
                assert r["k"] == "U", (ev, r)
                tr = r["trace"]
                upd = [x for x in tr if x.startswith("upd:")][0].split(":")
                st0, conn = upd[1], upd[2] == "1"
                slots = tr.count("slot")
                msg = [x for x in tr if x.startswith("msg:")]
                sess = "sessreset" in tr
                pubs = [p for p in r["pkts"] if p["t"] == "PUB" and p["d"] == "0"]
                subs = [p for p in r["pkts"] if p["t"] == "SUB"]
                # state after the state-machine arm is not observable directly; infer alive/sub acceptance from packets
                alive_ok = any(p["topic"] == PREFIX + "/alive" for p in pubs) or (st0 == "alive" and r["st"] == "subscribe")
                sub_ok = bool(subs) or (st0 == "subscribe" and r["st"] == "wait")
                big = "".join("1" if (p["payload"] == TOO_LARGE and p["code"] == "Error") else "0"
                              for p in pubs if p["topic"].startswith(PREFIX + "/settings") and p["code"] in ("Ok", "Error")
                              and p["rt"] == "-") or "-"
                if sess:
                    poll = "r"
                elif r["ret"] == "err":
                    poll = "e"
                elif msg:
                    req = pending_reqs.pop(0) if pending_reqs else None
                    canpub = msg[0].split(":")[3] == "1"
                    gate = "-"
                    fits = True
                    if req is not None:
                        if req["payload"] and req["topic"].startswith(PREFIX + "/settings"):
                            gate = gate_for(fam, req["topic"][len(PREFIX + "/settings"):], req["payload"], vlock)
                        # a Get whose value does not fit is answered by an Error response
                        if not req["payload"] and any(p["code"] == "Error" and (p["payload"] or "").startswith("(De)serialization")
                                                       for p in pubs):
                            fits = False
                    poll = poll_tok(req, canpub, fits, gate)
                else:
                    poll = "i"
                items.append(f"U:{int(conn)}:{r['now']}:{int(alive_ok)}:{int(sub_ok)}:{slots}:{big}:{poll}")
                exp.append({"k": "U", "st": r["st"], "ret": r["ret"], "pubs": pubs, "subs": subs, "conn": conn,
                            "lost": lost_window})
                if not conn:
                    lost_window = False
            continue
        r = next_rec("ev") if ev.startswith(("dump:", "set:", "get:")) else None
        if ev.startswith("pub:"):
            f = ev[4:].split(":")
            pending_reqs.append({"topic": uncp(f[0]), "payload": uncp(f[1]), "rt": None if f[2] == "-" else uncp(f[2]),
                                 "cd": None if f[3] == "-" else f[3]})
        elif ev.startswith("dump:"):
            p = ev[5:]
            items.append(f"D:{p}")
            exp.append({"k": "D", "ok": r["tok"] == "D:ok"})
        elif ev == "reset":
            items.append("R")
            exp.append({"k": "R"})
        elif ev.startswith("set:"):
            _, p, j = ev.split(":")
            gate = gate_for(fam, uncp(p), uncp(j), vlock)
            items.append(f"S:{p}:{j}:{gate}")
            exp.append({"k": "S", "ok": r["tok"] == "S:ok"})
        elif ev.startswith("optsome"):
            items.append(f"O:{ev[7:]}")
            exp.append({"k": "O"})
        elif ev == "optnone":
            items.append("O:none")
            exp.append({"k": "O"})
        elif ev.startswith("mode") and fam == 3:
            items.append(f"M:{ev[4]}:{ev[5:] or 0}")
            exp.append({"k": "O"})
        elif ev in ("vlock0", "vlock1"):
            vlock = ev == "vlock1"     # the model learns the validator's behaviour through the per-call gate
        elif ev == "drop":
            pending_reqs.clear()
            lost_window = True
    return items, exp


def compare_model(items, exp, model_out):
    """returns None or a description of the first disagreement"""
    segs = model_out.split(" ; ")
    if len(segs) != len(items) + 1:
        return f"model produced {len(segs)} segments for {len(items)} items: {model_out[:200]}"
    for i, (it, e, seg) in enumerate(zip(items, exp, segs)):
        if e["k"] == "U":
            st, ret, outs = seg.split("|", 2)
            outs = outs.split(" ") if outs else []
            if st != e["st"]:
                return f"item {i} {it}: state {e['st']} (impl) vs {st} (model)"
            if ret != e["ret"]:
                return f"item {i} {it}: update() returned {e['ret']} (impl) vs {ret} (model)"
            if e["lost"]:
                continue   # connection just dropped: what the client wrote is lost on the wire
            want = []
            for o in outs:
                if o == "A":
                    want.append(("alive",))
                elif o == "B":
                    want.append(("sub",))
                else:
                    m = re.fullmatch(r"P\(([^,]*),([^,]*),([^,]*),([^,]*)\)", o)
                    want.append(("pub", uncp(m.group(1)), m.group(2), m.group(3), m.group(4)))
            got = []
            for p in e["pubs"]:
                if p["topic"] == PREFIX + "/alive":
                    got.append(("alive",))
                else:
                    got.append(("pub", p["topic"], p, p["code"], p["cd"]))
            for _ in e["subs"]:
                got.append(("sub",))
            # SUB and PUB interleaving within one update: alive/sub never share an update with other pubs of the arm
            if len(got) != len(want):
                return f"item {i} {it}: impl sent {[g[:2] for g in got]} but model predicts {[w[:2] for w in want]}"
            gs = sorted(got, key=lambda x: x[0] != "sub")
            ws = sorted(want, key=lambda x: x[0] != "sub")
            for g, w in zip(gs, ws):
                if g[0] != w[0]:
                    return f"item {i} {it}: impl {g[:2]} vs model {w[:2]}"
                if g[0] == "pub":
                    p = g[2]
                    if p["topic"] != w[1] or p["code"] != w[3] or p["cd"] != w[4]:
                        return f"item {i} {it}: publication {p['topic']}/{p['code']}/{p['cd']} vs model {w[1]}/{w[3]}/{w[4]}"
                    body = w[2]
                    if body.startswith("t"):
                        if p["payload"] != uncp(body[1:]):
                            return f"item {i} {it}: payload {p['payload']!r} vs model {uncp(body[1:])!r}"
                    elif body.startswith("I"):
                        if not (p["payload"] or "").startswith(f"(De)serialization (depth: {body[1:]}):"):
                            return f"item {i} {it}: payload {p['payload']!r} vs model inner error depth {body[1:]}"
                    elif body == "F":
                        if not (p["payload"] or "").startswith("(De)serializer finalization:"):
                            return f"item {i} {it}: payload {p['payload']!r} vs model finalization error"
        elif e["k"] in ("D", "S"):
            if (seg == "ok") != e["ok"]:
                return f"item {i} {it}: impl {'ok' if e['ok'] else 'err'} vs model {seg}"
    return None
