"""Shared by the tree-level checks: corpus loading, key rendering in every representation,
and the independent Python reading of what the documented behaviour is (no Lean, no miniconf)."""
import json
import os
import subprocess
import sys

from common import HARNESS, VERIF

sys.path.insert(0, os.path.join(HARNESS, "gen"))
import spec as S  # noqa: E402

ALLOWED_D = [0, 1, 2, 3, 4, 5, 6, 8]
SEPS = {"path47": "/", "path46": ".", "path233": "é", "path128512": "😀"}


def load_corpus(random_spec=""):
    """(re)generate the Rust corpus and return its description.  `random_spec` = "<n>:<seed>" adds random
    compositions (thorough tier); call `restore_corpus()` afterwards so that the tracked generated files
    describe the fixed corpus again."""
    env = dict(os.environ)
    env["VERIF_RANDOM_TYPES"] = random_spec
    subprocess.run([sys.executable, os.path.join(HARNESS, "gen", "typegen.py")], check=True, env=env)
    return json.load(open(os.path.join(HARNESS, "gen", "corpus.json")))["types"]


def restore_corpus():
    env = dict(os.environ)
    env["VERIF_RANDOM_TYPES"] = ""
    subprocess.run([sys.executable, os.path.join(HARNESS, "gen", "typegen.py")], check=True, env=env)


def tup(s):
    """json lists -> tuples (schema as produced by spec.schema)"""
    if s[0] == "leaf":
        return ("leaf",)
    if s[0] == "array":
        return ("array", s[1], tup(s[2]))
    return ("node", s[1], [tup(c) for c in s[2]])


def decl_lines(types):
    return [f"T d{t['tid']} {t['tid']} {t['schema_text']}" for t in types]


def enc(s):
    return "e" if s == "" else ".".join(str(ord(c)) for c in s)


def dec(s):
    return "" if s == "e" else "".join(chr(int(t)) for t in s.split("."))


def key_strs(s, path):
    """the canonical string key per level: name if named, decimal index otherwise"""
    out = []
    for i in path:
        n = S.name_of(s, i)
        out.append(n if n is not None else str(i))
        s = S.child(s, i)
    return out


def level_info(s, path):
    """per level: (index, name or None, sibling count)"""
    out = []
    for i in path:
        out.append((i, S.name_of(s, i), S.nchildren(s)))
        s = S.child(s, i)
    return out


def packed_of(s, path):
    """(word, bits) or (None, failing level 1-based)"""
    l, c = 0, 0
    for k, (i, _n, cnt) in enumerate(level_info(s, path)):
        b = S.bits_for(cnt - 1)
        if l + b > 63:
            return None, k + 1
        l += b
        c = (c << b) | i
    return ((2 * c + 1) << (63 - l)) & ((1 << 64) - 1), l


def render(s, path, rep):
    """key spec text of `path` in representation `rep`"""
    ks = key_strs(s, path)
    if rep == "names":
        return "L:" + ",".join("s" + enc(k) for k in ks)
    if rep == "indices":
        return "L:" + ",".join(f"i{i}" for i in path)
    if rep in SEPS:
        sep = SEPS[rep]
        return f"P{ord(sep)}:" + enc("".join(sep + k for k in ks))
    if rep == "json":
        return "J:" + enc(json_text(s, path))
    if rep == "jsonq":  # quoted / bracket mixture
        txt = ""
        for j, (i, n, _c) in enumerate(level_info(s, path)):
            k = n if n is not None else str(i)
            txt += [f"['{k}']", f".'{k}'", f"[{k}]"][j % 3]
        return "J:" + enc(txt)
    if rep == "packed":
        w, _ = packed_of(s, path)
        return None if w is None else f"Q:{w}"
    raise ValueError(rep)


def json_text(s, path):
    return "".join(("." + n) if n is not None else f"[{i}]" for i, n, _c in level_info(s, path))


def show_target(s, path, target, cap):
    """(shown target, None) if the key of `path` fits, else (None, failing level)"""
    info = level_info(s, path)
    if target == "unit":
        return "unit", None
    if target in ("idx", "idxarr", "idx8"):
        cap = min(cap, 64) if target != "idxarr" else cap
        for k, (i, _n, _c) in enumerate(info):
            if k >= cap or (target == "idx8" and i > 255):
                return None, k + 1
        return "I:" + ",".join(str(i) for i in path), None
    if target in SEPS or target == "hpath47":
        sep = SEPS.get(target, "/")
        used, txt = 0, ""
        for k, (i, n, _c) in enumerate(info):
            for piece in (sep, n if n is not None else str(i)):
                b = len(piece.encode())
                if used + b > cap:
                    return None, k + 1
                used += b
                txt += piece
        return "P:" + enc(txt), None
    if target == "json":
        used, txt = 0, ""
        for k, (i, n, _c) in enumerate(info):
            pieces = [".", n] if n is not None else ["[", str(i), "]"]
            for piece in pieces:
                b = len(piece.encode())
                if used + b > cap:
                    return None, k + 1
                used += b
                txt += piece
        return "J:" + enc(txt), None
    if target == "packed":
        w, l = packed_of(s, path)
        if w is None:
            return None, l
        return f"Q:{w}", None
    raise ValueError(target)


def node_type(s, path):
    sub = S.at(s, path)
    return None if sub is None else ("leaf" if sub[0] == "leaf" else "internal")


def all_nodes(s, limit=400):
    """all node paths (leaf and internal), depth first; arrays sampled at boundary indices when long"""
    out = []

    def rec(s, p):
        out.append(tuple(p))
        if s[0] == "leaf":
            return
        n = S.nchildren(s)
        idx = range(n) if n <= 12 else sorted(set([0, 1, 2, 9, 10, 11, n // 2, n - 2, n - 1]))
        for i in idx:
            if len(out) < limit:
                rec(S.child(s, i), p + [i])
    rec(s, [])
    return out


def brute_meta(s):
    lv = S.leaves(s)
    depth = max(len(p) for p in lv)
    length = max(sum(len(k.encode()) for k in key_strs(s, p)) for p in lv)
    bits = max(sum(S.bits_for(c - 1) for _i, _n, c in level_info(s, p)) for p in lv)
    return {"count": len(lv), "depth": depth, "length": length, "bits": bits}


def walk_text(s):
    if s[0] == "leaf":
        return "L"
    if s[0] == "array":
        return f"(h:{s[1]}_{walk_text(s[2])})"
    lk = ("n:" + ",".join(s[1])) if s[1] is not None else f"u:{len(s[2])}"
    return f"({lk}_" + "_".join(walk_text(c) for c in s[2]) + ")"


def pick_D(d):
    return min(x for x in ALLOWED_D if x >= d)
