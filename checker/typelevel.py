"""Type-level checks (C03, C04, C06, C09, C11): cases over the generated corpus and
oracles computed from the spec (harness/gen/spec.py), independent of the Lean model."""
import itertools

from common import *
import treecases as T
import spec as S

REPS = ["names", "indices", "path47", "path46", "path233", "path128512", "json", "jsonq", "packed"]
TARGETS = ["unit", "idx", "idxarr", "idx8", "path47", "path46", "path233", "path128512", "json", "packed"]
BIG = 10 ** 6


def leaf_count(s):
    if s[0] == "leaf":
        return 1
    if s[0] == "array":
        return s[1] * leaf_count(s[2])
    return sum(leaf_count(c) for c in s[2])


def enumerable(types):
    """types small enough for brute-force enumeration (excludes the 2^63+1 element array)"""
    return [t for t in types if leaf_count(T.tup(t["schema"])) <= 100000]


class Cases:
    def __init__(self, types):
        self.types = types
        self.lines = T.decl_lines(types)
        self.n_decl = len(self.lines)
        self.exp = {}       # case id -> expected outcome string (oracle)
        self.why = {}       # case id -> description for failure messages
        self.kind = {}

    def add(self, tid, body, expected, why, kind):
        cid = f"c{len(self.lines)}"
        self.lines.append(f"tk {cid} {tid} {body}")
        self.exp[cid] = expected
        self.why[cid] = why
        self.kind[cid] = kind
        return cid

    def oracle(self, case, out):
        cid = case.split(" ", 2)[1]
        if case.startswith("T "):
            return None if out == "decl" else "declaration refused"
        e = self.exp.get(cid)
        if isinstance(e, str) and e.endswith(" ENDLESS") and out == e:
            return None         # a deliberately capped enumeration of a type too large to enumerate: the expected prefix
        if out in ("panic", "bad-op") or out.endswith("ENDLESS") or "OUTOFFUEL" in out:
            return f"{self.why[cid]}: implementation gave {out[-60:]!r}"
        if e is None:
            return None
        if callable(e):
            return e(out)
        if out != e:
            return f"{self.why[cid]}: implementation gave {out[:300]!r}, the documented behaviour is {e[:300]!r}"
        return None

    def nontrivial(self, case, out):
        if case.startswith("T "):
            return None
        cid = case.split(" ", 2)[1]
        return (self.kind.get(cid, "?"), case.split(" ", 2)[2])


def names_of(s):
    out = set()

    def rec(s):
        if s[0] == "node":
            for n in (s[1] or []):
                out.add(n)
            for ch in s[2]:
                rec(ch)
        elif s[0] == "array":
            rec(s[2])
    rec(s)
    return out


def rep_ok(s, rep):
    """the property quantifies over separators not occurring in a node name (the code
    debug_asserts the same for Path / JsonPath targets)"""
    names = "".join(names_of(s))
    if rep in T.SEPS:
        return T.SEPS[rep] not in names
    if rep in ("json", "jsonq"):
        return not any(ch in names for ch in ".'[]")
    return True


def depth_D(s):
    return T.pick_D(T.brute_meta(s)["depth"])


# ------------------------------------------------------------------------------- C06

def cases_c06(types, rng, tier):
    c = Cases(types)
    for t in types:
        s = T.tup(t["schema"])
        m = T.brute_meta(s)
        exp = (f"count={m['count']} depth={m['depth']} length={m['length']} bits={m['bits']} "
               f"sep1={m['length'] + m['depth']} sep4={m['length'] + 4 * m['depth']} walk={T.walk_text(s)}")
        c.add(t["tid"], "meta", exp, f"metadata of {t['label']} ({t['rust']})", "meta")
        # buffers sized from the metadata hold the key of every node
        nodes = T.all_nodes(s)
        for p in nodes:
            typ = T.node_type(s, p)
            src = T.render(s, p, "indices")
            for target, cap in (("idx", m["depth"]), ("path47", m["length"] + m["depth"]),
                                ("path128512", m["length"] + 4 * m["depth"]), ("json", BIG)):
                shown, fail = T.show_target(s, p, target, cap)
                assert fail is None, (t["label"], p, target)
                c.add(t["tid"], f"xcode {src} {target} {cap}", f"{typ} {len(p)} {shown}",
                      f"{target} sized from Metadata for node {p} of {t['label']}", "sized:" + target)
            if m["bits"] <= 63:
                shown, fail = T.show_target(s, p, "packed", 0)
                c.add(t["tid"], f"xcode {src} packed 0", f"{typ} {len(p)} {shown}",
                      f"packed key (max_bits={m['bits']}) for node {p} of {t['label']}", "sized:packed")
        # one byte / one slot less fails for the deepest / longest leaf (tightness)
        lv = S.leaves(s)
        deepest = max(lv, key=len)
        if m["depth"] > 0:
            _sh, fail = T.show_target(s, deepest, "idx", m["depth"] - 1)
            c.add(t["tid"], f"xcode {T.render(s, deepest, 'indices')} idx {m['depth'] - 1}", f"err tooShort {fail}",
                  f"max_depth-1 slots must not hold the deepest key of {t['label']}", "tight:idx")
    return c


# ------------------------------------------------------------------------------- C03

def iter_expect(s, D, root, target, cap, polls=2, exact=False):
    """expected output of the `iter` op"""
    sub = S.at(s, root)
    nodes = [(tuple(root) + p, k) for p, k in S.nodes_upto(sub, D - len(root))] if len(root) <= D else None
    items = []
    count = T.brute_meta(s)["count"]
    for p, k in nodes:
        if exact:
            items.append(f"len{count}")
            count -= 1
        shown, fail = T.show_target(s, p, target, cap if target != "hpath47" else 3)
        items.append(f"{k}{len(p)}@{shown}" if fail is None else f"caperr{fail}")
    if exact:
        items.append(f"len{count}")
        items.append(f"extra0 len{count}")
    else:
        items.append("extra0")
    return " ".join(items)


def iterable(types):
    """types whose depth the harness can instantiate an iterator for"""
    return [t for t in types if T.brute_meta(T.tup(t["schema"]))["depth"] <= 8]


def cases_c03(types, rng, tier):
    types = iterable(types)
    c = Cases(types)
    for t in types:
        s = T.tup(t["schema"])
        m = T.brute_meta(s)
        D = T.pick_D(m["depth"])
        for target in ("idx", "idxarr", "path47", "path128512", "json", "packed", "unit"):
            if target == "packed" and m["bits"] > 63:
                continue
            for exact in (False, True):
                exp = iter_expect(s, D, (), target, BIG if target != "idxarr" else D, exact=exact)
                c.add(t["tid"], f"iter {D} - {target} {BIG if target != 'idxarr' else D} 2 {int(exact)} {m['count'] + 5}",
                      exp, f"nodes::<{target}, {D}>() of {t['label']} must yield every leaf once, in order"
                      + (" with exact len()" if exact else ""), "iter:" + target)
        # every yielded key resolves to a leaf of the stated depth, and every leaf key is among them
        for p in (S.leaves(s) if m["count"] <= 40 else rng.sample(S.leaves(s), 40)):
            for rep in ("names", "path47", "json", "packed"):
                src = T.render(s, p, rep)
                if src is None:
                    continue
                c.add(t["tid"], f"xcode {src} unit 0", f"leaf {len(p)} unit",
                      f"yielded {rep} key of leaf {p} of {t['label']} must resolve to a leaf of that depth", "resolve:" + rep)
    return c


# ------------------------------------------------------------------------------- C11

def cases_c11(types, rng, tier):
    types = iterable(types)
    c = Cases(types)
    for t in types:
        s = T.tup(t["schema"])
        m = T.brute_meta(s)
        nodes = T.all_nodes(s, limit=60 if tier == "quick" else 400)
        Ds = [d for d in T.ALLOWED_D if d <= m["depth"] + 2]
        for D in Ds:
            # depth-limited from the tree root, every target kind
            for target in ("idx", "path47", "json", "unit"):
                c.add(t["tid"], f"iter {D} - {target} {BIG} 3 0 {m['count'] + 5}",
                      iter_expect(s, D, (), target, BIG),
                      f"nodes::<{target}, {D}>() of {t['label']}: leaves of depth ≤ {D} and internal nodes at depth {D}",
                      "limit")
            # exact size only when permitted, otherwise it must panic (documented)
            # rooted at every node, root key given in several representations
            for p in nodes:
                if len(p) > D:
                    # the root key does not fit the iterator state
                    c.add(t["tid"], f"iter {D} {T.render(s, p, 'indices')} path47 {BIG} 3 0 {m['count'] + 5}",
                          f"rooterr tooShort {D + 1}", f"root {p} deeper than D={D} in {t['label']}", "root:toolong")
                    continue
                for rep in (("indices", "names") if tier == "quick" else ("indices", "names", "path47", "json", "packed")):
                    src = T.render(s, p, rep)
                    if src is None:
                        continue
                    c.add(t["tid"], f"iter {D} {src} path47 {BIG} 3 0 {m['count'] + 5}",
                          iter_expect(s, D, p, "path47", BIG),
                          f"iteration rooted at {p} ({rep}) with D={D} in {t['label']}", "root:" + rep)
        # capacities from too small for the first key to sufficient
        D = T.pick_D(m["depth"])
        # roots given as separator paths with MULTI-BYTE separators and as packed words; packed target (a key that
        # fills the word exactly must still be yielded)
        for p in nodes[:25]:
            if len(p) > D:
                continue
            for rep in ("path233", "path128512", "packed", "json"):
                src = T.render(s, p, rep) if rep_ok(s, rep) else None
                if src is None:
                    continue
                c.add(t["tid"], f"iter {D} {src} idx {BIG} 3 0 {m['count'] + 5}", iter_expect(s, D, p, "idx", BIG),
                      f"iteration rooted at {p} ({rep}) with D={D} in {t['label']}", "root:" + rep)
        # `root()` on an iterator that was already used, or already rooted elsewhere: iteration rooted at a node is the
        # leaves at or below it, whatever the iterator did before
        roots = [p for p in nodes if len(p) <= D]
        for _ in range(12 if tier == "quick" else 60):
            if not roots:
                break
            p = rng.choice(roots)
            pre = rng.choice([1, 2, 3, m["count"] // 2 + 1, m["count"], m["count"] + 2])
            earlier = [rng.choice(roots) for _ in range(rng.choice([0, 0, 1, 2]))]
            specs = [T.render(s, q, rng.choice(["indices", "names"])) for q in earlier + [p]]
            hist = f"H{pre};" + ";".join(specs)
            exact = 1 if (p == () and m["depth"] <= D and rng.random() < 0.5) else 0
            exp = iter_expect(s, D, p, "idx", BIG)
            if exact:
                exp = None     # the exact-size trace is compared with the model only; it must not panic (Cases.oracle)
            c.add(t["tid"], f"iter {D} {hist} idx {BIG} 3 {exact} {m['count'] + 5}", exp,
                  f"{pre} x next(), then root() at {earlier + [p]} in turn (D={D}) in {t['label']}: must be the iteration rooted at {p}",
                  "root:reroot")
        if m["bits"] <= 63 and m["depth"] <= 8:
            c.add(t["tid"], f"iter {D} - packed 0 3 0 {m['count'] + 5}", iter_expect(s, D, (), "packed", 0),
                  f"nodes::<Packed, {D}>() of {t['label']} (max_bits {m['bits']})", "target:packed")
        full_path = m["length"] + m["depth"]
        caps_idx = list(range(0, m["depth"] + 1))
        caps_path = sorted(set(list(range(0, min(full_path, 12) + 1)) + [full_path - 1, full_path]))
        for cap in caps_idx:
            c.add(t["tid"], f"iter {D} - idx {cap} 3 0 {m['count'] + 5}", iter_expect(s, D, (), "idx", cap),
                  f"{cap} index slots on {t['label']}: too-deep nodes are error items, all others still yielded", "cap:idx")
        for cap in caps_path:
            if cap < 0:
                continue
            c.add(t["tid"], f"iter {D} - path47 {cap} 3 0 {m['count'] + 5}", iter_expect(s, D, (), "path47", cap),
                  f"{cap}-byte path buffer on {t['label']}", "cap:path")
        c.add(t["tid"], f"iter {D} - hpath47 3 3 0 {m['count'] + 5}", iter_expect(s, D, (), "hpath47", 3),
              f"heapless::String<3> path target on {t['label']}", "cap:hpath")
        # invalid roots
        c.add(t["tid"], f"iter {D} L:i{S.nchildren(s) if s[0] != 'leaf' else 0} idx {BIG} 1 0 100",
              "rooterr notFound 1" if s[0] != "leaf" else "rooterr tooLong 0", f"invalid root on {t['label']}", "root:bad")
    return c


def cases_c11_wide(c, all_types):
    """index-width boundaries: very wide levels (beyond u8/u16/u32 indices)"""
    by = {t["label"]: t for t in all_types}
    w = by.get("arr_wide2")
    if w:
        for i in (255, 256, 65535, 65536, 69999):
            c.add(w["tid"], f"iter 2 L:i{i} idx {BIG} 2 0 10", f"leaf2@I:{i},0 leaf2@I:{i},1 extra0",
                  f"iteration rooted at element {i} of [[_; 2]; 70000]", "wide:root")
            c.add(w["tid"], f"iter 1 L:i{i} idx {BIG} 2 0 10", f"internal1@I:{i} extra0",
                  f"depth-limited iteration rooted at element {i} of [[_; 2]; 70000]", "wide:root")
        c.add(w["tid"], f"iter 2 L:i70000 idx {BIG} 1 0 10", "rooterr notFound 1", "root beyond a 70000 element array", "wide:root")
        c.add(w["tid"], f"iter 2 - idx {BIG} 2 0 200000",
              "n=140001 leaf2@I:0,0 leaf2@I:0,1 leaf2@I:1,0 ... leaf2@I:69999,0 leaf2@I:69999,1 extra0".replace(
                  "... leaf2@I:69999,0", "... leaf2@I:69998,1 leaf2@I:69999,0"),
              "full iteration of [[_; 2]; 70000] (crosses the 16-bit index boundary)", "wide:full")
        c.add(w["tid"], f"iter 1 - unit 0 2 0 200000",
              "n=70001 internal1@unit internal1@unit internal1@unit ... internal1@unit internal1@unit internal1@unit extra0",
              "depth-limited iteration of [[_; 2]; 70000]", "wide:full")
    q = by.get("bits63_cube")
    if q:
        s3 = T.tup(q["schema"])
        top = 2 ** 21 - 1
        for p in ((top, top, top), (0, 0, 0), (top, 0, 1), (1, top, top - 1)):
            w, bits = T.packed_of(s3, p)
            assert bits == 63
            c.add(q["tid"], f"iter 3 {T.render(s3, p, 'indices')} packed 0 2 0 10", f"leaf3@Q:{w} extra0",
                  f"iteration into Packed rooted at leaf {p} of [[[_; 2^21]; 2^21]; 2^21]: the 63-bit key fills the word exactly",
                  "wide:packed63")
            c.add(q["tid"], f"iter 3 Q:{w} idx {BIG} 2 0 10", f"leaf3@I:{','.join(map(str, p))} extra0",
                  f"iteration rooted by the 63-bit packed key of leaf {p}", "wide:packed63")
        w2, _ = T.packed_of(s3, (5, top))
        c.add(q["tid"], f"iter 2 L:i5,i{top} packed 0 2 0 10", f"internal2@Q:{w2} extra0",
              "depth-limited (D=2) iteration into Packed rooted at an internal node of the 2^63-leaf cube", "wide:packed63")
    h = by.get("arr_huge")
    if h:
        for i in (255, 256, 65535, 65536, 2 ** 32 - 1, 2 ** 32, 2 ** 32 + 1, 2 ** 63):
            c.add(h["tid"], f"iter 1 L:i{i} idx {BIG} 2 0 10", f"leaf1@I:{i} extra0",
                  f"iteration rooted at element {i} of a 2^63+1 element array", "wide:root")
        c.add(h["tid"], f"iter 1 L:i{2 ** 63 + 1} idx {BIG} 2 0 10", "rooterr notFound 1", "root beyond the huge array", "wide:root")


def cases_c03_wide(c, all_types):
    """types too large to enumerate: the START of the enumeration (first leaves, in order, then the item cap of the run)
    and complete enumerations below deep roots; `bits63_cube`: Metadata::max_bits = 63 says Packed suffices, so every
    leaf must be yielded as a key, none as a capacity error"""
    by = {t["label"]: t for t in all_types}
    q = by.get("bits63_cube")
    if q:
        s3 = T.tup(q["schema"])
        top = 2 ** 21 - 1
        first = [(0, 0, i) for i in range(5)]
        c.add(q["tid"], "iter 3 - packed 0 1 0 4", " ".join(f"leaf3@Q:{T.packed_of(s3, p)[0]}" for p in first) + " ENDLESS",
              "nodes::<Packed, 3>() of [[[_; 2^21]; 2^21]; 2^21] (max_bits = 63): the first leaves, in order, as keys", "wide:first")
        c.add(q["tid"], f"iter 3 - idx {BIG} 1 0 4", " ".join(f"leaf3@I:{','.join(map(str, p))}" for p in first) + " ENDLESS",
              "nodes::<Indices, 3>() of the 2^63-leaf cube: the first leaves, in order", "wide:first")
        last = [(top, top, top - 2), (top, top, top - 1), (top, top, top)]
        c.add(q["tid"], f"iter 3 L:i{top},i{top},i{top - 2} packed 0 2 0 10", f"leaf3@Q:{T.packed_of(s3, last[0])[0]} extra0",
              "rooted at one of the last leaves of the cube, Packed keys", "wide:last")
    w = by.get("arr_wide2")
    if w:
        s2 = T.tup(w["schema"])
        c.add(w["tid"], f"iter 2 - packed 0 2 0 200000",
              "n=140001 " + " ".join(f"leaf2@Q:{T.packed_of(s2, p)[0]}" for p in ((0, 0), (0, 1), (1, 0))) + " ... "
              + " ".join(f"leaf2@Q:{T.packed_of(s2, p)[0]}" for p in ((69998, 1), (69999, 0), (69999, 1))) + " extra0",
              "full Packed enumeration of [[_; 2]; 70000]: 140000 leaves, each once", "wide:full")
    d = by.get("bits64_deep")
    if d:
        # max_bits = 64 > 63: Packed does NOT suffice and the property promises nothing for it; Indices do
        first = [(0, 0, 0, i) for i in range(4)]
        c.add(d["tid"], f"iter 4 - idx {BIG} 1 0 3", " ".join(f"leaf4@I:{','.join(map(str, p))}" for p in first) + " ENDLESS",
              "nodes::<Indices, 4>() of the 4 x 16 bit array: the first leaves, in order", "wide:first")


def clone_cases(rep):
    """a CLONE of a rooted, partly consumed iterator continues exactly like the original (stream `ic`, fixed type
    `[[[Leaf<u8>; 2]; 3]; 2]`; oracle: the rest of the rooted enumeration, computed here)"""
    import itertools
    leaves = list(itertools.product(range(2), range(3), range(2)))
    lines, want = [], {}
    for root in [(), (0,), (1,), (0, 1), (1, 2), (1, 2, 1), (0, 0, 0)]:
        below = [l for l in leaves if l[:len(root)] == root]
        for k in range(0, len(below) + 2):
            cid = f"ic{len(lines)}"
            rest = ";".join(",".join(map(str, l)) for l in below[k:])
            lines.append(f"ic {cid} {','.join(map(str, root)) or '-'} {k}")
            want[cid] = f"{rest}|{rest}"
    _rc, out, _err = run_lines(harness_bin("dev"), lines)
    for l in lines:
        cid = l.split()[1]
        if out.get(cid) != want[cid]:
            rep.violation("oracle", {"case": l, "impl": str(out.get(cid))[:300],
                                     "why": f"clone of an iterator rooted at {l.split()[2]} after {l.split()[3]} items: clone|original "
                                            f"yielded {str(out.get(cid))[:200]!r}, the rest of the rooted iteration is {want[cid][:200]!r}"})
            break


# ------------------------------------------------------------------------------- C04

def cases_c04(types, rng, tier):
    c = Cases(types)
    for t in types:
        s = T.tup(t["schema"])
        m = T.brute_meta(s)
        nodes = T.all_nodes(s, limit=90 if tier == "quick" else 300)
        for p in nodes:
            typ = T.node_type(s, p)
            info = T.level_info(s, p)
            cb = ",".join(f"{i}:{T.enc(n) if n is not None else '-'}:{cnt}" for i, n, cnt in info) or "-"
            res = f"ok {len(p)}" if typ == "leaf" else f"tooShort {len(p)}"
            for rep in REPS:
                src = T.render(s, p, rep) if rep_ok(s, rep) else None
                if src is None:
                    continue
                # callback contract: once per consumed key with (index, name, len)
                c.add(t["tid"], f"trav {src} -", f"{res} cb={cb}",
                      f"traverse_by_key callback log for node {p} of {t['label']} via {rep}", "cb:" + rep)
                for target in TARGETS:
                    if not rep_ok(s, target):
                        continue
                    shown, fail = T.show_target(s, p, target, BIG if target != "idxarr" else 8)
                    cap = BIG if target != "idxarr" else 8
                    exp = f"{typ} {len(p)} {shown}" if fail is None else f"err tooShort {fail}"
                    c.add(t["tid"], f"xcode {src} {target} {cap}", exp,
                          f"transcode {rep} -> {target} for node {p} of {t['label']}", f"x:{rep}>{target}")
            # chained key sources behave as their concatenation, at every split point
            for k in range(len(p) + 1):
                for ra, rb in (("names", "indices"), ("indices", "path47"), ("packed", "names"), ("json", "packed")):
                    a = T.render(s, p[:k], ra)
                    sub = S.at(s, p[:k])
                    b = T.render(sub, p[k:], rb)
                    if a is None or b is None:
                        continue
                    if ra == "packed" and k == 0:
                        pass
                    c.add(t["tid"], f"trav C[{a}][{b}] -", f"{res} cb={cb}",
                          f"Chain({ra} prefix of {k} keys, {rb} suffix) for node {p} of {t['label']}", f"chain:{ra}+{rb}")
            # Chain falls through to its second part ONLY when the first is exhausted: a key of the first part that
            # does not resolve is NotFound at its level even if the second part holds the keys that would
            for k in range(len(p)):
                cnt = info[k][2]
                cbk = ",".join(f"{i}:{T.enc(n) if n is not None else '-'}:{c_}" for i, n, c_ in info[:k]) or "-"
                sub = S.at(s, p[:k])
                b = T.render(sub, p[k:], "indices")
                for bad, what in ((f"i{cnt}", "index = sibling count"), ("s" + T.enc("zz\u00e9nope"), "unknown name"),
                                  ("i-1", "negative index")):
                    a = "L:" + ",".join([f"i{i}" for i in p[:k]] + [bad])
                    c.add(t["tid"], f"trav C[{a}][{b}] -", f"notFound {k + 1} cb={cbk}",
                          f"Chain whose first part fails ({what}) at level {k + 1} for node {p} of {t['label']}: "
                          f"the second part must not be consulted", "chain:bad-first")
            # a key source ends at the first `None` of the iterator it was made from, even if that iterator is not fused and
            # would yield more afterwards (Chain polls its first part again for every later key)
            for k in range(len(p) + 1):
                a = "N:" + ",".join([f"i{i}" for i in p[:k]] + ["-", "i0", "i1"])
                b = T.render(S.at(s, p[:k]), p[k:], "indices")
                c.add(t["tid"], f"trav C[{a}][{b}] -", f"{res} cb={cb}",
                      f"Chain(non-fused iterator yielding {list(p[:k])} then None then more, indices of the rest) for node {p} of "
                      f"{t['label']}", "chain:holey")
            # ... and a chain is exhausted only when both parts are: surplus keys in the second part are TooLong
            if typ == "leaf":
                a = T.render(s, p, "names")
                c.add(t["tid"], f"trav C[{a}][L:i0] -", f"tooLong {len(p)} cb={cb}",
                      f"Chain(full key of leaf {p}, one surplus key) of {t['label']}", "chain:surplus")
                c.add(t["tid"], f"trav C[L:][C[{a}][L:i0]] -", f"tooLong {len(p)} cb={cb}",
                      f"Chain(empty, Chain(full key of leaf {p}, one surplus key)) of {t['label']}", "chain:surplus")
            # callback failing at the k-th call is reported at depth k+1 (Inner)
            for k in range(len(p)):
                cbk = ",".join(f"{i}:{T.enc(n) if n is not None else '-'}:{cnt}" for i, n, cnt in info[:k]) or "-"
                c.add(t["tid"], f"trav {T.render(s, p, 'indices')} {k}", f"inner {k + 1} cb={cbk}",
                      f"callback failure at call {k} for node {p} of {t['label']}", "cbfail")
    return c


# ------------------------------------------------------------------------------- C09

def cases_c09(types, rng, tier):
    c = Cases(types)
    for t in types:
        s = T.tup(t["schema"])
        m = T.brute_meta(s)
        if m["bits"] > 63:
            continue
        nodes = T.all_nodes(s, limit=400)
        seen = {}
        # the bound itself: the implementation's max_bits must cover (and be attained by) the widest key
        widest = max(T.packed_of(s, p)[1] for p in S.leaves(s))

        def chk_bits(out, widest=widest, label=t["label"]):
            mm = re.search(r"bits=(\d+)", out)
            if not mm:
                return f"no metadata for {label}: {out[:80]!r}"
            if int(mm.group(1)) != widest:
                return f"Metadata::max_bits of {label} is {mm.group(1)} but its widest packed key uses {widest} bits"
            return None
        c.add(t["tid"], "meta", chk_bits, f"max_bits bound of {t['label']}", "maxbits")
        for p in nodes:
            w, l = T.packed_of(s, p)
            assert w is not None and w not in seen, (t["label"], p)
            seen[w] = p
            assert l <= m["bits"]
            typ = T.node_type(s, p)
            c.add(t["tid"], f"xcode {T.render(s, p, 'indices')} packed 0", f"{typ} {len(p)} Q:{w}",
                  f"packed key of node {p} of {t['label']}", "enc")
            c.add(t["tid"], f"xcode Q:{w} idx {BIG}", f"{typ} {len(p)} I:{','.join(map(str, p))}",
                  f"packed key {w} of {t['label']} must decode to node {p}", "dec")
        lv = S.leaves(s)
        ws = [T.packed_of(s, p)[0] for p in lv]
        assert ws == sorted(ws) and len(set(ws)) == len(ws), t["label"]
        if m["depth"] <= 8:
            D = T.pick_D(m["depth"])
            c.add(t["tid"], f"iter {D} - packed 0 1 0 {m['count'] + 5}", iter_expect(s, D, (), "packed", 0),
                  f"nodes::<Packed>() of {t['label']}: numeric order of the keys = iteration order", "order")
    return c


# ------------------------------------------------------------------------------- runner

def UNFIT_TIDS(types):
    """declaration prefixes of the corpus types that have a node with more than 2^63 children (F5 region)"""
    return tuple(f"T d{t['tid']} " for t in types if not enumerable([t]))


# ------------------------------------------------------------------------------- derive output vs declaration

TRANSPARENT = ("Option", "Box", "core::cell::Cell", "core::cell::RefCell", "std::rc::Rc", "std::sync::Arc", "std::rc::Weak",
               "std::sync::Weak", "std::sync::Mutex", "std::sync::RwLock", "Cell", "RefCell", "Rc", "Arc", "Mutex", "RwLock")
NAMED_BUILTINS = {"core::ops::Range": (["start", "end"], [0, 0]), "core::ops::RangeInclusive": (["start", "end"], [0, 0]),
                  "core::ops::RangeFrom": (["start"], [0]), "core::ops::RangeTo": (["end"], [0]),
                  "core::ops::Bound": (["Included", "Excluded"], [0, 0]), "Result": (["Ok", "Err"], [0, 1])}


def split_top(s, sep=","):
    out, depth, cur = [], 0, ""
    for ch in s:
        if ch in "<([":
            depth += 1
        elif ch in ">)]":
            depth -= 1
        if ch == sep and depth == 0:
            out.append(cur)
            cur = ""
        else:
            cur += ch
    if cur.strip():
        out.append(cur)
    return [x.strip() for x in out]


def resolve_type(ty, derived):
    """the schema a Rust type text denotes, reading derived types from the derive's OUTPUT (`derived`: ident -> reading)
    and the built-in containers as documented"""
    ty = re.sub(r"\s+", "", ty)
    ty = re.sub(r"^&(mut)?('[a-z_]+)?", "", ty)
    if ty.startswith("[") and ty.endswith("]"):
        inner, n = split_top(ty[1:-1], ";")
        return ("array", int(re.sub(r"usize$", "", n)), resolve_type(inner, derived))
    if ty.startswith("(") and ty.endswith(")"):
        parts = split_top(ty[1:-1])
        return ("node", None, [resolve_type(p, derived) for p in parts])
    m = re.fullmatch(r"([A-Za-z_0-9:]+)(?:<(.*)>)?", ty)
    if not m:
        raise ValueError(f"type text {ty!r}")
    head, args = m.group(1), split_top(m.group(2)) if m.group(2) else []
    args = [a for a in args if not a.startswith("'")]
    if head in ("Leaf", "StrLeaf", "Deny"):
        return ("leaf",)
    if head in TRANSPARENT:
        return resolve_type(args[0], derived)
    if head in ("std::borrow::Cow", "Cow"):
        return resolve_type(args[0], derived)
    if head in NAMED_BUILTINS:
        names, kids = NAMED_BUILTINS[head]
        return ("node", list(names), [resolve_type(args[k], derived) for k in kids])
    if head in derived:
        d = derived[head]
        kids = [resolve_type(c, derived) for c in d["children"]]
        if d["flatten"]:
            return kids[0]
        return ("node", list(d["lookup"][1]) if d["lookup"][0] == "named" else None, kids)
    raise ValueError(f"type {head!r} is neither derived in the corpus nor a known container")


def derive_reading_check(rep, all_types):
    """What the derive macro GENERATES for every corpus type (read from its expansion: lookup names, child types, arm order)
    must denote the schema the corpus generator reads off the type DEFINITION — which is the schema the Lean model and
    every oracle of this run use for that type."""
    sys.path.insert(0, os.path.join(VERIF, "extract"))
    import gen_derive
    types_rs = os.path.join(HARNESS, "src", "gen_types.rs")
    try:
        derived = {d["ident"]: d for d in gen_derive.structure(types_rs)}
    except Exception as e:  # Unsupported: reported by the proof layer as well
        rep.violation("proof", {"theorem_or_translator": f"gen_derive: {type(e).__name__}: {e}"}, no_input=True)
        return {}
    roots = dict(re.findall(r"pub type C(\d+) = (.*);", open(types_rs).read()))
    bad, n = [], 0
    for t in all_types:
        text = roots.get(str(t["tid"]))
        if text is None:
            bad.append({"type": t["label"], "why": "no `pub type C<tid>` in gen_types.rs"})
            continue
        try:
            got = resolve_type(text, derived)
        except ValueError as e:
            bad.append({"type": t["label"], "why": str(e)})
            continue
        n += 1
        if got != T.tup(t["schema"]):
            bad.append({"type": t["label"], "rust": t["rust"][:300], "derive_output_denotes": repr(got)[:400],
                        "declaration_denotes": repr(T.tup(t["schema"]))[:400]})
    # value level: arm i of every by-key function must use the place / accessor / validator / denial of the i-th retained
    # field (variant) of the DEFINITION — the corpus generator's own record of what it wrote (`decls` in corpus.json)
    decls = json.load(open(os.path.join(HARNESS, "gen", "corpus.json"))).get("decls", {})
    OPS = {"ser": ("ser", "serialize", False), "de": ("de", "deserialize", True), "ref": ("any", "ref_any", False),
           "mut": ("any", "mut_any", True)}
    n_arms = 0
    for ident, dc in decls.items():
        d = derived.get(ident)
        if d is None:
            bad.append({"type": ident, "why": "declared in the corpus but no derive output was read"})
            continue
        if d["flatten"] != dc["flat"] or len(d["children"]) != len(dc["arms"]):
            bad.append({"type": ident, "why": f"flatten / number of children: derive output {d['flatten']}, {len(d['children'])}; "
                                              f"definition {dc['flat']}, {len(dc['arms'])}"})
            continue
        for op, (trait, denyname, mutating) in OPS.items():
            if trait not in dc["traits"]:
                continue
            got = d["value"][op]
            if got["enum"] != (dc["kind"] == "enum") or got["default"] != ("absent0" if dc["kind"] == "enum" else "unreachable"):
                bad.append({"type": ident, "why": f"{op}: match shape {got['enum']}/{got['default']} for a {dc['kind']}"})
                continue
            for i, (ga, da) in enumerate(zip(got["arms"], dc["arms"])):
                n_arms += 1
                if denyname in da["deny"]:
                    want = {"deny": da["deny"][denyname], "variant": da["variant"]}
                else:
                    want = {"place": da["place_mut"] if mutating else da["place"],
                            "get": da["get_mut"] if mutating else da["get"],
                            "validate": da["validate"] if op == "de" else 0, "variant": da["variant"]}
                if ga != want:
                    bad.append({"type": ident, "why": f"{op} arm {i}: the derive output uses {ga}, the definition's {i}-th retained "
                                                      f"field / variant ({da['name']!r}) requires {want}"})
            names = [a["name"] for a in dc["arms"]]
            if not d["flatten"] and dc["kind"] != "tstruct" and list(d["lookup"][1]) != names:
                bad.append({"type": ident, "why": f"lookup names {d['lookup'][1]} vs definition {names}"})
    for b in bad[:5]:
        rep.violation("oracle", {"case": f"derive({b['type']})", "why": "the code generated by the derive macro for this type does "
                                 "not have the lookup / children / arm order its declaration denotes", **b})
    return {"derived_types_read": len(derived), "corpus_types_compared": n, "value_level_arms_compared": n_arms,
            "mismatches": len(bad)}


def run_typelevel(rep, prop_id, cases_fn, rng, tier, rule, assumptions, allow_bv=False):
    if tier == "thorough":
        try:
            return _run_typelevel(rep, prop_id, cases_fn, rng, tier, rule, assumptions, allow_bv,
                                  random_spec=f"60:{rep.seed * 100 + int(prop_id[1:])}")
        finally:
            T.restore_corpus()
    return _run_typelevel(rep, prop_id, cases_fn, rng, tier, rule, assumptions, allow_bv)


def _run_typelevel(rep, prop_id, cases_fn, rng, tier, rule, assumptions, allow_bv=False, random_spec=""):
    all_types = T.load_corpus(random_spec)
    types = enumerable(all_types)
    pl = proof_layer(prop_id, allow_bv=allow_bv, thorough=(tier == "thorough"))
    c = cases_fn(types, rng, tier)
    if prop_id in ("C11", "C03"):
        for t in all_types:
            if t not in types:
                c.lines.insert(c.n_decl, f"T d{t['tid']} {t['tid']} {t['schema_text']}")
                c.n_decl += 1
        if prop_id == "C11":
            cases_c11_wide(c, all_types)
        else:
            cases_c03_wide(c, all_types)
    r = paired_run(rep, c.lines, c.oracle, c.nontrivial)
    if prop_id == "C11":
        clone_cases(rep)
    for f in pl["failures"]:
        rep.violation("proof", {"theorem_or_translator": f, "property_module": f"MiniconfVerif.Props.{prop_id}"},
                      no_input=True)
    n = len(c.lines) - c.n_decl
    hyp = hypothesis_check(rep, c.lines[:c.n_decl], expect_unfit=UNFIT_TIDS(all_types))
    drv = derive_reading_check(rep, all_types)
    rep.coverage = {
        "hypotheses_on_corpus": hyp,
        "derive_output_vs_declaration": drv,
        "obligations": pl["obligations"],
        "discharged": pl["discharged"] if not pl["failures"] else min(pl["discharged"], max(pl["obligations"] - 1, 0)),
        "checker_cmd": f"cd lean && lake build MiniconfVerif.Props.{prop_id} && lake env lean MiniconfVerif/Audit/{prop_id}.lean",
        "trusted_base": ["Lean 4.33.0 kernel"] + axiom_summary(pl) + [
            "hand-written Lean model (Model/Schema, Keys, Transcode, Iter, Meta) tied to the code by this run's "
            "correspondence stream `tk` over the generated corpus",
            "harness/gen/typegen.py + spec.py (corpus generator and independent schema reading), harness/src/rt.rs"],
        "theorems": pl["theorems"],
        "evaluations": n,
        "distinct_nontrivial": r["distinct"] if r else 0,
        "programs": len(types),
        "rule": rule,
        "samples": [c.lines[c.n_decl], c.lines[c.n_decl + n // 2], c.lines[-1]],
        "traces_validated_against_impl": (r["n"] - r["diffs"] - c.n_decl) if r else 0,
        "model_disagreements": r["diffs"] if r else None,
        "oracle_failures": r["oracle_failures"] if r else None,
        "input_distribution": r["hist"] if r else {},
        "corpus": [t["label"] for t in types],
        "random_types": random_spec or None,
    }
    rep.assumptions = assumptions
