"""Independent reference interpreter for the value-level properties (C01, C02, C05, C12):
a top-down walk over the generated instance description (corpus.json), written from the
documentation of miniconf (Traversal docs, derive attribute docs, container docs) — it
shares no code with the Lean model.  Produces the expected harness output text."""
import copy
import json
import os
import sys

from common import HARNESS

sys.path.insert(0, os.path.join(HARNESS, "gen"))
import values as VAL  # noqa: E402

GATE_MSG = {
    "cell_ref": "Can't leak out of Cell", "refcell_ref": "Can't leak out of RefCell", "borrowed": "Borrowed",
    "taken": "Reference is taken", "poisoned": "Poisoned", "mutex_ref": "Can't leak out of Mutex",
    "rwlock_ref": "Can't leak out of RwLock",
}


def enc(s):
    return "e" if s == "" else ".".join(str(ord(c)) for c in s)


def norm_val(ty, v):
    """corpus.json turns tuples into lists"""
    if ty in ("f32", "f64", "opti32", "uenum", "strleaf") and isinstance(v, list):
        return tuple(v)
    if ty == "unit":
        return ()
    return v


def vtext(leaf):
    return VAL.val_text(leaf["ty"], norm_val(leaf["ty"], leaf["v"]))


# ------------------------------------------------------------------------------- key lookup

def parse_usize(s):
    t = s[1:] if s.startswith("+") else s
    if not t or not all(c in "0123456789" for c in t):
        return None
    v = int(t)
    return v if v < 2 ** 64 else None


def find_index(key, names, n):
    """key: ('s', str) | ('i', int); returns index or None (NotFound)"""
    if key[0] == "i":
        v = key[1]
        return v if 0 <= v < 2 ** 64 and v < n else None
    if names is not None:
        return names.index(key[1]) if key[1] in names else None
    v = parse_usize(key[1])
    return v if v is not None and v < n else None


# ------------------------------------------------------------------------------- gates

def gate_block(g, op, closed):
    """returns None or (kind, msg)"""
    if g == "option":
        return ("absent", None) if closed else None
    if g in ("box", "cow"):
        return None
    if g == "cell":
        return ("access", GATE_MSG["cell_ref"]) if op == "ref" else None
    if g == "refcell":
        if op == "ref":
            return ("access", GATE_MSG["refcell_ref"])
        if op == "ser" and closed:
            return ("access", GATE_MSG["borrowed"])
        return None
    if g in ("rc", "arc"):
        if op in ("de", "mut") and closed:
            return ("access", GATE_MSG["taken"])
        return None
    if g in ("rcweak", "arcweak"):
        if closed:
            return ("absent", None)
        return None if op == "ser" else ("access", GATE_MSG["taken"])
    if g in ("mutex", "rwlock"):
        if op == "ref":
            return ("access", GATE_MSG[g + "_ref"])
        return ("access", GATE_MSG["poisoned"]) if closed else None
    raise ValueError(g)


# ------------------------------------------------------------------------------- the walk

class Ctx:
    def __init__(self, op, gates, leaf_io):
        self.op = op              # ser de ref mut
        self.gates = gates        # {aid: set(modes)}
        self.leaf_io = leaf_io    # callable(leaf dict, op) -> ("ok", extra) | ("inner",) | ("invalid", msg) ; may mutate leaf
        self.log = []
        self.leaf = None


def err(kind, depth, msg=None):
    return {"kind": kind, "depth": depth, "msg": msg}


def walk(node, keys, ctx, consumed):
    """top-down; `consumed` = number of keys consumed so far.
    returns ("ok", levels_below) or ("err", errdict)"""
    k = node["k"]
    if k == "gate":
        b = gate_block(node["g"], ctx.op, node["closed"])
        if b:
            return ("err", err(b[0], consumed, b[1]))
        return walk(node["inner"], keys, ctx, consumed)
    if k == "leaf":
        if keys:
            return ("err", err("tooLong", consumed))
        ctx.leaf = node
        lk = node["lk"]
        if lk == "deny":
            return ("err", err("access", consumed, "Denied"))
        if lk == "strleaf" and ctx.op in ("ref", "mut"):
            return ("err", err("access", consumed, "No Any access for StrLeaf"))
        r = ctx.leaf_io(node, ctx.op)
        if r[0] == "ok":
            return ("ok", 0)
        if r[0] == "inner":
            return ("err", err("inner", consumed))
        return ("err", err("invalid", consumed, r[1]))
    if k == "array":
        if not keys:
            return ("err", err("tooShort", consumed))
        i = find_index(keys[0], None, len(node["elems"]))
        if i is None:
            return ("err", err("notFound", consumed + 1))
        r = walk(node["elems"][i], keys[1:], ctx, consumed + 1)
        return ("ok", r[1] + 1) if r[0] == "ok" else r
    # node
    flat = node["flat"]
    if flat:
        i, rest, c2 = 0, keys, consumed
    else:
        if not keys:
            return ("err", err("tooShort", consumed))
        i = find_index(keys[0], node["names"], len(node["fields"]))
        if i is None:
            return ("err", err("notFound", consumed + 1))
        rest, c2 = keys[1:], consumed + 1
    if node["active"] is not None and node["active"] != i:
        return ("err", err("absent", c2))
    f = node["fields"][i]
    deny_key = {"ser": "serialize", "de": "deserialize", "ref": "ref_any", "mut": "mut_any"}[ctx.op]
    if deny_key in f["deny"]:
        return ("err", err("access", c2, f["deny"][deny_key]))
    aid = f["aid"]
    modes = ctx.gates.get(aid, set())
    if ctx.op in ("ser", "ref") and f["get"]:
        ctx.log.append(f"g{aid}")
        if "gf" in modes:
            return ("err", err("access", c2, f"g{aid % 8}"))
    if ctx.op in ("de", "mut") and f["get_mut"]:
        ctx.log.append(f"m{aid}")
        if "mf" in modes:
            return ("err", err("access", c2, f"m{aid % 8}"))
    r = walk(f["inst"], rest, ctx, c2)
    if r[0] != "ok":
        return r
    below = r[1]
    if ctx.op == "de" and f["validate"]:
        ctx.log.append(f"v{aid}:{below}")
        if "vf" in modes:
            return ("err", err("invalid", c2, f"v{aid % 8}"))
        for m in modes:
            if m.startswith("vr"):
                below = int(m[2:])
    return ("ok", below if flat else below + 1)


def res_text(r):
    if r[0] == "ok":
        return f"ok {r[1]}"
    e = r[1]
    if e["kind"] == "inner":
        return f"inner {e['depth']}"
    if e["msg"] is not None:
        return f"{e['kind']} {e['depth']} {enc(e['msg'])}"
    return f"{e['kind']} {e['depth']}"


# ------------------------------------------------------------------------------- snapshot

def pj(p, i):
    return str(i) if p == "" else f"{p}.{i}"


def snapshot(node, p=""):
    k = node["k"]
    if k == "leaf":
        return [f"{p}={vtext(node)}"]
    if k == "array":
        out = []
        for i, e in enumerate(node["elems"]):
            out += snapshot(e, pj(p, i))
        return out
    if k == "gate":
        g = node["g"]
        if g == "option":
            return [f"{p}#=none"] if node["closed"] else [f"{p}#=some"] + snapshot(node["inner"], p)
        if g in ("rcweak", "arcweak"):
            return [f"{p}#=dangling"] if node["closed"] else [f"{p}#=alive"] + snapshot(node["inner"], p)
        return snapshot(node["inner"], p)
    sub = (lambda i: p) if node["flat"] else (lambda i: pj(p, i))
    if node["active"] is None:
        out = []
        for i, f in enumerate(node["fields"]):
            out += snapshot(f["inst"], sub(i))
        return out
    if node["active"] == "x":
        return [f"{p}#=x"]
    a = node["active"]
    return [f"{p}#={a}"] + snapshot(node["fields"][a]["inst"], sub(a))


def snap_text(node):
    return ",".join(snapshot(node))


# ------------------------------------------------------------------------------- JSON payloads

def py_decode(ty, text):
    """decode a JSON payload for leaf type ty the way a strict typed JSON reader does.
    returns ("ok", value, clean_end) | ("err",)"""
    t = text.lstrip(" \n\t\r")
    if ty in VAL.INT_RANGES:
        # a typed integer reader takes the longest integer literal and leaves the rest
        import re
        m = re.match(r"-?(0|[1-9][0-9]*)", t)
        lo, hi = VAL.INT_RANGES[ty]
        if not m or (m.group(0).startswith("-") and lo == 0) or not lo <= int(m.group(0)) <= hi:
            return ("err",)
        return ("ok", int(m.group(0)), t[m.end():].strip(" \n\t\r") == "")
    try:
        obj, end = json.JSONDecoder().raw_decode(t)
    except (json.JSONDecodeError, ValueError):
        return ("err",)
    rest = t[end:].strip(" \n\t\r")
    clean = rest == ""
    if ty == "bool":
        return ("ok", obj, clean) if isinstance(obj, bool) else ("err",)
    if ty in ("string", "hstr8", "strleaf"):
        if not isinstance(obj, str) or "\\" in t[:end]:
            return ("err",)
        if ty == "hstr8" and len(obj.encode()) > 8:
            return ("err",)
        return ("ok", obj, clean)
    if ty == "opti32":
        if obj is None:
            return ("ok", None, clean)
        if isinstance(obj, bool) or not isinstance(obj, int) or not -2 ** 31 <= obj < 2 ** 31:
            return ("err",)
        return ("ok", ("some", obj), clean)
    if ty == "arr3i16":
        if not isinstance(obj, list) or len(obj) != 3 or any(isinstance(x, bool) or not isinstance(x, int)
                                                            or not -2 ** 15 <= x < 2 ** 15 for x in obj):
            return ("err",)
        return ("ok", obj, clean)
    if ty == "unit":
        return ("ok", (), clean) if obj is None else ("err",)
    if ty == "sstruct":
        if (not isinstance(obj, dict) or list(obj.keys()) != ["a", "b"] or isinstance(obj["a"], bool)
                or not isinstance(obj["a"], int) or not 0 <= obj["a"] <= 255 or not isinstance(obj["b"], bool)):
            return ("err",)
        return ("ok", obj, clean)
    if ty == "uenum":
        if not isinstance(obj, str) or obj not in VAL.UENUM:
            return ("err",)
        return ("ok", ("var", VAL.UENUM.index(obj)), clean)
    return ("err",)


def leaf_json(leaf):
    ty = leaf["ty"]
    return VAL.json_text(ty, norm_val(ty, leaf["v"]))


# ------------------------------------------------------------------------------- expected op outcomes

class Expect:
    """runs a sequence of ops on a copy of the instance and produces the expected
    harness output segments"""

    def __init__(self, inst, gates):
        self.inst = copy.deepcopy(inst)
        self.gates = gates
        self.float_hit = False

    def run(self, op, keys, arg=None):
        """op: jget ser jset de ref mut; keys: abstract key list; arg: buflen or payload text.
        Returns the expected segment text, or None when the oracle has no opinion (float text)."""
        name = op
        wop = {"jget": "ser", "ser": "ser", "jset": "de", "de": "de", "ref": "ref", "mut": "mut"}[op]
        info = {}

        def leaf_io(leaf, o):
            ty = leaf["ty"]
            if ty in ("f32", "f64"):
                info["float"] = True
            if o == "ser":
                txt = None if ty in ("f32", "f64") else leaf_json(leaf)
                info["text"] = txt
                if txt is None:
                    return ("ok",)
                return ("ok",) if len(txt.encode()) <= arg else ("inner",)
            if o == "ref":
                info["val"] = vtext(leaf)
                return ("ok",)
            if o == "mut":
                if arg is None:
                    info["mut"] = "access"
                    return ("ok",)
                d = py_decode(ty, arg) if ty not in ("f32", "f64") else ("err",)
                if d[0] == "ok" and d[2]:
                    leaf["v"] = d[1]
                    info["mut"] = "assigned"
                else:
                    info["mut"] = "nodecode"
                return ("ok",)
            # de
            if ty in ("f32", "f64"):
                return ("inner",)
            d = py_decode("strleaf" if leaf["lk"] == "strleaf" else ty, arg)
            if d[0] != "ok":
                return ("inner",)
            if leaf["lk"] == "strleaf":
                if d[1] not in VAL.STRE:
                    return ("invalid", "Could not convert")
                leaf["v"] = ("var", VAL.STRE.index(d[1]))
            else:
                leaf["v"] = d[1]
            info["clean"] = d[2]
            return ("ok",)

        ctx = Ctx(wop, self.gates, leaf_io)
        r = walk(self.inst, keys, ctx, 0)
        if info.get("float"):
            self.float_hit = True
            return None
        log = ",".join(ctx.log) or "-"
        if r[0] == "ok":
            if name == "jget":
                txt = info["text"]
                head = f"ok {len(txt.encode())} {enc(txt)}"
            elif name == "ser":
                head = f"ok {r[1]} {enc(info['text'])}"
            elif name == "jset":
                head = f"ok {len(arg.encode())}" if info["clean"] else "final"
            elif name == "de":
                head = f"ok {r[1]}"
            elif name == "ref":
                head = f"ok {info['val']}"
            else:
                head = f"ok {info['mut']}"
        else:
            head = res_text(r)
        if name in ("jset", "de", "mut"):
            return f"{head} log={log} snap={snap_text(self.inst)}"
        return f"{head} log={log}"
