"""Value-level checks (C01, C02, C05, C12, C16): op sequences on instances of the generated
corpus; expectations from valoracle.py (independent of the Lean model)."""
import json
import os

from common import *
import treecases as T
import valoracle as O
import values as VAL

BIG = 4096


def enc(s):
    return O.enc(s)


# ------------------------------------------------------------------------------- instance navigation

def node_children(node):
    """transparent descent through gates / flattened containers to the node that consumes a key;
    returns ("leaf", leaf) | ("array", node) | ("node", node)"""
    while True:
        if node["k"] == "gate":
            node = node["inner"]
        elif node["k"] == "node" and node["flat"]:
            node = node["fields"][0]["inst"]
        else:
            break
    return node


def paths(inst, limit=60):
    """[(abstract keys as names-or-indices, index path, kind)] for every node, depth first"""
    out = []

    def rec(node, keys, idx):
        n = node_children(node)
        if n["k"] == "leaf":
            out.append((list(keys), list(idx), "leaf", n))
            return
        out.append((list(keys), list(idx), "internal", n))
        if n["k"] == "array":
            cnt = len(n["elems"])
            sel = range(cnt) if cnt <= 4 else [0, 1, cnt - 1]
            for i in sel:
                if len(out) < limit:
                    rec(n["elems"][i], keys + [("i", i)], idx + [i])
        else:
            for i, f in enumerate(n["fields"]):
                k = ("s", n["names"][i]) if n["names"] is not None else ("i", i)
                if len(out) < limit:
                    rec(f["inst"], keys + [k], idx + [i])
    rec(inst, [], [])
    return out


def keyspec_list(keys):
    return "L:" + ",".join(("s" + enc(k[1])) if k[0] == "s" else f"i{k[1]}" for k in keys)


def keyspec_path(keys, sep="/"):
    parts = [k[1] if k[0] == "s" else str(k[1]) for k in keys]
    if any(sep in p for p in parts):
        return None
    return f"P{ord(sep)}:" + enc("".join(sep + p for p in parts))


def as_strings(keys):
    return [("s", k[1] if k[0] == "s" else str(k[1])) for k in keys]


def malformed_alternatives(n, rng):
    """key alternatives for the level of node n (a key-consuming node)"""
    if n["k"] == "array":
        cnt, names = len(n["elems"]), None
    else:
        cnt, names = len(n["fields"]), n["names"]
    alts = [("i", cnt), ("i", 2 ** 64), ("i", 2 ** 64 - 1), ("i", -1), ("s", "nope"), ("s", ""), ("s", "01"), ("s", "+0"),
            ("s", "-0"), ("s", " 0"), ("s", "0 "), ("s", str(cnt)), ("s", "18446744073709551616"), ("i", 0), ("s", "0")]
    if names:
        alts += [("s", names[0][:-1]), ("s", names[0] + "x"), ("s", names[-1].upper())]
    return alts


# ------------------------------------------------------------------------------- cases

class VCases:
    def __init__(self, types):
        self.types = [t for t in types if t["states"]]
        self.lines = []
        for t in self.types:
            for s in t["states"]:
                self.lines.append(f"V v{t['tid']}_{s['sid']} {t['tid']} {s['sid']} {s['tree_text']}")
        self.n_decl = len(self.lines)
        self.exp = {}
        self.why = {}
        self.kind = {}

    def add(self, t, sid, gates, ops, expected, why, kind):
        """ops: list of op strings; expected: list of segment texts (None = no opinion) or a callable"""
        cid = f"c{len(self.lines)}"
        g = ",".join(f"{a}={m}" for a, ms in sorted(gates.items()) for m in sorted(ms)) or "-"
        self.lines.append(f"tv {cid} {t['tid']} {sid} {g} " + " ".join(ops))
        self.exp[cid] = expected
        self.why[cid] = why
        self.kind[cid] = kind
        return cid

    def oracle(self, case, out):
        if case.startswith("V "):
            return None if out == "decl" else "declaration refused"
        cid = case.split(" ", 2)[1]
        if "panic" in out.split(" ") or out == "bad-op":
            return f"{self.why[cid]}: implementation gave {out[:80]!r}"
        e = self.exp.get(cid)
        if e is None:
            return None
        if callable(e):
            return e(out)
        segs = out.split(" ; ")
        if len(segs) != len(e):
            return f"{self.why[cid]}: {len(e)} ops but {len(segs)} outcomes: {out[:200]!r}"
        for i, (got, want) in enumerate(zip(segs, e)):
            if want is None:
                continue
            if callable(want):
                f = want(got)
                if f:
                    return f"{self.why[cid]}: op #{i}: {f}"
            elif got != want:
                return (f"{self.why[cid]}: op #{i} gave {got[:260]!r}, the documented behaviour is {want[:260]!r}")
        return None

    def nontrivial(self, case, out):
        if case.startswith("V "):
            return None
        cid = case.split(" ", 2)[1]
        return (self.kind.get(cid, "?"), case.split(" ", 2)[2])

    @staticmethod
    def canon_pair(case, impl, model):
        """the model stops at the first op touching a float leaf (floats are opaque in it)"""
        if model is not None and model.endswith("FLOAT"):
            n = len(model.split(" ; ")) - 1
            return impl.split(" ; ")[:n] == model.split(" ; ")[:n]
        return impl == model


# payloads whose first part parses and which fail later (a non-atomic leaf write would leave
# the leaf half-updated)
LATE_FAIL = {
    "arr3i16": ["[10,20,true]", "[10,20]", "[10,20,30,40]", "[10,20,99999]", "[10,20,30"],
    "sstruct": ['{"a":5,"b":7}', '{"a":5}', '{"a":5,"b":tru', '{"a":5,"b":false', '{"a":300,"b":true}'],
    "opti32": ["12x", "-", "2147483648"],
    "string": ['"abc', '"abc\\'], "hstr8": ['"123456789"', '"abc'],
    "uenum": ['"Purple"', '"Gree'],
}


def new_value(ty, rng):
    s = VAL.SAMPLES[ty if ty in VAL.SAMPLES else "u8"]
    return s[rng.randrange(len(s))]


def payload_for(leaf, rng, other=False):
    """canonical JSON text of a (new) value for this leaf; None for floats"""
    ty = leaf["ty"]
    v = O.norm_val(ty, new_value(ty, rng))
    if ty in ("f32", "f64"):
        return None
    return VAL.json_text(ty, v)


def cases_c02(types, rng, tier):
    c = VCases(types)
    for t in c.types:
        for st in t["states"]:
            inst = st["inst"]
            ps = paths(inst, limit=40 if tier == "quick" else 200)
            for keys, idx, kind, n in ps:
                variants = [("exact", keys)]
                # surplus keys beyond the node
                variants.append(("surplus1", keys + [("s", "x")]))
                variants.append(("surplus2", keys + [("i", 0), ("i", 0)]))
                # one malformed key at each level along the path
                node = inst
                for lvl in range(len(keys) + (0 if kind == "leaf" else 1)):
                    nn = node_children(node)
                    if nn["k"] == "leaf":
                        break
                    for alt in malformed_alternatives(nn, rng):
                        variants.append((f"mal@{lvl}", keys[:lvl] + [alt] + keys[lvl + 1:]))
                    if lvl < len(keys):
                        node = nn["elems"][idx[lvl]] if nn["k"] == "array" else nn["fields"][idx[lvl]]["inst"]
                if tier == "quick" and len(variants) > 24:
                    variants = variants[:3] + rng.sample(variants[3:], 21)
                for vname, ks in variants:
                    reps = [("list", keyspec_list(ks), ks)]
                    kp = keyspec_path(as_strings(ks))
                    if kp is not None:
                        reps.append(("path", kp, as_strings(ks)))
                    # the same keys behind a multi-byte path separator, and as a Chain of two sources split anywhere — including
                    # ALL keys (surplus ones too) in the first part with an empty second part, and the mirror image
                    if vname in ("exact", "surplus1", "surplus2") or rng.random() < 0.15:
                        for sep in ("é", "😀"):
                            kq = keyspec_path(as_strings(ks), sep)
                            if kq is not None and rng.random() < 0.5:
                                reps.append((f"path{ord(sep)}", kq, as_strings(ks)))
                        cut = rng.choice([0, len(ks), rng.randrange(len(ks) + 1)])
                        reps.append(("chain", f"C[{keyspec_list(ks[:cut])}][{keyspec_list(ks[cut:])}]", ks))
                    for rname, spec, kabs in reps:
                        pay = (payload_for(n, rng) if kind == "leaf" else None) or "0"
                        ops, exp = [], []
                        e = O.Expect(inst, {})
                        for op, arg, argtxt in (("ser", BIG, str(BIG)), ("de", pay, enc(pay)), ("ref", None, None),
                                                ("mut", None, "-")):
                            if {"ser": "ser", "de": "de", "ref": "any", "mut": "any"}[op] not in t["traits"]:
                                continue
                            exp.append(e.run(op, kabs, arg))
                            ops.append(f"{op}|{spec}" + (f"|{argtxt}" if argtxt is not None else ""))
                        if ops:
                            c.add(t, st["sid"], {}, ops, exp,
                                  f"{t['label']} state {st['sid']} key {ks} ({vname}, {rname})", f"{vname.split('@')[0]}:{rname}")
    return c


def cases_c01(types, rng, tier):
    c = VCases(types)
    for t in c.types:
        if not {"ser", "de"} <= set(t["traits"]):
            continue
        for st in t["states"]:
            inst = st["inst"]
            ps = paths(inst, limit=30 if tier == "quick" else 120)
            leaves = [p for p in ps if p[2] == "leaf"]
            # every compound leaf: each late-failing payload, then read back (must be unchanged)
            for keys, idx, kind, n in leaves:
                for pay in LATE_FAIL.get(n["ty"], []):
                    e = O.Expect(inst, {})
                    spec = keyspec_list(keys)
                    ops = [f"jset|{spec}|{enc(pay)}", f"jget|{spec}|{BIG}", "snap"]
                    exp = [e.run("jset", keys, pay), e.run("jget", keys, BIG), "snap=" + O.snap_text(e.inst)]
                    if not e.float_hit:
                        c.add(t, st["sid"], {}, ops, exp, f"late-failing payload {pay!r} on {t['label']} {keys}", "latefail")
            # sweep: one write through every node path (exact key in name and index form, surplus keys, one malformed
            # key per level) followed by a whole-tree snapshot: exactly the designated leaf changes on success,
            # nothing changes otherwise
            for keys, idx, kind, n in ps:
                variants = [("exact", keys), ("exact-idx", [("i", i) for i in idx]), ("surplus", keys + [("s", "")])]
                node = inst
                mal = []
                for lvl in range(len(keys) + (0 if kind == "leaf" else 1)):
                    nn = node_children(node)
                    if nn["k"] == "leaf":
                        break
                    for alt in malformed_alternatives(nn, rng):
                        mal.append((f"mal@{lvl}", keys[:lvl] + [alt] + keys[lvl + 1:]))
                    if lvl < len(keys):
                        node = nn["elems"][idx[lvl]] if nn["k"] == "array" else nn["fields"][idx[lvl]]["inst"]
                if tier == "quick" and len(mal) > 6:
                    mal = rng.sample(mal, 6)
                # chained keys whose first part ends in a key that does not resolve while the second part alone would
                # (a chain must behave as the concatenation: the bad key is not skipped)
                chains = []
                for vname, ks in mal[:3]:
                    lvl = int(vname.split("@")[1])
                    a, b = ks[:lvl + 1], keys[lvl:]
                    chains.append((f"chain@{lvl}", a + b, f"C[{keyspec_list(a)}][{keyspec_list(b)}]"))
                if keys:
                    cut = rng.randrange(len(keys) + 1)
                    chains.append(("chain-exact", keys, f"C[{keyspec_list(keys[:cut])}][{keyspec_list(keys[cut:])}]"))
                # the same leaf through a Packed key: exact, and with surplus ZERO bits behind it (a key that is longer than
                # the path to the leaf is TooLong whatever the surplus bits are)
                if kind == "leaf":
                    node_, l_, c_ = inst, 0, 0
                    for i_ in idx:
                        nn_ = node_children(node_)
                        cnt_ = len(nn_["elems"]) if nn_["k"] == "array" else len(nn_["fields"])
                        b_ = T.S.bits_for(cnt_ - 1)
                        l_, c_ = l_ + b_, (c_ << b_) | i_
                        node_ = nn_["elems"][i_] if nn_["k"] == "array" else nn_["fields"][i_]["inst"]
                    if l_ <= 60:
                        chains.append(("packed-exact", keys, f"Q:{((2 * c_ + 1) << (63 - l_)) & ((1 << 64) - 1)}"))
                        for extra in (1, 3):
                            chains.append(("packed-surplus0", keys + [("s", "")],
                                           f"Q:{((2 * (c_ << extra) + 1) << (63 - l_ - extra)) & ((1 << 64) - 1)}"))
                for vname, ks, *cspec in [(a_, b_) for a_, b_ in variants + mal] + chains:
                    pay = (payload_for(n, rng) if kind == "leaf" else None) or "1"
                    e = O.Expect(inst, {})
                    spec = cspec[0] if cspec else keyspec_list(ks)
                    opn = "jset" if vname != "exact-idx" or "any" not in t["traits"] else rng.choice(["jset", "mut"])
                    ops = [f"{opn}|{spec}|{enc(pay)}", "snap"]
                    exp = [e.run(opn, ks, pay), "snap=" + O.snap_text(e.inst)]
                    if not e.float_hit:
                        c.add(t, st["sid"], {}, ops, exp, f"write through {ks} ({vname}) on {t['label']} state {st['sid']}",
                              "sweep-" + vname.split("@")[0])
            for rounds in range(2 if tier == "quick" else 8):
                # a history of reads and writes on one instance
                e = O.Expect(inst, {})
                ops, exp = ["snap"], ["snap=" + O.snap_text(e.inst)]
                for _ in range(rng.randrange(3, 9)):
                    keys, idx, kind, n = rng.choice(ps)
                    roll = rng.random()
                    spec_w = rng.choice([s for s in (keyspec_list(keys), keyspec_path(as_strings(keys)),
                                                    keyspec_list([("i", i) for i in idx])) if s])
                    kabs_r = [("i", i) for i in idx]
                    spec_r = keyspec_list(kabs_r)
                    if kind == "leaf" and roll < 0.55:
                        pay = payload_for(n, rng)
                        if pay is None:
                            continue
                        cls = rng.choice(["canon", "canon", "ws", "trailing", "wrongtype", "empty"])
                        if cls == "ws":
                            pay = " \n" + pay + "\t "
                        elif cls == "trailing":
                            pay = pay + " x"
                        elif cls == "wrongtype":
                            pay = rng.choice(['"str"', "true", "[1]", "-1", "256", "null", "{}", "1e400"] + LATE_FAIL.get(n["ty"], []))
                        elif cls == "empty":
                            pay = ""
                        opn = rng.choice(["jset", "jset", "de"])
                        exp.append(e.run(opn, keys, pay))
                        ops.append(f"{opn}|{spec_w}|{enc(pay)}")
                        # read back through an equivalent key
                        exp.append(e.run("jget", kabs_r, BIG))
                        ops.append(f"jget|{spec_r}|{BIG}")
                    elif kind == "leaf" and roll < 0.7 and "any" in t["traits"]:
                        pay = payload_for(n, rng)
                        if pay is None:
                            continue
                        exp.append(e.run("mut", keys, pay))
                        ops.append(f"mut|{spec_w}|{enc(pay)}")
                        exp.append(e.run("ref", kabs_r, None))
                        ops.append(f"ref|{spec_r}")
                    elif roll < 0.85:
                        # failing access: malformed key
                        bad = keys + [("s", "zz")] if rng.random() < 0.5 else keys[:-1] + [("s", "nope")] if keys else [("s", "q")]
                        opn = rng.choice(["jset", "jget"])
                        if opn == "jset":
                            exp.append(e.run("jset", bad, "1"))
                            ops.append(f"jset|{keyspec_list(bad)}|{enc('1')}")
                        else:
                            exp.append(e.run("jget", bad, BIG))
                            ops.append(f"jget|{keyspec_list(bad)}|{BIG}")
                    else:
                        b = rng.choice([0, 1, 2, BIG])
                        exp.append(e.run("jget", keys, b))
                        ops.append(f"jget|{spec_w}|{b}")
                    if e.float_hit:
                        break
                ops.append("snap")
                exp.append("snap=" + O.snap_text(e.inst))
                if e.float_hit:
                    continue
                c.add(t, st["sid"], {}, ops, exp, f"history on {t['label']} state {st['sid']}", "history")
    return c


def cases_c12(types, rng, tier):
    c = VCases(types)
    for t in c.types:
        for st in t["states"][:1]:
            inst = st["inst"]
            aids = []
            denied = []

            def collect(node):
                if node["k"] == "gate":
                    collect(node["inner"])
                elif node["k"] == "array":
                    for e in node["elems"][:1]:
                        collect(e)
                elif node["k"] == "node":
                    for f in node["fields"]:
                        if f["aid"]:
                            aids.append(f)
                        if f["deny"]:
                            denied.append(f)
                        collect(f["inst"])
            collect(inst)
            if not aids and not denied:
                continue
            ps = paths(inst, limit=40)
            if denied:
                # keys that are wrong BELOW a node (unknown name, index out of range, one key too many): a denial / accessor
                # failure above decides before anything below is looked at
                extra = []
                for keys, idx, kind, n in ps:
                    if keys:
                        extra.append((keys + [("s", "zz_nope")], idx, "bad", n))
                        extra.append((keys + [("i", 99)], idx, "bad", n))
                ps = ps + extra[:60]
            modes_per = []
            for f in aids:
                ms = [None]
                if f["get"]:
                    ms.append("gf")
                if f["get_mut"]:
                    ms.append("mf")
                if f["validate"]:
                    ms += ["vf", "vr0", "vr7"]
                modes_per.append((f["aid"], ms))
            # all single-gate settings, all pairs, and random larger combinations
            combos = [{}]
            for aid, ms in modes_per:
                for m in ms[1:]:
                    combos.append({aid: {m}})
            for (a1, m1) in modes_per:
                for (a2, m2) in modes_per:
                    if a1 < a2:
                        for x in m1[1:]:
                            for y in m2[1:]:
                                combos.append({a1: {x}, a2: {y}})
            for _ in range(20 if tier == "quick" else 200):
                g = {}
                for aid, ms in modes_per:
                    k = rng.sample(ms[1:], rng.randrange(0, min(3, len(ms))))
                    k = [m for m in k if not (m.startswith("vr") and any(x.startswith("v") and x != m for x in k))]
                    if k:
                        g[aid] = set(k[:1]) | {m for m in k[1:] if m[0] != k[0][0]}
                combos.append(g)
            if tier == "quick" and len(combos) > 60:
                combos = combos[:25] + rng.sample(combos[25:], 35)
            for g in combos:
                for keys, idx, kind, n in ps:
                    pay = (payload_for(n, rng) if kind == "leaf" else None) or "0"
                    ops, exp = [], []
                    e = O.Expect(inst, g)
                    for op, arg, argtxt in (("ser", BIG, str(BIG)), ("de", pay, enc(pay)), ("ref", None, None),
                                            ("mut", None, "-")):
                        if {"ser": "ser", "de": "de", "ref": "any", "mut": "any"}[op] not in t["traits"]:
                            continue
                        exp.append(e.run(op, keys, arg))
                        ops.append(f"{op}|{keyspec_list(keys)}" + (f"|{argtxt}" if argtxt is not None else ""))
                    c.add(t, st["sid"], g, ops, exp, f"callbacks {g} on {t['label']} key {keys}", f"gates{len(g)}")
    return c


def cases_c05(types, rng, tier):
    c = VCases(types)
    for t in c.types:
        if not {"ser", "de"} <= set(t["traits"]):
            continue
        # unreachable leaves of every other runtime state first (reachable ones are exercised on state 0 below)
        for st in t["states"][1:]:
            inst = st["inst"]
            for keys, idx, kind, n in paths(inst, limit=40):
                if kind != "leaf" or n["lk"] == "deny" or n["ty"] in ("f32", "f64"):
                    continue
                probe = O.Expect(inst, {}).run("jget", keys, BIG)
                if probe is None:
                    continue
                pay = payload_for(n, rng)
                if pay is None:
                    continue
                spec = keyspec_list(keys)
                e = O.Expect(inst, {})
                ops = [f"jset|{spec}|{enc(pay)}", f"jget|{spec}|{BIG}", "snap"]
                exp = [e.run("jset", keys, pay), e.run("jget", keys, BIG), "snap=" + O.snap_text(e.inst)]
                # a leaf that IS reachable in this state (e.g. behind a RefCell with an outstanding shared borrow, an Rc with
                # a second owner on the read side) must round-trip exactly as in state 0
                reach = probe.startswith("ok")
                if not e.float_hit:
                    c.add(t, st["sid"], {}, ops, exp,
                          f"write/read of the {'reachable' if reach else 'unreachable'} leaf {keys} on {t['label']} state {st['sid']}",
                          "other-state" if reach else "unreachable")
        st = t["states"][0]
        inst = st["inst"]
        for keys, idx, kind, n in paths(inst, limit=40):
            if kind != "leaf" or n["lk"] == "deny":
                continue
            spec = keyspec_list(keys)
            ty = n["ty"]
            probe = O.Expect(inst, {}).run("jget", keys, BIG)
            if probe is not None and not probe.startswith("ok"):
                # leaf not reachable in this runtime state (absent variant, closed wrapper, ...): both helpers must report
                # the error for reads and writes, and a write must change nothing
                pay = payload_for(n, rng)
                if pay is not None:
                    e = O.Expect(inst, {})
                    ops = [f"jset|{spec}|{enc(pay)}", f"jget|{spec}|{BIG}", "snap"]
                    exp = [e.run("jset", keys, pay), e.run("jget", keys, BIG), "snap=" + O.snap_text(e.inst)]
                    if not e.float_hit:
                        c.add(t, st["sid"], {}, ops, exp, f"write/read of the unreachable leaf {keys} on {t['label']}", "unreachable")
                continue
            if ty in ("f32", "f64"):
                # floats: bit-exact round trip on the implementation only (a test, not a theorem)
                for v in VAL.SAMPLES[ty]:
                    bits = VAL.val_text(ty, tuple(v))
                    txt = repr(v[1])
                    want_snap = f"{'.'.join(map(str, idx))}={bits}"

                    def chk(out, want_snap=want_snap, ty=ty, v=v):
                        segs = out.split(" ; ")
                        if len(segs) != 3 or not segs[0].startswith("ok "):
                            return f"float set failed: {out[:120]!r}"
                        if want_snap not in segs[0].split("snap=")[1].split(","):
                            return f"float {v[1]!r} not stored bit-exactly: {segs[0][-200:]!r}"
                        g = segs[1].split(" ")
                        if g[0] != "ok":
                            return f"float get failed: {segs[1]!r}"
                        back = float(O_dec(g[2]))
                        import struct
                        fmt = "<f" if ty == "f32" else "<d"
                        if struct.pack(fmt, back) != struct.pack(fmt, v[1]):
                            return f"float text {O_dec(g[2])!r} does not read back as {v[1]!r}"
                        if want_snap not in segs[2].split("snap=")[1].split(","):
                            return f"set(get(x)) changed the float: {segs[2][-200:]!r}"
                        return None
                    c.add(t, st["sid"], {}, [f"jset|{spec}|{enc(txt)}", f"jget|{spec}|64", f"jset|{spec}|{enc(txt)}"], chk,
                          f"float round trip {v[1]!r} on {t['label']} {keys}", "float")
                continue
            if n["lk"] == "strleaf":
                # every ordered pair of tags: write a, write b, read back b (JSON and postcard)
                for a_ in range(len(VAL.STRE)):
                    for b_ in range(len(VAL.STRE)):
                        e = O.Expect(inst, {})
                        ta, tb_ = VAL.json_text("strleaf", ("var", a_)), VAL.json_text("strleaf", ("var", b_))
                        ops = [f"jset|{spec}|{enc(ta)}", f"jset|{spec}|{enc(tb_)}", f"jget|{spec}|{BIG}", "snap"]
                        exp = [e.run("jset", keys, ta), e.run("jset", keys, tb_), e.run("jget", keys, BIG),
                               "snap=" + O.snap_text(e.inst)]
                        c.add(t, st["sid"], {}, ops, exp, f"tag {VAL.STRE[a_]} then {VAL.STRE[b_]} on {t['label']} {keys}", "strleaf-pair")
            vals = VAL.SAMPLES[ty if n["lk"] != "strleaf" else "strleaf"]
            for v in vals:
                v = O.norm_val(ty, v)
                txt = VAL.json_text("strleaf" if n["lk"] == "strleaf" else ty, v)
                ln = len(txt.encode())
                # write v, read it back with every buffer length 0..len, write the read text back
                e = O.Expect(inst, {})
                ops, exp = [], []
                exp.append(e.run("jset", keys, txt))
                ops.append(f"jset|{spec}|{enc(txt)}")
                for b in sorted(set(list(range(0, min(ln, 6) + 1)) + [ln - 1, ln, ln + 1, BIG])):
                    if b < 0:
                        continue
                    exp.append(e.run("jget", keys, b))
                    ops.append(f"jget|{spec}|{b}")
                exp.append(e.run("jset", keys, txt))
                ops.append(f"jset|{spec}|{enc(txt)}")
                c.add(t, st["sid"], {}, ops, exp, f"JSON get/set of {txt!r} on {t['label']} {keys}", "json:" + ty)
                # postcard: same through the binary helpers
                if n["lk"] == "strleaf":
                    pb = VAL.postcard_bytes("strleaf", v)
                else:
                    pb = VAL.postcard_bytes(ty, v)
                hexs = "".join(f"{x:02x}" for x in pb) or "-"
                e2 = O.Expect(inst, {})
                set_seg = e2.run("jset", keys, txt)            # "ok N log=L snap=S"
                get_ok = e2.run("jget", keys, BIG)             # "ok n text log=L"
                get_short = e2.run("jget", keys, 0)            # "inner d log=L"
                if not (set_seg.startswith("ok ") and get_ok.startswith("ok ")):
                    continue
                set_tail = set_seg.split(" ", 2)[2]
                get_log = get_ok.rsplit(" ", 1)[1]
                pops = [f"pset|{spec}|{hexs}"]
                pexp = [f"ok {len(pb)} {set_tail}"]
                for b in sorted(set([0, max(len(pb) - 1, 0), len(pb), len(pb) + 3])):
                    pops.append(f"pget|{spec}|{b}")
                    pexp.append(f"ok {len(pb)} {hexs} {get_log}" if b >= len(pb) else get_short)
                # trailing bytes are reported as remainder, not an error
                pops.append(f"pset|{spec}|{(hexs if hexs != '-' else '') + 'ff'}")
                pexp.append(f"ok {len(pb)} {set_tail}")
                c.add(t, st["sid"], {}, pops, pexp, f"postcard get/set of {txt!r} on {t['label']} {keys}", "postcard:" + ty)
    return c


def O_dec(s):
    return "" if s == "e" else "".join(chr(int(x)) for x in s.split("."))


def cases_c16(types, rng, tier):
    """no-panic: the other streams' inputs plus arbitrary garbage; the oracle only requires
    a result (no `panic`)"""
    c = VCases(types)
    pool = ["/", ".", "a", "é", "😀", "'", "[", "]", "0", "1", "9", "-", "+", " ", "\x00", "\U0010ffff", "foo", "bar",
            "18446744073709551615", "18446744073709551616", "18446744073709551619", "0018446744073709551617", "340282366920938463463374607431768211456"]
    numerals = ["18446744073709551615", "18446744073709551616", "18446744073709551617", "18446744073709551619",
                "0018446744073709551616", "184467440737095516160", "340282366920938463463374607431768211456",
                "99999999999999999999999999999999999999999", "+18446744073709551616", "9223372036854775808"]
    for t in c.types:
        st = t["states"][0]
        # decimal index strings around the usize boundary at every numbered / array level
        for keys, idx, kind, n in paths(st["inst"], limit=30):
            if kind == "leaf" or (n["k"] == "node" and n["names"] is not None):
                continue
            for num in numerals:
                ks = as_strings(keys) + [("s", num)]
                ops = []
                for spec in (keyspec_list(ks), keyspec_path(ks), f"J:{enc(''.join('[' + k[1] + ']' for k in ks))}"):
                    if spec is None:
                        continue
                    if "ser" in t["traits"]:
                        ops.append(f"jget|{spec}|16")
                    if "de" in t["traits"]:
                        ops.append(f"jset|{spec}|{enc('1')}")
                    if "any" in t["traits"]:
                        ops.append(f"ref|{spec}")
                if ops:
                    c.add(t, st["sid"], {}, ops, None, f"index numeral {num} on {t['label']} below {keys}", "numeral")
    # every well-formed access in every runtime state (closed Option / dangling Weak / poisoned lock / mutably borrowed
    # RefCell / shared Rc ...): a result, never a panic
    for t in c.types:
        for st in t["states"]:
            for keys, idx, kind, n in paths(st["inst"], limit=12 if tier == "quick" else 60):
                spec = rng.choice([s_ for s_ in (keyspec_list(keys), keyspec_path(as_strings(keys)),
                                                 keyspec_list([("i", i) for i in idx])) if s_])
                pay = (payload_for(n, rng) if kind == "leaf" else None) or "0"
                ops = []
                if "ser" in t["traits"]:
                    ops += [f"jget|{spec}|{BIG}", f"pget|{spec}|64"]
                if "de" in t["traits"]:
                    ops += [f"jset|{spec}|{enc(pay)}"]
                if "any" in t["traits"]:
                    ops += [f"ref|{spec}", f"mut|{spec}|{enc(pay)}"]
                if ops:
                    c.add(t, st["sid"], {}, ops, None, f"well-formed access {keys} on {t['label']} state {st['sid']}", "valid")
    for t in c.types:
        for st in t["states"]:
            for _ in range(6 if tier == "quick" else 60):
                txt = "".join(rng.choice(pool) for _ in range(rng.randrange(0, 12)))
                w = rng.choice([1, 2 ** 63, 2 ** 64 - 1, rng.randrange(1, 2 ** 64), 1 << rng.randrange(64)])
                ints = [rng.choice([0, 1, -1, 2 ** 64, 2 ** 127 - 1, -2 ** 127, rng.randrange(-5, 300)])
                        for _ in range(rng.randrange(0, 5))]
                specs = [f"P47:{enc(txt)}", f"P128512:{enc(txt)}", f"J:{enc(txt)}", f"Q:{w}",
                         "L:" + ",".join(f"i{i}" for i in ints),
                         f"C[Q:{w}][P47:{enc(txt)}]", f"C[J:{enc(txt)}][L:" + ",".join(f"i{i}" for i in ints) + "]"]
                spec = rng.choice(specs)
                pay = "".join(rng.choice(pool + ['"', "{", "}", ",", ":", "true", "null", "1e999", "\\"]) for _ in range(rng.randrange(0, 10)))
                hexs = "".join(f"{rng.randrange(256):02x}" for _ in range(rng.randrange(0, 12))) or "-"
                ops = []
                if "ser" in t["traits"]:
                    ops += [f"jget|{spec}|{rng.choice([0, 1, 2, 3, 8, 64])}", f"pget|{spec}|{rng.choice([0, 1, 2, 8])}"]
                if "de" in t["traits"]:
                    ops += [f"jset|{spec}|{enc(pay)}", f"pset|{spec}|{hexs}"]
                if "any" in t["traits"]:
                    ops += [f"ref|{spec}", f"mut|{spec}|{enc(pay)}"]
                if ops:
                    c.add(t, st["sid"], {}, ops, None, f"arbitrary key/payload on {t['label']} state {st['sid']}", "garbage")
    return c


# ------------------------------------------------------------------------------- runner

def run_valuelevel(rep, prop_id, cases_fn, rng, tier, rule, assumptions, profile="dev", extra_cases=None):
    types = T.load_corpus()
    pl = proof_layer(prop_id, allow_bv=(prop_id == "C16"), thorough=(tier == "thorough"))
    c = cases_fn(types, rng, tier)
    r = paired_run(rep, c.lines, c.oracle, c.nontrivial, profile=profile, canon_pair=c.canon_pair)
    for f in pl["failures"]:
        rep.violation("proof", {"theorem_or_translator": f, "property_module": f"MiniconfVerif.Props.{prop_id}"},
                      no_input=True)
    n = len(c.lines) - c.n_decl
    hyp = hypothesis_check(rep, c.lines[:c.n_decl], expect_unfit=tuple(
        f" {t['tid']} " for t in types if "arr_huge" in t["label"]))
    import typelevel as _TL
    drv = _TL.derive_reading_check(rep, types)
    rep.coverage = {
        "hypotheses_on_corpus": hyp,
        "derive_output_vs_declaration": drv,
        "obligations": pl["obligations"],
        "discharged": pl["discharged"] if not pl["failures"] else min(pl["discharged"], max(pl["obligations"] - 1, 0)),
        "checker_cmd": f"cd lean && lake build MiniconfVerif.Props.{prop_id} && lake env lean MiniconfVerif/Audit/{prop_id}.lean",
        "trusted_base": ["Lean 4.33.0 kernel"] + axiom_summary(pl) + [
            "hand-written Lean model (Model/Tree.lean walk, Model/Codec.lean) tied to the code by this run's `tv` stream",
            "harness/gen/{typegen,valgen,values}.py (corpus, instances, snapshots by plain field access), harness/src/vrt.rs",
            "checker/valoracle.py (independent top-down reference walk)"],
        "theorems": pl["theorems"],
        "evaluations": n,
        "distinct_nontrivial": r["distinct"] if r else 0,
        "programs": len(c.types),
        "rule": rule,
        "samples": [c.lines[c.n_decl][:400], c.lines[c.n_decl + n // 2][:400], c.lines[-1][:400]],
        "traces_validated_against_impl": (r["n"] - r["diffs"] - c.n_decl) if r else 0,
        "model_disagreements": r["diffs"] if r else None,
        "oracle_failures": r["oracle_failures"] if r else None,
        "input_distribution": r["hist"] if r else {},
    }
    rep.assumptions = assumptions
    return c, r
