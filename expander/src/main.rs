//! Expand `#[derive(Tree*)]` of quartiq/miniconf **with the macro crate's own source** (`miniconf_derive/src/{tree,field}.rs`
//! compiled into this tool as modules): reads Rust items from stdin, and for every `struct` / `enum` carrying a
//! `#[derive(…Tree…)]` prints `=== <ident> <trait>` followed by the token stream of the generated impl.
#![allow(dead_code)]
use darling::FromDeriveInput;
use std::io::Read;

#[path = "/repo/miniconf_derive/src/field.rs"]
mod field;
#[path = "/repo/miniconf_derive/src/tree.rs"]
mod tree;

fn main() {
    let mut src = String::new();
    std::io::stdin().read_to_string(&mut src).unwrap();
    let file = syn::parse_file(&src).expect("input does not parse");
    for item in file.items {
        let (attrs, ident) = match &item {
            syn::Item::Struct(s) => (&s.attrs, s.ident.clone()),
            syn::Item::Enum(e) => (&e.attrs, e.ident.clone()),
            _ => continue,
        };
        let derives = attrs
            .iter()
            .filter(|a| a.path().is_ident("derive"))
            .map(|a| quote::quote!(#a).to_string())
            .collect::<Vec<_>>()
            .join(" ");
        if !derives.contains("Tree") {
            continue;
        }
        let di: syn::DeriveInput = syn::parse2(quote::quote!(#item)).unwrap();
        match tree::Tree::from_derive_input(&di) {
            Ok(t) => {
                for (name, ts) in [
                    ("TreeKey", t.tree_key()),
                    ("TreeSerialize", t.tree_serialize()),
                    ("TreeDeserialize", t.tree_deserialize()),
                    ("TreeAny", t.tree_any()),
                ] {
                    println!("=== {ident} {name}");
                    println!("{ts}");
                }
            }
            Err(e) => {
                println!("=== {ident} ERROR");
                println!("{}", e.write_errors());
            }
        }
    }
}
