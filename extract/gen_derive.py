#!/usr/bin/env python3
"""Translate what `#[derive(TreeKey)]` GENERATES for every type of the corpus into Lean (`Gen/Derive.lean`).

The macro crate is a `quote!` meta-program; its *output* is ordinary Rust.  `/verif/expander` compiles the macro crate's
own source files (`miniconf_derive/src/{tree,field}.rs`, as modules of a normal binary) and prints, for every `struct` /
`enum` of `harness/src/gen_types.rs` carrying the derives, the token stream the macro produces.  This generator

  * normalises the fully qualified paths of the expansion (`::miniconf::Keys::next(&mut keys, &L)` -> `keys.next(&L)`,
    `<Ty as ::miniconf::TreeKey>::traverse_by_key(keys, func)` -> the i-th child call, `::core::result::Result::Ok` -> `Ok` …),
  * reads the `__MINICONF_LOOKUP` constant (`named(&[stringify!(..), ..])` or `Numbered(NonZero::new(n))`), the children of
    `traverse_all` and the arm -> child type map of `traverse_by_key`,
  * translates the body of `traverse_by_key` with the statement-level translator (key source, callback and the children's
    `traverse_by_key` as parameters, exactly like the container impls of `gen_impls.py`),
  * and emits, next to the definitions, the tie theorems (`Lemmas/GenTieDerive.lean`, same proof script as the tuple ties):
    the translated expansion of each type IS the model's traversal of the node the declaration denotes.

`structure(types_rs)` also returns the reading of every expansion as data (lookup, child types) for the checker, which
compares it with the corpus generator's independent reading of the type *definitions* (`harness/gen/spec.py`)."""
import os
import re
import subprocess
import sys

import minirust as M
from minirust import Unsupported
from rust2lean import Tables, translate_fn
from gen_core import CTORS as CORE_CTORS
from gen_impls import METHODS, SIG
import gen_impls as GI

VERIF = os.path.dirname(os.path.dirname(os.path.abspath(__file__)))
EXPANDER = os.path.join(VERIF, "expander")


def run_expander(types_rs):
    """{ident: {trait: expansion text}} using the macro crate's current source"""
    env = dict(os.environ, CARGO_NET_OFFLINE="true")
    lock = os.path.join(EXPANDER, "Cargo.lock")
    if not os.path.exists(lock):
        import shutil
        shutil.copy("/repo/Cargo.lock", lock)
    r = subprocess.run(["cargo", "build", "--offline", "-q"], cwd=EXPANDER, env=env, capture_output=True, text=True)
    if r.returncode != 0:
        raise Unsupported("the derive macro's source does not build inside the expander: " + r.stderr[-600:])
    r = subprocess.run([os.path.join(EXPANDER, "target", "debug", "expander")], stdin=open(types_rs), capture_output=True,
                       text=True)
    if r.returncode != 0:
        raise Unsupported("expander failed: " + r.stderr[-400:])
    out, cur = {}, None
    for line in r.stdout.split("\n"):
        m = re.match(r"=== (\w+) (\w+)$", line)
        if m:
            cur = (m.group(1), m.group(2))
            out.setdefault(cur[0], {})[cur[1]] = ""
        elif cur:
            out[cur[0]][cur[1]] += line + "\n"
    for ident, d in out.items():
        if "ERROR" in d:
            raise Unsupported(f"derive on {ident} reports an error: {d['ERROR'][:200]}")
    return out


PREFIXES = [(":: miniconf :: ", ""), (":: core :: result :: Result :: ", ""), (":: core :: result :: Result", "Result"),
            (":: core :: option :: Option", "Option"), (":: core :: num :: NonZero", "NonZero"), (":: core :: ops :: ", ""),
            (":: core :: unreachable !", "unreachable !"), (":: core :: any :: ", "")]


def normalise(text):
    t = " " + text.replace("# [automatically_derived]", " ") + " "
    t = t.replace(":: core :: result :: Result :: < usize , :: miniconf :: Traversal > :: Ok (0)", "flat_index ()")
    for a, b in PREFIXES:
        t = t.replace(a, b)
    t = t.replace("Keys :: next (& mut keys , & Self :: __MINICONF_LOOKUP)", "keys . next (& Self :: __MINICONF_LOOKUP)")
    t = t.replace("Self :: __MINICONF_LOOKUP", "LOOKUP")
    return t


def qualified_children(text, method):
    """replace every `< TYPE as TreeKey > :: <method> (ARGS)` by `Child<i> :: <method> (ARGS)`; returns (text, [TYPE])"""
    types, out, pos = [], "", 0
    pat = " as TreeKey > :: " + method + " ("
    while True:
        j = text.find(pat, pos)
        if j < 0:
            return out + text[pos:], types
        # walk back to the matching `<`
        depth, i = 0, j
        while True:
            i -= 1
            if i < pos:
                raise Unsupported("unbalanced `< T as TreeKey >`")
            c = text[i]
            if c == ">" and text[i - 1] != "-":
                depth += 1
            elif c == "<":
                if depth == 0:
                    break
                depth -= 1
        ty = re.sub(r"\s+", " ", text[i + 1:j]).strip()
        types.append(ty)
        out += text[pos:i] + f"Child{len(types) - 1} :: {method} ("
        pos = j + len(pat)


def read_lookup(ident, text):
    m = re.search(r"const __MINICONF_LOOKUP : KeyLookup = (.*?) ; \}", text, flags=re.S)
    if not m:
        raise Unsupported(f"{ident}: __MINICONF_LOOKUP not found")
    e = re.sub(r"\s+", " ", m.group(1)).strip()
    m1 = re.fullmatch(r"KeyLookup :: named \(& \[(.*)\]\)", e)
    if m1:
        names = re.findall(r"stringify ! \(([^)]*)\) ,", m1.group(1))
        if "".join(f"stringify ! ({n}) , " for n in names).strip() != m1.group(1).strip() or not names:
            raise Unsupported(f"{ident}: names list {m1.group(1)!r}")
        return ("named", [n.strip() for n in names])
    m2 = re.fullmatch(r"KeyLookup :: Numbered \(match NonZero :: new \((\d+)usize\) \{ Some \(n\) => n , None => unreachable ! \(\) , \} ,\)", e)
    if m2 and int(m2.group(1)) > 0:
        return ("numbered", int(m2.group(1)))
    raise Unsupported(f"{ident}: lookup constant {e!r}")


def read_treekey(ident, text):
    """the reading of one `TreeKey` expansion: lookup, flatten, child types, body AST of traverse_by_key"""
    t = normalise(text)
    lookup = read_lookup(ident, t)
    impl = M.find_impl(t, r"TreeKey for " + re.escape(ident))
    _s, all_txt = M.find_fn(impl, "traverse_all")
    all_txt, all_types = qualified_children(all_txt, "traverse_all")
    all_n = re.sub(r"\s+", " ", all_txt).strip()
    flat_all = re.fullmatch(r"\{ Child0 :: traverse_all \(\) \}", all_n)
    if not flat_all:
        want = "{ W :: internal (& [" + " ".join(f"& Child{i} :: traverse_all () ? ," for i in range(len(all_types))) + \
               "] , & LOOKUP) }"
        if all_n != want:
            raise Unsupported(f"{ident}::traverse_all is not `W::internal(&[children…], &LOOKUP)`: {all_n[:200]!r}")
    _s, key_txt = M.find_fn(impl, "traverse_by_key")
    key_txt, key_types = qualified_children(key_txt, "traverse_by_key")
    flatten = "flat_index ()" in key_txt
    if flatten != bool(flat_all):
        raise Unsupported(f"{ident}: traverse_all and traverse_by_key disagree about flatten")
    if key_types != all_types:
        raise Unsupported(f"{ident}: children of traverse_all {all_types} and arms of traverse_by_key {key_types} differ")
    body = M.parse_block(key_txt)
    # arms must be `i => Child_i…` for i = 0..n-1 in order, then `_ => unreachable!()` (checked on the AST)
    return {"ident": ident, "lookup": lookup, "flatten": flatten, "children": all_types, "body": body}


def tables(n, lookup_lean):
    key_fns = {"Error::increment_result": ("Error.increment_result", "pure")}
    tb = Tables(self_type=None, ctors=CORE_CTORS, fns=key_fns, methods=METHODS,
                consts={"LOOKUP": lookup_lean}, vartypes={"func": "Func"}, structs={"Self": "Unit"})
    tb.effects = {
        ("mcall", "keys", "next"): {"fmt": "(keysNext keys {0})", "pair": "keys", "err": "Traversal"},
        ("call", "func"): {"fmt": "(funcCall func {0} {1} {2})", "ok_rebinds": "func", "err": "G", "ret": "FuncRes"},
        ("call", "flat_index"): {"fmt": "(flatIndex, keys)", "pair": "keys", "err": "Traversal"},
    }
    tb.try_into = {"Traversal": "(Error.Traversal {0})"}
    tb.vartypes["LOOKUP"] = "KeyLookup"
    for i in range(n):
        tb.effects[("call", f"Child{i}::traverse_by_key")] = {"fmt": f"(child{i} keys func)", "pair": "func"}
    return tb


def check_arms(d):
    """the final `match index { 0 => Child0…, 1 => Child1…, _ => unreachable!() }`"""
    def find_match(e):
        if isinstance(e, tuple):
            if e and e[0] == "match" and e[1] == ("path", ["index"]):
                return e
            for x in e:
                r = find_match(x)
                if r:
                    return r
        elif isinstance(e, list):
            for x in e:
                r = find_match(x)
                if r:
                    return r
        return None
    mt = find_match(d["body"])
    if mt is None:
        raise Unsupported(f"{d['ident']}::traverse_by_key: no `match index`")
    arms = mt[2]
    n = len(d["children"])
    if len(arms) != n + 1:
        raise Unsupported(f"{d['ident']}::traverse_by_key: {len(arms)} arms for {n} children")
    for i, (pats, guard, body) in enumerate(arms[:n]):
        want = ("call", ("path", [f"Child{i}", "traverse_by_key"]), [("path", ["keys"]), ("path", ["func"])])
        if pats != [("pnum", i)] or guard is not None or body != want:
            raise Unsupported(f"{d['ident']}::traverse_by_key: arm {i} is {pats!r} => {body!r}")
    pats, guard, body = arms[n]
    if pats != [("pwild",)] or body[0] != "macro" or body[1] != "unreachable":
        raise Unsupported(f"{d['ident']}::traverse_by_key: default arm {pats!r} => {body!r}")


def lean_lookup(lookup):
    if lookup[0] == "named":
        return "KeyLookup.Named [" + ", ".join(f'"{n}"' for n in lookup[1]) + "]"
    return f"KeyLookup.Numbered {lookup[1]}"


def model_lookup(lookup):
    if lookup[0] == "named":
        return ".named [" + ", ".join(f'"{n}"' for n in lookup[1]) + "]"
    return f".numbered {lookup[1]}"


VALUE_FNS = {"ser": ("TreeSerialize", "serialize_by_key", False, ["item", "keys", "ser"]),
             "de": ("TreeDeserialize", "deserialize_by_key", True, ["item", "keys", "de"]),
             "ref": ("TreeAny", "ref_any_by_key", False, ["item", "keys"]),
             "mut": ("TreeAny", "mut_any_by_key", True, ["item", "keys"])}


def place_text(e):
    """`self.foo` / `self.0` / `value` from the AST of a place expression"""
    if e[0] == "path" and len(e[1]) == 1:
        return e[1][0]
    if e[0] == "field":
        return place_text(e[1]) + "." + str(e[2])
    raise Unsupported(f"place expression {e!r}")


def into_of(e, ctor):
    """`Traversal::<ctor>(0, X).into()` -> X (AST), else None"""
    if e[0] == "mcall" and e[2] == "into" and not e[3] and e[1][0] == "call" and e[1][1] == ("path", ["Traversal", ctor]) \
            and len(e[1][2]) == 2 and e[1][2][0] == ("num", 0):
        return e[1][2][1]
    return None


def read_arm(ident, op, e):
    trait, method, mutating, args = VALUE_FNS[op]
    what = f"{ident}::{method}"
    # denied: Err(Traversal::Access(0, "msg").into())
    if e[0] == "call" and e[1] == ("path", ["Err"]) and len(e[2]) == 1:
        msg = into_of(e[2][0], "Access")
        if msg is not None and msg[0] == "str":
            return {"deny": msg[1]}
        raise Unsupported(f"{what}: arm {e!r}")
    validate = 0
    if op == "de" and e[0] == "mcall" and e[2] == "and_then" and e[3] and e[3][0][0] == "closure" \
            and e[3][0][1] == [("pbind", "depth")]:
        v = e[3][0][2]
        ok = (v[0] == "mcall" and v[2] == "map_err" and v[1][0] == "call" and v[1][2] == [("path", ["depth"])]
              and v[3] and v[3][0][0] == "closure" and v[3][0][1] == [("pbind", "msg")]
              and into_of(v[3][0][2], "Invalid") == ("path", ["msg"]))
        m = re.fullmatch(r"val_(\d+)", v[1][1][1][-1]) if ok else None
        if not m:
            raise Unsupported(f"{what}: validator {v!r}")
        validate = int(m.group(1))
        e = e[1]
    if not (e[0] == "mcall" and e[2] == "and_then" and e[3] and e[3][0][0] == "closure" and e[3][0][1] == [("pbind", "item")]
            and e[3][0][2] == ("call", ("path", [trait, method]), [("path", [a]) for a in args])):
        raise Unsupported(f"{what}: arm does not hand the item to `{trait}::{method}(item, keys, …)`: {e!r}")
    g = e[1]
    get = 0
    if g[0] == "mcall" and g[2] == "map_err":
        ok = (g[3] and g[3][0][0] == "closure" and g[3][0][1] == [("pbind", "msg")]
              and into_of(g[3][0][2], "Access") == ("path", ["msg"]) and g[1][0] == "call" and len(g[1][2]) == 1)
        m = re.fullmatch(r"acc(m?)_(\d+)", g[1][1][1][-1]) if ok else None
        if not m or bool(m.group(1)) != mutating:
            raise Unsupported(f"{what}: accessor {g!r}")
        get = int(m.group(2))
        arg = g[1][2][0]
    elif g[0] == "call" and g[1] == ("path", ["Ok"]) and len(g[2]) == 1:
        arg = g[2][0]
    else:
        raise Unsupported(f"{what}: getter {g!r}")
    if arg[0] == "unary" and arg[1] in ("&", "&mut"):
        if (arg[1] == "&mut") != mutating:
            raise Unsupported(f"{what}: `{arg[1]}` borrow in a {'mutating' if mutating else 'read-only'} operation")
        arg = arg[2]
    return {"place": place_text(arg), "get": get, "validate": validate}


def read_value(ident, texts, n, flatten):
    """per operation: the arms of the `match` (which place / accessor / validator / denial each index uses, and for enums
    which variant), the default arm and whether the result is incremented"""
    out = {}
    for op, (trait, method, mutating, args) in VALUE_FNS.items():
        t = normalise(texts[trait])
        t = re.sub(r"(accm?|val) :: < (\d+)(?: , _)? >", r"\1_\2", t)
        t = t.replace("TreeDeserialize :: < 'de > :: deserialize_by_key", "TreeDeserialize :: deserialize_by_key")
        t = t.replace("let ret : Result < _ , _ > =", "let ret =")
        impl = M.find_impl(t, r".*" + trait + r"(?: < 'de >)? for " + re.escape(ident))
        _s, txt = M.find_fn(impl, method)
        b = M.parse_block(txt)
        what = f"{ident}::{method}"
        idx = ("try", ("call", ("path", ["flat_index"]), [])) if flatten else \
            ("try", ("mcall", ("path", ["keys"]), "next", [("unary", "&", ("path", ["LOOKUP"]))]))
        if not b[1] or b[1][0] != ("let", ("pbind", "index"), idx):
            raise Unsupported(f"{what}: first statement {b[1][:1]!r}")
        if op in ("ser", "de"):
            tail = b[2]
            if len(b[1]) != 1:
                raise Unsupported(f"{what}: statements {b[1]!r}")
            if not flatten:
                if not (tail and tail[0] == "call" and tail[1] == ("path", ["Error", "increment_result"]) and len(tail[2]) == 1):
                    raise Unsupported(f"{what}: result is not `Error::increment_result(match …)`")
                tail = tail[2][0]
            while tail and tail[0] == "paren":
                tail = tail[1]
            mt = tail
        else:
            if len(b[1]) != 2 or b[1][1][0] != "let" or b[1][1][1] != ("pbind", "ret"):
                raise Unsupported(f"{what}: statements {b[1]!r}")
            mt = b[1][1][2]
            want_tail = ("path", ["ret"]) if flatten else \
                ("mcall", ("path", ["ret"]), "map_err", [("path", ["Traversal", "increment"])])
            if b[2] != want_tail:
                raise Unsupported(f"{what}: tail {b[2]!r}")
        if not mt or mt[0] != "match":
            raise Unsupported(f"{what}: no match: {mt!r}")
        is_enum = mt[1] == ("tuple", [("path", ["self"]), ("path", ["index"])])
        if not is_enum and mt[1] != ("path", ["index"]):
            raise Unsupported(f"{what}: match scrutinee {mt[1]!r}")
        arms = mt[2]
        if len(arms) != n + 1:
            raise Unsupported(f"{what}: {len(arms) - 1} arms for {n} children")
        res = []
        for i, (pats, guard, body) in enumerate(arms[:n]):
            if guard is not None or len(pats) != 1:
                raise Unsupported(f"{what}: arm {i} pattern {pats!r}")
            variant = None
            if is_enum:
                p = pats[0]
                ok = (p[0] == "ptuple" and len(p[1]) == 2 and p[1][1] == ("pnum", i) and p[1][0][0] == "ppath"
                      and len(p[1][0][1]) == 2 and p[1][0][1][0] == "Self" and p[1][0][2]
                      and p[1][0][2][0] == ("pbind", "value") and all(x[0] == "prest" for x in p[1][0][2][1:]))
                if not ok:
                    raise Unsupported(f"{what}: arm {i} pattern {p!r}")
                variant = p[1][0][1][1]
            elif pats[0] != ("pnum", i):
                raise Unsupported(f"{what}: arm {i} pattern {pats[0]!r}")
            r = read_arm(ident, op, body)
            r["variant"] = variant
            res.append(r)
        pats, guard, body = arms[n]
        if pats != [("pwild",)]:
            raise Unsupported(f"{what}: default pattern {pats!r}")
        if is_enum:
            d = body[0] == "call" and body[1] == ("path", ["Err"]) and len(body[2]) == 1 and \
                body[2][0] == ("mcall", ("call", ("path", ["Traversal", "Absent"]), [("num", 0)]), "into", [])
            default = "absent0" if d else repr(body)
        else:
            default = "unreachable" if body[0] == "macro" and body[1] == "unreachable" else repr(body)
        out[op] = {"arms": res, "default": default, "enum": is_enum, "ast": b}
    return out


def plain_struct(value):
    """a struct / tuple struct all of whose arms are the plain field access `Ok(&[mut] self.<f>)` (no accessor, validator,
    denial, `defer`): its four by-key functions have the shape of the tuple impls of impls.rs"""
    for op, r in value.items():
        if r["enum"] or r["default"] != "unreachable":
            return False
        for a in r["arms"]:
            if "deny" in a or a["get"] or a["validate"] or not re.fullmatch(r"self\.\w+", a["place"]):
                return False
    places = [a["place"] for a in value["ser"]["arms"]]
    return all([a["place"] for a in value[op]["arms"]] == places for op in value) and len(set(places)) == len(places)


def direct_calls(b, op):
    """`Ok(&[mut] self.f).and_then(|item| Trait::m(item, keys, x))` -> `self.f.m(keys, x)` (`Result::Ok(v).and_then(g)` is
    `g(v)`): the form in which impls.rs writes the same access"""
    trait, method, mutating, args = VALUE_FNS[op]

    def go(e):
        if isinstance(e, tuple):
            if e and e[0] == "mcall" and e[2] == "and_then" and e[1][0] == "call" and e[1][1] == ("path", ["Ok"]) \
                    and e[3] and e[3][0][0] == "closure" and e[3][0][1] == [("pbind", "item")] \
                    and e[3][0][2] == ("call", ("path", [trait, method]), [("path", [a]) for a in args]):
                recv = e[1][2][0]
                while recv[0] == "unary":
                    recv = recv[2]
                return ("mcall", recv, method, [("path", [a]) for a in args[1:]])
            return tuple(go(x) for x in e)
        if isinstance(e, list):
            return [go(x) for x in e]
        return e
    return go(b)


def structure(types_rs):
    """[{ident, lookup, flatten, children (type texts), value: per-operation arm readings}] for the checker (no AST)"""
    exp = run_expander(types_rs)
    out = []
    for ident, d in exp.items():
        r = read_treekey(ident, d["TreeKey"])
        check_arms(r)
        e = {k: r[k] for k in ("ident", "lookup", "flatten", "children")}
        e["value"] = {op: {k: v for k, v in rv.items() if k != "ast"}
                      for op, rv in read_value(ident, d, len(r["children"]), r["flatten"]).items()}
        out.append(e)
    return out


def node_tie(name, fn, consts, lk, names, n, doc):
    """the tie theorem of one derived (non-flatten) type — the proof script of the tuple ties (tools/mk_impl_ties.py)"""
    childs = " ".join(f"child{j}" for j in range(n))
    schemas = " ".join(f"c{j}" for j in range(n))
    hyps = " ".join(f"(h{j} : ChildRel child{j} (c{j}.traverse cb))" for j in range(n))
    clist = "[" + ", ".join(f"c{i}" for i in range(n)) + "]"
    idx = " ∨ ".join(f"i = {i}" for i in range(n))
    pats = " | ".join("rfl" for _ in range(n))
    cases = []
    for i in range(n):
        nm = f'some "{names[i]}"' if names else "none"
        cases.append(f'''    · simp only [KeyLookup.lookup, KeyLookup.len, nonZeroNew, funcM, Lookup.name?, Lookup.len, hnext]
      cases hcb : cb st ⟨{i}, {nm}, {n}⟩ with
      | none => simp [Except.mapError, hcb, outOfP, resOfGen]
      | some st' => simp [Except.mapError, hcb, outOfP, childRel_apply h{i}]''')
    if n == 1:
        split = "    obtain rfl : i = 0 := by omega"
        cases = [c.replace("    · simp only", "    simp only", 1).replace("\n      ", "\n    ") for c in cases]
    else:
        split = f"    have hi' : {idx} := by omega\n    rcases hi' with {pats}"
    return f'''
/-- {doc} -/
theorem {name} {{σ : Type}} (cb : σ → CbArg → Option σ) ({schemas} : Schema) (ks : KeySrc) (st : σ)
    ({childs} : KeySrc → σ → Except (Error Unit) Nat × σ) {hyps}
    (hnp : ∀ s, ks.next ({lk}) ≠ .error (.panic s)) :
    outOfP ({fn} keysNextM (funcM cb) {childs} ks st) =
      some (Schema.traverse cb (.node ({lk}) {clist}) ks st) := by
  rw [traverse_node_eq]
  simp only [nodeStep, {fn}, {consts}keysNextM, lookupOfGen, nonZeroNew]
  try simp +decide only [↓reduceIte, lookupOfGen]
  cases hnext : ks.next ({lk}) with
  | error e =>
    cases e with
    | panic s => exact absurd hnext (hnp s)
    | _ => simp [outOfP, resOfGen, travToGen, travOfGen, hnext, KeyLookup.len]
  | ok p =>
    obtain ⟨i, ks'⟩ := p
    have hi := next_lt ks _ i ks' hnext
    simp only [Lookup.len, List.length_cons, List.length_nil] at hi
{split}
''' + "\n".join(cases) + "\n"


def flat_tie(name, fn, doc):
    return f'''
/-- {doc} -/
theorem {name} {{σ : Type}} (cb : σ → CbArg → Option σ) (c0 : Schema) (ks : KeySrc) (st : σ)
    (child0 : KeySrc → σ → Except (Error Unit) Nat × σ) (h0 : ChildRel child0 (c0.traverse cb)) :
    outOfP ({fn} keysNextM (funcM cb) child0 ks st) = some (c0.traverse cb ks st) := by
  simp only [{fn}, Derive.flatIndex, outOfP, Option.some.injEq]
  exact h0 ks st
'''


def generate_ties(tree_rs, field_rs, types_rs):
    """`Lemmas/GenTieDerive.lean`: one tie theorem per derived type of the corpus, and their conjunction"""
    _text, ties = read_all(tree_rs, field_rs, types_rs)
    out = ["-- GENERATED by extract/gen_derive.py — do not edit.  One theorem per derived corpus type: the translated OUTPUT of",
           "-- `#[derive(TreeKey)]` for it is the model's traversal of the node its declaration denotes.",
           "import MiniconfVerif.Gen.Derive", "import MiniconfVerif.Lemmas.GenTieImpls",
           "namespace MiniconfVerif.GenTie", "open MiniconfVerif MiniconfVerif.Gen MiniconfVerif.Gen.Core", ""]
    names = []
    for r in ties:
        ident, n = r["ident"], len(r["children"])
        kids = ", ".join(r["children"])
        if r["flatten"]:
            out.append(flat_tie(f"derive_{ident}_tie", f"Derive.{ident}.traverse_by_key",
                                f"`#[tree(flatten)] {ident}`: the traversal of its only child `{kids}` (no key consumed, no callback)"))
        else:
            out.append(node_tie(f"derive_{ident}_tie", f"Derive.{ident}.traverse_by_key", f"Derive.{ident}.LOOKUP, ",
                                model_lookup(r["lookup"]), r["lookup"][1] if r["lookup"][0] == "named" else None, n,
                                f"`{ident}`: `{model_lookup(r['lookup'])}`, children `{kids}`"))
        names.append(f"derive_{ident}_tie")
    out.append("/-- every derived type of the corpus (used as an obligation of C02) -/")
    out.append("def DeriveTies : Prop :=\n  " + " ∧\n  ".join(f"(∀ {{σ : Type}}, type_of% (@{n} σ))" for n in names))
    out.append("\ntheorem deriveTies : DeriveTies :=\n  ⟨" + ", ".join(f"@{n}" for n in names) + "⟩\n")
    out.append("end MiniconfVerif.GenTie")
    return "\n".join(out) + "\n"


def generate_value_ties(tree_rs, field_rs, types_rs):
    """`Lemmas/GenTieDeriveValue.lean`: for every derived struct / tuple struct whose fields carry no attributes, the four
    by-key functions as generated by the derive are `Tree.walk` at the node (the proof script of the tuple value ties)"""
    sys.path.insert(0, os.path.join(VERIF, "tools"))
    import mk_tuple_value_ties as TV
    _text, ties = read_all(tree_rs, field_rs, types_rs)
    out = ["-- GENERATED by extract/gen_derive.py — do not edit.  Value level: `serialize_by_key` / `deserialize_by_key` /",
           "-- `ref_any_by_key` / `mut_any_by_key` as GENERATED by the derive for every struct / tuple struct of the corpus whose",
           "-- fields carry no attributes = `Tree.walk` at the node (only the designated field is read or replaced).",
           "import MiniconfVerif.Gen.Derive", "import MiniconfVerif.Lemmas.GenTieValue",
           "set_option linter.unusedSimpArgs false",
           "namespace MiniconfVerif.GenTie", "open MiniconfVerif MiniconfVerif.Gen MiniconfVerif.Gen.Core", ""]
    names = []
    for r in ties:
        if not r.get("plain"):
            continue
        ident, n = r["ident"], len(r["children"])
        for tag in TV.OPS:
            thm = f"derive_{ident}_{tag}_tie"
            out.append(TV.tie(n, tag, name=ident, lk=model_lookup(r["lookup"]), consts=f"Derive.{ident}.LOOKUP, ", ns="Derive", thm=thm))
            names.append(thm)
    groups = [names[i:i + 32] for i in range(0, len(names), 32)]
    for g, grp in enumerate(groups):
        out.append(f"def DeriveValueTies{g} : Prop :=\n  " + " ∧\n  ".join(f"type_of% @{x}" for x in grp))
        out.append(f"theorem deriveValueTies{g} : DeriveValueTies{g} :=\n  ⟨" + ", ".join(f"@{x}" for x in grp) + "⟩\n")
    out.append("/-- all of them as one statement (an obligation of C01) -/")
    out.append("def DeriveValueTies : Prop :=\n  " + " ∧ ".join(f"DeriveValueTies{g}" for g in range(len(groups))))
    out.append("\ntheorem deriveValueTies : DeriveValueTies :=\n  ⟨" + ", ".join(f"deriveValueTies{g}" for g in range(len(groups))) + "⟩\n")
    out.append("end MiniconfVerif.GenTie")
    return "\n".join(out) + "\n"


_MEMO = {}


def read_all(tree_rs, field_rs, types_rs):
    key = (types_rs, os.path.getmtime(types_rs), os.path.getmtime(tree_rs), os.path.getmtime(field_rs))
    if key not in _MEMO:
        _MEMO[key] = _generate(tree_rs, field_rs, types_rs)
    return _MEMO[key]


def generate(tree_rs, field_rs, types_rs):
    return read_all(tree_rs, field_rs, types_rs)[0]


def _generate(tree_rs, field_rs, types_rs, limit=None):
    exp = run_expander(types_rs)
    out = ["-- GENERATED by extract/gen_derive.py from the OUTPUT of miniconf_derive (its own source run on harness/src/gen_types.rs) — do not edit.",
           "import MiniconfVerif.Gen.Impls", "set_option linter.unusedVariables false",
           "namespace MiniconfVerif.Gen.Derive", "open MiniconfVerif.Gen MiniconfVerif.Gen.Core", "",
           "/-- `let index = Ok(0)?` of a `#[tree(flatten)]` type -/",
           "def flatIndex : Except Traversal Nat := .ok 0", ""]
    ties = []
    n_done = 0
    for ident, d in exp.items():
        r = read_treekey(ident, d["TreeKey"])
        check_arms(r)
        n = len(r["children"])
        lk = lean_lookup(r["lookup"])
        out.append(f"/-- `{ident}::__MINICONF_LOOKUP` as the derive writes it; children: " +
                   ", ".join(f"`{c}`" for c in r["children"]) + " -/")
        out.append(f"def {ident}.LOOKUP : KeyLookup := {lk}")
        if r["lookup"][0] == "named":
            out.append(f"example : Impls.KeyLookup.named [" + ", ".join(f'"{x}"' for x in r["lookup"][1]) +
                       f"] = .val {ident}.LOOKUP := rfl")
        tb = tables(n, f"{ident}.LOOKUP")
        children = " ".join(f"(child{i} : K → σ → Except (Error G) Nat × σ)" for i in range(n))
        out += translate_fn(r["body"], f"{ident}.traverse_by_key", f"{SIG} {children} (keys : K) (func : σ)",
                            "Except (Error G) Nat", tb, "panic", state_ret=("func", "σ"),
                            doc=f"`<{ident} as TreeKey>::traverse_by_key` as generated by `#[derive(TreeKey)]`" +
                                (" (`#[tree(flatten)]`)" if r["flatten"] else ""))
        r["plain"] = False
        if not r["flatten"]:
            value = read_value(ident, d, n, False)
            if plain_struct(value):
                r["plain"] = True
                fields = [a["place"].split(".", 1)[1] for a in value["ser"]["arms"]]
                fmap = {f: i for i, f in enumerate(fields)}
                consts = {"LOOKUP": f"{ident}.LOOKUP"}
                key_fns = {"Error::increment_result": ("Error.increment_result", "pure")}
                for op, (trait, method, _mut, _args) in VALUE_FNS.items():
                    body = direct_calls(value[op]["ast"], op)
                    if op in ("ref", "mut"):
                        # `let ret = <match>; ret.map_err(Traversal::increment)` -> `<match>.map_err(Traversal::increment)`
                        # (single use of an immutable binding), the form of the tuple impls
                        st, tail = body[1], body[2]
                        if not (len(st) == 2 and st[1][0] == "let" and st[1][1] == ("pbind", "ret") and tail[0] == "mcall"
                                and tail[1] == ("path", ["ret"])):
                            raise Unsupported(f"{ident}::{method}: `let ret = …; ret.map_err(…)` expected")
                        body = ("block", [st[0]], ("mcall", st[1][2], tail[2], tail[3]))
                    out += GI.value_fn_(consts, key_fns, f"{ident}.{method}", body, method, n, fieldmap=fmap,
                                        doc=f"`<{ident} as {trait}>::{method}` as generated by the derive (fields as a list: {fields})")
        ties.append(r)
        n_done += 1
    out.append("end MiniconfVerif.Gen.Derive")
    return "\n".join(out) + "\n", ties


if __name__ == "__main__":
    R = "/repo/miniconf_derive/src/"
    try:
        T = os.path.join(VERIF, "harness", "src", "gen_types.rs")
        if len(sys.argv) > 1 and sys.argv[1] == "ties":
            print(generate_ties(R + "tree.rs", R + "field.rs", T))
        elif len(sys.argv) > 1 and sys.argv[1] == "vties":
            print(generate_value_ties(R + "tree.rs", R + "field.rs", T))
        else:
            print(generate(R + "tree.rs", R + "field.rs", T))
    except Unsupported as e:
        print(f"TRANSLATOR-UNSUPPORTED: {e}", file=sys.stderr)
        sys.exit(3)
