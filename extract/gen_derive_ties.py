#!/usr/bin/env python3
"""`Lemmas/GenTieDerive.lean`: the tie theorems for the derive output of every corpus type (see gen_derive.py)."""
import gen_derive


def generate(tree_rs, field_rs, types_rs):
    return gen_derive.generate_ties(tree_rs, field_rs, types_rs)
