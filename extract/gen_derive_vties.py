#!/usr/bin/env python3
"""`Lemmas/GenTieDeriveValue.lean`: value-level ties for the derive output of the attribute-free structs (see gen_derive.py)."""
import gen_derive


def generate(tree_rs, field_rs, types_rs):
    return gen_derive.generate_value_ties(tree_rs, field_rs, types_rs)
