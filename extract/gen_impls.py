#!/usr/bin/env python3
"""Translate the `TreeKey` impls of the built-in containers (miniconf/src/impls.rs) into Lean (`Gen/Impls.lean`):

  * `traverse_by_key` of tuples (the `impl_tuple!` body, expanded for the eight arities of the source), arrays,
    `Result`, `Bound`, `Range`, `RangeInclusive`, `RangeFrom`, `RangeTo` — state threading made explicit: the key
    source (`keys.next(&lookup)`), the callback (`func(index, name, len)`) and the children's `traverse_by_key` are
    parameters;
  * `traverse_all` of the same types: the list of children and the lookup handed to `W::internal`;
  * the transparent wrappers (`Option`, `Cell`, `RefCell`, `Box`, `Rc`, `Arc`, `rc::Weak`, `sync::Weak`, `Cow`, `Mutex`,
    `RwLock`, `&T`, `&mut T`, …): both functions must be the plain delegation to `T` (checked; listed)."""
import re
import sys

import minirust as M
from minirust import Unsupported
from rust2lean import Tables, translate_fn

from gen_core import CTORS as CORE_CTORS

METHODS = {
    ("KeyLookup", "len"): {"kind": "panicfn", "fmt": "(KeyLookup.len {0})"},
    ("KeyLookup", "lookup"): {"kind": "fmt", "fmt": "(KeyLookup.lookup {0} {1})", "err": "Traversal"},
    ("FuncRes", "map_err"): {"kind": "lamfmt", "fmt": "(Except.mapError {1} {0})", "ret": "FuncRes", "err": "Error"},
    (None, "get"): {"kind": "id"},
}

SIG = ("{K σ G : Type} (keysNext : K → KeyLookup → Except Traversal Nat × K) "
       "(funcCall : σ → Nat → Option String → Nat → Except G σ)")


def tables(nchildren, consts, extra_fns=None):
    tb = Tables(self_type=None, ctors=CORE_CTORS, fns=dict(extra_fns or {}), methods=METHODS, consts=consts,
                vartypes={"k": "KeyLookup", "func": "Func"}, structs={"Self": "Unit"})
    tb.effects = {
        ("mcall", "keys", "next"): {"fmt": "(keysNext keys {0})", "pair": "keys", "err": "Traversal"},
        ("call", "func"): {"fmt": "(funcCall func {0} {1} {2})", "ok_rebinds": "func", "err": "G", "ret": "FuncRes"},
    }
    tb.try_into = {"Traversal": "(Error.Traversal {0})"}
    for c in consts:
        tb.vartypes[c] = "KeyLookup"
    return tb


def fn_in(src, impl_re, name):
    body = M.find_impl(src, impl_re)
    sig, text = M.find_fn(body, name)
    return sig, M.parse_block(text)


def expand_tuple_macro(src):
    """the body of `impl_tuple!` instantiated for every invocation `impl_tuple!(n i0 T0 i1 T1 ...)`"""
    m = re.search(r"macro_rules! impl_tuple \{\s*\(\$n:literal \$\(\$i:tt \$t:ident\)\+\) => \{(.*?)\n    \}\n\}", src, flags=re.S)
    if not m:
        raise Unsupported("impl_tuple! macro not found / pattern changed")
    body = m.group(1)
    out = {}
    for inv in re.finditer(r"impl_tuple!\(([^)]*)\);", src):
        toks = inv.group(1).split()
        n = int(toks[0])
        pairs = list(zip(toks[1::2], toks[2::2]))
        if len(pairs) != n or [int(i) for i, _ in pairs] != list(range(n)):
            raise Unsupported(f"impl_tuple! invocation {inv.group(1)!r}")

        def rep(mm):
            inner = mm.group(1)
            sep = mm.group(2)
            parts = [inner.replace("$i", i).replace("$t", t) for i, t in pairs]
            return (sep.join(parts)) if sep else "".join(parts)
        text = re.sub(r"\$\(((?:[^()]|\([^()]*\))*)\)(,?)\+", rep, body)
        text = text.replace("$n", str(n))
        if "$" in text:
            raise Unsupported("impl_tuple!: unexpanded macro variable")
        out[n] = (text, [t for _, t in pairs])
    if sorted(out) != list(range(1, 9)):
        raise Unsupported(f"impl_tuple! arities {sorted(out)}")
    return out


def subst_children(b, tynames):
    """`T0::traverse_by_key(keys, func)` -> effect call `childK`"""
    def go(e):
        if isinstance(e, tuple):
            if e and e[0] == "call" and e[1][0] == "path" and len(e[1][1]) == 2 and e[1][1][1] == "traverse_by_key" \
                    and e[1][1][0] in tynames:
                if e[2] != [("path", ["keys"]), ("path", ["func"])]:
                    raise Unsupported("child traverse_by_key call with unexpected arguments")
                return ("call", ("path", ["child%d" % tynames.index(e[1][1][0])]), [])
            return tuple(go(x) for x in e)
        if isinstance(e, list):
            return [go(x) for x in e]
        return e
    return go(b)


def traverse_all_shape(b, tynames, what):
    """`W::internal(&[&T::traverse_all()?, ...], &LOOKUP)` -> (child indices, lookup expr)"""
    stmts, tail = b[1], b[2]
    stmts = [s for s in stmts if not (s[0] == "let" and s[1] == ("ptuple", []))]   # `let () = Assert::<N, 0>::GREATER;`
    if stmts or tail is None or tail[0] != "call" or tail[1] != ("path", ["W", "internal"]) or len(tail[2]) != 2:
        raise Unsupported(f"{what}::traverse_all: body {b!r}")
    arr, lk = tail[2]
    while arr[0] == "unary":
        arr = arr[2]
    while lk[0] == "unary":
        lk = lk[2]

    def child(e):
        while e[0] == "unary":
            e = e[2]
        if e[0] == "try" and e[1][0] == "call" and e[1][1][0] == "path" and e[1][1][1][1:] == ["traverse_all"] \
                and e[1][1][1][0] in tynames and not e[1][2]:
            return tynames.index(e[1][1][1][0])
        raise Unsupported(f"{what}::traverse_all: child {e!r}")
    if arr[0] == "array":
        kids = [child(x) for x in arr[1]]
    elif arr[0] == "repeat" and arr[2][0] == "num":
        kids = [child(arr[1])] * arr[2][1]
    else:
        raise Unsupported(f"{what}::traverse_all: children {arr!r}")
    return kids, lk


def lookup_const(src, name):
    m = re.search(r"const " + name + r": KeyLookup = KeyLookup::named\(&\[([^\]]*)\]\);", src)
    if not m:
        raise Unsupported(f"const {name}")
    return [x.strip().strip('"') for x in m.group(1).split(",") if x.strip()]


# value level: shared by the container impls and the derive output (gen_derive.py)
VAL_METHODS = dict(METHODS)
VAL_METHODS.update({
    ("AnyRes", "map_err"): {"kind": "lamfmt", "fmt": "(Except.mapError {1} {0})", "ret": "AnyRes", "err": "Traversal"},
    ("OptSelf", "as_ref"): {"kind": "id", "ret": "OptSelf"},
    ("OptSelf", "as_mut"): {"kind": "id", "ret": "OptSelf"},
    ("OptSelf", "ok_or"): {"kind": "fmt", "fmt": "(match {0} with | some v => Except.ok v | none => Except.error {1})",
                           "err": "Traversal", "ret": "OptRes"},
})
OPS = {"serialize_by_key": ("Ser", False, "Except (Error S) Nat", "{S : Type} "),
       "deserialize_by_key": ("De", True, "Except (Error D) Nat", "{D : Type} "),
       "ref_any_by_key": ("Ref", False, "Except Traversal Unit", ""),
       "mut_any_by_key": ("Mut", True, "Except Traversal Unit", "")}

def child_sig(tag, mutating, res_ty, n=None):
    def one(name):
        return (f"({name} : C → K → {res_ty} × C)" if mutating else f"({name} : C → K → {res_ty})")
    if n is None:
        return one("child" + tag)
    return " ".join(one(f"child{tag}{i}") for i in range(n))

def rewrite_indexed(b, method, per_index, fieldmap=None):
    """`self[index].m(keys, x)` / `self.<i>.m(keys, x)` / `self.<field>.m(keys, x)` -> pseudo call `at_m(<index>)`"""
    def go(e):
        if isinstance(e, tuple):
            if e and e[0] == "mcall" and e[2] == method:
                recv = e[1]
                if recv[0] == "index" and recv[1] == ("path", ["self"]):
                    return ("call", ("path", ["at_" + method]), [go(recv[2])])
                if recv[0] == "field" and recv[1] == ("path", ["self"]) and recv[2].isdigit():
                    return ("call", ("path", [f"at_{method}_{recv[2]}"]), [("num", int(recv[2]))])
                if recv[0] == "field" and recv[1] == ("path", ["self"]) and fieldmap and recv[2] in fieldmap:
                    i = fieldmap[recv[2]]
                    return ("call", ("path", [f"at_{method}_{i}"]), [("num", i)])
            return tuple(go(x) for x in e)
        if isinstance(e, list):
            return [go(x) for x in e]
        return e
    return go(b)

def value_fn_(consts, key_fns, lean, body, method, n_children, extra_sig="", doc="", fieldmap=None, same_child=False,
              impl_ns="Impls"):
    tag, mutating, res_ty, tparams = OPS[method]
    b = rewrite_indexed(body, method, n_children, fieldmap)
    tb = tables(0, dict(consts, N="N"), dict(key_fns, **{"Traversal::increment": ("Traversal.increment", "pure")}))
    tb.methods = VAL_METHODS
    tb.effects = {("mcall", "keys", "next"): {"fmt": "(keysNext keys {0})", "pair": "keys", "err": "Traversal"}}
    tb.try_into = {"Traversal": "(Error.Traversal {0})"} if tag in ("Ser", "De") else {}
    tb.rettags = {}
    anytag = "AnyRes" if tag in ("Ref", "Mut") else None
    if n_children is None:
        names = {"at_" + method: "child" + tag}
    elif same_child:
        names = {f"at_{method}_{i}": f"child{tag}" for i in range(n_children)}
    else:
        names = {f"at_{method}_{i}": f"child{tag}{i}" for i in range(n_children)}
    for pseudo, child in names.items():
        if mutating:
            tb.effects[("call", pseudo)] = {"fmt": f"(applyAt {child} self {{0}} keys)", "ppair": "self", "ret": anytag}
        else:
            tb.effects[("call", pseudo)] = {"fmt": f"(applyAtR {child} self {{0}} keys)", "pval": True, "ret": anytag}
    tb.structs = {"Self": "List C"}
    sig = (f"{{K C : Type}} {tparams}(keysNext : K → KeyLookup → Except Traversal Nat × K) {extra_sig}"
           f"{child_sig(tag, mutating, res_ty, None if same_child else n_children)} (self : List C) (keys : K)")
    return translate_fn(b, lean, sig, res_ty, tb, "panic", mut_self=mutating, doc=doc)



def generate(impls_rs, key_rs, tree_rs):
    src = M.strip_comments(open(impls_rs).read())
    tsrc = M.strip_comments(open(tree_rs).read())
    ksrc = M.strip_comments(open(key_rs).read())
    out = ["-- GENERATED by extract/gen_impls.py from miniconf/src/impls.rs (and key.rs constructors) — do not edit.",
           "import MiniconfVerif.Gen.Core", "set_option linter.unusedVariables false",
           "namespace MiniconfVerif.Gen.Impls", "open MiniconfVerif.Gen MiniconfVerif.Gen.Core", ""]
    # KeyLookup constructors used by the impls
    for name in ("named", "homogeneous", "numbered"):
        sig, b = fn_in(ksrc, r"KeyLookup", name)
        arg = "(names : List String)" if name == "named" else "(len : Nat)"
        tb = Tables(self_type="KeyLookup", ctors=CORE_CTORS, fns={"NonZero::new": ("nonZeroNew", "pure")},
                    methods={("list:String", "is_empty"): {"kind": "fmt", "fmt": "{0}.isEmpty"}},
                    vartypes={"names": "list:String"}, structs={"Self": "KeyLookup"})
        out += translate_fn(b, "KeyLookup." + name, arg, "KeyLookup", tb, "panic", doc=f"`KeyLookup::{name}`")
    consts = {}
    for cname in ("RESULT_LOOKUP", "BOUND_LOOKUP", "RANGE_LOOKUP", "RANGE_FROM_LOOKUP", "RANGE_TO_LOOKUP"):
        names = lookup_const(src, cname)
        consts[cname] = cname
        out.append(f"/-- `const {cname}` (`KeyLookup::named` of a non-empty literal: the `Named` variant) -/")
        out.append(f"def {cname} : KeyLookup := KeyLookup.Named [" + ", ".join(f'"{n}"' for n in names) + "]\n")
    key_fns = {"KeyLookup::numbered": ("KeyLookup.numbered", "panic"), "KeyLookup::homogeneous": ("KeyLookup.homogeneous", "panic"),
               "Error::increment_result": ("Error.increment_result", "pure")}

    def emit(kind, lean, body, tynames, extra_sig="", doc=""):
        n = len(tynames)
        b = subst_children(body, tynames)
        b = ("block", [s for s in b[1] if not (s[0] == "let" and s[1] == ("ptuple", []))], b[2])
        tb = tables(n, dict(consts, N="N"), key_fns)
        for i in range(n):
            tb.effects[("call", f"child{i}")] = {"fmt": f"(child{i} keys func)", "pair": "func"}
        children = " ".join(f"(child{i} : K → σ → Except (Error G) Nat × σ)" for i in range(n))
        sig = f"{SIG} {extra_sig}{children} (keys : K) (func : σ)"
        return translate_fn(b, lean, sig, "Except (Error G) Nat", tb, "panic", doc=doc, state_ret=("func", "σ"))

    def with_state(lines):
        return lines

    # tuples
    for n, (text, tys) in sorted(expand_tuple_macro(src).items()):
        hdr = r"<" + r",\s*".join(f"{t}: TreeKey" for t in tys) + r"> TreeKey for \(" + r"\s*".join(f"{t}," for t in tys) + r"\)"
        body = M.find_impl(text, hdr)
        _s, t_all = M.find_fn(body, "traverse_all")
        kids, lk = traverse_all_shape(M.parse_block(t_all), tys, f"tuple{n}")
        if kids != list(range(n)) or lk != ("call", ("path", ["KeyLookup", "numbered"]), [("num", n)]):
            raise Unsupported(f"tuple{n}::traverse_all: children {kids} lookup {lk!r}")
        _s, t_key = M.find_fn(body, "traverse_by_key")
        out += with_state(emit("tuple", f"tuple{n}.traverse_by_key", M.parse_block(t_key), tys,
                               doc=f"`<(T0, …) as TreeKey>::traverse_by_key` for the {n}-tuple (`impl_tuple!` expanded)"))
        out.append(f"/-- `traverse_all` of the {n}-tuple: children in order, `KeyLookup::numbered({n})` -/")
        out.append(f"def tuple{n}.children : List Nat := {kids}\n")
    # array
    sig, b = fn_in(src, r"<T: TreeKey, const N: usize> TreeKey for \[T; N\]", "traverse_all")
    kids, lk = traverse_all_shape(b, ["T"], "array")
    if kids != [0] or lk != ("call", ("path", ["KeyLookup", "homogeneous"]), [("path", ["N"])]):
        raise Unsupported(f"array::traverse_all {kids} {lk!r}")
    sig, b = fn_in(src, r"<T: TreeKey, const N: usize> TreeKey for \[T; N\]", "traverse_by_key")
    out += with_state(emit("array", "array.traverse_by_key", b, ["T"], extra_sig="(N : Nat) ",
                           doc="`<[T; N] as TreeKey>::traverse_by_key`"))
    # the named containers
    for rust, hdr, tys, const, nkids in (
            ("Result", r"<T: TreeKey, E: TreeKey> TreeKey for Result<T, E>", ["T", "E"], "RESULT_LOOKUP", [0, 1]),
            ("Bound", r"<T: TreeKey> TreeKey for Bound<T>", ["T"], "BOUND_LOOKUP", [0, 0]),
            ("Range", r"<T: TreeKey> TreeKey for Range<T>", ["T"], "RANGE_LOOKUP", [0, 0]),
            ("RangeInclusive", r"<T: TreeKey> TreeKey for RangeInclusive<T>", ["T"], "RANGE_LOOKUP", [0, 0]),
            ("RangeFrom", r"<T: TreeKey> TreeKey for RangeFrom<T>", ["T"], "RANGE_FROM_LOOKUP", [0]),
            ("RangeTo", r"<T: TreeKey> TreeKey for RangeTo<T>", ["T"], "RANGE_TO_LOOKUP", [0])):
        sig, b = fn_in(src, hdr, "traverse_all")
        kids, lk = traverse_all_shape(b, tys, rust)
        if kids != nkids or lk != ("path", [const]):
            raise Unsupported(f"{rust}::traverse_all: children {kids} lookup {lk!r}")
        sig, b = fn_in(src, hdr, "traverse_by_key")
        out += with_state(emit(rust, f"{rust}.traverse_by_key", b, tys, doc=f"`<{rust}<…> as TreeKey>::traverse_by_key`"))
        out.append(f"/-- `traverse_all` of `{rust}`: children (as indices into its type parameters) and lookup -/")
        out.append(f"def {rust}.children : List Nat := {kids}")
        out.append(f"def {rust}.lookup : KeyLookup := {const}\n")
    def value_fn(lean, body, method, n_children, extra_sig="", doc="", fieldmap=None, same_child=False):
        return value_fn_(consts, key_fns, lean, body, method, n_children, extra_sig, doc, fieldmap, same_child)

    for trait, hdr_a in (("TreeSerialize", r"<T: TreeSerialize, const N: usize> TreeSerialize for \[T; N\]"),
                         ("TreeDeserialize", r"<'de, T: TreeDeserialize<'de>, const N: usize> TreeDeserialize<'de> for \[T; N\]"),
                         ("TreeAny", r"<T: TreeAny, const N: usize> TreeAny for \[T; N\]")):
        for method in {"TreeSerialize": ["serialize_by_key"], "TreeDeserialize": ["deserialize_by_key"],
                       "TreeAny": ["ref_any_by_key", "mut_any_by_key"]}[trait]:
            sig, b = fn_in(src, hdr_a, method)
            out += value_fn(f"array.{method}", b, method, None, extra_sig="(N : Nat) ", doc=f"`<[T; N] as {trait}>::{method}`")
    for n, (text, tys) in sorted(expand_tuple_macro(src).items()):
        tl = r",\s*".join
        for trait, bound, methods in (("TreeSerialize", "{t}: TreeSerialize", ["serialize_by_key"]),
                                      ("TreeDeserialize", "{t}: TreeDeserialize<'de>", ["deserialize_by_key"]),
                                      ("TreeAny", "{t}: TreeAny", ["ref_any_by_key", "mut_any_by_key"])):
            pre = r"<'de,\s*" if trait == "TreeDeserialize" else r"<"
            hdr = (pre + tl(bound.format(t=t) for t in tys) + r"> " + trait + (r"<'de>" if trait == "TreeDeserialize" else "")
                   + r" for \(" + r"\s*".join(f"{t}," for t in tys) + r"\)")
            body = M.find_impl(text, hdr)
            for method in methods:
                _s, t_fn = M.find_fn(body, method)
                out += value_fn(f"tuple{n}.{method}", M.parse_block(t_fn), method, n,
                                doc=f"`<(T0, …) as {trait}>::{method}` for the {n}-tuple")
    # Range / RangeInclusive / RangeFrom / RangeTo: struct fields `start` / `end` (one element type: one child function)
    TRAITS = (("TreeSerialize", "<T: TreeSerialize> TreeSerialize for {ty}<T>", ["serialize_by_key"]),
              ("TreeDeserialize", "<'de, T: TreeDeserialize<'de>> TreeDeserialize<'de> for {ty}<T>", ["deserialize_by_key"]),
              ("TreeAny", "<T: TreeAny> TreeAny for {ty}<T>", ["ref_any_by_key", "mut_any_by_key"]))
    for rust, fmap in (("Range", {"start": 0, "end": 1}), ("RangeInclusive", None), ("RangeFrom", {"start": 0}),
                       ("RangeTo", {"end": 0})):
        for trait, hdr_t, methods in TRAITS:
            hdr = re.escape(hdr_t.format(ty=rust))
            try:
                M.find_impl(src, hdr)
            except Unsupported:
                if rust == "RangeInclusive" and trait != "TreeSerialize":
                    continue        # `RangeInclusive` has no public fields: only TreeKey and TreeSerialize exist
                raise
            for method in methods:
                sig_, b = fn_in(src, hdr, method)
                if rust == "RangeInclusive":
                    # `self.start()` / `self.end()` accessors
                    def acc(e):
                        if isinstance(e, tuple):
                            if e and e[0] == "mcall" and e[1] == ("path", ["self"]) and e[2] in ("start", "end") and not e[3]:
                                return ("field", ("path", ["self"]), e[2])
                            return tuple(acc(x) for x in e)
                        if isinstance(e, list):
                            return [acc(x) for x in e]
                        return e
                    b = acc(b)
                    fm = {"start": 0, "end": 1}
                else:
                    fm = fmap
                out += value_fn(f"{rust}.{method}", b, method, len(fm), fieldmap=fm, same_child=True,
                                doc=f"`<{rust}<T> as {trait}>::{method}` (fields as a list: {sorted(fm, key=fm.get)})")
    # Result<T, E> and Bound<T>: `match (self, keys.next(&L)?) { (Variant(value), k) => value.f(keys, x), .., _ => Absent(0) }`.
    # `self` is a generated inductive with one constructor per variant; or-patterns are split; in the `&mut self`
    # functions the (possibly updated) payload is put back into the same constructor.
    out.append("/-- the runtime value of a `Result<T, E>` (payload: the child's state) -/")
    out.append("inductive ResultSt (C : Type) where\n  | Ok (value : C)\n  | Err (value : C)\n")
    out.append("/-- the runtime value of a `Bound<T>` -/")
    out.append("inductive BoundSt (C : Type) where\n  | Included (value : C)\n  | Excluded (value : C)\n  | Unbounded\n")

    def enum_fn(rust, st, variants, method, hdr, trait):
        """variants: Rust constructor name -> (lean ctor, child index)"""
        tag, mutating, res_ty, tparams = OPS[method]
        _sig, b = fn_in(src, hdr, method)
        nchild = 1 + max(c for _l, c in variants.values())

        def arm_body(ctor_path, child):
            cname = f"child{tag}{child}" if nchild > 1 else f"child{tag}"
            if mutating:
                return ("block", [("let", ("pbind", "r"), ("call", ("path", ["eff_" + cname]), [])),
                                  ("semi", ("assign", "=", ("path", ["self"]), ("call", ("path", ctor_path), [("path", ["value"])])))],
                        ("path", ["r"]))
            return ("call", ("path", [cname]), [("path", ["value"]), ("path", ["keys"])])

        def fix(e):
            if isinstance(e, tuple):
                if e and e[0] == "match" and e[1][0] == "tuple" and e[1][1] and e[1][1][0] == ("path", ["self"]):
                    arms = []
                    for pats, guard, body in e[2]:
                        for pat in pats:
                            if pat[0] == "ptuple" and pat[1][0][0] == "ppath" and pat[1][0][1][-1] in variants:
                                vname = pat[1][0][1][-1]
                                lean_ctor, child = variants[vname]
                                if body[0] == "block" and not body[1]:
                                    body_ = body[2]
                                else:
                                    body_ = body
                                if not (body_[0] == "mcall" and body_[1] == ("path", ["value"]) and body_[2] == method):
                                    raise Unsupported(f"{rust}::{method}: arm body {body_!r}")
                                path = [st, vname]
                                arms.append(([("ptuple", [("ppath", path, pat[1][0][2]), pat[1][1]])], guard, arm_body(path, child)))
                            elif pat == ("pwild",):
                                arms.append(([pat], guard, fix(body)))
                            else:
                                raise Unsupported(f"{rust}::{method}: arm pattern {pat!r}")
                    return ("match", e[1], arms)
                return tuple(fix(x) for x in e)
            if isinstance(e, list):
                return [fix(x) for x in e]
            return e
        b = fix(b)
        tb = tables(0, dict(consts), dict(key_fns, **{"Traversal::increment": ("Traversal.increment", "pure")}))
        tb.methods = dict(VAL_METHODS)
        tb.methods[("Traversal", "into")] = {"kind": "fmt", "fmt": "(Error.Traversal {0})"}
        tb.ctors = dict(CORE_CTORS)
        for vname, (lean_ctor, _c) in variants.items():
            tb.ctors[f"{st}::{vname}"] = f"{st}.{vname}"
        tb.effects = {("mcall", "keys", "next"): {"fmt": "(keysNext keys {0})", "pair": "keys", "err": "Traversal"}}
        anytag = "AnyRes" if tag in ("Ref", "Mut") else None
        for c in range(nchild):
            cname = f"child{tag}{c}" if nchild > 1 else f"child{tag}"
            if mutating:
                tb.effects[("call", "eff_" + cname)] = {"fmt": f"({cname} value keys)", "pair": "value", "ret": anytag}
            else:
                tb.fns[cname] = (cname, "pure")
                tb.rettags = dict(getattr(tb, "rettags", {}), **{cname: anytag})
        tb.try_into = {"Traversal": "(Error.Traversal {0})"} if tag in ("Ser", "De") else {}
        tb.vartypes = dict(tb.vartypes, r=anytag)
        tb.structs = {"Self": f"{st} C"}
        tb.self_type = st
        sig = (f"{{K C : Type}} {tparams}(keysNext : K → KeyLookup → Except Traversal Nat × K) "
               f"{child_sig(tag, mutating, res_ty, nchild if nchild > 1 else None)} (self : {st} C) (keys : K)")
        return translate_fn(b, f"{rust}.{method}", sig, res_ty, tb, "panic", mut_self=mutating,
                            doc=f"`<{rust}<…> as {trait}>::{method}`")

    for rust, st, variants, hdrs in (
            ("Result", "ResultSt", {"Ok": ("ResultSt.Ok", 0), "Err": ("ResultSt.Err", 1)},
             {"TreeSerialize": r"<T: TreeSerialize, E: TreeSerialize> TreeSerialize for Result<T, E>",
              "TreeDeserialize": r"<'de, T: TreeDeserialize<'de>, E: TreeDeserialize<'de>> TreeDeserialize<'de> for Result<T, E>",
              "TreeAny": r"<T: TreeAny, E: TreeAny> TreeAny for Result<T, E>"}),
            ("Bound", "BoundSt", {"Included": ("BoundSt.Included", 0), "Excluded": ("BoundSt.Excluded", 0)},
             {"TreeSerialize": r"<T: TreeSerialize> TreeSerialize for Bound<T>",
              "TreeDeserialize": r"<'de, T: TreeDeserialize<'de>> TreeDeserialize<'de> for Bound<T>",
              "TreeAny": r"<T: TreeAny> TreeAny for Bound<T>"})):
        for trait, methods in (("TreeSerialize", ["serialize_by_key"]), ("TreeDeserialize", ["deserialize_by_key"]),
                               ("TreeAny", ["ref_any_by_key", "mut_any_by_key"])):
            for method in methods:
                out += enum_fn(rust, st, variants, method, hdrs[trait], trait)
    # Option<T>: `self.as_ref().ok_or(Absent(0))?.f(keys, x)` — the unwrapped value is bound to `inner`, the child call is a
    # parameter, and for the `&mut self` functions the (possibly updated) value is put back
    def option_fn(method, trait_hdr):
        tag, mutating, res_ty, tparams = OPS[method]
        _sig, b = fn_in(src, trait_hdr, method)
        call = b[2]
        if not (b[0] == "block" and not b[1] and call and call[0] == "mcall" and call[2] == method and call[1][0] == "try"):
            raise Unsupported(f"Option::{method}: body {b!r}")
        unwrap = call[1]
        child = "child" + tag
        if mutating:
            body = ("block", [("let", ("pbind", "inner"), unwrap), ("let", ("pbind", "r"), ("call", ("path", [child]), [])),
                              ("semi", ("assign", "=", ("path", ["self"]), ("call", ("path", ["Some"]), [("path", ["inner"])])))],
                    ("path", ["r"]))
        else:
            body = ("block", [("let", ("pbind", "inner"), unwrap)],
                    ("call", ("path", [child]), [("path", ["inner"]), ("path", ["keys"])]))
        tb = tables(0, dict(consts), dict(key_fns))
        tb.methods = VAL_METHODS
        tb.vartypes = {"self": "OptSelf"}
        tb.effects = {}
        if mutating:
            tb.effects[("call", child)] = {"fmt": f"({child} inner keys)", "pair": "inner"}
        else:
            tb.fns[child] = (child, "pure")
        tb.try_into = {"Traversal": "(Error.Traversal {0})"} if tag in ("Ser", "De") else {}
        tb.structs = {"Self": "Option C"}
        sig = f"{{K C : Type}} {tparams}{child_sig(tag, mutating, res_ty)} (self : Option C) (keys : K)"
        return translate_fn(body, f"Option.{method}", sig, res_ty, tb, "pure", mut_self=mutating,
                            doc=f"`<Option<T> as …>::{method}`: `None` is `Absent(0)`, before any key is looked at")
    out += option_fn("serialize_by_key", r"<T: TreeSerialize> TreeSerialize for Option<T>")
    out += option_fn("deserialize_by_key", r"<'de, T: TreeDeserialize<'de>> TreeDeserialize<'de> for Option<T>")
    out += option_fn("ref_any_by_key", r"<T: TreeAny> TreeAny for Option<T>")
    out += option_fn("mut_any_by_key", r"<T: TreeAny> TreeAny for Option<T>")
    # transparent wrappers: delegation only
    wrappers = []
    want_all = ("block", [], ("call", ("path", ["T", "traverse_all"]), []))
    want_key = ("block", [], ("call", ("path", ["T", "traverse_by_key"]), [("path", ["keys"]), ("path", ["func"])]))
    both = src + "\n" + tsrc
    for m in re.finditer(r"impl<([^>]*)>\s*TreeKey for ([^{]+?)\s*\{", both):
        ty = re.sub(r"\s+", " ", m.group(2)).strip()
        if ty.startswith(("(", "[", "Result<", "Bound<", "Range")):
            continue
        end = M.match_close(both, both.index("{", m.start()), "{", "}")
        body = both[m.start():end + 1]
        _s, ta = M.find_fn(body, "traverse_all")
        _s, tk = M.find_fn(body, "traverse_by_key")
        if M.parse_block(ta) != want_all or M.parse_block(tk) != want_key:
            raise Unsupported(f"TreeKey for {ty} is no longer a plain delegation to T")
        wrappers.append(ty)
    need = {"Option<T>", "Cell<T>", "RefCell<T>", "Box<T>", "Rc<T>", "Arc<T>", "rc::Weak<T>", "sync::Weak<T>",
            "Cow<'_, T>", "Mutex<T>", "RwLock<T>", "&T", "&mut T"}
    missing = need - set(wrappers)
    if missing:
        raise Unsupported(f"transparent TreeKey wrappers not found: {sorted(missing)} (found {wrappers})")
    out.append("/-- types whose `TreeKey` impl is the plain delegation `T::traverse_all()` / `T::traverse_by_key(keys, func)` "
               "(checked by the translator): they vanish in the schema -/")
    out.append("def transparentWrappers : List String := [" + ", ".join(f'"{w}"' for w in wrappers) + "]\n")
    out.append("end MiniconfVerif.Gen.Impls")
    return "\n".join(out) + "\n"


if __name__ == "__main__":
    R = "/repo/miniconf/src/"
    try:
        print(generate(R + "impls.rs", R + "key.rs", R + "tree.rs"))
    except Unsupported as e:
        print(f"TRANSLATOR-UNSUPPORTED: {e}", file=sys.stderr)
        sys.exit(3)
