#!/usr/bin/env python3
"""Translate the request handler of the MQTT client — the closure `MqttClient::poll` hands to `minimq`'s `poll` — and the
`match self.state.state()` of `MqttClient::update` (miniconf_mqtt/src/lib.rs) into Lean (`Gen/Mqtt.lean`).

The MQTT library and the settings tree are the environment: every call into them is a field of `Env` (the answer the
environment gives for this one message / this one `update()` call); every publication the handler asks for is appended to
an action list.  What the translation fixes is the client's own decision logic: which topic is a request, Get / Set by
payload, what is answered with which response code and text, when a List / Dump is accepted, refused or impossible, which
protocol-state transitions are taken and what `update()` reports."""
import re
import sys

import minirust as M
from minirust import Unsupported
from rust2lean import Tables, translate_fn

HOOK = re.compile(r"#\[cfg\(quartiq_miniconf_verif\)\]\s*verif::ev\((?:[^()]|\((?:[^()]|\([^()]*\))*\))*\);")

# `client.publish(<this>)` of the Get attempt
GETPUB = ("mcall", ("mcall", ("mcall",
          ("call", ("path", ["Publication", "respond"]),
           [("call", ("path", ["Some"]), [("path", ["topic"])]), ("path", ["properties"]),
            ("closure", [("pbind", "buf")], ("block", [], ("call", ("path", ["json", "get_by_key"]),
                                                           [("path", ["settings"]), ("path", ["path"]), ("path", ["buf"])])))]),
          "unwrap", []),
          "properties", [("unary", "&", ("array", [("mcall", ("path", ["ResponseCode", "Ok"]), "into", [])]))]),
          "qos", [("path", ["QoS", "AtLeastOnce"])])


def rename(e, old, new):
    if isinstance(e, tuple):
        if e == ("path", [old]):
            return ("path", [new])
        if e == ("pbind", old):
            return ("pbind", new)
        return tuple(rename(x, old, new) for x in e)
    if isinstance(e, list):
        return [rename(x, old, new) for x in e]
    return e


def prep_closure(b):
    """normalisations of the closure's AST that only name things (documented in the generated file)"""
    stmts, tail = b[1], b[2]
    # 1. `let Some(path) = topic.strip_prefix(*prefix).and_then(|p| p.strip_prefix("/settings")).map(Path::from) else {..}`
    le = stmts[0]
    if le[0] != "letelse" or not (le[2][0] == "mcall" and le[2][2] == "map" and le[2][3] == [("path", ["Path", "from"])]):
        raise Unsupported(f"poll closure: first statement {le!r}")
    stmts = [("letelse", le[1], le[2][1], le[3])] + stmts[1:]

    # 2. the Get attempt
    hits = [0]

    def sub(e):
        if isinstance(e, tuple):
            if e and e[0] == "mcall" and e[1] == ("path", ["client"]) and e[2] == "publish":
                if e[3] != [GETPUB]:
                    raise Unsupported(f"poll closure: the Get publication is no longer the expected one: {e[3]!r}")
                hits[0] += 1
                return ("call", ("path", ["pub_get"]), [])
            return tuple(sub(x) for x in e)
        if isinstance(e, list):
            return [sub(x) for x in e]
        return e
    tail = sub(tail)
    if hits[0] != 1:
        raise Unsupported("poll closure: expected exactly one client.publish(..) in the handler itself")

    # 3. error binders by what they hold
    def fix(e):
        if isinstance(e, tuple):
            if e and e[0] == "if" and e[1][0] == "iflet" and e[1][1] == [("ppath", ["Err"], [("pbind", "err")])] \
                    and e[1][2] == ("call", ("path", ["pub_get"]), []):
                body = e[2]
                if not (body[0] == "block" and not body[1] and body[2] and body[2][0] == "match" and body[2][1] == ("path", ["err"])):
                    raise Unsupported("poll closure: `if let Err(err) = client.publish(..) { match err {..} }` expected")
                arms = []
                for pats, guard, ab in body[2][2]:
                    pat = pats[0]
                    if pat == ("ppath", ["minimq", "PubError", "Serialization"], [("pbind", "err")]):
                        pat, ab = rename(pat, "err", "ser_err"), rename(ab, "err", "ser_err")
                    elif pat == ("ppath", ["minimq", "PubError", "Error"], [("pbind", "err")]):
                        pat, ab = rename(pat, "err", "mq_err"), rename(ab, "err", "mq_err")
                    arms.append(([pat], guard, fix(ab)))
                return ("if", ("iflet", [("ppath", ["Err"], [("pbind", "pub_err")])], e[1][2]),
                        ("block", [], ("match", ("path", ["pub_err"]), arms)), fix(e[3]) if e[3] is not None else None)
            if e and e[0] == "match" and e[1] == ("call", ("path", ["Multipart", "try_from"]), [("path", ["properties"])]):
                arms = [([rename(p, "err", "mp_err") for p in pats], g, fix(rename(ab, "err", "mp_err")))
                        if pats == [("ppath", ["Err"], [("pbind", "err")])] else (pats, g, fix(ab)) for pats, g, ab in e[2]]
                return ("match", e[1], arms)
            if e and e[0] == "match" and e[1][0] == "call" and e[1][1] == ("path", ["json", "set_by_key"]):
                if e[1][2] != [("path", ["settings"]), ("path", ["path"]), ("path", ["payload"])]:
                    raise Unsupported(f"poll closure: set_by_key arguments {e[1][2]!r}")
                arms = [([rename(p, "err", "set_err") for p in pats], g, fix(rename(ab, "err", "set_err")))
                        if pats == [("ppath", ["Err"], [("pbind", "err")])] else (pats, g, fix(ab)) for pats, g, ab in e[2]]
                return ("match", ("call", ("path", ["set_by_key"]), []), arms)
            return tuple(fix(x) for x in e)
        if isinstance(e, list):
            return [fix(x) for x in e]
        return e
    return ("block", stmts, fix(tail))


HEADER = '''/-- `sm::States` / `sm::Events` of the `statemachine!` invocation -/
inductive SmState where
  | {states}
  deriving DecidableEq, Repr, Inhabited
inductive SmEvent where
  | {events}
  deriving DecidableEq, Repr, Inhabited

/-- `StateMachine::process_event`: the transition table of the source (guards answered by `guard`); the new state and the
action of the transition, if any -/
def smStep (guard : String → Bool) (s : SmState) (e : SmEvent) : Option (SmState × List String) :=
  match s, e with
{rows}
  | _, _ => none

inductive MqErr where
  | NotReady | Other
  deriving DecidableEq, Repr, Inhabited
/-- `minimq::PubError<_, miniconf::Error<E>>` as the handler looks at it -/
inductive PubErr (E : Type) where
  | Serialization (e : Error E)
  | Error (e : MqErr)
/-- `ResponseCode` -/
inductive Code where
  | {codes}
  deriving DecidableEq, Repr, Inhabited
/-- `enum State` (what the handler tells `update()`) -/
inductive Ret where
  | Unchanged | Changed
  deriving DecidableEq, Repr, Inhabited
/-- the first argument of `Self::respond(..)`: what is displayed into the response payload -/
inductive RespArg (E Es : Type) where
  | lit (s : String)          -- a string literal of the source
  | mp (s : String)           -- the `&'static str` of `Multipart::try_from`
  | ser (e : Error E)         -- the error of the Get serialization
  | set (e : Error Es)        -- the error of `json::set_by_key`
/-- what the handler asks of the MQTT client, in order -/
inductive Act (E Es : Type) where
  | pubGet                                        -- the Get attempt: respond with the value, code Ok
  | respond (a : RespArg E Es) (c : Code)          -- `Self::respond(a, c, properties, client)`
  | pubTo (topic payload : Str) (c : Code) (cd : Option (List Nat))   -- `Publication::new(topic, payload)` + code (+ correlate)
  | pubVal (topic path : Str) (cd : Option (List Nat))                  -- the JSON value of leaf `path` published with code Ok (recorded only if `publish` answered Ok)
/-- how `iter_dump` classifies the result of publishing one leaf value -/
inductive DumpErr where
  | Absent        -- `Serialization(Traversal(Absent(_)))`: the leaf is absent at run time
  | TooLarge      -- `InsufficientMemory` / `Serialization(Inner(_, BufferFull))`: the value exceeds the transmit buffer
  | Other         -- anything else: `other.unwrap()` panics
  deriving DecidableEq, Repr, Inhabited
/-- `Multipart` with its node iterator as the leaf paths it still yields -/
structure Pend where
  remaining : List Str
  response_topic : Option Str
  correlation_data : Option (List Nat)
/-- the environment's answers for one inbound message -/
structure Env (E Es M : Type) where
  pubGet : Except (PubErr E) Unit                 -- `client.publish(Publication::respond(Some(topic), .., get_by_key ..))`
  mpTry : Except String M                         -- `Multipart::try_from(properties)`
  mpRoot : M → Option M                           -- `m.root(path)` (`None`: it returned `Err`)
  setRes : Except (Error Es) Nat                  -- `json::set_by_key(settings, path, payload)`
  guard : String → Bool := fun _ => false
/-- the part of the client the handler reads and writes; `log`: state-machine actions run and environment calls made
(`update()`), in order; `ext`: whatever else the environment's functions thread through (settings, wire, clock) -/
structure Cl (E Es M X : Type) where
  st : SmState
  pending : M
  acts : List (Act E Es) := []
  log : List String := []
  ext : X

def processEvent {{E Es M X : Type}} (env : Env E Es M) (self : Cl E Es M X) (e : SmEvent) : Option Unit × Cl E Es M X :=
  match smStep env.guard self.st e with
  | some (s, as) => (some (), {{ self with st := s, log := self.log ++ as }})
  | none => (none, self)

/-- the environment of one `update()` call: the link, the two start-up publications, and the client's own sub-procedures
(`dump(None)`, `iter_list`, `iter_dump`, `poll`) as functions on the client part -/
structure UEnv (E Es M X : Type) where
  connected : Bool                                  -- `self.mqtt.client().is_connected()`
  alive : Cl E Es M X → Cl E Es M X × Bool          -- `self.alive().is_ok()` (and what it put on the wire)
  subscribe : Cl E Es M X → Cl E Es M X × Bool      -- `self.subscribe().is_ok()`
  hasRt : M → Bool                                  -- `self.pending.response_topic.is_some()`
  dumpNone : Cl E Es M X → Cl E Es M X              -- `self.dump(None).ok()`
  iterList : Cl E Es M X → Cl E Es M X
  iterDump : Cl E Es M X → Cl E Es M X
  poll : Cl E Es M X → Cl E Es M X × Except Unit Ret
'''


def generate(lib_rs):
    rs = open(lib_rs).read()
    src = HOOK.sub("", M.strip_comments(rs))
    out = ["-- GENERATED by extract/gen_mqtt.py from miniconf_mqtt/src/lib.rs — do not edit.",
           "import MiniconfVerif.Gen.Core", "import MiniconfVerif.Model.PathIter", "set_option linter.unusedVariables false",
           "namespace MiniconfVerif.Gen.Mqtt", "open MiniconfVerif MiniconfVerif.Gen MiniconfVerif.Gen.Core MiniconfVerif.PathIter", ""]
    # ---- state machine
    m = re.search(r"transitions: \{(.*?)\n\s*\}", rs, flags=re.S)
    if not m:
        raise Unsupported("statemachine! transitions")
    states, events, rows = [], [], []
    for line in m.group(1).split("\n"):
        line = line.strip().rstrip(",")
        if not line:
            continue
        mm = re.fullmatch(r"(\*?\w+|_) \+ (\w+)(?: \[(\w+)\])?(?: / (\w+))? = (\w+)", line)
        if not mm:
            raise Unsupported(f"transition {line!r}")
        s0, ev, g, _act, s1 = mm.group(1).lstrip("*"), mm.group(2), mm.group(3), mm.group(4), mm.group(5)
        for s in (s0, s1):
            if s != "_" and s not in states:
                states.append(s)
        if ev not in events:
            events.append(ev)
        lhs = f"  | {'_' if s0 == '_' else '.' + s0}, .{ev} =>"
        res = f'some (.{s1}, [{chr(34) + _act + chr(34) if _act else ""}])'
        rows.append((s0 == "_", f"{lhs} " + (f'if guard "{g}" then {res} else none' if g else res)))
    rows = [r for w, r in rows if not w] + [r for w, r in rows if w]     # the wildcard row last, as smlang resolves it
    mcodes = re.search(r"enum ResponseCode \{([^}]*)\}", rs)
    codes = [c.strip() for c in mcodes.group(1).split(",") if c.strip()]
    out.append(HEADER.format(states=" | ".join(states), events=" | ".join(events), rows="\n".join(rows), codes=" | ".join(codes)))
    # ---- the handler
    i = src.index("mqtt.poll(|client, topic, payload, properties| {")
    j = src.index("{", i)
    body = src[j:M.match_close(src, j, "{", "}") + 1]
    # what `poll()` does around the closure (skeleton-checked as squashed text, log macros aside): the destructuring of
    # `self`, `Ok(None)` ↦ `State::default()` = Unchanged, `SessionReset` ↦ the `Reset` event and `Ok(Unchanged)`, any other
    # error handed to the caller — the model's `pollStep` for `idle` / `sessionReset` / `error`
    sig_p, text_p = M.find_fn(src, "poll")
    if re.sub(r"\s+", " ", sig_p) != "fn poll(&mut self, settings: &mut Settings) -> Result<State, Error<Stack::Error>>":
        raise Unsupported(f"poll(): signature {sig_p!r}")
    k0, k1 = text_p.index("mqtt.poll(|client, topic, payload, properties| {"), None
    kb = text_p.index("{", k0)
    k1 = M.match_close(text_p, kb, "{", "}")
    squash = lambda t: re.sub(r"\s+", "", re.sub(r"\b(?:info|warn|error|debug|trace)!\((?:[^()]|\([^()]*\))*\);", "", t))
    if squash(text_p[:k0]) != "{letSelf{mqtt,state,prefix,pending,..}=self;":
        raise Unsupported(f"poll(): prologue {squash(text_p[:k0])!r}")
    want_tail = (").map(Option::unwrap_or_default).or_else(|err|matcherr{minimq::Error::SessionReset=>{"
                 "self.state.process_event(sm::Events::Reset).unwrap();Ok(State::Unchanged)}other=>Err(other.into()),})}")
    if squash(text_p[k1 + 1:]) != want_tail:
        raise Unsupported(f"poll(): what follows the closure changed: {squash(text_p[k1 + 1:])!r}")
    if not re.search(r"enum State \{\s*#\[default\]\s*Unchanged,\s*Changed,\s*\}", src):
        raise Unsupported("enum State: `#[default] Unchanged, Changed` expected")
    b = prep_closure(M.parse_block(body))
    ctors = {"State::Unchanged": "Ret.Unchanged", "State::Changed": "Ret.Changed",
             "sm::States::Single": "SmState.Single", "sm::Events::Multipart": "SmEvent.Multipart",
             "ResponseCode::Error": "Code.Error", "ResponseCode::Ok": "Code.Ok",
             "minimq::PubError::Serialization": "PubErr.Serialization", "minimq::PubError::Error": "PubErr.Error",
             "miniconf::Error::Traversal": "Error.Traversal", "Traversal::TooShort": "Traversal.TooShort",
             "minimq::Error::NotReady": "MqErr.NotReady"}
    tb = Tables(self_type="Cl", ctors=ctors, fns={}, methods={
        ("Str", "strip_prefix"): {"kind": "fmt", "fmt": "(stripPrefix {1} {0})", "ret": "OptStr"},
        ("OptStr", "and_then"): {"kind": "lamfmt", "fmt": "(Option.bind {0} {1})", "ret": "OptStr"},
        ("Str", "is_empty"): {"kind": "fmt", "fmt": "(List.isEmpty {0})"},
        ("StateM", "state"): {"kind": "fmt", "fmt": "self.st", "ret": "SmState"},
        ("Mp", "root"): {"kind": "fmt", "fmt": "(env.mpRoot {0})", "ret": "OptMp"},
        ("OptMp", "unwrap"): {"kind": "unwrap"},
        ("OptUnit", "unwrap"): {"kind": "unwrap"},
    }, consts={"prefix": "pfx"}, vartypes={"topic": "Str", "payload": "Str", "p": "Str", "prefix": "Str", "state": "StateM",
                                           "m": "Mp", "mp_err": "MpErr", "ser_err": "SerErr", "set_err": "SetErr"},
        structs={"Self": "(Cl E Es M X)"}, str_as_chars=True)
    tb.effects = {
        ("call", "pub_get"): {"fmt": "(env.pubGet, {{ self with acts := self.acts ++ [Act.pubGet] }})", "pair": "self", "ret": "PubRes"},
        ("call", "Multipart::try_from"): {"fmt": "(env.mpTry, self)", "pair": "self", "ret": "ResMp"},
        ("call", "set_by_key"): {"fmt": "(env.setRes, self)", "pair": "self", "ret": "ResSet"},
        ("mcall", "state", "process_event"): {"fmt": "(processEvent env self {0})", "pair": "self", "ret": "OptUnit"},
        ("call", "Self::respond"): {"fmt": "((), {{ self with acts := self.acts ++ [Act.respond {0} {1}] }})", "pair": "self",
                                    "argwrap": {"MpErr": "(RespArg.mp {0})", "SerErr": "(RespArg.ser {0})", "SetErr": "(RespArg.set {0})",
                                                "Str": "(RespArg.lit (String.ofList {0}))"}, "nargs": 2},
    }
    tb.deref_assign = {"pending": ("self", "{{ self with pending := {1} }}")}
    tb.quiet_macros = {"info", "warn", "error", "debug", "trace"}
    out += translate_fn(b, "poll_closure",
                        "{E Es M X : Type} (env : Env E Es M) (pfx : Str) (self : Cl E Es M X) (topic payload : Str)",
                        "Ret", tb, "panic", mut_self=True,
                        doc="the closure `MqttClient::poll` passes to `minimq`: one inbound message (`topic`, `payload`); the client "
                            "part `self` afterwards (protocol state, pending multipart request, what it asked the MQTT client to "
                            "send, in order) and what it reports to `update()`")
    # ---- update(): the state dispatch
    sig, text = M.find_fn(src, "update")
    if re.sub(r"\s+", " ", sig) != "fn update(&mut self, settings: &mut Settings) -> Result<bool, Error<Stack::Error>>":
        raise Unsupported(f"update(): signature {sig!r}")
    ub = M.parse_block(text)
    CONN = ("mcall", ("mcall", ("field", ("path", ["self"]), "mqtt"), "client", []), "is_connected", [])

    def prep_update(e):
        if isinstance(e, tuple):
            if e == CONN:
                return ("call", ("path", ["is_connected"]), [])
            if e == ("field", ("path", ["self"]), "state"):
                return ("path", ["state"])
            if e == ("mcall", ("field", ("field", ("path", ["self"]), "pending"), "response_topic"), "is_some", []):
                return ("call", ("path", ["has_response_topic"]), [])
            if e and e[0] == "mcall" and e[1] == ("path", ["self"]) and e[2] in ("alive", "subscribe", "dump", "iter_list", "iter_dump", "poll"):
                want = {"alive": [], "subscribe": [], "dump": [("path", ["None"])], "iter_list": [],
                        "iter_dump": [("path", ["settings"])], "poll": [("path", ["settings"])]}[e[2]]
                if e[3] != want:
                    raise Unsupported(f"update(): self.{e[2]} called with {e[3]!r}")
                return ("call", ("path", ["call_" + e[2]]), [])
            return tuple(prep_update(x) for x in e)
        if isinstance(e, list):
            return [prep_update(x) for x in e]
        return e
    ub = prep_update(ub)
    uctors = dict(ctors)
    uctors["ResponseCode::Continue"] = "Code.Continue"
    for st_ in states:
        uctors[f"sm::States::{st_}"] = f"SmState.{st_}"
    for ev_ in events:
        uctors[f"sm::Events::{ev_}"] = f"SmEvent.{ev_}"
    tb = Tables(self_type="Cl", ctors=uctors, fns={}, methods={
        ("StateM", "state"): {"kind": "fmt", "fmt": "self.st", "ret": "SmState"},
        ("OptUnit", "unwrap"): {"kind": "unwrap"},
        ("OptUnit", "ok"): {"kind": "id"},
        ("ClRes", "ok"): {"kind": "id"},
        ("BoolRes", "is_ok"): {"kind": "id"},
        ("PollRes", "map"): {"kind": "lamfmt", "fmt": "(Except.map {1} {0})"},
    }, consts={}, vartypes={"state": "StateM", "c": "Ret"}, structs={"Self": "(Cl E Es M X)"})
    tb.effects = {
        ("call", "is_connected"): {"fmt": "(uenv.connected, self)", "pair": "self"},
        ("call", "has_response_topic"): {"fmt": "(uenv.hasRt self.pending, self)", "pair": "self"},
        ("mcall", "state", "process_event"): {"fmt": "(processEvent env self {0})", "pair": "self", "ret": "OptUnit"},
        ("call", "call_alive"): {"fmt": "(let r := uenv.alive self; (r.2, r.1))", "pair": "self", "ret": "BoolRes"},
        ("call", "call_subscribe"): {"fmt": "(let r := uenv.subscribe self; (r.2, r.1))", "pair": "self", "ret": "BoolRes"},
        ("call", "call_dump"): {"fmt": "((), uenv.dumpNone self)", "pair": "self", "ret": "ClRes"},
        ("call", "call_iter_list"): {"fmt": "((), uenv.iterList self)", "pair": "self", "ret": "ClRes"},
        ("call", "call_iter_dump"): {"fmt": "((), uenv.iterDump self)", "pair": "self", "ret": "ClRes"},
        ("call", "call_poll"): {"fmt": "(let r := uenv.poll self; (r.2, r.1))", "pair": "self", "ret": "PollRes"},
    }
    tb.quiet_macros = {"info", "warn", "error", "debug", "trace"}
    out += translate_fn(ub, "update",
                        "{E Es M X : Type} (env : Env E Es M) (uenv : UEnv E Es M X) (self : Cl E Es M X)",
                        "Except Unit Bool", tb, "panic", mut_self=True,
                        doc="`MqttClient::update`: reset when the link is down, one step of the protocol state machine (the "
                            "`match self.state.state()`), then `poll()`; the result is `poll`'s, mapped to \"settings changed\"")
    # ---- alive() / subscribe(): what is handed to minimq (skeleton-checked: topic suffix, payload, QoS, retain, no-local)
    def same_fn(name, want_sig, want):
        sig, text = M.find_fn(src, name)
        if re.sub(r"\s+", " ", sig) != want_sig:
            raise Unsupported(f"{name}(): signature {sig!r}")
        got = M.parse_block(text)
        if got != want:
            raise Unsupported(f"{name}(): no longer the expected publication / subscription: {got!r}")
    CLIENT = ("mcall", ("field", ("path", ["self"]), "mqtt"), "client", [])
    same_fn("alive", "fn alive(&mut self) -> Result<(), minimq::PubError<Stack::Error, ()>>",
            ("block",
             [("let", ("pbind", "topic"), ("mcall", ("mcall", ("field", ("path", ["self"]), "prefix"), "try_into", []), "unwrap", [])),
              ("semi", ("mcall", ("mcall", ("path", ["topic"]), "push_str", [("str", "/alive")]), "unwrap", [])),
              ("let", ("pbind", "msg"),
               ("mcall", ("mcall", ("call", ("path", ["Publication", "new"]),
                                    [("unary", "&", ("path", ["topic"])), ("mcall", ("field", ("path", ["self"]), "alive"), "as_bytes", [])]),
                          "qos", [("path", ["QoS", "AtLeastOnce"])]), "retain", []))],
             ("mcall", CLIENT, "publish", [("path", ["msg"])])))
    same_fn("subscribe", "fn subscribe(&mut self) -> Result<(), minimq::Error<Stack::Error>>",
            ("block",
             [("let", ("pbind", "settings"), ("mcall", ("mcall", ("field", ("path", ["self"]), "prefix"), "try_into", []), "unwrap", [])),
              ("semi", ("mcall", ("mcall", ("path", ["settings"]), "push_str", [("str", "/settings/#")]), "unwrap", [])),
              ("let", ("pbind", "opts"), ("mcall", ("call", ("path", ["SubscriptionOptions", "default"]), []), "ignore_local_messages", [])),
              ("let", ("pbind", "topics"),
               ("array", [("mcall", ("call", ("path", ["TopicFilter", "new"]), [("unary", "&", ("path", ["settings"]))]), "options", [("path", ["opts"])])]))],
             ("mcall", CLIENT, "subscribe", [("unary", "&", ("path", ["topics"])), ("unary", "&", ("array", []))])))
    # ---- Multipart::{default, root, try_from}: what the environment functions `dflt` / `root` / `mpTry` of the translation stand
    # for (skeleton-checked: the walk starts at the tree root with no response topic / correlation data; `root` re-roots the
    # iterator and changes nothing else; `try_from` caches the response topic first ("Response topic too long"), then the
    # correlation data ("Correlation data too long"), and starts a fresh walk)
    same_fn("default", "fn default() -> Self",
            ("block", [], ("struct", ["Self"], [("iter", ("call", ("path", ["M", "nodes"]), [])), ("response_topic", ("path", ["None"])),
                                                 ("correlation_data", ("path", ["None"]))])))
    same_fn("root", "fn root<K: IntoKeys>(mut self, keys: K) -> Result<Self, miniconf::Traversal>",
            ("block",
             [("semi", ("assign", "=", ("field", ("path", ["self"]), "iter"),
                        ("try", ("mcall", ("field", ("path", ["self"]), "iter"), "root", [("path", ["keys"])]))))],
             ("call", ("path", ["Ok"]), [("path", ["self"])])))
    same_fn("try_from", "fn try_from(value: &minimq::types::Properties<'_>) -> Result<Self, Self::Error>",
            ("block",
             [("let", ("pbind", "response_topic"),
               ("try", ("mcall", ("mcall", ("mcall", ("mcall", ("mcall", ("path", ["value"]), "into_iter", []), "response_topic", []),
                                            "map", [("path", ["TryInto", "try_into"])]), "transpose", []),
                        "or", [("call", ("path", ["Err"]), [("str", "Response topic too long")])]))),
              ("let", ("pbind", "correlation_data"),
               ("try", ("mcall", ("mcall", ("mcall", ("mcall", ("path", ["value"]), "into_iter", []), "find_map",
                                            [("closure", [("pbind", "prop")],
                                              ("block", [],
                                               ("if", ("iflet", [("ppath", ["Ok"], [("ppath", ["minimq", "Property", "CorrelationData"], [("pbind", "cd")])])],
                                                       ("path", ["prop"])),
                                                ("block", [], ("call", ("path", ["Some"]), [("call", ("path", ["Vec", "try_from"]), [("field", ("path", ["cd"]), "0")])])),
                                                ("block", [], ("path", ["None"])))))]),
                                  "transpose", []),
                        "or", [("call", ("path", ["Err"]), [("str", "Correlation data too long")])])))],
             ("call", ("path", ["Ok"]),
              [("struct", ["Self"], [("iter", ("call", ("path", ["M", "nodes"]), [])), ("response_topic", ("path", ["response_topic"])),
                                     ("correlation_data", ("path", ["correlation_data"]))])])))
    # the capacities the two `try_into` / `try_from` conversions fail beyond
    for name_, val_ in (("MAX_TOPIC_LENGTH", "128"), ("MAX_CD_LENGTH", "32")):
        if not re.search(r"const\s+" + name_ + r"\s*:\s*usize\s*=\s*" + val_ + r"\s*;", src):
            raise Unsupported(f"{name_} is no longer {val_}")
    if not re.search(r"response_topic:\s*Option<String<MAX_TOPIC_LENGTH>>,\s*correlation_data:\s*Option<Vec<u8,\s*MAX_CD_LENGTH>>,", src):
        raise Unsupported("struct Multipart: the cached response topic / correlation data no longer have the capacities MAX_TOPIC_LENGTH / MAX_CD_LENGTH")
    # ---- dump(path): the API entry into a dump
    sig, text = M.find_fn(src, "dump")
    if re.sub(r"\s+", " ", sig) != "fn dump(&mut self, path: Option<&str>) -> Result<(), Error<Stack::Error>>":
        raise Unsupported(f"dump(): signature {sig!r}")
    dpb = M.parse_block(text)

    def prep_dump(e):
        if isinstance(e, tuple):
            if e == ("field", ("path", ["self"]), "state"):
                return ("path", ["state"])
            if e == ("call", ("path", ["Path", "from"]), [("path", ["path"])]):
                return ("path", ["path"])
            return tuple(prep_dump(x) for x in e)
        if isinstance(e, list):
            return [prep_dump(x) for x in e]
        return e
    dpb = prep_dump(dpb)
    tb = Tables(self_type="Cl", ctors=uctors, fns={"Multipart::default": ("denv.dflt", "pure")}, methods={
        ("M", "root"): {"kind": "fmt", "fmt": "(denv.root {0} {1})", "ret": "M", "err": "RootErr"},
    }, consts={}, vartypes={"state": "StateM", "m": "M", "path": "OptStr"}, structs={"Self": "(Cl E Es M X)"})
    tb.effects = {
        ("mcall", "state", "process_event"): {
            "fmt": "(let r := processEvent env self {0}; ((match r.1 with | some u => Except.ok u | none => Except.error ApiErr.State), r.2))",
            "pair": "self", "ret": "SmErr"},
    }
    tb.try_into = {"RootErr": "ApiErr.Traversal"}
    out += ["/-- why `MqttClient::dump` refuses: `Error::Miniconf(Traversal)` from `root()`, or `Error::State` from the state machine -/",
            "inductive ApiErr where", "  | Traversal", "  | State", "  deriving DecidableEq, Repr, Inhabited",
            "/-- `Multipart::default()` and `Multipart::root(path)` -/",
            "structure DEnv (M : Type) where", "  dflt : M", "  root : M → Str → Except Unit M", ""]
    out += translate_fn(dpb, "dump",
                        "{E Es M X : Type} (env : Env E Es M) (denv : DEnv M) (self : Cl E Es M X) (path : Option Str)",
                        "Except ApiErr Unit", tb, "panic", mut_self=True,
                        doc="`MqttClient::dump(path)`: a fresh walk, rooted at `path` if given; the `Multipart` event must be "
                            "accepted by the protocol state machine; only then is the pending request replaced")
    # ---- iter_list(): one pass of its `while can_publish { .. }` loop
    sig, text = M.find_fn(src, "iter_list")
    lb = M.parse_block(text)
    CANPUB = ("mcall", ("mcall", ("field", ("path", ["self"]), "mqtt"), "client", []), "can_publish", [("path", ["QoS", "AtLeastOnce"])])
    if not (lb[0] == "block" and not lb[1] and lb[2] and lb[2][0] == "while" and lb[2][1] == CANPUB):
        raise Unsupported("iter_list: `while self.mqtt.client().can_publish(QoS::AtLeastOnce) { .. }` expected")
    wbody = lb[2][2]
    st_ = wbody[1]
    want_mid = [
        ("let", ("pbind", "props"), ("array", [("mcall", ("path", ["code"]), "into", [])])),
        ("let", ("pbind", "response"),
         ("mcall", ("mcall", ("call", ("path", ["Publication", "new"]),
                              [("mcall", ("mcall", ("field", ("field", ("path", ["self"]), "pending"), "response_topic"), "as_ref", []), "unwrap", []),
                               ("mcall", ("path", ["path"]), "as_bytes", [])]),
                    "properties", [("unary", "&", ("path", ["props"]))]), "qos", [("path", ["QoS", "AtLeastOnce"])])),
        ("expr", ("if", ("iflet", [("ppath", ["Some"], [("pbind", "cd")])],
                         ("unary", "&", ("field", ("field", ("path", ["self"]), "pending"), "correlation_data"))),
                  ("block", [("semi", ("assign", "=", ("path", ["response"]), ("mcall", ("path", ["response"]), "correlate", [("path", ["cd"])])))], None),
                  None)),
        ("semi", ("mcall", ("mcall", ("mcall", ("field", ("path", ["self"]), "mqtt"), "client", []), "publish", [("path", ["response"])]), "unwrap", [])),
    ]
    if len(st_) != 5 or st_[1:] != want_mid:
        raise Unsupported(f"iter_list: the publication is no longer built and sent as expected: {st_[1:]!r}")
    first = st_[0]
    # `let (path, node) = path.unwrap(); debug_assert!(node.is_leaf());` inside the `Some` branch: the iterator item is
    # `Ok((path, node))` (capacity checked): dropped
    ok = (first[0] == "let" and first[1] == ("ptuple", [("pbind", "code"), ("pbind", "path")]) and first[2][0] == "if"
          and first[2][1] == ("iflet", [("ppath", ["Some"], [("pbind", "path")])],
                              ("mcall", ("field", ("field", ("path", ["self"]), "pending"), "iter"), "next", []))
          and first[2][2][1][:1] == [("let", ("ptuple", [("pbind", "path"), ("pbind", "node")]), ("mcall", ("path", ["path"]), "unwrap", []))])
    if not ok:
        raise Unsupported(f"iter_list: first statement {first!r}")
    then_b = ("block", [x for x in first[2][2][1][1:] if not (x[0] == "semi" and x[1][0] == "macro" and x[1][1] == "debug_assert")], first[2][2][2])
    first = ("let", first[1], ("if", ("iflet", first[2][1][1], ("call", ("path", ["iter_next"]), [])), then_b, first[2][3]))
    pub = ("semi", ("call", ("path", ["publish_list"]),
                    [("mcall", ("mcall", ("field", ("field", ("path", ["self"]), "pending"), "response_topic"), "as_ref", []), "unwrap", []),
                     ("path", ["path"]), ("path", ["code"])]))

    def brk(e):
        if isinstance(e, tuple):
            if e == ("break",):
                return ("return", None)
            if e == ("field", ("path", ["self"]), "state"):
                return ("path", ["state"])
            return tuple(brk(x) for x in e)
        if isinstance(e, list):
            return [brk(x) for x in e]
        return e
    inner = ("block", [("expr", ("if", ("path", ["can_pub"]),
                                 brk(("block", [first, pub], wbody[2])),
                                 ("block", [("semi", ("return", None))], None)))], None)
    tb = Tables(self_type="Cl", ctors=uctors, fns={"String::new": ("([] : Str)", "pure")}, methods={
        ("OptUnit", "unwrap"): {"kind": "unwrap"},
        ("OptStr", "as_ref"): {"kind": "id", "ret": "OptStr"},
        ("OptStr", "unwrap"): {"kind": "unwrap"},
        ("Str", "into_inner"): {"kind": "id"},
    }, consts={"can_pub": "canPub"}, vartypes={"state": "StateM", "path": "Str", "self": "Cl", ("Cl", "pending"): "Pend",
                                            ("Pend", "response_topic"): "OptStr"},
        structs={"Self": "(Cl E Es Pend X)"})
    tb.effects = {
        ("call", "iter_next"): {"fmt": "(match self.pending.remaining with | [] => (none, self) | p :: rest => "
                                       "(some p, {{ self with pending := {{ self.pending with remaining := rest }} }}))", "pair": "self"},
        ("call", "publish_list"): {"fmt": "((), {{ self with acts := self.acts ++ [Act.pubTo {0} {1} {2} self.pending.correlation_data] }})",
                                   "pair": "self"},
        ("mcall", "state", "process_event"): {"fmt": "(processEvent env self {0})", "pair": "self", "ret": "OptUnit"},
    }
    tb.lettypes = {}
    out += translate_fn(("block", [], ("loop", inner)), "iter_list_body",
                        "{E Es X : Type} (env : Env E Es Pend) (canPub : Bool) (self : Cl E Es Pend X)",
                        "Unit", tb, "loopbody",
                        doc="one pass of the `while self.mqtt.client().can_publish(..)` loop of `iter_list` (`canPub`: the loop "
                            "condition; `.next`: go round again, `.ret`: the loop / function is left)")
    # ---- iter_dump(): one pass of its loop
    sig, text = M.find_fn(src, "iter_dump")
    db = M.parse_block(text)
    if not (db[0] == "block" and not db[1] and db[2] and db[2][0] == "while" and db[2][1] == CANPUB):
        raise Unsupported("iter_dump: `while self.mqtt.client().can_publish(QoS::AtLeastOnce) { .. }` expected")
    dbody = db[2][2]
    ds, dtail = dbody[1], dbody[2]
    CORR = ("expr", ("if", ("iflet", [("ppath", ["Some"], [("pbind", "cd")])],
                            ("unary", "&", ("field", ("field", ("path", ["self"]), "pending"), "correlation_data"))),
                     ("block", [("semi", ("assign", "=", ("path", ["response"]), ("mcall", ("path", ["response"]), "correlate", [("path", ["cd"])])))], None),
                     None))
    PUBLISH = ("mcall", ("mcall", ("field", ("path", ["self"]), "mqtt"), "client", []), "publish", [("path", ["response"])])
    want = [
        ("letelse", ("ppath", ["Some"], [("pbind", "path")]),
         ("mcall", ("field", ("field", ("path", ["self"]), "pending"), "iter"), "next", []),
         ("block", [("semi", ("mcall", ("mcall", ("field", ("path", ["self"]), "state"), "process_event", [("path", ["sm", "Events", "Complete"])]), "unwrap", [])),
                    ("semi", ("break",))], None)),
        ("let", ("ptuple", [("pbind", "path"), ("pbind", "node")]), ("mcall", ("path", ["path"]), "unwrap", [])),
        None,   # debug_assert!(node.is_leaf())
        ("let", ("pbind", "topic"), ("mcall", ("mcall", ("field", ("path", ["self"]), "prefix"), "try_into", []), "unwrap", [])),
        ("semi", ("mcall", ("mcall", ("mcall", ("path", ["topic"]), "push_str", [("str", "/settings")]), "and_then",
                            [("closure", [("pwild",)], ("mcall", ("path", ["topic"]), "push_str", [("unary", "&", ("path", ["path"]))]))]),
                  "unwrap", [])),
        ("let", ("pbind", "props"), ("array", [("mcall", ("path", ["ResponseCode", "Ok"]), "into", [])])),
        ("let", ("pbind", "response"),
         ("mcall", ("mcall", ("call", ("path", ["Publication", "new"]),
                              [("unary", "&", ("path", ["topic"])),
                               ("closure", [("pbind", "buf")], ("block", [], ("call", ("path", ["json", "get_by_key"]),
                                                                              [("path", ["settings"]), ("unary", "&", ("path", ["path"])), ("path", ["buf"])])))]),
                    "properties", [("unary", "&", ("path", ["props"]))]), "qos", [("path", ["QoS", "AtLeastOnce"])])),
        CORR,
    ]
    if len(ds) != len(want) or any(w is not None and a != w for a, w in zip(ds, want)) or \
            not (ds[2][0] == "semi" and ds[2][1][0] == "macro" and ds[2][1][1] == "debug_assert"):
        raise Unsupported(f"iter_dump: loop body statements changed: {ds!r}")
    P_ABS = ("ppath", ["Err"], [("ppath", ["minimq", "PubError", "Serialization"],
                                 [("ppath", ["miniconf", "Error", "Traversal"], [("ppath", ["Traversal", "Absent"], [("pwild",)])])])])
    P_MEM = ("ppath", ["Err"], [("ppath", ["minimq", "PubError", "Error"], [("ppath", ["minimq", "Error", "Minimq"], [
        ("ppath", ["minimq", "MinimqError", "Protocol"], [("ppath", ["minimq", "ProtocolError", "Serialization"],
                                                          [("ppath", ["minimq", "SerError", "InsufficientMemory"], None)])])])])])
    P_FULL = ("ppath", ["Err"], [("ppath", ["minimq", "PubError", "Serialization"],
                                  [("ppath", ["miniconf", "Error", "Inner"],
                                    [("pwild",), ("ppath", ["serde_json_core", "ser", "Error", "BufferFull"], None)])])])
    LARGE = ("block", [
        ("let", ("pbind", "props"), ("array", [("mcall", ("path", ["ResponseCode", "Error"]), "into", [])])),
        ("let", ("pbind", "response"),
         ("mcall", ("mcall", ("call", ("path", ["Publication", "new"]),
                              [("unary", "&", ("path", ["topic"])), ("mcall", ("str", "Serialized value too large"), "as_bytes", [])]),
                    "properties", [("unary", "&", ("path", ["props"]))]), "qos", [("path", ["QoS", "AtLeastOnce"])])),
        CORR, ("semi", ("mcall", PUBLISH, "unwrap", []))], None)
    want_tail = ("match", PUBLISH, [([P_ABS], None, ("block", [], None)), ([P_MEM, P_FULL], None, LARGE),
                                    ([("pbind", "other")], None, ("mcall", ("path", ["other"]), "unwrap", []))])
    if dtail != want_tail:
        raise Unsupported(f"iter_dump: the classification of the publish result changed: {dtail!r}")
    # the same logic with the environment's classification of the publish result (`DumpErr`) in place of the patterns
    tail2 = ("match", ("call", ("path", ["pub_dump"]), [("path", ["topic"]), ("path", ["path"])]),
             [([("ppath", ["Err"], [("ppath", ["DumpErr", "Absent"], None)])], None, ("block", [], None)),
              ([("ppath", ["Err"], [("ppath", ["DumpErr", "TooLarge"], None)])], None,
               ("block", [("semi", ("call", ("path", ["publish_large"]), [("path", ["topic"])]))], None)),
              ([("pbind", "other")], None, ("mcall", ("path", ["other"]), "unwrap", []))])
    dinner_then = brk(("block", [("letelse", ds[0][1], ("call", ("path", ["iter_next"]), []), ds[0][3]),
                                 ("let", ("pbind", "topic"), ("call", ("path", ["dump_topic"]), [("path", ["path"])]))], tail2))
    dinner = ("block", [("expr", ("if", ("path", ["can_pub"]), dinner_then, ("block", [("semi", ("return", None))], None)))], None)
    dctors = dict(uctors)
    dctors["DumpErr::Absent"] = "DumpErr.Absent"
    dctors["DumpErr::TooLarge"] = "DumpErr.TooLarge"
    tb = Tables(self_type="Cl", ctors=dctors, fns={"dump_topic": ("dumpTopic pfx", "pure")}, methods={
        ("OptUnit", "unwrap"): {"kind": "unwrap"},
        ("DumpRes", "unwrap"): {"kind": "unwrap_result"},
    }, consts={"can_pub": "canPub"}, vartypes={"state": "StateM", "path": "Str", "topic": "Str", "other": "DumpRes"},
        structs={"Self": "(Cl E Es Pend X)"})
    tb.effects = {
        ("call", "iter_next"): {"fmt": "(match self.pending.remaining with | [] => (none, self) | p :: rest => "
                                       "(some p, {{ self with pending := {{ self.pending with remaining := rest }} }}))", "pair": "self"},
        ("call", "pub_dump"): {"fmt": "(ans, {{ self with acts := self.acts ++ (match ans with | .ok _ => [Act.pubVal {0} {1} self.pending.correlation_data] | .error _ => []) }})",
                               "pair": "self", "ret": "DumpRes"},
        ("call", "publish_large"): {"fmt": "((), {{ self with acts := self.acts ++ [Act.pubTo {0} tooLarge Code.Error self.pending.correlation_data] }})",
                                    "pair": "self"},
        ("mcall", "state", "process_event"): {"fmt": "(processEvent env self {0})", "pair": "self", "ret": "OptUnit"},
    }
    out += ["/-- `<prefix>/settings<path>` (the topic fits `MAX_TOPIC_LENGTH`: the `unwrap()`s of the source are not modelled) -/",
            "def dumpTopic (pfx path : Str) : Str := pfx ++ \"/settings\".toList ++ path", "",
            "def tooLarge : Str := \"Serialized value too large\".toList", ""]
    lines = translate_fn(("block", [], ("loop", dinner)), "iter_dump_body",
                         "{E Es X : Type} (env : Env E Es Pend) (pfx : Str) (canPub : Bool) (ans : Except DumpErr Unit) (self : Cl E Es Pend X)",
                         "Unit", tb, "loopbody",
                         doc="one pass of the loop of `iter_dump`; `ans`: how the publication of this leaf's value ended (`Ok`, or the "
                             "class of the error as the source's patterns sort it)")
    out += lines
    out.append("end MiniconfVerif.Gen.Mqtt")
    return "\n".join(out) + "\n"


if __name__ == "__main__":
    try:
        print(generate("/repo/miniconf_mqtt/src/lib.rs"))
    except Unsupported as e:
        print(f"TRANSLATOR-UNSUPPORTED: {e}", file=sys.stderr)
        sys.exit(3)
