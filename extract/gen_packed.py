#!/usr/bin/env python3
"""Translate the arithmetic of /repo/miniconf/src/packed.rs into Lean (BitVec 64).

Regenerated on every check run.  The Lean theorems in Props/C08.lean are stated about
these generated definitions, so an edit of the Rust expressions re-elaborates (and may
break) the proofs.  Anything outside the supported skeletons raises and the caller
reports the proof layer as broken.
"""
import re
import sys

from rustexpr import Unsupported, checks, emit, parse


def strip_comments(src):
    src = re.sub(r"//[^\n]*", "", src)
    return re.sub(r"/\*.*?\*/", "", src, flags=re.S)


def match_close(src, i, open_ch, close_ch):
    """src[i] == open_ch; return index of the matching close_ch."""
    assert src[i] == open_ch, (src[i : i + 10], open_ch)
    depth = 0
    for j in range(i, len(src)):
        if src[j] == open_ch:
            depth += 1
        elif src[j] == close_ch:
            depth -= 1
            if depth == 0:
                return j
    raise Unsupported("unbalanced " + open_ch)


def fn_body(src, name):
    m = re.search(r"\bfn\s+" + re.escape(name) + r"\s*\(", src)
    if not m:
        raise Unsupported(f"fn {name} not found")
    close = match_close(src, m.end() - 1, "(", ")")
    brace = src.index("{", close)
    end = match_close(src, brace, "{", "}")
    sig = src[m.start() : brace]
    return sig, src[brace + 1 : end].strip()


def split_stmts(body):
    """Split at top-level `;` (outside (), {})."""
    out, depth, cur = [], 0, ""
    for ch in body:
        if ch in "({[":
            depth += 1
        elif ch in ")}]":
            depth -= 1
        if ch == ";" and depth == 0:
            out.append(cur.strip())
            cur = ""
        else:
            cur += ch
    out.append(cur.strip())
    return out


class Fn:
    """Accumulates SSA lets and overflow/shift checks for one function."""

    def __init__(self, name, params):
        self.name = name
        self.params = params  # lean names (all : BitVec 64)
        self.env = {p: p for p in params}
        self.env["self"] = "self" if "self" in params else None
        self.lets = []  # (lean name, lean term)
        self.pre = []
        self.inner = []
        self.ssa = {}

    def fresh(self, rust):
        k = self.ssa.get(rust, 0)
        self.ssa[rust] = k + 1
        lean = rust if k == 0 and rust not in self.params else f"{rust}_{k}"
        if lean == "new":
            lean = "new_"
        return lean

    def bind(self, rust, expr_src, where):
        e = parse(expr_src)
        checks(e, self.env, where)
        term = emit(e, self.env)
        lean = self.fresh(rust)
        self.lets.append((lean, term))
        self.env[rust] = lean
        return lean


def params_sig(params):
    return " ".join(f"({p} : BitVec 64)" for p in params)


def emit_checks(f, lines):
    lets = "".join(f"  let {n} := {t}\n" for n, t in f.lets)
    for suffix, lst in (("pre", f.pre), ("inner", f.inner)):
        body = " && ".join(lst) if lst else "true"
        lines.append(f"/-- shift-amount / borrow side conditions ({suffix}) of `{f.name}` -/")
        lines.append(f"def {f.name}_{suffix} {params_sig(f.params)} : Bool :=\n{lets}  {body}\n")


def gen_new_map(src, rust_name, lean_name, params):
    """`[stmts;] Self::new(E).map(|v| { stmts; tail })` with `self` mutable.
    Lean: Option (newSelf × tail)."""
    sig, body = fn_body(src, rust_name)
    f = Fn(lean_name, params)
    stmts = split_stmts(body)
    debug_asserts = []
    for s in stmts[:-1]:
        m = re.fullmatch(r"let\s+(?:mut\s+)?(\w+)\s*=\s*(.+)", s, flags=re.S)
        if m:
            f.bind(m.group(1), m.group(2), f.pre)
            continue
        m = re.fullmatch(r"debug_assert_eq!\((.+),\s*(.+)\)", s, flags=re.S)
        if m:
            a, b = parse(m.group(1)), parse(m.group(2))
            checks(a, f.env, f.pre)
            checks(b, f.env, f.pre)
            debug_asserts.append(f"decide ({emit(a, f.env)} = {emit(b, f.env)})")
            continue
        raise Unsupported(f"{rust_name}: statement {s!r}")
    tail = stmts[-1]
    m = re.match(r"Self::new\(", tail)
    if not m:
        raise Unsupported(f"{rust_name}: tail {tail!r}")
    close = match_close(tail, m.end() - 1, "(", ")")
    cond_src = tail[m.end() : close]
    rest = tail[close + 1 :].strip()
    m = re.fullmatch(r"\.map\(\|(\w+)\|\s*\{(.*)\}\s*\)", rest, flags=re.S)
    if not m:
        raise Unsupported(f"{rust_name}: expected .map(|v| {{..}}), got {rest!r}")
    var, inner = m.group(1), m.group(2)
    cond = f.bind(var, cond_src, f.pre)
    n_outer_lets = len(f.lets)
    self_final = "self"
    istmts = split_stmts(inner)
    for s in istmts[:-1]:
        m = re.fullmatch(r"\*self\s*=\s*(\w+)", s)
        if m:
            self_final = f.env[m.group(1)]
            f.env["self_after"] = self_final
            continue
        m = re.fullmatch(r"self\.0\s*=\s*(.+)", s, flags=re.S)
        if m:
            self_final = f.bind("self_new", m.group(1), f.inner)
            continue
        m = re.fullmatch(r"(\w+)\s*-=\s*(.+)", s, flags=re.S)
        if m:
            f.bind(m.group(1), f"{m.group(1)} - ({m.group(2)})", f.inner)
            continue
        raise Unsupported(f"{rust_name}: inner statement {s!r}")
    te = parse(istmts[-1])
    checks(te, f.env, f.inner)
    tail_term = emit(te, f.env)
    lines = []
    outer = "".join(f"  let {n} := {t}\n" for n, t in f.lets[:n_outer_lets])
    innerl = "".join(f"    let {n} := {t}\n" for n, t in f.lets[n_outer_lets:])
    lines.append(f"/-- `Packed::{rust_name}`: `none` = returned `None`, `self` unchanged; "
                 f"`some (self', ret)` otherwise -/")
    lines.append(
        f"def {lean_name} {params_sig(params)} : Option (BitVec 64 × BitVec 64) :=\n{outer}"
        f"  if {cond} = 0 then none else\n{innerl}    some ({self_final}, {tail_term})\n"
    )
    emit_checks(f, lines)
    da = " && ".join(debug_asserts) if debug_asserts else "true"
    lines.append(f"/-- `debug_assert`s of `{rust_name}` -/")
    lines.append(f"def {lean_name}_dbg {params_sig(params)} : Bool :=\n{outer}  {da}\n")
    return lines


def gen_match_new(src, rust_name, lean_name, ctor, param_rust, param_lean):
    """`match CTOR(E) { Some(v) => v, None => unreachable!() }`"""
    _sig, body = fn_body(src, rust_name)
    m = re.match(r"match\s+" + re.escape(ctor) + r"\(", body)
    if not m:
        raise Unsupported(f"{rust_name}: body {body!r}")
    close = match_close(body, m.end() - 1, "(", ")")
    expr = body[m.end() : close]
    arms = re.sub(r"\s+", "", body[close + 1 :])
    if arms not in ("{Some(v)=>v,None=>unreachable!(),}", "{Some(v)=>v,None=>unreachable!()}"):
        raise Unsupported(f"{rust_name}: arms {arms!r}")
    f = Fn(lean_name, [param_lean])
    f.env[param_rust] = param_lean
    e = parse(expr)
    checks(e, f.env, f.pre)
    lines = [
        f"/-- `Packed::{rust_name}`: the word handed to `{ctor}`; zero would hit `unreachable!()` -/",
        f"def {lean_name} ({param_lean} : BitVec 64) : BitVec 64 :=\n  {emit(e, f.env)}\n",
    ]
    emit_checks(f, lines)
    return lines


def gen_bits_for(src):
    _sig, body = fn_body(src, "bits_for")
    m = re.fullmatch(r"match\s+(.+?)\s*\{\s*0\s*=>\s*1\s*,\s*v\s*=>\s*v\s*,?\s*\}", body, flags=re.S)
    if not m:
        raise Unsupported(f"bits_for: body {body!r}")
    f = Fn("bitsFor", ["num"])
    e = parse(m.group(1))
    checks(e, f.env, f.pre)
    t = emit(e, f.env)
    lines = [
        "/-- `Packed::bits_for` -/",
        f"def bitsFor (num : BitVec 64) : BitVec 64 :=\n  let v := {t}\n  if v = 0 then 1 else v\n",
    ]
    emit_checks(f, lines)
    return lines


def gen_simple(src, rust_name, lean_name, calls=None):
    _sig, body = fn_body(src, rust_name)
    f = Fn(lean_name, ["self"])
    src_e = body
    for rust_call, lean_call in (calls or {}).items():
        # inline `self.capacity()` as an identifier
        src_e = src_e.replace(rust_call, "__" + lean_call)
        f.env["__" + lean_call] = f"({lean_call} self)"
    e = parse(src_e)
    checks(e, f.env, f.pre)
    lines = [f"/-- `Packed::{rust_name}` -/", f"def {lean_name} (self : BitVec 64) : BitVec 64 :=\n  {emit(e, f.env)}\n"]
    emit_checks(f, lines)
    return lines


def gen_empty(src):
    m = re.search(r"pub const EMPTY: Self = Self\((.*?)\);", src, flags=re.S)
    if not m:
        raise Unsupported("EMPTY not found")
    txt = re.sub(r"\s+", "", m.group(1)).rstrip(",")
    if txt != "NonZero::<usize>::MIN.saturating_add(1).saturating_pow(Self::CAPACITY)":
        raise Unsupported(f"EMPTY: {txt!r}")
    cap = const_capacity(src)
    val = min((1 + 1) ** cap, 2**64 - 1)
    return [f"/-- `Packed::EMPTY` = (MIN + 1) ^ CAPACITY, saturating -/", f"def EMPTY : BitVec 64 := {val}\n"]


def const_capacity(src):
    m = re.search(r"pub const BITS: u32 = NonZero::<usize>::BITS;", src)
    if not m:
        raise Unsupported("BITS")
    m = re.search(r"pub const CAPACITY: u32 = (.+?);", src)
    if not m:
        raise Unsupported("CAPACITY")
    e = parse(m.group(1))
    if e != ("bin", "-", ("id", "Self::BITS"), ("num", 1)):
        raise Unsupported(f"CAPACITY = {m.group(1)!r}")
    return 63


def gen_keys(src):
    """`Keys for Packed`: `bits_for(lookup.len().get() - 1)`, pop, TooShort(0), find;
    finalize: is_empty -> TooLong(0).  Checked as a skeleton; the constants are emitted."""
    m = re.search(r"impl Keys for Packed \{(.*?)\n\}", src, flags=re.S)
    if not m:
        raise Unsupported("impl Keys for Packed")
    body = re.sub(r"\s+", " ", m.group(1))
    need = [
        "let bits = Self::bits_for(lookup.len().get() - 1);",
        "let index = self.pop_msb(bits).ok_or(Traversal::TooShort(0))?;",
        "index.find(lookup)",
        "self.is_empty().then_some(()).ok_or(Traversal::TooLong(0))",
    ]
    for n in need:
        if n not in body:
            raise Unsupported(f"Keys for Packed: missing {n!r}")
    m = re.search(r"impl Transcode for Packed \{(.*?)\n\}", src, flags=re.S)
    if not m:
        raise Unsupported("impl Transcode for Packed")
    body = re.sub(r"\s+", " ", m.group(1))
    need = [
        "M::traverse_by_key(keys.into_keys(), |index, _name, len| {",
        "match self.push_lsb(Packed::bits_for(len.get() - 1), index) { None => Err(()), Some(_) => Ok(()), }",
        ".try_into()",
    ]
    for n in need:
        if n not in body:
            raise Unsupported(f"Transcode for Packed: missing {n!r}")
    _sig, b = fn_body(src, "is_empty")
    if re.sub(r"\s+", "", b) != "matches!(*self,Self::EMPTY)":
        raise Unsupported(f"is_empty: {b!r}")
    return [
        "/-- `Keys for Packed::next`: field width for a lookup of `len` children (skeleton checked by the translator) -/",
        "def keyBits (len : BitVec 64) : BitVec 64 := bitsFor (len - 1)\n",
        "/-- `Packed::is_empty` -/",
        "def isEmpty (self : BitVec 64) : Bool := self == EMPTY\n",
    ]


def gen_ctors(src):
    """`new`, `new_from_lsb` (the `NonZero::new` guard in front of the identity / `from_lsb`) and `clear`"""
    want = {
        "new": "matchNonZero::new(value){Some(value)=>Some(Self(value)),None=>None,}",
        "new_from_lsb": "matchNonZero::new(value){Some(value)=>Some(Self::from_lsb(value)),None=>None,}",
        "clear": "*self=Self::EMPTY;",
    }
    for name, w in want.items():
        _sig, body = fn_body(src, name)
        if re.sub(r"\s+", "", body) != w:
            raise Unsupported(f"{name}: body {body!r}")
    return [
        "/-- `Packed::new`: `None` exactly for zero -/",
        "def new_ (value : BitVec 64) : Option (BitVec 64) := if value = 0 then none else some value\n",
        "/-- `Packed::new_from_lsb`: `None` exactly for zero, otherwise `from_lsb` -/",
        "def newFromLsb (value : BitVec 64) : Option (BitVec 64) := if value = 0 then none else some (fromLsb value)\n",
        "/-- `Packed::clear` -/",
        "def clear (self : BitVec 64) : BitVec 64 := EMPTY\n",
    ]


def generate(path):
    src = strip_comments(open(path).read())
    # cut the test module
    src = src.split("#[cfg(test)]")[0]
    cap = const_capacity(src)
    lines = [
        "-- GENERATED by extract/gen_packed.py from miniconf/src/packed.rs — do not edit.",
        "set_option linter.unusedVariables false", "namespace MiniconfVerif.Gen.Packed",
        "",
        "",
        f"def BITS : BitVec 64 := 64",
        f"def CAPACITY : BitVec 64 := {cap}",
        "",
    ]
    lines += gen_empty(src)
    lines += gen_simple(src, "capacity", "capacity")
    lines += gen_simple(src, "len", "len", calls={"self.capacity()": "capacity"})
    lines += gen_match_new(src, "into_lsb", "intoLsb", "NonZero::new", "self", "self")
    lines += gen_match_new(src, "from_lsb", "fromLsb", "Self::new", "value", "value")
    lines += gen_bits_for(src)
    lines += gen_new_map(src, "pop_msb", "popMsb", ["self", "bits"])
    lines += gen_new_map(src, "push_lsb", "pushLsb", ["self", "bits", "value"])
    lines += gen_keys(src)
    lines += gen_ctors(src)
    lines.append("end MiniconfVerif.Gen.Packed")
    return "\n".join(lines) + "\n"


if __name__ == "__main__":
    src, out = sys.argv[1], sys.argv[2]
    try:
        text = generate(src)
    except Unsupported as e:
        print(f"TRANSLATOR-UNSUPPORTED: {e}", file=sys.stderr)
        sys.exit(3)
    open(out, "w").write(text)
