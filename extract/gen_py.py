#!/usr/bin/env python3
"""Translate the response dispatchers of the Python clients (`async_.py`, `sync.py`: `Miniconf._dispatch`) and
`_Path.normalize` (`common.py`) into Lean (`Gen/Py.lean`), from the Python AST.

`_dispatch` is recognised statement by statement (anything else raises `Unsupported`) and emitted as a *decision
table*: the sequence of discard guards and, per response code, the list of actions on the in-flight entry.  The
table's interpreter `PyTable.run` is hand-written (Model/PyTable.lean); the tie theorem states that running the
extracted tables is the model's `dispatch`.  `normalize` is emitted as a Lean function over Python's string
primitives (`startswith`, `rfind`, slicing with a possibly negative bound, f-string concatenation)."""
import ast
import sys

from minirust import Unsupported


def find_method(tree, cls, name):
    for node in tree.body:
        if isinstance(node, ast.ClassDef) and node.name == cls:
            for item in node.body:
                if isinstance(item, (ast.FunctionDef, ast.AsyncFunctionDef)) and item.name == name:
                    return item
    raise Unsupported(f"{cls}.{name} not found")


def src(node):
    return ast.unparse(node)


def is_log(stmt):
    return isinstance(stmt, ast.Expr) and isinstance(stmt.value, ast.Call) and src(stmt.value.func).startswith("LOGGER.")


def discard_body(stmts, what):
    """`[LOGGER.x(...), return]`"""
    rest = [s for s in stmts if not is_log(s)]
    if len(rest) != 1 or not isinstance(rest[0], ast.Return) or rest[0].value is not None:
        raise Unsupported(f"_dispatch: {what}: handler is not `log; return`: {[src(s) for s in stmts]}")


def try_keyerror(stmt, want_assign, what):
    if not (isinstance(stmt, ast.Try) and len(stmt.body) == 1 and len(stmt.handlers) == 1 and not stmt.orelse and not stmt.finalbody):
        raise Unsupported(f"_dispatch: {what}: expected try/except, got {src(stmt)[:80]}")
    if src(stmt.body[0]) != want_assign:
        raise Unsupported(f"_dispatch: {what}: expected `{want_assign}`, got `{src(stmt.body[0])}`")
    h = stmt.handlers[0]
    if src(h.type) != "KeyError":
        raise Unsupported(f"_dispatch: {what}: handler catches {src(h.type)}")
    discard_body(h.body, what)


def actions(stmts, handle, what):
    out = []
    for s in stmts:
        t = src(s)
        if is_log(s):
            continue
        if t == "ret.append(resp)":
            out.append("append")
        elif isinstance(s, ast.If) and src(s.test) == "resp" and [src(x) for x in s.body] == ["ret.append(resp)"] and not s.orelse:
            out.append("appendIfNonEmpty")
        elif t == f"{handle}.set_result(ret)":
            out.append("setResult")
        elif t == f"{handle}.set_exception(MiniconfException(code, resp))":
            out.append("setException")
        elif t == "ret[:] = [MiniconfException(code, resp)]":
            out.append("replaceByException")
        elif t == f"{handle}.set()":
            out.append("setEvent")
        elif t == "del self._inflight[cd]":
            out.append("delInflight")
        else:
            raise Unsupported(f"_dispatch: {what}: unknown action `{t}`")
    return out


def dispatch_table(path, tag):
    tree = ast.parse(open(path).read())
    fn = find_method(tree, "Miniconf", "_dispatch")
    body = [s for s in fn.body if not is_log(s)]
    if len(body) != 7:
        raise Unsupported(f"{tag} _dispatch: {len(body)} statements (expected 7): {[src(s)[:40] for s in body]}")
    s0, s1, s2, s3, s4, s5, s6 = body
    topic = "message.topic.value" if tag == "async" else "message.topic"
    if not (isinstance(s0, ast.If) and src(s0.test) == f"{topic} != self.response_topic" and not s0.orelse):
        raise Unsupported(f"{tag} _dispatch: topic guard: {src(s0)[:80]}")
    discard_body(s0.body, "topic guard")
    if not (isinstance(s1, ast.Try) and [src(x) for x in s1.body] == ["properties = message.properties.json()"]
            and len(s1.handlers) == 1 and src(s1.handlers[0].type) == "AttributeError"
            and [src(x) for x in s1.handlers[0].body] == ["properties = {}"]):
        raise Unsupported(f"{tag} _dispatch: properties: {src(s1)[:120]}")
    try_keyerror(s2, "cd = bytes.fromhex(properties['CorrelationData'])", "correlation data")
    handle = "fut" if tag == "async" else "event"
    try_keyerror(s3, f"{handle}, ret = self._inflight[cd]", "in-flight lookup")
    if not (isinstance(s4, ast.Try) and len(s4.body) == 1):
        raise Unsupported(f"{tag} _dispatch: code lookup")
    t4 = src(s4.body[0])
    pre, post = "code = dict(properties['UserProperty'])['", "']"
    if not (t4.startswith(pre) and t4.endswith(post)):
        raise Unsupported(f"{tag} _dispatch: code lookup `{t4}`")
    key = t4[len(pre):-len(post)]
    try_keyerror(s4, t4, "response code")
    if src(s5) != "resp = message.payload.decode('utf-8')":
        raise Unsupported(f"{tag} _dispatch: payload decoding `{src(s5)}`")
    branches = []
    cur = s6
    while True:
        if not (isinstance(cur, ast.If) and isinstance(cur.test, ast.Compare) and src(cur.test.left) == "code"
                and len(cur.test.ops) == 1 and isinstance(cur.test.ops[0], ast.Eq)
                and isinstance(cur.test.comparators[0], ast.Constant) and isinstance(cur.test.comparators[0].value, str)):
            raise Unsupported(f"{tag} _dispatch: code branch `{src(cur)[:60]}`")
        code = cur.test.comparators[0].value
        branches.append((code, actions(cur.body, handle, f"branch {code}")))
        if len(cur.orelse) == 1 and isinstance(cur.orelse[0], ast.If):
            cur = cur.orelse[0]
            continue
        otherwise = actions(cur.orelse, handle, "else branch")
        break
    return key, branches, otherwise


def lean_table(name, key, branches, otherwise):
    def chars(t):
        return "[" + ", ".join("'%s'" % ch for ch in t) + "]"
    bl = ", ".join('(%s, [%s])' % (chars(c), ", ".join("." + a for a in acts)) for c, acts in branches)
    return [f"def {name} : Table :=",
            f'  {{ guards := [.topicIsResponse, .hasCorrelationData, .inflightHasCd, .hasCode {chars(key)}],',
            f"    branches := [{bl}],",
            f"    otherwise := [{', '.join('.' + a for a in otherwise)}] }}", ""]


# ------------------------------------------------------------------ _Path.normalize

class PyExpr:
    """Python string expressions over `List Char` (`Str`)"""

    def __init__(self, env):
        self.env = env

    def s(self, e):
        """Str-valued"""
        if isinstance(e, ast.Name) and e.id in self.env:
            return self.env[e.id]
        if isinstance(e, ast.Attribute) and src(e) in self.env:
            return self.env[src(e)]
        if isinstance(e, ast.Constant) and isinstance(e.value, str):
            return "[" + ", ".join("'%s'" % c for c in e.value) + "]"
        if isinstance(e, ast.JoinedStr):
            parts = []
            for v in e.values:
                if isinstance(v, ast.Constant):
                    parts.append(self.s(v))
                elif isinstance(v, ast.FormattedValue) and v.conversion == -1 and v.format_spec is None:
                    parts.append(self.s(v.value))
                else:
                    raise Unsupported(f"f-string part {src(v)}")
            return "(" + " ++ ".join(parts) + ")"
        if isinstance(e, ast.Subscript) and isinstance(e.slice, ast.Slice) and e.slice.lower is None and e.slice.step is None \
                and e.slice.upper is not None:
            return f"(pySliceTo {self.s(e.value)} {self.i(e.slice.upper)})"
        raise Unsupported(f"string expression `{src(e)}`")

    def i(self, e):
        """Int-valued"""
        if isinstance(e, ast.Call) and isinstance(e.func, ast.Attribute) and e.func.attr == "rfind" and len(e.args) == 1:
            return f"(pyRfind {self.s(e.func.value)} {self.s(e.args[0])})"
        raise Unsupported(f"integer expression `{src(e)}`")

    def b(self, e):
        """Bool-valued"""
        if isinstance(e, ast.BoolOp):
            op = " || " if isinstance(e.op, ast.Or) else " && "
            return "(" + op.join(self.b(v) for v in e.values) + ")"
        if isinstance(e, ast.UnaryOp) and isinstance(e.op, ast.Not):
            return f"(pyFalsy {self.s(e.operand)})"
        if isinstance(e, ast.Call) and isinstance(e.func, ast.Attribute) and e.func.attr == "startswith" and len(e.args) == 1:
            return f"(pyStartsWith {self.s(e.func.value)} {self.s(e.args[0])})"
        raise Unsupported(f"boolean expression `{src(e)}`")


def normalize_fn(path):
    tree = ast.parse(open(path).read())
    fn = find_method(tree, "_Path", "normalize")
    body = [s for s in fn.body if not (isinstance(s, ast.Expr) and isinstance(s.value, ast.Constant))]
    if len(body) != 3 or not isinstance(body[0], ast.If) or not isinstance(body[1], ast.Assert) or not isinstance(body[2], ast.Return):
        raise Unsupported(f"_Path.normalize: body shape {[type(s).__name__ for s in body]}")
    px = PyExpr({"path": "path", "self.current": "current"})

    def branch(stmts):
        cur, pth = "current", "path"
        lets = []
        for s in stmts:
            if not (isinstance(s, ast.Assign) and len(s.targets) == 1):
                raise Unsupported(f"_Path.normalize: statement `{src(s)}`")
            tgt = src(s.targets[0])
            val = px.s(s.value)
            if tgt == "self.current":
                lets.append(f"let current := {val}")
            elif tgt == "path":
                lets.append(f"let path := {val}")
            else:
                raise Unsupported(f"_Path.normalize: assignment to {tgt}")
        return lets
    cond = px.b(body[0].test)
    a = branch(body[0].body)
    b = branch(body[0].orelse)
    if src(body[2].value) != "path":
        raise Unsupported("_Path.normalize: return value")
    asrt = px.b(body[1].test)
    out = ["/-- `_Path.normalize(path)`: the new `self.current`, the returned path, and whether the `assert` holds -/",
           "def normalize (current path : Str) : Str × Str × Bool :=",
           f"  if {cond} then"]
    out += ["    " + l for l in a] + [f"    (current, path, {asrt})", "  else"]
    out += ["    " + l for l in b] + [f"    (current, path, {asrt})", ""]
    return out


def generate(async_py, sync_py, common_py):
    out = ["-- GENERATED by extract/gen_py.py from py/miniconf-mqtt/miniconf/{async_,sync,common}.py — do not edit.",
           "import MiniconfVerif.Model.PyTable",
           "namespace MiniconfVerif.Gen.Py", "open MiniconfVerif.PyTable MiniconfVerif.PathIter", ""]
    for tag, path in (("async", async_py), ("sync", sync_py)):
        key, branches, otherwise = dispatch_table(path, tag)
        out.append(f"/-- `Miniconf._dispatch` of {tag if tag == 'sync' else 'async_'}.py as a decision table -/")
        out += lean_table(f"{tag}Table", key, branches, otherwise)
    out += normalize_fn(common_py)
    out.append("end MiniconfVerif.Gen.Py")
    return "\n".join(out) + "\n"


if __name__ == "__main__":
    R = "/repo/py/miniconf-mqtt/miniconf/"
    try:
        print(generate(R + "async_.py", R + "sync.py", R + "common.py"))
    except Unsupported as e:
        print(f"TRANSLATOR-UNSUPPORTED: {e}", file=sys.stderr)
        sys.exit(3)
