#!/usr/bin/env python3
"""Translate the response dispatchers of the Python clients (`async_.py`, `sync.py`: `Miniconf._dispatch`) and
`_Path.normalize` (`common.py`) into Lean (`Gen/Py.lean`), from the Python AST.

`_dispatch` is recognised statement by statement (anything else raises `Unsupported`) and emitted as a *decision
table*: the sequence of discard guards and, per response code, the list of actions on the in-flight entry.  The
table's interpreter `PyTable.run` is hand-written (Model/PyTable.lean); the tie theorem states that running the
extracted tables is the model's `dispatch`.  `normalize` is emitted as a Lean function over Python's string
primitives (`startswith`, `rfind`, slicing with a possibly negative bound, f-string concatenation)."""
import ast
import sys

from minirust import Unsupported


def find_method(tree, cls, name):
    for node in tree.body:
        if isinstance(node, ast.ClassDef) and node.name == cls:
            for item in node.body:
                if isinstance(item, (ast.FunctionDef, ast.AsyncFunctionDef)) and item.name == name:
                    return item
    raise Unsupported(f"{cls}.{name} not found")


def src(node):
    return ast.unparse(node)


def is_log(stmt):
    return isinstance(stmt, ast.Expr) and isinstance(stmt.value, ast.Call) and src(stmt.value.func).startswith("LOGGER.")


def discard_body(stmts, what):
    """`[LOGGER.x(...), return]`"""
    rest = [s for s in stmts if not is_log(s)]
    if len(rest) != 1 or not isinstance(rest[0], ast.Return) or rest[0].value is not None:
        raise Unsupported(f"_dispatch: {what}: handler is not `log; return`: {[src(s) for s in stmts]}")


def try_keyerror(stmt, want_assign, what):
    if not (isinstance(stmt, ast.Try) and len(stmt.body) == 1 and len(stmt.handlers) == 1 and not stmt.orelse and not stmt.finalbody):
        raise Unsupported(f"_dispatch: {what}: expected try/except, got {src(stmt)[:80]}")
    if src(stmt.body[0]) != want_assign:
        raise Unsupported(f"_dispatch: {what}: expected `{want_assign}`, got `{src(stmt.body[0])}`")
    h = stmt.handlers[0]
    if src(h.type) != "KeyError":
        raise Unsupported(f"_dispatch: {what}: handler catches {src(h.type)}")
    discard_body(h.body, what)


def actions(stmts, handle, what):
    out = []
    for s in stmts:
        t = src(s)
        if is_log(s):
            continue
        if t == "ret.append(resp)":
            out.append("append")
        elif isinstance(s, ast.If) and src(s.test) == "resp" and [src(x) for x in s.body] == ["ret.append(resp)"] and not s.orelse:
            out.append("appendIfNonEmpty")
        elif t == f"{handle}.set_result(ret)":
            out.append("setResult")
        elif t == f"{handle}.set_exception(MiniconfException(code, resp))":
            out.append("setException")
        elif t == "ret[:] = [MiniconfException(code, resp)]":
            out.append("replaceByException")
        elif t == f"{handle}.set()":
            out.append("setEvent")
        elif t == "del self._inflight[cd]":
            out.append("delInflight")
        else:
            raise Unsupported(f"_dispatch: {what}: unknown action `{t}`")
    return out


def dispatch_table(path, tag):
    tree = ast.parse(open(path).read())
    fn = find_method(tree, "Miniconf", "_dispatch")
    body = [s for s in fn.body if not is_log(s)]
    if len(body) != 7:
        raise Unsupported(f"{tag} _dispatch: {len(body)} statements (expected 7): {[src(s)[:40] for s in body]}")
    s0, s1, s2, s3, s4, s5, s6 = body
    topic = "message.topic.value" if tag == "async" else "message.topic"
    if not (isinstance(s0, ast.If) and src(s0.test) == f"{topic} != self.response_topic" and not s0.orelse):
        raise Unsupported(f"{tag} _dispatch: topic guard: {src(s0)[:80]}")
    discard_body(s0.body, "topic guard")
    if not (isinstance(s1, ast.Try) and [src(x) for x in s1.body] == ["properties = message.properties.json()"]
            and len(s1.handlers) == 1 and src(s1.handlers[0].type) == "AttributeError"
            and [src(x) for x in s1.handlers[0].body] == ["properties = {}"]):
        raise Unsupported(f"{tag} _dispatch: properties: {src(s1)[:120]}")
    try_keyerror(s2, "cd = bytes.fromhex(properties['CorrelationData'])", "correlation data")
    handle = "fut" if tag == "async" else "event"
    try_keyerror(s3, f"{handle}, ret = self._inflight[cd]", "in-flight lookup")
    if not (isinstance(s4, ast.Try) and len(s4.body) == 1):
        raise Unsupported(f"{tag} _dispatch: code lookup")
    t4 = src(s4.body[0])
    pre, post = "code = dict(properties['UserProperty'])['", "']"
    if not (t4.startswith(pre) and t4.endswith(post)):
        raise Unsupported(f"{tag} _dispatch: code lookup `{t4}`")
    key = t4[len(pre):-len(post)]
    try_keyerror(s4, t4, "response code")
    if src(s5) != "resp = message.payload.decode('utf-8')":
        raise Unsupported(f"{tag} _dispatch: payload decoding `{src(s5)}`")
    branches = []
    cur = s6
    while True:
        if not (isinstance(cur, ast.If) and isinstance(cur.test, ast.Compare) and src(cur.test.left) == "code"
                and len(cur.test.ops) == 1 and isinstance(cur.test.ops[0], ast.Eq)
                and isinstance(cur.test.comparators[0], ast.Constant) and isinstance(cur.test.comparators[0].value, str)):
            raise Unsupported(f"{tag} _dispatch: code branch `{src(cur)[:60]}`")
        code = cur.test.comparators[0].value
        branches.append((code, actions(cur.body, handle, f"branch {code}")))
        if len(cur.orelse) == 1 and isinstance(cur.orelse[0], ast.If):
            cur = cur.orelse[0]
            continue
        otherwise = actions(cur.orelse, handle, "else branch")
        break
    return key, branches, otherwise


def lean_table(name, key, branches, otherwise):
    def chars(t):
        return "[" + ", ".join("'%s'" % ch for ch in t) + "]"
    bl = ", ".join('(%s, [%s])' % (chars(c), ", ".join("." + a for a in acts)) for c, acts in branches)
    return [f"def {name} : Table :=",
            f'  {{ guards := [.topicIsResponse, .hasCorrelationData, .inflightHasCd, .hasCode {chars(key)}],',
            f"    branches := [{bl}],",
            f"    otherwise := [{', '.join('.' + a for a in otherwise)}] }}", ""]


# ------------------------------------------------------------------ _Path.normalize

class PyExpr:
    """Python string expressions over `List Char` (`Str`)"""

    def __init__(self, env):
        self.env = env

    def s(self, e):
        """Str-valued"""
        if isinstance(e, ast.Name) and e.id in self.env:
            return self.env[e.id]
        if isinstance(e, ast.Attribute) and src(e) in self.env:
            return self.env[src(e)]
        if isinstance(e, ast.Constant) and isinstance(e.value, str):
            return "[" + ", ".join("'%s'" % c for c in e.value) + "]"
        if isinstance(e, ast.JoinedStr):
            parts = []
            for v in e.values:
                if isinstance(v, ast.Constant):
                    parts.append(self.s(v))
                elif isinstance(v, ast.FormattedValue) and v.conversion == -1 and v.format_spec is None:
                    parts.append(self.s(v.value))
                else:
                    raise Unsupported(f"f-string part {src(v)}")
            return "(" + " ++ ".join(parts) + ")"
        if isinstance(e, ast.Subscript) and isinstance(e.slice, ast.Slice) and e.slice.lower is None and e.slice.step is None \
                and e.slice.upper is not None:
            return f"(pySliceTo {self.s(e.value)} {self.i(e.slice.upper)})"
        raise Unsupported(f"string expression `{src(e)}`")

    def i(self, e):
        """Int-valued"""
        if isinstance(e, ast.Call) and isinstance(e.func, ast.Attribute) and e.func.attr == "rfind" and len(e.args) == 1:
            return f"(pyRfind {self.s(e.func.value)} {self.s(e.args[0])})"
        raise Unsupported(f"integer expression `{src(e)}`")

    def b(self, e):
        """Bool-valued"""
        if isinstance(e, ast.BoolOp):
            op = " || " if isinstance(e.op, ast.Or) else " && "
            return "(" + op.join(self.b(v) for v in e.values) + ")"
        if isinstance(e, ast.UnaryOp) and isinstance(e.op, ast.Not):
            return f"(pyFalsy {self.s(e.operand)})"
        if isinstance(e, ast.Call) and isinstance(e.func, ast.Attribute) and e.func.attr == "startswith" and len(e.args) == 1:
            return f"(pyStartsWith {self.s(e.func.value)} {self.s(e.args[0])})"
        raise Unsupported(f"boolean expression `{src(e)}`")


def normalize_fn(path):
    tree = ast.parse(open(path).read())
    fn = find_method(tree, "_Path", "normalize")
    body = [s for s in fn.body if not (isinstance(s, ast.Expr) and isinstance(s.value, ast.Constant))]
    if len(body) != 3 or not isinstance(body[0], ast.If) or not isinstance(body[1], ast.Assert) or not isinstance(body[2], ast.Return):
        raise Unsupported(f"_Path.normalize: body shape {[type(s).__name__ for s in body]}")
    px = PyExpr({"path": "path", "self.current": "current"})

    def branch(stmts):
        cur, pth = "current", "path"
        lets = []
        for s in stmts:
            if not (isinstance(s, ast.Assign) and len(s.targets) == 1):
                raise Unsupported(f"_Path.normalize: statement `{src(s)}`")
            tgt = src(s.targets[0])
            val = px.s(s.value)
            if tgt == "self.current":
                lets.append(f"let current := {val}")
            elif tgt == "path":
                lets.append(f"let path := {val}")
            else:
                raise Unsupported(f"_Path.normalize: assignment to {tgt}")
        return lets
    cond = px.b(body[0].test)
    a = branch(body[0].body)
    b = branch(body[0].orelse)
    if src(body[2].value) != "path":
        raise Unsupported("_Path.normalize: return value")
    asrt = px.b(body[1].test)
    out = ["/-- `_Path.normalize(path)`: the new `self.current`, the returned path, and whether the `assert` holds -/",
           "def normalize (current path : Str) : Str × Str × Bool :=",
           f"  if {cond} then"]
    out += ["    " + l for l in a] + [f"    (current, path, {asrt})", "  else"]
    out += ["    " + l for l in b] + [f"    (current, path, {asrt})", ""]
    return out


# ------------------------------------------------------------------ the tail of `_do` and the `response=` of each API method

def do_tail(path, tag):
    """Lean definition `<tag>Post (response : Nat) (ret : List PyItem) : Result`: what `_do` hands back once the wait is over
    (async: `ret = await fut` returned the list; sync: `event.wait(timeout)` returned and `ret` is the shared list)"""
    tree = ast.parse(open(path).read())
    fn = find_method(tree, "Miniconf", "_do")
    a = fn.args
    kw = {k.arg: src(d) for k, d in zip(a.kwonlyargs, a.kw_defaults)}
    want_kw = {"response": "1"} if tag == "async" else {"response": "1", "timeout": "None"}
    if [x.arg for x in a.args] != ["self", "path"] or kw != want_kw or a.kwarg is None or a.kwarg.arg != "kwargs":
        raise Unsupported(f"{tag} _do: signature {src(a)}")
    body = [s for s in fn.body if not is_log(s)]
    if not body or src(body[0]) != "response = int(response)":
        raise Unsupported(f"{tag} _do: `response = int(response)` expected first")
    if src(body[-1]) != "return None" or not (isinstance(body[-2], ast.If) and src(body[-2].test) == "response" and not body[-2].orelse):
        raise Unsupported(f"{tag} _do: `if response: <wait and post-process>` then `return None` expected at the end")
    tail = body[-2].body
    wait = "ret = await fut" if tag == "async" else "event.wait(timeout)"
    if src(tail[0]) != wait:
        raise Unsupported(f"{tag} _do: the wait is `{src(tail[0])}`, expected `{wait}`")

    def test(t):
        t_ = src(t)
        if t_ == "response == 1":
            return "response = 1"
        if t_ == "len(ret) != 1":
            return "ret.length ≠ 1"
        if t_ == "len(ret) == 1":
            return "ret.length = 1"
        raise Unsupported(f"{tag} _do: condition `{t_}`")

    def stmts(ss, ind):
        pad = "  " * ind
        if not ss:
            raise Unsupported(f"{tag} _do: control reaches the end of the post-processing")
        s0, rest = ss[0], ss[1:]
        t = src(s0)
        if is_log(s0):
            return stmts(rest, ind)
        if isinstance(s0, ast.If) and not s0.orelse and src(s0.test) == "len(ret) == 1 and isinstance(ret[0], MiniconfException)" \
                and [src(x) for x in s0.body] == ["raise ret[0]"]:
            return [f"{pad}match ret with", f"{pad}| [.exc c m] => .miniconfExc c (.inr m)", f"{pad}| _ =>"] + stmts(rest, ind + 1)
        if isinstance(s0, ast.If) and not s0.orelse:
            return [f"{pad}if {test(s0.test)} then"] + stmts(s0.body + rest, ind + 1) + [f"{pad}else"] + stmts(rest, ind + 1)
        if t == "raise MiniconfException('Not a leaf', ret)":
            return [f"{pad}notLeaf ret"]
        if t == "return ret[0]":
            return [f"{pad}first ret"]
        if t == "assert ret":
            return [f"{pad}if ret.isEmpty then .assertionError else"] + stmts(rest, ind + 1)
        if t == "return ret":
            return [f"{pad}whole ret"]
        raise Unsupported(f"{tag} _do: statement `{t}`")
    lines = stmts(tail[1:], 2)
    return [f"/-- the tail of `Miniconf._do` of {tag if tag == 'sync' else 'async_'}.py after the wait; `response = 0`: nothing is awaited, `None` -/",
            f"def {tag}Post (response : Nat) (ret : List PyItem) : Result :=",
            "  if response ≠ 0 then"] + lines + ["  else .none_", ""]


def response_of(path, tag):
    """the `response=` each public request method passes to `_do` (int(True) = 1)"""
    tree = ast.parse(open(path).read())
    do = find_method(tree, "Miniconf", "_do")
    default = {k.arg: d for k, d in zip(do.args.kwonlyargs, do.args.kw_defaults)}["response"]
    out = {}
    for name in ("get", "set", "list", "clear", "dump"):
        fn = find_method(tree, "Miniconf", name)
        calls = [n for n in ast.walk(fn) if isinstance(n, ast.Call) and src(n.func) == "self._do"]
        if len(calls) != 1:
            raise Unsupported(f"{tag} {name}(): {len(calls)} calls of self._do")
        kws = {k.arg: k.value for k in calls[0].keywords if k.arg}
        v = kws.get("response", default)
        if isinstance(v, ast.Name) and v.id == "response":
            names = [x.arg for x in fn.args.args]
            defs = fn.args.defaults
            dmap = dict(zip(names[len(names) - len(defs):], defs))
            v = dmap.get("response")
        if not (isinstance(v, ast.Constant) and isinstance(v.value, (int, bool))):
            raise Unsupported(f"{tag} {name}(): response= is not a constant")
        out[name] = int(v.value)
        if [src(x) for x in calls[0].args] != ["path"]:
            raise Unsupported(f"{tag} {name}(): _do is not called with the path")
    return [f"/-- `response=` of the public request methods of {tag if tag == 'sync' else 'async_'}.py -/",
            f"def {tag}ResponseOf : Kind → Nat"] + [f"  | .{k} => {v}" for k, v in out.items()] + [""]


def generate(async_py, sync_py, common_py):
    out = ["-- GENERATED by extract/gen_py.py from py/miniconf-mqtt/miniconf/{async_,sync,common}.py — do not edit.",
           "import MiniconfVerif.Model.PyTable",
           "namespace MiniconfVerif.Gen.Py", "open MiniconfVerif.PyTable MiniconfVerif.PathIter MiniconfVerif.PyClient", ""]
    for tag, path in (("async", async_py), ("sync", sync_py)):
        key, branches, otherwise = dispatch_table(path, tag)
        out.append(f"/-- `Miniconf._dispatch` of {tag if tag == 'sync' else 'async_'}.py as a decision table -/")
        out += lean_table(f"{tag}Table", key, branches, otherwise)
    out += normalize_fn(common_py)
    for tag, path in (("async", async_py), ("sync", sync_py)):
        out += do_tail(path, tag)
        out += response_of(path, tag)
    out.append("end MiniconfVerif.Gen.Py")
    return "\n".join(out) + "\n"


if __name__ == "__main__":
    R = "/repo/py/miniconf-mqtt/miniconf/"
    try:
        print(generate(R + "async_.py", R + "sync.py", R + "common.py"))
    except Unsupported as e:
        print(f"TRANSLATOR-UNSUPPORTED: {e}", file=sys.stderr)
        sys.exit(3)
