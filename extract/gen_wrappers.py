#!/usr/bin/env python3
"""Translate the value-level impls of the transparent wrappers in miniconf/src/impls.rs (`Option`, `Box`, `Cow`, `Cell`,
`RefCell`, `&RefCell`, `Rc`, `Arc`, both `Weak`s, `Mutex`, `&Mutex`, `RwLock`, `&RwLock`) into a Lean table
(`Gen/Wrappers.lean`): for every wrapper and every by-key operation it implements, HOW the wrapped value is reached (the
accessor: `as_ref()`, `try_borrow()`, `Rc::get_mut(self)`, `upgrade()`, `lock()`, …) and WHAT is answered when the accessor
fails, or that the operation is refused outright.  Every body must be exactly

    <accessor> [ .ok_or(<traversal>)? | .or(Err(<traversal>))? ] .<the same by-key function>(<the same arguments>)
  | Err(<traversal>)

anything else is `Unsupported` (a failed obligation).  Which runtime states make an accessor fail is `std`'s semantics,
stated by hand next to the tie theorem (`Lemmas/GenTieWrappers.lean`)."""
import re
import sys

import minirust as M
from minirust import Unsupported

WRAPPERS = [  # (type text in the impl header, GateKind)
    ("Option<T>", "option"), ("Box<T>", "box"), ("Cow<'_, T>", "cow"), ("Cell<T>", "cell"), ("RefCell<T>", "refCell"),
    ("&RefCell<T>", "refRefCell"), ("Rc<T>", "rc"), ("Arc<T>", "arc"), ("rc::Weak<T>", "rcWeak"), ("sync::Weak<T>", "arcWeak"),
    ("Mutex<T>", "mutex"), ("&Mutex<T>", "refMutex"), ("RwLock<T>", "rwLock"), ("&RwLock<T>", "refRwLock"),
]
OPS = [("TreeSerialize", "serialize_by_key", "ser", "keys,ser"), ("TreeDeserialize<'de>", "deserialize_by_key", "de", "keys,de"),
       ("TreeAny", "ref_any_by_key", "refAny", "keys"), ("TreeAny", "mut_any_by_key", "mutAny", "keys")]
ACCESSORS = {  # accessor text (whitespace removed) -> Acc constructor
    "(**self)": "direct", "self.get()": "direct", "self.to_mut()": "direct",
    "self.as_ref()": "asRef", "self.as_mut()": "asMut",
    "self.try_borrow()": "tryBorrow", "self.try_borrow_mut()": "tryBorrowMut",
    "Rc::get_mut(self)": "uniqueMut", "Arc::get_mut(self)": "uniqueMut",
    "self.upgrade()": "upgrade",
    "self.lock()": "lock", "(*self).lock()": "lock", "self.read()": "read", "self.write()": "write",
}
# `self.get_mut()`: infallible on Cell / RefCell, a `LockResult` on Mutex / RwLock
GET_MUT = {"cell": "direct", "refCell": "direct", "mutex": "lockGetMut", "rwLock": "lockGetMut"}


def impl_blocks(src):
    """{(trait, type): block text}"""
    out = {}
    for m in re.finditer(r"impl<[^{;]*?>\s+(TreeSerialize|TreeDeserialize<'de>|TreeAny)\s+for\s+([^{;]+?)\s*\{", src, re.S):
        i, depth = m.end() - 1, 0
        for j in range(i, len(src)):
            if src[j] == "{":
                depth += 1
            elif src[j] == "}":
                depth -= 1
                if depth == 0:
                    break
        ty = re.sub(r"\s+", " ", m.group(2)).strip()
        ty = re.sub(r"\s+where .*$", "", ty)
        if (m.group(1), ty) in out:
            raise Unsupported(f"two impls of {m.group(1)} for {ty}")
        out[(m.group(1), ty)] = src[i + 1:j]
    return out


def squash(text):
    """remove white space outside string literals"""
    out, in_str, prev = [], False, ""
    for ch in text:
        if ch == '"' and prev != "\\":
            in_str = not in_str
        if in_str or not ch.isspace():
            out.append(ch)
        prev = ch
    return "".join(out)


def fn_body(block, name):
    m = re.search(r"fn\s+" + name + r"\b", block)
    if not m:
        return None
    k = block.index("{", block.index(")", m.end()))
    depth = 0
    for e in range(k, len(block)):
        if block[e] == "{":
            depth += 1
        elif block[e] == "}":
            depth -= 1
            if depth == 0:
                break
    return squash(block[k + 1:e])


def trav(t, what):
    m = re.fullmatch(r"Traversal::Absent\(0\)", t)
    if m:
        return "(.absent 0)"
    m = re.fullmatch(r'Traversal::Access\(0,"([^"\\]*)"\)', t)
    if m:
        return f'(.access 0 "{m.group(1)}")'
    raise Unsupported(f"{what}: the failure answer `{t}` is not Absent(0) / Access(0, \"..\")")


def classify(body, fn, args, gate, what):
    m = re.fullmatch(r"Err\((.*)\)", body)
    if m and "." + fn not in body:
        return f"(.refuse {trav(m.group(1), what)})"
    tail = f".{fn}({args})"
    if not body.endswith(tail):
        raise Unsupported(f"{what}: does not end in `{tail}`: {body}")
    head = body[:-len(tail)]
    fail = None
    m = re.fullmatch(r"(.*)\.ok_or\((.*)\)\?", head) or re.fullmatch(r"(.*)\.or\(Err\((.*)\)\)\?", head)
    if m:
        head, fail = m.group(1), trav(m.group(2), what)
    if head == "self.get_mut()":
        acc = GET_MUT.get(gate)
    else:
        acc = ACCESSORS.get(head)
    if acc is None:
        raise Unsupported(f"{what}: unknown way to reach the wrapped value: `{head}`")
    if acc == "direct":
        if fail is not None:
            raise Unsupported(f"{what}: an infallible accessor with a failure answer")
        return ".direct"
    if fail is None:
        raise Unsupported(f"{what}: the fallible accessor `{head}` is used without `.ok_or(..)?` / `.or(Err(..))?`")
    return f"(.via .{acc} {fail})"


def generate(impls_rs):
    src = M.strip_comments(open(impls_rs).read())
    blocks = impl_blocks(src)
    rows = []
    for ty, gate in WRAPPERS:
        for trait, fn, op, args in OPS:
            blk = blocks.get((trait, ty))
            if blk is None:
                continue
            body = fn_body(blk, fn)
            if body is None:
                raise Unsupported(f"impl {trait} for {ty}: no fn {fn}")
            rows.append((gate, op, classify(body, fn, args, gate, f"{fn} of {ty}")))
    have = {(g, o) for g, o, _ in rows}
    # the impls the model's `gateErr` speaks about must exist (a removed impl is a different program)
    for gate in ("option", "box", "cow", "cell", "refCell", "rc", "arc", "mutex", "rwLock"):
        for op in ("ser", "de", "refAny", "mutAny"):
            if (gate, op) not in have:
                raise Unsupported(f"no value-level impl found for {gate} / {op}")
    for gate, op in (("rcWeak", "ser"), ("rcWeak", "de"), ("arcWeak", "ser"), ("arcWeak", "de"), ("refRefCell", "de"),
                     ("refMutex", "de"), ("refRwLock", "de")):
        if (gate, op) not in have:
            raise Unsupported(f"no value-level impl found for {gate} / {op}")
    out = ["-- GENERATED by extract/gen_wrappers.py from miniconf/src/impls.rs — do not edit.",
           "import MiniconfVerif.Model.Tree",
           "namespace MiniconfVerif.Gen.Wrappers", "open MiniconfVerif", "",
           "/-- how a wrapper impl reaches the wrapped value before it delegates the same by-key operation to it -/",
           "inductive Acc where",
           "  | direct          -- `(**self)`, `Cell::get()`, `Cell/RefCell::get_mut()`, `Cow::to_mut()`: cannot fail",
           "  | asRef | asMut   -- `Option::as_ref()` / `as_mut()`",
           "  | tryBorrow | tryBorrowMut   -- `RefCell::try_borrow()` / `try_borrow_mut()`",
           "  | uniqueMut       -- `Rc::get_mut(self)` / `Arc::get_mut(self)`",
           "  | upgrade         -- `Weak::upgrade()` (the delegate is then the impl for `Rc<T>` / `Arc<T>` on the fresh strong reference)",
           "  | lock | read | write | lockGetMut   -- `Mutex::lock()`, `RwLock::read()` / `write()`, `Mutex/RwLock::get_mut()`",
           "  deriving DecidableEq, Repr, Inhabited",
           "/-- one by-key function of one wrapper -/",
           "inductive Beh where",
           "  | direct                       -- delegate, nothing can fail here",
           "  | via (a : Acc) (onFail : Trav) -- `<accessor>.ok_or(onFail)?` / `.or(Err(onFail))?`, then delegate",
           "  | refuse (t : Trav)            -- `Err(t)` whatever the keys",
           "  deriving DecidableEq, Repr, Inhabited",
           "",
           "/-- the value-level impls of impls.rs, one row per (wrapper, operation) that exists -/",
           "def wrapperBeh : GateKind → Op → Option Beh"]
    for gate, op, beh in rows:
        out.append(f"  | .{gate}, .{op} => some {beh}")
    out += ["  | _, _ => none", "", "end MiniconfVerif.Gen.Wrappers"]
    return "\n".join(out) + "\n"


if __name__ == "__main__":
    try:
        print(generate("/repo/miniconf/src/impls.rs"))
    except Unsupported as e:
        print(f"TRANSLATOR-UNSUPPORTED: {e}", file=sys.stderr)
        sys.exit(3)
