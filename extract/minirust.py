"""A small parser for the subset of Rust used by the function bodies that are translated to
Lean (extract/rust2lean.py).  Anything outside the subset raises `Unsupported`: the translator
is part of the proof layer and never guesses.

AST (tuples):
  expressions
    ("num", n) ("str", s) ("char", c) ("bool", b)
    ("path", [seg, ...])                       identifiers are paths of length 1; turbofish dropped
    ("call", fn_expr, [args])  ("mcall", recv, name, [args])  ("field", recv, name)  ("index", recv, idx)
    ("unary", op, e)   op in  * & &mut ! -
    ("bin", op, a, b)  ("cast", e, ty_text)  ("try", e)
    ("tuple", [es])    ("struct", path, [(field, expr)])      ("array", [es])
    ("match", scrut, [([pats], guard|None, expr)])
    ("if", cond, block, else_expr|None)        cond may be ("iflet", pat, expr)
    ("block", [stmts], tail|None)
    ("closure", [pats], body)
    ("macro", name, [token lists split at top-level commas])
    ("return", e|None) ("continue",) ("break",)
    ("loop", block) ("for", pat, iter_expr, block) ("while", cond, block)
    ("assign", op, lhs, rhs)                   op in = += -= *= |= &= <<= >>=
  statements
    ("let", pat, expr|None)  ("expr", e)  ("semi", e)
  patterns
    ("pwild",) ("pbind", name) ("pnum", n) ("pstr", s) ("ppath", path, [subpats] | None) ("ptuple", [ps]) ("pref", p)
"""
import re


class Unsupported(Exception):
    pass


TOKEN = re.compile(
    r"""\s*(?:
      (?P<num>0b[01_]+|0x[0-9a-fA-F_]+|[0-9][0-9_]*)(?P<suf>usize|u8|u16|u32|u64|u128|isize|i8|i16|i32|i64|i128)?
    | (?P<str>"(?:[^"\\]|\\.)*")
    | (?P<char>'(?:[^'\\]|\\.)')
    | (?P<life>'[A-Za-z_][A-Za-z0-9_]*)
    | (?P<id>[^\W\d]\w*)
    | (?P<op>::|->|=>|==|!=|<=|>=|&&|\|\||<<=|>>=|<<|>>|\+=|-=|\*=|\|=|&=|\.\.=|\.\.|[-+*/%|^&!<>=.,;:(){}\[\]?#@])
    )""",
    re.X,
)


def strip_comments(src):
    src = re.sub(r"//[^\n]*", "", src)
    return re.sub(r"/\*.*?\*/", "", src, flags=re.S)


def tokenize(src):
    pos, out = 0, []
    src = src.rstrip()
    while pos < len(src):
        m = TOKEN.match(src, pos)
        if not m or m.end() == pos:
            if src[pos:].strip() == "":
                break
            raise Unsupported(f"cannot tokenize at {src[pos:pos + 30]!r}")
        pos = m.end()
        if m.group("num"):
            out.append(("num", int(m.group("num").replace("_", ""), 0)))
        elif m.group("str"):
            out.append(("str", bytes(m.group("str")[1:-1], "utf-8").decode("unicode_escape").encode("latin-1").decode("utf-8")))
        elif m.group("char"):
            out.append(("char", bytes(m.group("char")[1:-1], "utf-8").decode("unicode_escape").encode("latin-1").decode("utf-8")))
        elif m.group("life"):
            out.append(("life", m.group("life")))
        elif m.group("id"):
            out.append(("id", m.group("id")))
        else:
            out.append(("op", m.group("op")))
    return out


KEYWORDS = {"match", "if", "else", "let", "mut", "return", "continue", "break", "loop", "for", "in", "while", "as",
            "ref", "fn", "impl", "pub", "const", "move", "true", "false"}

# binary operator precedence, low -> high
BINOPS = [["||"], ["&&"], ["==", "!=", "<", ">", "<=", ">="], ["|"], ["^"], ["&"], ["<<", ">>"], ["+", "-"], ["*", "/", "%"]]
ASSIGN = {"=", "+=", "-=", "*=", "|=", "&=", "<<=", ">>="}


class Parser:
    def __init__(self, toks):
        self.toks = toks
        self.i = 0

    # ---- token helpers
    def peek(self, k=0):
        j = self.i + k
        return self.toks[j] if j < len(self.toks) else (None, None)

    def take(self):
        t = self.peek()
        if t[0] is None:
            raise Unsupported("unexpected end of input")
        self.i += 1
        return t

    def at(self, kind, val=None):
        t = self.peek()
        return t[0] == kind and (val is None or t[1] == val)

    def at_op(self, v):
        return self.peek() == ("op", v)

    def at_kw(self, v):
        return self.peek() == ("id", v)

    def eat_op(self, v):
        if self.at_op(v):
            self.i += 1
            return True
        return False

    def eat_kw(self, v):
        if self.at_kw(v):
            self.i += 1
            return True
        return False

    def expect_op(self, v):
        t = self.take()
        if t != ("op", v):
            raise Unsupported(f"expected {v!r}, got {t!r} at token {self.i} ({self.context()})")

    def context(self):
        return " ".join(str(t[1]) for t in self.toks[max(0, self.i - 8): self.i + 4])

    def done(self):
        return self.i >= len(self.toks)

    # ---- generics / types (skipped, returned as text)
    def skip_angle(self):
        """at '<': skip a balanced generic argument list, return its text"""
        depth, start = 0, self.i
        while True:
            t = self.take()
            if t == ("op", "<"):
                depth += 1
            elif t == ("op", "<<"):
                depth += 2
            elif t == ("op", ">"):
                depth -= 1
            elif t == ("op", ">>"):
                depth -= 2
            elif t == ("op", "->") or t == ("op", "=>"):
                pass
            if depth <= 0:
                break
        return " ".join(str(t[1]) for t in self.toks[start:self.i])

    def type_text(self):
        """parse a type after `as` or `:` (only simple forms), return text"""
        start = self.i
        if self.eat_op("&"):
            if self.peek()[0] == "life":
                self.take()
            self.eat_kw("mut")
        if self.at_op("("):
            depth = 0
            while True:
                t = self.take()
                if t == ("op", "("):
                    depth += 1
                elif t == ("op", ")"):
                    depth -= 1
                    if depth == 0:
                        break
        elif self.at_op("["):
            depth = 0
            while True:
                t = self.take()
                if t == ("op", "["):
                    depth += 1
                elif t == ("op", "]"):
                    depth -= 1
                    if depth == 0:
                        break
        else:
            self.path_segments()
            if self.at_op("<"):      # generic arguments of a type: `String<N>`, `Vec<u8, 3>`
                self.skip_angle()
        return " ".join(str(t[1]) for t in self.toks[start:self.i])

    def path_segments(self):
        segs = []
        if self.at_op("<"):
            # qualified path <T as Trait>::x  -- keep as one opaque segment
            segs.append("<" + self.skip_angle()[1:].strip())
            # skip_angle consumed through '>'
        else:
            t = self.take()
            if t[0] != "id":
                raise Unsupported(f"expected identifier, got {t!r} ({self.context()})")
            segs.append(t[1])
        while True:
            if self.at_op("::"):
                if self.peek(1) == ("op", "<"):
                    self.take()
                    self.skip_angle()
                    continue
                if self.peek(1)[0] == "id":
                    self.take()
                    segs.append(self.take()[1])
                    continue
            break
        return segs

    # ---- patterns
    def pattern(self):
        """one pattern without top-level alternatives"""
        if self.eat_op("&"):
            self.eat_kw("mut")
            return ("pref", self.pattern())
        if self.eat_kw("ref"):
            self.eat_kw("mut")
            return self.pattern()
        if self.eat_kw("mut"):
            return self.pattern()
        t = self.peek()
        if t == ("op", ".."):
            self.take()
            return ("prest",)
        if t[0] == "num":
            self.take()
            if self.at_op("..="):
                self.take()
                hi = self.take()
                if hi[0] != "num":
                    raise Unsupported("range pattern bound")
                return ("prange", t[1], hi[1])
            return ("pnum", t[1])
        if t[0] == "str":
            self.take()
            return ("pstr", t[1])
        if t == ("op", "("):
            self.take()
            ps = []
            while not self.at_op(")"):
                ps.append(self.pattern_alts_single())
                if not self.eat_op(","):
                    break
            self.expect_op(")")
            if len(ps) == 1:
                return ps[0]
            return ("ptuple", ps)
        if t[0] == "id":
            if t[1] == "_":
                self.take()
                return ("pwild",)
            if t[1] in ("true", "false"):
                self.take()
                return ("ppath", [t[1]], None)
            segs = self.path_segments()
            if self.at_op("("):
                self.take()
                ps = []
                while not self.at_op(")"):
                    ps.append(self.pattern_alts_single())
                    if not self.eat_op(","):
                        break
                self.expect_op(")")
                return ("ppath", segs, ps)
            if len(segs) == 1 and (segs[0][0].islower() or segs[0][0] == '_'):
                return ("pbind", segs[0])
            return ("ppath", segs, None)
        raise Unsupported(f"pattern at {self.context()}")

    def pattern_alts_single(self):
        p = self.pattern()
        if self.at_op("|"):
            raise Unsupported("nested or-pattern")
        return p

    def pattern_alts(self):
        self.eat_op("|")
        ps = [self.pattern()]
        while self.eat_op("|"):
            ps.append(self.pattern())
        return ps

    # ---- expressions
    def expr(self, nostruct=False):
        return self.assign(nostruct)

    def assign(self, nostruct):
        lhs = self.range_(nostruct)
        t = self.peek()
        if t[0] == "op" and t[1] in ASSIGN:
            self.take()
            rhs = self.assign(nostruct)
            return ("assign", t[1], lhs, rhs)
        return lhs

    def range_(self, nostruct):
        if self.at_op(".."):
            self.take()
            hi = None
            if not (self.at_op(")") or self.at_op("]") or self.at_op(";") or self.at_op(",")):
                hi = self.binary(0, nostruct)
            return ("range", "..", None, hi)
        e = self.binary(0, nostruct)
        if self.at_op("..") or self.at_op("..="):
            op = self.take()[1]
            hi = None
            if not (self.at_op(")") or self.at_op("]") or self.at_op(";") or self.at_op(",") or self.at_op("{")):
                hi = self.binary(0, nostruct)
            return ("range", op, e, hi)
        return e

    def binary(self, k, nostruct):
        if k == len(BINOPS):
            return self.cast(nostruct)
        e = self.binary(k + 1, nostruct)
        while self.peek()[0] == "op" and self.peek()[1] in BINOPS[k]:
            op = self.take()[1]
            r = self.binary(k + 1, nostruct)
            e = ("bin", op, e, r)
        return e

    def cast(self, nostruct):
        e = self.unary(nostruct)
        while self.eat_kw("as"):
            e = ("cast", e, self.type_text())
        return e

    def unary(self, nostruct):
        if self.at_op("*") or self.at_op("!") or self.at_op("-"):
            op = self.take()[1]
            return ("unary", op, self.unary(nostruct))
        if self.at_op("&") or self.at_op("&&"):
            n = 2 if self.take()[1] == "&&" else 1
            m = self.eat_kw("mut")
            e = ("unary", "&mut" if m else "&", self.unary(nostruct))
            if n == 2:
                e = ("unary", "&", e)
            return e
        return self.postfix(nostruct)

    def args(self):
        self.expect_op("(")
        out = []
        while not self.at_op(")"):
            out.append(self.expr())
            if not self.eat_op(","):
                break
        self.expect_op(")")
        return out

    def postfix(self, nostruct):
        e = self.atom(nostruct)
        while True:
            if self.at_op("?"):
                self.take()
                e = ("try", e)
            elif self.at_op("("):
                e = ("call", e, self.args())
            elif self.at_op("["):
                self.take()
                idx = self.expr()
                self.expect_op("]")
                e = ("index", e, idx)
            elif self.at_op("."):
                self.take()
                t = self.take()
                if t[0] == "num":
                    e = ("field", e, str(t[1]))
                elif t[0] == "id":
                    if self.at_op("::"):
                        self.take()
                        self.skip_angle()
                    if self.at_op("("):
                        e = ("mcall", e, t[1], self.args())
                    else:
                        e = ("field", e, t[1])
                else:
                    raise Unsupported(f"postfix at {self.context()}")
            else:
                return e

    def peek_let_else(self):
        return False

    def block(self):
        self.expect_op("{")
        stmts = []
        tail = None
        while not self.at_op("}"):
            if self.eat_op(";"):
                continue
            if self.at_kw("let"):
                self.take()
                pat = self.pattern_alts_single()
                if self.eat_op(":"):
                    self.type_text()
                init = None
                if self.eat_op("="):
                    init = self.expr(nostruct=self.peek_let_else())
                if self.at_kw("else"):
                    # `let PAT = EXPR else { diverging block };`
                    self.take()
                    els = self.block()
                    self.expect_op(";")
                    stmts.append(("letelse", pat, init, els))
                    continue
                self.expect_op(";")
                stmts.append(("let", pat, init))
                continue
            e = self.expr()
            if self.eat_op(";"):
                stmts.append(("semi", e))
            elif self.at_op("}"):
                tail = e
            elif e[0] in ("if", "match", "loop", "for", "while", "block"):
                stmts.append(("expr", e))
            else:
                raise Unsupported(f"expected ';' or '}}' at {self.context()}")
        self.expect_op("}")
        return ("block", stmts, tail)

    def macro_args(self):
        """after `name!`: a delimited token tree, split at top-level commas"""
        open_t = self.take()
        close = {"(": ")", "[": "]", "{": "}"}.get(open_t[1])
        if open_t[0] != "op" or close is None:
            raise Unsupported("macro delimiter")
        depth, cur, parts = 0, [], []
        while True:
            t = self.take()
            if t[0] == "op" and t[1] in "([{":
                depth += 1
            elif t[0] == "op" and t[1] in ")]}":
                if depth == 0:
                    if t[1] != close:
                        raise Unsupported("macro delimiter mismatch")
                    break
                depth -= 1
            if t == ("op", ",") and depth == 0:
                parts.append(cur)
                cur = []
            else:
                cur.append(t)
        if cur:
            parts.append(cur)
        return parts

    def atom(self, nostruct):
        t = self.peek()
        if t[0] == "num":
            self.take()
            return ("num", t[1])
        if t[0] == "str":
            self.take()
            return ("str", t[1])
        if t[0] == "char":
            self.take()
            return ("char", t[1])
        if t == ("op", "("):
            self.take()
            es = []
            trailing = False
            while not self.at_op(")"):
                es.append(self.expr())
                trailing = False
                if not self.eat_op(","):
                    break
                trailing = True
            self.expect_op(")")
            if len(es) == 1 and not trailing:
                return es[0]
            return ("tuple", es)
        if t == ("op", "["):
            self.take()
            es = []
            while not self.at_op("]"):
                es.append(self.expr())
                if self.eat_op(";"):
                    n = self.expr()
                    self.expect_op("]")
                    return ("repeat", es[0], n)
                if not self.eat_op(","):
                    break
            self.expect_op("]")
            return ("array", es)
        if t == ("op", "{"):
            return self.block()
        if t == ("op", "|") or t == ("op", "||"):
            self.take()
            params = []
            if t[1] == "|":
                while not self.at_op("|"):
                    params.append(self.pattern())
                    if self.eat_op(":"):
                        self.type_text()
                    if not self.eat_op(","):
                        break
                self.expect_op("|")
            return ("closure", params, self.expr())
        if t[0] == "id":
            kw = t[1]
            if kw == "match":
                self.take()
                scrut = self.expr(nostruct=True)
                self.expect_op("{")
                arms = []
                while not self.at_op("}"):
                    pats = self.pattern_alts()
                    guard = None
                    if self.eat_kw("if"):
                        guard = self.expr(nostruct=True)
                    self.expect_op("=>")
                    body = self.expr()
                    arms.append((pats, guard, body))
                    if not self.eat_op(","):
                        if not self.at_op("}") and body[0] not in ("block", "match", "if"):
                            raise Unsupported(f"match arm separator at {self.context()}")
                self.expect_op("}")
                return ("match", scrut, arms)
            if kw == "if":
                self.take()
                if self.eat_kw("let"):
                    pat = self.pattern_alts()
                    self.expect_op("=")
                    cond = ("iflet", pat, self.expr(nostruct=True))
                else:
                    cond = self.expr(nostruct=True)
                then = self.block()
                els = None
                if self.eat_kw("else"):
                    els = self.atom(nostruct) if self.at_kw("if") else self.block()
                return ("if", cond, then, els)
            if kw == "loop":
                self.take()
                return ("loop", self.block())
            if kw == "while":
                self.take()
                cond = self.expr(nostruct=True)
                return ("while", cond, self.block())
            if kw == "for":
                self.take()
                pat = self.pattern_alts_single()
                if not self.eat_kw("in"):
                    raise Unsupported("for without in")
                it = self.expr(nostruct=True)
                return ("for", pat, it, self.block())
            if kw == "return":
                self.take()
                if self.at_op(";") or self.at_op("}") or self.at_op(","):
                    return ("return", None)
                return ("return", self.expr())
            if kw == "continue":
                self.take()
                return ("continue",)
            if kw == "break":
                self.take()
                return ("break",)
            if kw == "move":
                self.take()
                return self.atom(nostruct)
            if kw in ("true", "false"):
                self.take()
                return ("bool", kw == "true")
            segs = self.path_segments()
            if self.at_op("!") and self.peek(1)[0] == "op" and self.peek(1)[1] in "([{" and self.peek(1)[1] != "":
                self.take()
                return ("macro", segs[-1], self.macro_args())
            if self.at_op("{") and not nostruct and segs[-1][0].isupper():
                self.take()
                fields = []
                while not self.at_op("}"):
                    name = self.take()
                    if name[0] != "id":
                        raise Unsupported("struct literal field")
                    if self.eat_op(":"):
                        val = self.expr()
                    else:
                        val = ("path", [name[1]])
                    fields.append((name[1], val))
                    if not self.eat_op(","):
                        break
                self.expect_op("}")
                return ("struct", segs, fields)
            return ("path", segs)
        raise Unsupported(f"unexpected token {t!r} at {self.context()}")


def parse_expr_tokens(toks):
    p = Parser(toks)
    e = p.expr()
    if not p.done():
        raise Unsupported(f"trailing tokens after expression: {p.context()}")
    return e


def parse_pattern_tokens(toks):
    p = Parser(toks)
    ps = p.pattern_alts()
    if not p.done():
        raise Unsupported("trailing tokens after pattern")
    return ps


def parse_block(src):
    p = Parser(tokenize(src))
    b = p.block()
    if not p.done():
        raise Unsupported(f"trailing tokens after block: {p.context()}")
    return b


# ------------------------------------------------------------------ locating items in a source file

def match_close(src, i, open_ch, close_ch):
    assert src[i] == open_ch
    depth = 0
    for j in range(i, len(src)):
        if src[j] == open_ch:
            depth += 1
        elif src[j] == close_ch:
            depth -= 1
            if depth == 0:
                return j
    raise Unsupported("unbalanced " + open_ch)


def find_impl(src, header_regex):
    """body text of the first `impl` block whose header (text between `impl` and `{`) matches"""
    for m in re.finditer(r"\bimpl\b", src):
        brace = src.find("{", m.end())
        if brace < 0:
            continue
        header = re.sub(r"\s+", " ", src[m.end():brace]).strip()
        if re.fullmatch(header_regex, header):
            end = match_close(src, brace, "{", "}")
            return src[brace + 1:end]
    raise Unsupported(f"impl block matching {header_regex!r} not found")


def find_fn(src, name):
    """(signature text, body text incl. braces) of `fn name` in src"""
    m = re.search(r"\bfn\s+" + re.escape(name) + r"\s*(<[^{(]*>)?\s*\(", src)
    if not m:
        raise Unsupported(f"fn {name} not found")
    close = match_close(src, src.index("(", m.start()), "(", ")")
    brace = src.index("{", close)
    end = match_close(src, brace, "{", "}")
    return re.sub(r"\s+", " ", src[m.start():brace]).strip(), src[brace:end + 1]


def find_enum(src, name):
    """[(variant, [field type texts])] of `enum name`"""
    m = re.search(r"\benum\s+" + re.escape(name) + r"\s*(<[^{]*>)?\s*\{", src)
    if not m:
        raise Unsupported(f"enum {name} not found")
    brace = src.index("{", m.start())
    end = match_close(src, brace, "{", "}")
    body = src[brace + 1:end]
    body = re.sub(r"#\[[^\]]*\]", "", body)
    body = re.sub(r"#\[(?:[^\[\]]|\[[^\]]*\])*\]", "", body)
    out = []
    depth, cur = 0, ""
    for ch in body:
        if ch in "(<[":
            depth += 1
        elif ch in ")>]":
            depth -= 1
        if ch == "," and depth == 0:
            if cur.strip():
                out.append(cur.strip())
            cur = ""
        else:
            cur += ch
    if cur.strip():
        out.append(cur.strip())
    variants = []
    for v in out:
        mm = re.fullmatch(r"(\w+)\s*(?:\((.*)\))?", v, flags=re.S)
        if not mm:
            raise Unsupported(f"enum {name}: variant {v!r}")
        fields = []
        if mm.group(2) is not None:
            d, c = 0, ""
            for ch in mm.group(2):
                if ch in "(<[":
                    d += 1
                elif ch in ")>]":
                    d -= 1
                if ch == "," and d == 0:
                    fields.append(re.sub(r"\s+", " ", c).strip())
                    c = ""
                else:
                    c += ch
            if c.strip():
                fields.append(re.sub(r"\s+", " ", c).strip())
        variants.append((mm.group(1), fields))
    return variants


def find_struct(src, name):
    """[(field, type text)] of `struct name { .. }`"""
    m = re.search(r"\bstruct\s+" + re.escape(name) + r"\s*(<[^{;]*>)?\s*\{", src)
    if not m:
        raise Unsupported(f"struct {name} not found")
    brace = src.index("{", m.start())
    end = match_close(src, brace, "{", "}")
    body = re.sub(r"#\[[^\]]*\]", "", src[brace + 1:end])
    fields = []
    for part in body.split(","):
        part = part.strip()
        if not part:
            continue
        mm = re.fullmatch(r"(?:pub(?:\([a-z]+\))?\s+)?(\w+)\s*:\s*(.+)", part, flags=re.S)
        if not mm:
            raise Unsupported(f"struct {name}: field {part!r}")
        fields.append((mm.group(1), re.sub(r"\s+", " ", mm.group(2)).strip()))
    return fields


def find_struct_tuple(src, name):
    """[type texts] of the tuple struct `struct name(..);`"""
    mm = re.search(r"\bstruct\s+" + re.escape(name) + r"\s*(<[^({;]*>)?\s*\(", src)
    if not mm:
        raise Unsupported(f"tuple struct {name} not found")
    op = src.index("(", mm.start())
    end = match_close(src, op, "(", ")")
    return [re.sub(r"\s+", " ", re.sub(r"^\s*pub(\([a-z]+\))?\s+", "", t)).strip() for t in src[op + 1:end].split(",") if t.strip()]
