"""Translate parsed Rust function bodies (extract/minirust.py) into Lean 4 definitions.

The translation is a continuation-passing walk over statements and expressions:

  * mutable locals and `self` are threaded by shadowing (`x = e` becomes `let x := e`); the code after an
    `if`/`match` statement is copied into every branch that reaches it, so the shadowed names are in scope;
  * operations that can panic in Rust (`a - b` on unsigned integers, indexing, `unwrap`, `panic!`,
    `unreachable!`, `assert!`) become explicit `.panic site` results of the type `P α` (functions) or
    `Ctl σ ρ` (one pass through the body of a `loop`);
  * `loop { .. }` is translated to a *body* function returning `Ctl` (`next` = `continue`/fall-through,
    `ret` = `return`); the iteration itself (with fuel) is written by hand in the model;
  * `for (i, x) in xs.iter().enumerate()` is a `List.foldl` over `xs.zipIdx` whose accumulator is the
    tuple of the locals assigned in the body;
  * calls are resolved through tables (constructors, methods, functions) supplied with each function;
    external calls are parameters of the generated definition.

Not translated, by design (stated in DESIGN.md): integer overflow of `+`/`*` (usize is `Nat`), `as`
casts between unsigned types (transparent), `debug_assert*` (listed as comments).

Anything outside the tables raises `Unsupported`."""
from minirust import Unsupported

RESERVED = {"meta", "end", "open", "at", "from", "next", "then", "else", "do", "fun", "have", "show", "let", "in", "if",
            "match", "with", "where", "type", "Type", "prefix", "local", "instance", "structure", "class", "def"}


def lname(n):
    return n + "_" if n in RESERVED else n


# ------------------------------------------------------------------ documents

def T(s):
    return ("t", s)


def render(d, ind=0):
    """doc -> list of lines"""
    pad = "  " * ind
    k = d[0]
    if k == "t":
        return [pad + d[1]]
    if k == "let":
        _k, pat, val, body = d
        return [f"{pad}let {pat} := {val}"] + render(body, ind)
    if k == "if":
        _k, c, a, b = d
        return [f"{pad}if {c} then"] + render(a, ind + 1) + [f"{pad}else"] + render(b, ind + 1)
    if k == "match":
        _k, scrut, arms = d
        out = [f"{pad}(match {scrut} with"]
        for pats, body in arms:
            out.append(pad + "| " + " | ".join(pats) + " =>")
            out += render(body, ind + 1)
        out[-1] += ")"
        return out
    raise AssertionError(d)


class Tables:
    """name resolution for one translated function"""

    def __init__(self, self_type=None, ctors=None, fns=None, methods=None, consts=None, vartypes=None,
                 fields=None, try_kind="result", structs=None, lettypes=None, fortypes=None, str_as_chars=False):
        self.str_as_chars = str_as_chars
        self.static_ctors = set()
        self.effects = {}     # see Tr.effect()
        self.try_into = {}    # error tag -> wrapper format applied by `?` (From conversion)
        self.self_type = self_type
        self.ctors = ctors or {}        # "Traversal::NotFound" -> "Traversal.NotFound"
        self.fns = fns or {}            # "Packed::bits_for" -> (lean fn, "pure" | "panic")
        self.methods = methods or {}    # (tag|None, name) -> handler spec
        self.consts = consts or {}      # "NonZero::MIN" -> "1"
        self.vartypes = vartypes or {}  # rust var -> tag
        self.fields = fields or {}      # (tag, field) -> lean projection text (".depth")
        self.try_kind = try_kind
        self.structs = structs or {}    # "Self"/"Node" -> lean structure name
        self.lettypes = lettypes or {}  # rust local -> lean type annotation of its `let`
        self.fortypes = list(fortypes or [])  # per for-loop, in order: (accumulator type, element type)


class Ctx:
    def __init__(self, panic, ret, cont=None, selfvar=None):
        self.panic = panic      # site -> doc
        self.ret = ret          # value term -> doc
        self.cont = cont        # () -> doc   (loop body only)
        self.selfvar = selfvar


class Tr:
    def __init__(self, tables, fname, sig=""):
        self.tb = tables
        self.fname = fname
        self.sig = sig
        import re as _re
        self.sig_args = " ".join(_re.findall(r"[({](\w+) :", sig))
        self.aux = []
        self.nloops = 0
        self.n = 0
        self.notes = []
        self.may_panic = False
        self.pending_ok = None
        self.last_err = None

    def fresh(self, base="t"):
        self.n += 1
        return f"{base}{self.n}"

    def site(self, what):
        return f"{self.fname}: {what}"

    def panic(self, ctx, what):
        self.may_panic = True
        return ctx.panic(self.site(what))

    # ---------------------------------------------------------------- helpers
    def tag_of(self, e):
        if e[0] == "str":
            return "Str"
        if e[0] == "charset":
            return "CharSet"
        if e[0] == "index" and e[2][0] == "range" and e[2][2] is None and e[2][3] is None and e[1][0] == "array":
            return "CharSet"
        if e[0] == "path" and len(e[1]) == 1:
            return self.tb.vartypes.get(e[1][0])
        if e[0] == "unary" and e[1] in ("*", "&", "&mut"):
            return self.tag_of(e[2])
        if e[0] == "field":
            t = self.tag_of(e[1])
            return self.tb.vartypes.get((t, e[2]))
        if e[0] == "index":
            t = self.tag_of(e[1])
            if t and t.startswith("list:"):
                return t[5:]
        if e[0] == "call" and e[1][0] == "path" and ("call", "::".join(e[1][1])) in self.tb.effects:
            return self.tb.effects[("call", "::".join(e[1][1]))].get("ret")
        if e[0] == "call" and e[1][0] == "path" and "::".join(e[1][1]) in getattr(self.tb, "rettags", {}):
            return self.tb.rettags["::".join(e[1][1])]
        if e[0] == "call" and e[1][0] == "path" and len(e[1][1]) == 2 and ("::".join(e[1][1])) in self.tb.ctors:
            return e[1][1][0]
        if e[0] == "match" and e[2]:
            return self.tag_of(e[2][0][2])
        if e[0] == "block" and e[2] is not None:
            return self.tag_of(e[2])
        if e[0] == "mcall" and e[1][0] == "field" and e[1][1][0] == "path" and len(e[1][1][1]) == 1 and \
                ("mcall", f"{e[1][1][1][0]}.{e[1][2]}", e[2]) in self.tb.effects:
            return self.tb.effects[("mcall", f"{e[1][1][1][0]}.{e[1][2]}", e[2])].get("ret")
        if e[0] == "mcall" and e[1][0] == "path" and len(e[1][1]) == 1 and ("mcall", e[1][1][0], e[2]) in self.tb.effects:
            return self.tb.effects[("mcall", e[1][1][0], e[2])].get("ret")
        if e[0] == "try":
            return getattr(self.tb, "rettags", {}).get(f"try:{self.tag_of(e[1])}")
        if e[0] == "mcall":
            t = self.tag_of(e[1])
            spec = self.tb.methods.get((t, e[2])) or self.tb.methods.get((None, e[2]))
            if spec and "ret" in spec:
                return spec["ret"]
            if spec and spec.get("kind") == "id":
                return t
        return None

    def tag_err(self, e):
        """error type tag of a `Result` expression (for the `From` conversion applied by `?`)"""
        if e[0] == "mcall" and e[1][0] == "field" and e[1][1][0] == "path" and len(e[1][1][1]) == 1 and \
                ("mcall", f"{e[1][1][1][0]}.{e[1][2]}", e[2]) in self.tb.effects:
            return self.tb.effects[("mcall", f"{e[1][1][1][0]}.{e[1][2]}", e[2])].get("ret")
        if e[0] == "mcall":
            t = self.tag_of(e[1])
            spec = self.tb.methods.get((t, e[2])) or self.tb.methods.get((None, e[2]))
            if spec and "err" in spec:
                return spec["err"]
        return None

    def atomize(self, term, k, base="t"):
        """bind a compound term to a fresh name so that it is evaluated once"""
        if term.replace("_", "").replace(".", "").isalnum():
            return k(term)
        v = self.fresh(base)
        return ("let", v, term, k(v))

    # ---------------------------------------------------------------- patterns
    def pat(self, p):
        k = p[0]
        if k == "pwild":
            return "_"
        if k == "pbind":
            return lname(p[1])
        if k == "pnum":
            return str(p[1])
        if k == "prange":
            if p[2] - p[1] > 16:
                raise Unsupported(f"{self.fname}: wide range pattern")
            return " | ".join(str(i) for i in range(p[1], p[2] + 1))
        if k == "pstr":
            return '"' + p[1] + '"'
        if k == "pref":
            return self.pat(p[1])
        if k == "ptuple":
            if not p[1]:
                return "()"
            return "(" + ", ".join(self.pat(q) for q in p[1]) + ")"
        if k == "ppath":
            name = "::".join(p[1])
            if name == "Ok":
                return "(.ok " + " ".join(self.pat(q) for q in p[2]) + ")"
            if name == "Err":
                return "(.error " + " ".join(self.pat(q) for q in p[2]) + ")"
            if name == "Some":
                return "(some " + " ".join(self.pat(q) for q in p[2]) + ")"
            if name == "None":
                return "none"
            if name in ("true", "false"):
                return name
            c = self.ctor(name)
            if p[2] is None or not p[2]:
                return c
            return "(" + c + " " + " ".join(self.pat(q) for q in p[2]) + ")"
        raise Unsupported(f"{self.fname}: pattern {p!r}")

    def ctor(self, name):
        if name.startswith("Self::") and self.tb.self_type:
            name = self.tb.self_type + "::" + name[6:]
        if name in self.tb.ctors:
            return self.tb.ctors[name]
        raise Unsupported(f"{self.fname}: unknown constructor {name}")

    # ---------------------------------------------------------------- expressions
    def ex(self, e, ctx, k):
        """k : lean term -> doc"""
        kind = e[0]
        if kind == "num":
            return k(str(e[1]))
        if kind == "bool":
            return k("true" if e[1] else "false")
        if kind == "str":
            if self.tb.str_as_chars:
                return k("[" + ", ".join(lean_char(c) for c in e[1]) + "]")
            return k('"' + e[1].replace("\\", "\\\\").replace('"', '\\"') + '"')
        if kind == "charset":
            return k("[" + ", ".join(lean_char(c) for c in e[1]) + "]")
        if kind == "char":
            return k(lean_char(e[1]))
        if kind == "path":
            segs = e[1]
            if len(segs) == 1:
                n = segs[0]
                if n == "None":
                    return k("none")
                if n in self.tb.consts:
                    return k(self.tb.consts[n])
                return k(lname(n))
            name = "::".join(segs)
            if name in self.tb.consts:
                return k(self.tb.consts[name])
            return k(self.ctor(name))
        if kind == "tuple":
            if not e[1]:
                return k("()")
            return self.exs(e[1], ctx, lambda ts: k("(" + ", ".join(ts) + ")"))
        if kind == "unary":
            op = e[1]
            if op in ("*", "&", "&mut"):
                return self.ex(e[2], ctx, k)
            if op == "!":
                return self.ex(e[2], ctx, lambda t: k(f"(!{t})"))
            raise Unsupported(f"{self.fname}: unary {op}")
        if kind == "cast":
            if e[2] not in ("usize", "u32", "u64"):
                raise Unsupported(f"{self.fname}: cast to {e[2]}")
            self.notes.append(f"cast `as {e[2]}` is transparent")
            return self.ex(e[1], ctx, k)
        if kind == "bin":
            return self.binop(e, ctx, k)
        if kind == "field":
            tag = self.tag_of(e[1])
            proj = self.tb.fields.get((tag, e[2]))
            if proj is None:
                proj = "." + lname(e[2]) if not e[2].isdigit() else None
            if proj is None:
                raise Unsupported(f"{self.fname}: field .{e[2]} of {tag}")
            if proj == "":
                return self.ex(e[1], ctx, k)
            return self.ex(e[1], ctx, lambda t: k(f"{self.par(t)}{proj}"))
        if kind == "index" and e[2][0] == "range" and e[2][2] is None and e[2][3] is None:
            inner = e[1]
            while inner[0] == "unary":
                inner = inner[2]
            if inner[0] == "array" and all(x[0] == "char" for x in inner[1]):
                return k("[" + ", ".join(lean_char(x[1]) for x in inner[1]) + "]")
            raise Unsupported(f"{self.fname}: full-range slice of a non-literal")
        if kind == "index" and e[2][0] == "range" and e[2][1] == ".." and e[2][3] is None:
            spec = self.tb.methods.get((self.tag_of(e[1]), "index_from"))
            if spec is None:
                raise Unsupported(f"{self.fname}: slicing `[lo..]` of {self.tag_of(e[1])}")
            def with_both2(ts):
                self.may_panic = True
                v = self.fresh("v")
                return ("match", spec["fmt"].format(*[self.par(t) for t in ts]),
                        [([f"some {v}"], k(v)), (["none"], ctx.panic(self.site("slice index not on a char boundary / out of range")))])
            return self.exs([e[1], e[2][2]], ctx, with_both2)
        if kind == "index":
            def with_both(ts):
                v = self.fresh("x")
                self.may_panic = True
                return ("match", f"{self.par(ts[0])}[{ts[1]}]?", [(["some " + v], k(v)),
                                                                  (["none"], ctx.panic(self.site("index out of bounds")))])
            return self.exs([e[1], e[2]], ctx, with_both)
        if kind == "call":
            return self.call(e, ctx, k)
        if kind == "mcall":
            return self.mcall(e, ctx, k)
        if kind == "struct":
            name = "::".join(e[1])
            sname = self.tb.structs.get(name)
            if sname is None:
                raise Unsupported(f"{self.fname}: struct literal {name}")
            names = [f for f, _ in e[2]]
            return self.exs([v for _, v in e[2]], ctx, lambda ts: k(
                "({ " + ", ".join(f"{lname(f)} := {t}" for f, t in zip(names, ts)) + f" }} : {sname})"))
        if kind == "match" and self.static_ctor(e[1]) is not None:
            cname, cargs = self.static_ctor(e[1])
            for pats, guard, body in e[2]:
                for p in pats:
                    if p[0] == "ppath" and p[1][-1] == cname and guard is None and len(p[2] or []) == len(cargs) \
                            and all(q[0] == "pbind" for q in (p[2] or [])):
                        sub = {q[1]: a for q, a in zip(p[2] or [], cargs)}
                        return self.ex(substitute(body, sub), ctx, k)
            raise Unsupported(f"{self.fname}: no arm for the statically known constructor {cname}")
        if kind == "match":
            def with_scrut(t):
                arms = []
                for pats, guard, body in e[2]:
                    if guard is not None:
                        raise Unsupported(f"{self.fname}: match guard")
                    arms.append(([self.pat(p) for p in pats], self.ex(body, ctx, k)))
                return ("match", t, arms)
            return self.ex(e[1], ctx, with_scrut)
        if kind == "if":
            cond = e[1]
            if cond[0] == "iflet":
                pats, scrut = cond[1], cond[2]
                els = self.ex(e[3], ctx, k) if e[3] is not None else k("()")
                return self.ex(scrut, ctx, lambda t: ("match", t, [([self.pat(p) for p in pats], self.ex(e[2], ctx, k)),
                                                                     (["_"], els)]))
            def with_cond(t):
                a = self.ex(e[2], ctx, k)
                b = self.ex(e[3], ctx, k) if e[3] is not None else k("()")
                return ("if", t, a, b)
            return self.ex(cond, ctx, with_cond)
        if kind == "block":
            return self.block(e, ctx, k)
        if kind == "macro":
            return self.macro(e, ctx, k)
        if kind == "return":
            if e[1] is None:
                return ctx.ret("()")
            return self.ex(e[1], ctx, ctx.ret)
        if kind == "continue":
            if ctx.cont is None:
                raise Unsupported(f"{self.fname}: continue outside loop")
            return ctx.cont()
        if kind == "assign":
            return self.assign(e, ctx, k)
        if kind == "try":
            self.pending_ok = None
            self.last_err = None
            def with_v(t):
                v = self.fresh("v")
                if self.tb.try_kind == "option":
                    return ("match", t, [([f"some {v}"], k(v)), (["none"], ctx.ret("none"))])
                err = self.fresh("err")
                errtag = self.last_err or self.tag_err(e[1])
                wrap = self.tb.try_into.get(errtag, "{0}")
                self.last_err = None
                if self.pending_ok:
                    var, self.pending_ok = self.pending_ok, None
                    return ("match", t, [([f".ok {var}"], k("()")), ([f".error {err}"], ctx.ret(f"(.error {wrap.format(err)})"))])
                return ("match", t, [([f".ok {v}"], k(v)), ([f".error {err}"], ctx.ret(f"(.error {wrap.format(err)})"))])
            return self.ex(e[1], ctx, with_v)
        if kind == "for":
            return self.for_(e, ctx, k)
        raise Unsupported(f"{self.fname}: expression {kind}")

    def static_ctor(self, e):
        """(name, args) if e is syntactically an application of one of the `static_ctors` (e.g. ControlFlow)"""
        if e[0] == "call" and e[1][0] == "path" and e[1][1][-1] in self.tb.static_ctors:
            return e[1][1][-1], e[2]
        return None

    def par(self, t):
        if t.startswith("(") or t.replace("_", "").replace(".", "").isalnum():
            return t
        return "(" + t + ")"

    def exs(self, es, ctx, k):
        """evaluate a list of expressions left to right"""
        def go(i, acc):
            if i == len(es):
                return k(acc)
            return self.ex(es[i], ctx, lambda t: go(i + 1, acc + [t]))
        return go(0, [])

    def binop(self, e, ctx, k):
        op = e[1]
        if op in ("&&", "||"):
            # both sides must be panic-free and effect-free here (checked by translating with a trap)
            a = self.pure(e[2], ctx)
            b = self.pure(e[3], ctx)
            return k(f"({a} {op} {b})")
        def with_both(ts):
            a, b = ts
            if op == "+":
                return k(f"({a} + {b})")
            if op == "*":
                return k(f"({a} * {b})")
            if op == "-":
                self.may_panic = True
                return self.atomize(a, lambda a1: self.atomize(b, lambda b1: (
                    "if", f"{b1} ≤ {a1}", k(f"({a1} - {b1})"), ctx.panic(self.site("attempt to subtract with overflow")))))
            cmp = {"==": "=", "!=": "≠", "<": "<", "<=": "≤", ">": ">", ">=": "≥"}.get(op)
            if cmp:
                return k(f"(decide ({a} {cmp} {b}))")
            raise Unsupported(f"{self.fname}: operator {op}")
        return self.exs([e[2], e[3]], ctx, with_both)

    def pure(self, e, ctx):
        """translate an expression that must be a single term (no let/branching)"""
        box = []
        d = self.ex(e, ctx, lambda t: box.append(t) or T(t))
        if d[0] != "t" or len(box) != 1:
            raise Unsupported(f"{self.fname}: expression must be simple here: {e!r}")
        return box[0]

    def effect(self, key, e_args, recv, ctx, k):
        """state-threading calls: `keys.next(&k)` rebinding `keys`, the callback `func(..)` whose `Ok` carries the new
        closure state, child calls `T::traverse_by_key(keys, func)` returning `(result, func)`"""
        spec = self.tb.effects[key]
        if "nargs" in spec:
            # only the first `nargs` arguments are values of the modelled world (the rest are handles of the environment)
            e_args = e_args[:spec["nargs"]]
        wraps = {}
        if "argwrap" in spec and e_args:
            tag = "Str" if e_args[0][0] == "str" else self.tag_of(e_args[0])
            if tag not in spec["argwrap"]:
                raise Unsupported(f"{self.fname}: {key}: first argument of kind {tag!r} ({e_args[0]!r})")
            wraps[0] = spec["argwrap"][tag]
        def with_args(ts):
            ts = [wraps[i].format(self.par(t)) if i in wraps else t for i, t in enumerate(ts)]
            term = spec["fmt"].format(*[self.par(t) for t in ts])
            if "pair" in spec:       # let (r, <var>) := term
                r = self.fresh("r")
                self.last_err = spec.get("err")
                return ("let", f"({r}, {spec['pair']})", term, k(r))
            if "ppair" in spec:      # P-valued: match term with | .val (r, <var>) => .. | .panic => ..
                r, sp = self.fresh("r"), self.fresh("s")
                self.may_panic = True
                self.last_err = spec.get("err")
                return ("match", term, [([f".val ({r}, {spec['ppair']})"], k(r)),
                                        ([f".panic {sp}"], ctx.panic(self.site("callee panicked")))])
            if spec.get("pval"):
                r, sp = self.fresh("r"), self.fresh("s")
                self.may_panic = True
                self.last_err = spec.get("err")
                return ("match", term, [([f".val {r}"], k(r)), ([f".panic {sp}"], ctx.panic(self.site("callee panicked")))])
            if "ok_rebinds" in spec:
                self.pending_ok = spec["ok_rebinds"]
                self.last_err = spec.get("err")
                return k(term)
            raise Unsupported(f"{self.fname}: effect spec {key}")
        return self.exs(e_args, ctx, with_args)

    def call(self, e, ctx, k):
        f = e[1]
        if f[0] != "path":
            raise Unsupported(f"{self.fname}: call of non-path")
        name = "::".join(f[1])
        if ("call", name) in self.tb.effects:
            return self.effect(("call", name), e[2], None, ctx, k)
        if name.startswith("Self::") and self.tb.self_type:
            name = self.tb.self_type + "::" + name[6:]
        args = e[2]
        if name in ("Ok", "Err", "Some"):
            c = {"Ok": ".ok", "Err": ".error", "Some": "some"}[name]
            return self.ex(args[0], ctx, lambda t: k(f"({c} {self.par(t)})"))
        if name in self.tb.fns:
            lean, mode = self.tb.fns[name]
            def with_args(ts):
                term = "(" + lean + "".join(" " + self.par(t) for t in ts) + ")"
                if mode == "pure":
                    return k(term)
                self.may_panic = True
                v, s = self.fresh("v"), self.fresh("s")
                return ("match", term, [([f".val {v}"], k(v)), ([f".panic {s}"], ctx.panic_raw(s) if hasattr(ctx, "panic_raw") else ctx.panic(self.site("callee panicked")))])
            return self.exs(args, ctx, with_args)
        if name in self.tb.ctors:
            c = self.tb.ctors[name]
            return self.exs(args, ctx, lambda ts: k("(" + c + "".join(" " + self.par(t) for t in ts) + ")"))
        raise Unsupported(f"{self.fname}: unknown function {name}")

    def mcall(self, e, ctx, k):
        recv, name, args = e[1], e[2], e[3]
        if recv[0] == "path" and len(recv[1]) == 1 and ("mcall", recv[1][0], name) in self.tb.effects:
            return self.effect(("mcall", recv[1][0], name), args, recv, ctx, k)
        if recv[0] == "field" and recv[1][0] == "path" and len(recv[1][1]) == 1 and \
                ("mcall", f"{recv[1][1][0]}.{recv[2]}", name) in self.tb.effects:
            return self.effect(("mcall", f"{recv[1][1][0]}.{recv[2]}", name), args, recv, ctx, k)
        tag = self.tag_of(recv)
        spec = self.tb.methods.get((tag, name))
        if spec is None:
            spec = self.tb.methods.get((None, name))
        if spec is None:
            raise Unsupported(f"{self.fname}: unknown method .{name}() on {tag} ({recv!r})")
        kind = spec["kind"]
        if kind == "id":          # transparent: x.get(), x.iter(), x.into_keys(), ...
            return self.ex(recv, ctx, k)
        if kind == "fmt":         # pure term built from receiver and arguments
            return self.exs([recv] + args, ctx, lambda ts: k(spec["fmt"].format(*[self.par(t) for t in ts])))
        if kind == "panicfn":     # lean function returning P
            def with_args(ts):
                self.may_panic = True
                term = spec["fmt"].format(*[self.par(t) for t in ts])
                v, s = self.fresh("v"), self.fresh("s")
                return ("match", term, [([f".val {v}"], k(v)), ([f".panic {s}"], ctx.panic(self.site("callee panicked")))])
            return self.exs([recv] + args, ctx, with_args)
        if kind == "byarg":       # dispatch on the (static) kind of the first argument
            sub = spec["by"].get(self.tag_of(args[0]))
            if sub is None:
                raise Unsupported(f"{self.fname}: .{name}() with argument kind {self.tag_of(args[0])}")
            return self.exs([recv] + args, ctx, lambda ts: k(sub.format(*[self.par(t) for t in ts])))
        if kind == "lazy_default":   # opt.unwrap_or_else(|| body)
            clo = args[0]
            if clo[0] != "closure" or clo[1]:
                raise Unsupported(f"{self.fname}: .{name} needs a closure without parameters")
            body = self.pure(clo[2], ctx)
            return self.ex(recv, ctx, lambda t: k(f"(match {t} with | some v => v | none => {body})"))
        if kind == "and_then_effect":   # res.and_then(|()| <effectful expression>)
            clo = args[0]
            if clo[0] != "closure" or len(clo[1]) != 1:
                raise Unsupported(f"{self.fname}: .{name} needs a one-parameter closure")
            def with_r(t):
                v, er = self.pat(clo[1][0]), self.fresh("e")
                ty = spec.get("ty")
                err = f"(Except.error {er} : {ty})" if ty else f"(.error {er})"
                return ("match", t, [([f".ok {v}"], self.ex(clo[2], ctx, k)), ([f".error {er}"], k(err))])
            return self.ex(recv, ctx, with_r)
        if kind == "lamfmt":      # recv.m(|x| body): closure translated as a lambda term (must be simple)
            clo = args[0]
            if clo[0] == "path" and "::".join(clo[1]) in self.tb.fns:
                lam = self.tb.fns["::".join(clo[1])][0]
                return self.ex(recv, ctx, lambda t: k(spec["fmt"].format(self.par(t), lam)))
            if clo[0] != "closure" or len(clo[1]) != 1:
                raise Unsupported(f"{self.fname}: .{name} needs a one-parameter closure")
            try:
                body = self.pure(clo[2], ctx)
            except Unsupported:
                if name != "filter":
                    raise
                # Option::filter with a predicate that is not a simple term: evaluate it in place
                v = self.pat(clo[1][0])
                return self.ex(recv, ctx, lambda t: ("match", t, [
                    ([f"some {v}"], self.ex(clo[2], ctx, lambda b: ("if", b, k(f"(some {v})"), k("none")))),
                    (["none"], k("none"))]))
            lam = f"(fun {self.pat(clo[1][0])} => {body})"
            return self.ex(recv, ctx, lambda t: k(spec["fmt"].format(self.par(t), lam)))
        if kind == "range_from":  # recv.get(lo..)
            rng = args[0]
            if not (rng[0] == "range" and rng[1] == ".." and rng[3] is None):
                raise Unsupported(f"{self.fname}: .{name} needs a `lo..` range")
            return self.exs([recv, rng[2]], ctx, lambda ts: k(spec["fmt"].format(*[self.par(t) for t in ts])))
        if kind == "panicopt":    # lean function returning Option, `none` = panic
            def with_args2(ts):
                self.may_panic = True
                term = spec["fmt"].format(*[self.par(t) for t in ts])
                v = self.fresh("v")
                return ("match", term, [([f"some {v}"], k(v)), (["none"], ctx.panic(self.site(spec.get("site", name))))])
            return self.exs([recv] + args, ctx, with_args2)
        if kind == "unwrap":
            def with_t(t):
                self.may_panic = True
                v = self.fresh("v")
                return ("match", t, [([f"some {v}"], k(v)), (["none"], ctx.panic(self.site("unwrap on None")))])
            return self.ex(recv, ctx, with_t)
        if kind == "unwrap_result":   # Result::unwrap(): Err(_) panics
            def with_t(t):
                self.may_panic = True
                v = self.fresh("v")
                return ("match", t, [([f".ok {v}"], k(v)), ([".error _"], ctx.panic(self.site("unwrap on Err")))])
            return self.ex(recv, ctx, with_t)
        if kind == "option_map":  # recv.map(|x| body)
            clo = args[0]
            if clo[0] != "closure" or len(clo[1]) != 1:
                raise Unsupported(f"{self.fname}: .map needs a one-parameter closure")
            def with_t(t):
                return ("match", t, [(["some " + self.pat(clo[1][0])], self.ex(clo[2], ctx, lambda v: k(f"(some {self.par(v)})"))),
                                     (["none"], k("none"))])
            return self.ex(recv, ctx, with_t)
        raise Unsupported(f"{self.fname}: method kind {kind}")

    def macro(self, e, ctx, k):
        name, parts = e[1], e[2]
        from minirust import parse_expr_tokens, parse_pattern_tokens
        if name in getattr(self.tb, "quiet_macros", ()):
            self.notes.append(f"{name}!(..) (logging) not translated")
            return k("()")
        if name in ("debug_assert", "debug_assert_eq") and getattr(self.tb, "debug_asserts", False):
            name = name[6:]     # debug profile: checked like assert! / assert_eq!
        if name in ("debug_assert", "debug_assert_eq", "debug_assert_ne"):
            self.notes.append(f"{name}!({' , '.join(' '.join(str(t[1]) for t in p) for p in parts)}) not translated")
            return k("()")
        if name in ("panic", "unreachable"):
            return self.panic(ctx, name + "!")
        if name == "matches":
            scrut = parse_expr_tokens(parts[0])
            pats = parse_pattern_tokens(parts[1])
            return self.ex(scrut, ctx, lambda t: k(
                "(match " + t + " with | " + " | ".join(self.pat(p) for p in pats) + " => true | _ => false)"))
        if name in ("assert", "assert_eq"):
            if name == "assert":
                cond = parse_expr_tokens(parts[0])
            else:
                cond = ("bin", "==", parse_expr_tokens(parts[0]), parse_expr_tokens(parts[1]))
            return self.ex(cond, ctx, lambda t: ("if", t, k("()"), self.panic(ctx, name + "! failed")))
        raise Unsupported(f"{self.fname}: macro {name}!")

    # ---------------------------------------------------------------- statements
    def block(self, b, ctx, k):
        stmts, tail = b[1], b[2]

        def go(i):
            if i == len(stmts):
                if tail is None:
                    return k("()")
                return self.ex(tail, ctx, k)
            s = stmts[i]
            if s[0] == "letelse":
                # `let PAT = e else { diverges };`  ==  match e { PAT => rest, _ => else-block }
                p = self.pat(s[1])
                return self.ex(s[2], ctx, lambda t: ("match", t, [([p], go(i + 1)),
                                                                  (["_"], self.block(s[3], ctx, lambda _t: self.panic(ctx, "let-else block fell through")))]))
            if s[0] == "let":
                if s[2] is None:
                    raise Unsupported(f"{self.fname}: let without initialiser")
                p = self.pat(s[1])
                if s[1][0] == "pbind" and s[1][1] in self.tb.lettypes:
                    p += " : " + self.tb.lettypes[s[1][1]]
                return self.ex(s[2], ctx, lambda t: ("let", p, t, go(i + 1)))
            # expression statement: value dropped
            return self.ex(s[1], ctx, lambda _t: go(i + 1))
        return go(0)

    def assign(self, e, ctx, k):
        op, lhs, rhs = e[1], e[2], e[3]

        def newval(old, r):
            if op == "=":
                return r
            if op == "+=":
                return f"({old} + {r})"
            if op == "*=":
                return f"({old} * {r})"
            raise Unsupported(f"{self.fname}: assignment operator {op}")

        if lhs[0] == "unary" and lhs[1] == "*" and lhs[2][0] == "path" and len(lhs[2][1]) == 1 \
                and lhs[2][1][0] in getattr(self.tb, "deref_assign", {}) and op == "=":
            # `*r = v` through a reference obtained from a modelled container: a state update of that container
            svar, fmt = self.tb.deref_assign[lhs[2][1][0]]
            return self.ex(rhs, ctx, lambda r: ("let", svar, fmt.format(lname(lhs[2][1][0]), self.par(r)), k("()")))
        if op == "-=":
            # overflow-checked profile: `x -= r` panics when r > x
            if not (lhs[0] == "field" and lhs[1][0] == "path" and len(lhs[1][1]) == 1):
                raise Unsupported(f"{self.fname}: -= on {lhs!r}")
            obj = lname(lhs[1][1][0])
            tag = self.tb.vartypes.get(lhs[1][1][0])
            proj = self.tb.fields.get((tag, lhs[2]), "." + lname(lhs[2]))
            if proj == "":
                raise Unsupported(f"{self.fname}: -= on a transparent field")

            def with_r(r):
                self.may_panic = True
                return self.atomize(r, lambda r1: (
                    "if", f"{r1} ≤ {obj}{proj}",
                    ("let", obj, f"{{ {obj} with {proj[1:]} := {obj}{proj} - {r1} }}", k("()")),
                    ctx.panic(self.site("attempt to subtract with overflow"))))
            return self.ex(rhs, ctx, with_r)
        if lhs[0] == "path" and len(lhs[1]) == 1:
            n = lname(lhs[1][0])
            return self.ex(rhs, ctx, lambda r: ("let", n, newval(n, r), k("()")))
        if lhs[0] == "field" and lhs[1][0] == "path" and len(lhs[1][1]) == 1:
            obj = lname(lhs[1][1][0])
            tag = self.tb.vartypes.get(lhs[1][1][0])
            proj = self.tb.fields.get((tag, lhs[2]), "." + lname(lhs[2]))
            fld = proj[1:]
            if proj == "":
                return self.ex(rhs, ctx, lambda r: ("let", obj, newval(obj, r), k("()")))
            return self.ex(rhs, ctx, lambda r: ("let", obj, f"{{ {obj} with {fld} := {newval(obj + proj, r)} }}", k("()")))
        if lhs[0] == "index" and lhs[1][0] == "field" and lhs[1][1][0] == "path":
            obj = lname(lhs[1][1][1][0])
            tag = self.tb.vartypes.get(lhs[1][1][1][0])
            proj = self.tb.fields.get((tag, lhs[1][2]), "." + lname(lhs[1][2]))
            fld = proj[1:]

            def with_idx(ts):
                idx, r = ts
                self.may_panic = True
                old = self.fresh("x")
                return self.atomize(idx, lambda i1: ("match", f"{obj}{proj}[{i1}]?", [
                    ([f"some {old}"], ("let", obj, f"{{ {obj} with {fld} := {obj}{proj}.set {i1} {newval(old, r)} }}", k("()"))),
                    (["none"], ctx.panic(self.site("index out of bounds")))]), base="i")
            return self.exs([lhs[2], rhs], ctx, with_idx)
        raise Unsupported(f"{self.fname}: assignment target {lhs!r}")

    def assigned_vars(self, e, out):
        """root variables assigned anywhere inside e (syntactic)"""
        if isinstance(e, tuple):
            if e and e[0] == "assign":
                l = e[2]
                while l[0] in ("field", "index"):
                    l = l[1]
                if l[0] == "path" and len(l[1]) == 1 and l[1][0] not in out:
                    out.append(l[1][0])
            for x in e:
                self.assigned_vars(x, out)
        elif isinstance(e, list):
            for x in e:
                self.assigned_vars(x, out)
        return out

    def for_(self, e, ctx, k):
        pat, it, body = e[1], e[2], e[3]
        if it[0] == "array":
            # a loop over a literal table is unrolled: the pattern variables are replaced by the literal entries
            if contains(body, "continue") or contains(body, "break"):
                raise Unsupported(f"{self.fname}: continue/break inside an unrolled for")
            if self.assigned_vars(body, []) and not set(self.assigned_vars(body, [])) <= {"self"}:
                raise Unsupported(f"{self.fname}: unrolled for assigns locals")
            def go(i):
                if i == len(it[1]):
                    return k("()")
                sub = bind_literal(pat, it[1][i], self.fname)
                return self.ex(substitute(body, sub), ctx, lambda _t: go(i + 1))
            return go(0)
        # supported iterator: xs.iter().enumerate() with pattern (i, x)
        if not (it[0] == "mcall" and it[2] == "enumerate" and it[1][0] == "mcall" and it[1][2] == "iter"
                and pat[0] == "ptuple" and len(pat[1]) == 2):
            raise Unsupported(f"{self.fname}: for-loop form")
        for kw in ("return", "continue", "break"):
            if contains(body, kw):
                raise Unsupported(f"{self.fname}: {kw} inside for")
        xs = it[1][1]
        vars_ = [lname(v) for v in self.assigned_vars(body, [])]
        if not vars_:
            raise Unsupported(f"{self.fname}: for-loop without state")
        tup = "(" + ", ".join(vars_) + ")" if len(vars_) > 1 else vars_[0]
        ipat, xpat = self.pat(pat[1][0]), self.pat(pat[1][1])
        acc, item, s = self.fresh("acc"), self.fresh("item"), self.fresh("s")
        if not self.tb.fortypes:
            raise Unsupported(f"{self.fname}: no type given for the state of a for-loop")
        acc_ty, item_ty = self.tb.fortypes.pop(0)
        inner_ctx = Ctx(panic=lambda site: T(f'.panic "{site}"'), ret=None)
        step = self.block(body, inner_ctx, lambda _t: T(f".val {tup}"))
        self.nloops += 1
        aux = f"{self.fname}.loop{self.nloops}"
        lines = [f"/-- body of for-loop {self.nloops} of `{self.fname}`: accumulator = {tup}, item = (element, index) -/",
                 f"def {aux} {self.sig} ({acc} : P ({acc_ty})) ({item} : {item_ty} × Nat) : P ({acc_ty}) :="]
        lines += render(("match", acc, [([f".panic {s}"], T(f".panic {s}")),
                                         ([f".val {tup}"], ("let", xpat, f"{item}.1", ("let", ipat, f"{item}.2", step)))]), 1)
        lines.append("")
        self.aux += lines
        self.may_panic = True

        def with_xs(t):
            fold = f"List.foldl ({aux} {self.sig_args}) (P.val {tup}) ({self.par(t)}.zipIdx)"
            s2 = self.fresh("s")
            return ("match", fold, [([f".val {tup}"], k("()")), ([f".panic {s2}"], ctx.panic(self.site("loop body panicked")))])
        return self.ex(xs, ctx, with_xs)


def bind_literal(pat, lit, fname):
    if pat[0] == "pbind":
        return {pat[1]: lit}
    if pat[0] == "ptuple" and lit[0] == "tuple" and len(pat[1]) == len(lit[1]):
        out = {}
        for p, l in zip(pat[1], lit[1]):
            out.update(bind_literal(p, l, fname))
        return out
    raise Unsupported(f"{fname}: cannot bind {pat!r} to the literal {lit!r}")


def pat_binders(p, out):
    if p[0] == "pbind":
        out.add(p[1])
    elif p[0] in ("ptuple",):
        for q in p[1]:
            pat_binders(q, out)
    elif p[0] == "ppath" and p[2]:
        for q in p[2]:
            pat_binders(q, out)
    elif p[0] == "pref":
        pat_binders(p[1], out)
    return out


def substitute(e, sub):
    """replace free single-segment paths by expressions, respecting the binders of match arms, `if let`,
    closures and `let` statements"""
    if not sub:
        return e
    if isinstance(e, tuple):
        if not e:
            return e
        k = e[0]
        if k == "path" and len(e[1]) == 1 and e[1][0] in sub:
            return sub[e[1][0]]
        if k == "match":
            arms = []
            for pats, guard, body in e[2]:
                bound = set()
                for p in pats:
                    pat_binders(p, bound)
                inner = {n: v for n, v in sub.items() if n not in bound}
                arms.append((pats, substitute(guard, inner) if guard is not None else None, substitute(body, inner)))
            return ("match", substitute(e[1], sub), arms)
        if k == "closure":
            bound = set()
            for p in e[1]:
                pat_binders(p, bound)
            return ("closure", e[1], substitute(e[2], {n: v for n, v in sub.items() if n not in bound}))
        if k == "if" and e[1][0] == "iflet":
            bound = set()
            for p in e[1][1]:
                pat_binders(p, bound)
            inner = {n: v for n, v in sub.items() if n not in bound}
            return ("if", ("iflet", e[1][1], substitute(e[1][2], sub)), substitute(e[2], inner),
                    substitute(e[3], sub) if e[3] is not None else None)
        if k == "block":
            cur = dict(sub)
            stmts = []
            for st in e[1]:
                if st[0] == "let":
                    init = substitute(st[2], cur) if st[2] is not None else None
                    stmts.append(("let", st[1], init))
                    for n in pat_binders(st[1], set()):
                        cur.pop(n, None)
                else:
                    stmts.append((st[0], substitute(st[1], cur)))
            return ("block", stmts, substitute(e[2], cur) if e[2] is not None else None)
        return tuple(substitute(x, sub) for x in e)
    if isinstance(e, list):
        return [substitute(x, sub) for x in e]
    return e


def lean_char(c):
    return "'\\''" if c == "'" else ("'\\\\'" if c == "\\" else f"'{c}'")


def contains(e, kind):
    if isinstance(e, tuple):
        if e and e[0] == kind:
            return True
        return any(contains(x, kind) for x in e)
    if isinstance(e, list):
        return any(contains(x, kind) for x in e)
    return False


# ------------------------------------------------------------------ whole functions

def translate_fn(body, lean_name, sig, ret_type, tables, mode, mut_self=False, doc="", state_ret=None):
    """mode: 'pure' (plain value; translation must not contain a panic), 'panic' (returns P ret_type),
    'loopbody' (body of a `loop`: returns Ctl Self ret_type).  With mut_self the result carries the updated self."""
    tr = Tr(tables, lean_name, sig)
    if mode == "loopbody":
        if not (body[0] == "block" and not body[1] and body[2] and body[2][0] == "loop"):
            raise Unsupported(f"{lean_name}: expected a function whose body is a single loop")
        inner = body[2][1]
        ctx = Ctx(panic=lambda site: T(f'.panic "{site}"'), ret=lambda t: T(f".ret self {tr.par(t)}"),
                  cont=lambda: T(".next self"))
        d = tr.block(inner, ctx, lambda _t: T(".next self"))
        rt = f"Ctl {tables.structs['Self']} ({ret_type})"
    elif mode == "panic" and state_ret is not None:
        # the result carries the final value of a threaded state variable: (value, state)
        svar, sty = state_ret
        wrap = lambda t: T(f".val ({t}, {svar})")
        ctx = Ctx(panic=lambda site: T(f'.panic "{site}"'), ret=wrap)
        d = tr.block(body, ctx, wrap)
        rt = f"P ({ret_type} × {sty})"
    elif mode == "panic":
        wrap = (lambda t: T(f".val (self, {t})")) if mut_self else (lambda t: T(f".val {tr.par(t)}"))
        ctx = Ctx(panic=lambda site: T(f'.panic "{site}"'), ret=wrap)
        d = tr.block(body, ctx, wrap)
        rt = f"P ({tables.structs['Self']} × {ret_type})" if mut_self else f"P ({ret_type})"
    else:
        def nopanic(site):
            raise Unsupported(f"{lean_name}: declared pure but can panic: {site}")
        wrap = (lambda t: T(f"(self, {t})")) if mut_self else (lambda t: T(t))
        ctx = Ctx(panic=nopanic, ret=wrap)
        d = tr.block(body, ctx, wrap)
        rt = f"{tables.structs['Self']} × {ret_type}" if mut_self else ret_type
    lines = list(tr.aux)
    if doc:
        lines.append(f"/-- {doc} -/")
    lines.append(f"def {lean_name} {sig} : {rt} :=")
    lines += render(d, 1)
    for n in sorted(set(tr.notes)):
        lines.append(f"-- note: {n}")
    lines.append("")
    return lines


TYPEMAP = {"usize": "Nat", "u32": "Nat", "u64": "Nat", "&'static str": "String", "NonZero<usize>": "Nat",
           "&'static [&'static str]": "List String", "Traversal": "Traversal", "E": "E", "NodeType": "NodeType"}


def lean_enum(name, variants, params=""):
    out = [f"inductive {name} {params}where".replace("  ", " ")]
    for v, fields in variants:
        args = ""
        for i, f in enumerate(fields):
            if f not in TYPEMAP:
                raise Unsupported(f"enum {name}: field type {f!r}")
            args += f" (a{i} : {TYPEMAP[f]})"
        out.append(f"  | {v}{args}")
    out.append("  deriving Repr, DecidableEq, Inhabited\n")
    return out


def lean_struct(name, fields):
    out = [f"structure {name} where"]
    for f, ty in fields:
        if ty not in TYPEMAP:
            raise Unsupported(f"struct {name}: field type {ty!r}")
        out.append(f"  {lname(f)} : {TYPEMAP[ty]}")
    out.append("  deriving Repr, DecidableEq, Inhabited\n")
    return out
