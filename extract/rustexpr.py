"""Tiny recursive-descent parser for the Rust integer-expression subset used in
miniconf/src/packed.rs and a Lean (BitVec 64) emitter.

Subset: integer literals, identifiers, paths (`Self::CAPACITY`, `usize::BITS`),
field/method postfix (`.0`, `.get()`, `.trailing_zeros()`, `.leading_zeros()`),
binary `| ^ & << >> + -`, parentheses.  Anything else raises `Unsupported`, which the
caller turns into a broken proof layer (never a silent default).
"""
import re


class Unsupported(Exception):
    pass


TOKEN = re.compile(
    r"\s*(?:(?P<num>0b[01_]+|0x[0-9a-fA-F_]+|[0-9][0-9_]*)(?P<suf>usize|u32|u64)?"
    r"|(?P<id>[A-Za-z_][A-Za-z0-9_]*(?:::<[A-Za-z0-9_<>]+>)?(?:::[A-Za-z_][A-Za-z0-9_]*)*)"
    r"|(?P<op><<|>>|[|^&+\-*()\.,]))"
)


def tokenize(src):
    pos, out = 0, []
    src = src.strip()
    while pos < len(src):
        m = TOKEN.match(src, pos)
        if not m or m.end() == pos:
            raise Unsupported(f"cannot tokenize at {src[pos:pos+20]!r} in {src!r}")
        pos = m.end()
        if m.group("num"):
            out.append(("num", int(m.group("num").replace("_", ""), 0)))
        elif m.group("id"):
            out.append(("id", m.group("id")))
        else:
            out.append(("op", m.group("op")))
    return out


# precedence (low -> high), Rust: | ^ & (<< >>) (+ -)
LEVELS = [["|"], ["^"], ["&"], ["<<", ">>"], ["+", "-"]]


class Parser:
    def __init__(self, src):
        self.toks = tokenize(src)
        self.i = 0
        self.src = src

    def peek(self):
        return self.toks[self.i] if self.i < len(self.toks) else (None, None)

    def take(self):
        t = self.peek()
        self.i += 1
        return t

    def expect(self, op):
        t = self.take()
        if t != ("op", op):
            raise Unsupported(f"expected {op!r}, got {t!r} in {self.src!r}")

    def parse(self):
        e = self.level(0)
        if self.i != len(self.toks):
            raise Unsupported(f"trailing tokens {self.toks[self.i:]} in {self.src!r}")
        return e

    def level(self, k):
        if k == len(LEVELS):
            return self.postfix()
        e = self.level(k + 1)
        while self.peek()[0] == "op" and self.peek()[1] in LEVELS[k]:
            op = self.take()[1]
            r = self.level(k + 1)
            e = ("bin", op, e, r)
        return e

    def postfix(self):
        e = self.atom()
        while self.peek() == ("op", "."):
            self.take()
            kind, name = self.take()
            if kind == "num":
                e = ("field", str(name), e)
            elif kind == "id":
                if self.peek() == ("op", "("):
                    self.take()
                    self.expect(")")
                    e = ("call", name, e)
                else:
                    e = ("field", name, e)
            else:
                raise Unsupported(f"bad postfix in {self.src!r}")
        return e

    def atom(self):
        kind, v = self.take()
        if kind == "num":
            return ("num", v)
        if kind == "id":
            return ("id", v)
        if (kind, v) == ("op", "("):
            e = self.level(0)
            self.expect(")")
            return e
        raise Unsupported(f"unexpected token {(kind, v)!r} in {self.src!r}")


def parse(src):
    return Parser(src).parse()


CONSTS = {
    "Self::CAPACITY": "CAPACITY",
    "Packed::CAPACITY": "CAPACITY",
    "Self::BITS": "BITS",
    "Packed::BITS": "BITS",
    "usize::BITS": "BITS",
}

LEAN_OP = {"|": "|||", "^": "^^^", "&": "&&&", "<<": "<<<", ">>": ">>>", "+": "+", "-": "-"}


def emit(e, env):
    """Lean term (type W = BitVec 64).  `env` maps Rust identifiers to Lean names;
    `self`/`self.0`/`x.get()`/`x.0` all denote the underlying word of x."""
    k = e[0]
    if k == "num":
        return f"({e[1]} : BitVec 64)"
    if k == "id":
        if e[1] in CONSTS:
            return CONSTS[e[1]]
        if e[1] in env:
            return env[e[1]]
        raise Unsupported(f"unknown identifier {e[1]!r}")
    if k == "field":
        if e[1] == "0":
            return emit(e[2], env)
        raise Unsupported(f"unknown field .{e[1]}")
    if k == "call":
        inner = emit(e[2], env)
        if e[1] == "get":
            return inner
        if e[1] == "trailing_zeros":
            return f"(BitVec.ctz {inner})"
        if e[1] == "leading_zeros":
            return f"(BitVec.clz {inner})"
        raise Unsupported(f"unknown method .{e[1]}()")
    if k == "bin":
        return f"({emit(e[2], env)} {LEAN_OP[e[1]]} {emit(e[3], env)})"
    raise Unsupported(str(e))


def checks(e, env, out):
    """Append Lean Bool terms that must hold for `e` not to panic in an
    overflow-checked build and not to be masked in release: every shift amount
    < 64, every subtraction without borrow, every addition without carry."""
    k = e[0]
    if k in ("field", "call"):
        checks(e[2], env, out)
    elif k == "bin":
        checks(e[2], env, out)
        checks(e[3], env, out)
        a, b = emit(e[2], env), emit(e[3], env)
        if e[1] in ("<<", ">>"):
            out.append(f"decide ({b} < BITS)")
        elif e[1] == "-":
            out.append(f"decide ({b} ≤ {a})")
        elif e[1] == "+":
            out.append(f"!(BitVec.uaddOverflow {a} {b})")
    return out
