"""The fixed corpus: one type per construct plus boundary lengths and nested mixtures.
Order is significant (type ids)."""
from spec import *

L = Leaf


def named(*pairs, **kw):
    return Struct([F(n, t) for n, t in pairs], **kw)


CORPUS = [
    ("leaf", L("u32")),
    ("struct2", named(("foo", L("u32")), ("bar", L("i16")))),
    ("nested", named(("a", L("bool")), ("inner", named(("x", L("u8")), ("y", L("string")))), ("z", L("f32")))),
    ("arr3", Array(3, L("u16"))),
    ("arr_in_struct", named(("foo", L("u32")), ("bar", Array(3, L("u16"))), ("baz", L("i8")))),
    ("tuple3", Tuple([L("u8"), L("i32"), L("bool")])),
    ("option_leaf", Gate("option", L("u32"))),
    ("option_struct", named(("o", Gate("option", named(("p", L("u8")), ("q", L("u8"))))), ("t", L("u8")))),
    ("range", named(("foo", L("u32")), ("r", Named2("Range", [L("i32")])))),
    ("range_incl", Named2("RangeInclusive", [L("i32")])),
    ("range_from", Named2("RangeFrom", [L("u8")])),
    ("range_to", Named2("RangeTo", [L("u8")])),
    ("result", Named2("Result", [L("u32"), named(("code", L("i32")), ("msg", L("string")))])),
    ("bound", Named2("Bound", [L("i64")])),
    ("tstruct", TStruct([F(None, L("u8")), F(None, Array(2, L("i8"))), F(None, "u16", skip=True)])),
    ("newtype", TStruct([F(None, L("i32"))])),
    ("flat_newtype", TStruct([F(None, Array(2, L("i32"))), F(None, "u8", skip=True)], flat=True)),
    ("flat_struct", named(("only", named(("p", L("u8")), ("q", L("bool")))), flat=True)),
    ("enum", Enum([V("None"), V("A", L("i32"), skip_tail=1), V("Skipped", "u8", skip=True), V("B", L("f32"), rename="bee")])),
    ("flat_enum", Enum([V("Unit"), V("Only", named(("v", L("u16"))))], flat=True)),
    ("rename_skip", Struct([F("a", L("u8"), rename="alpha"), F("hidden", "u32", skip=True), F("b", L("u8")), F("é", L("u8"))])),
    ("strleaf", named(("tag", StrLeaf()), ("d", Deny("u8")), ("x", L("u8")))),
    ("defer", Struct([F("f", L("u32"), defer=True), F("g", L("u8"))])),
    ("access", Struct([F("v", L("i32"), get=True, get_mut=True, validate=True),
                       F("w", named(("k", L("u8")), ("l", L("u8"))), validate=True),
                       F("d", L("u8"), deny={"deserialize": "no de", "mut_any": "no mut"})])),
    ("access3", Struct([F("top", Struct([F("mid", Struct([F("bot", L("u8"), get=True, get_mut=True, validate=True),
                                                           F("s", L("u8"))]),
                                           get=True, get_mut=True, validate=True),
                                         F("arr", Array(2, L("u8")), validate=True)]),
                          get=True, get_mut=True, validate=True),
                        F("o", Gate("option", L("u8")), validate=True)])),
    ("enum_attrs", Enum([V("A", L("u8"), attrs=F(None, None, get=True, get_mut=True, validate=True)),
                         V("B", L("u8"), attrs=F(None, None, deny={"serialize": "no ser", "ref_any": "no ref"}))])),
    ("box", named(("b", Gate("box", L("u8"))), ("c", Gate("cell", L("u16"))), ("r", Gate("refcell", L("u8"))))),
    ("rc", named(("rc", Gate("rc", named(("a", L("u8"))))), ("arc", Gate("arc", L("u8"))), ("cow", Gate("cow", L("u8"))))),
    ("weak", named(("w", Gate("rcweak", L("u8"))), ("aw", Gate("arcweak", L("u8"))))),
    ("mutex", named(("m", Gate("mutex", L("u8"))), ("rw", Gate("rwlock", Array(2, L("u8")))))),
    ("arr1", Array(1, L("u8"))),
    ("arr2", Array(2, L("u8"))),
    ("arr4", Array(4, L("u8"))),
    ("arr5", Array(5, L("u8"))),
    ("arr8", Array(8, L("u8"))),
    ("arr9", Array(9, L("u8"))),
    ("arr10", Array(10, L("u8"))),
    ("arr11", Array(11, L("u8"))),
    ("arr16", Array(16, L("u8"))),
    ("arr17", Array(17, L("u8"))),
    ("arr99", Array(99, L("unit"))),
    ("arr100", Array(100, L("unit"))),
    ("arr101", Array(101, L("unit"))),
    ("arr128", Array(128, L("unit"))),
    ("arr129", named(("a", Array(129, L("unit"))), ("b", L("u8")))),
    ("arr2d", Array(3, Array(2, named(("p", L("u8")), ("q", Array(2, L("i8"))))))),
    ("tuple1", Tuple([L("u8")])),
    ("tuple8", Tuple([L("u8"), L("u8"), L("u8"), L("u8"), L("u8"), L("u8"), L("u8"), Array(2, L("u8"))])),
    ("tstruct11", TStruct([F(None, L("u8")) for _ in range(11)])),
    ("tstruct11_deep", TStruct([F(None, named(("channel_with_long_name", named(("gain", L("u8")),)),))]
                                + [F(None, L("u8")) for _ in range(10)])),
    ("tstruct12_last", TStruct([F(None, L("u8")) for _ in range(11)] + [F(None, named(("x", L("u8")),))])),
    ("result_uneven", Named2("Result", [named(("a", L("u8")),), named(("history", Array(11, L("u8"))),)])),
    ("arr_huge", Array(2**63 + 1, L("unit"))),
    ("bits_wide_vs_deep", named(("wide", Array(16, L("u8"))), ("deep", Array(1, Array(1, L("u8")))), ("n", L("u8")))),
    ("len_long_vs_deep", named(("a_rather_long_field_name", L("u8")), ("d", named(("e", named(("f", L("u8")),)),)))),
    ("arr_wide2", Array(70000, Array(2, L("unit")))),
    # more siblings than a u8 / i8 index slot can count, yet small enough for brute-force enumeration
    ("arr300x2", named(("table", Array(300, Array(2, L("unit")))), ("n", L("u8")))),
    # 3 x 21 bits: every leaf key fills a Packed word exactly (max_bits = 63 = Packed::CAPACITY) at depth 3
    ("bits63_cube", Array(2**21, Array(2**21, Array(2**21, L("unit"))))),
    # 4 x 16 bits: one bit more than a Packed word holds; the last push finds less room than it needs
    ("bits64_deep", Array(2**16, Array(2**16, Array(2**16, Array(2**16, L("unit")))))),
    ("access_deny", Struct([F("inner", Struct([F("val", L("u8"), get=True, get_mut=True, validate=True,
                                                  deny={"deserialize": "read-only", "ref_any": "opaque"}),
                                                F("locked", L("bool"))]), get=True, get_mut=True),
                            F("e", Enum([V("A", L("u8"), attrs=F(None, None, get=True, get_mut=True, validate=True,
                                                                 deny={"serialize": "no ser", "mut_any": "no mut"})),
                                         V("B", L("u8"))]))])),
    # denials on INTERNAL nodes (a struct and an array): the denial is reported at the field, before anything below it is
    # looked at — also for keys that are wrong, too short or too long below it
    ("deny_internal", Struct([F("locked", Struct([F("x", L("u8")), F("arr", Array(2, L("u8")))]),
                                deny={"serialize": "no ser", "deserialize": "no de", "ref_any": "no ref", "mut_any": "no mut"}),
                              F("rows", Array(2, named(("a", L("u8")), ("b", L("u8")))),
                                deny={"serialize": "no ser rows", "mut_any": "no mut rows"}),
                              F("open", L("u8"))])),
    ("deep", named(("a", named(("b", named(("c", named(("d", named(("e", L("u8")), ("f", L("u8")))),)),)),)),
                   ("longname_with_many_bytes", Array(10, L("u8"))), ("z", L("u8")))),
    ("values", named(("u8", L("u8")), ("u64", L("u64")), ("i8", L("i8")), ("i64", L("i64")), ("b", L("bool")),
                     ("f32", L("f32")), ("f64", L("f64")), ("s", L("string")), ("h", L("hstr8")), ("o", L("opti32")),
                     ("a", L("arr3i16")), ("u", L("unit")), ("st", L("sstruct")), ("en", L("uenum")), ("us", L("usize")),
                     ("i16", L("i16")), ("u16", L("u16")), ("i32", L("i32")), ("u32", L("u32")))),
    ("opt_nested", named(("oo", Gate("option", Gate("option", L("u8")))), ("ob", Gate("option", Gate("box", Array(2, L("u8"))))))),
    ("result_arr", Array(2, Named2("Result", [L("u8"), L("i8")]))),
    ("bound_range", named(("lo", Named2("Bound", [L("u8")])), ("r", Named2("RangeFrom", [Named2("RangeTo", [L("u8")])])))),
    # batch-4 seeded changes: sibling names differing only in ASCII case (different shapes), non-ASCII names on the
    # longest path, a skipped variant declared before retained ones, defer combined with an explicit mutable getter,
    # accessors/deny below a flattened node
    ("case_siblings", named(("i", Array(2, L("u8"))), ("I", L("u8")), ("Kp", L("i16")), ("kp", named(("x", L("u8")),)))),
    ("unicode_long", named(("größe_üs", named(("é", named(("ñandú", L("u8")),)),)), ("abcdefgh", L("u8")))),
    ("enum_skip_first", named(("mode", Enum([V("Raw", "u8", skip=True), V("Off"), V("A", L("i32")), V("B", L("i32"))])),
                              ("n", L("u8")))),
    ("defer_get_mut", Struct([F("view", L("u32"), defer=True, get_mut=True, validate=True),
                              F("ro", L("u8"), defer=True, get=True),
                              F("g", L("u8"))])),
    # two `typ`+`defer` views with the same declared type `()` and different effective types
    ("defer_two", Struct([F("one", L("u32"), defer=True), F("three", Array(3, L("u8")), defer=True),
                          F("pair", named(("p", L("u8")), ("q", L("i8"))), defer=True)])),
    ("flat_access", Struct([F("g", Array(2, Struct([F("only", Struct([F("a", L("u8"), get=True, get_mut=True, validate=True),
                                                                        F("d", L("u8"), deny={"serialize": "no ser", "ref_any": "no ref",
                                                                                              "deserialize": "no de", "mut_any": "no mut"})]))],
                                                    flat=True))),
                            F("z", L("u8"))])),
    # a Cell around INTERNAL nodes (the usual use is Cell<Leaf<T>>): the metadata walk must descend into it like the
    # by-key functions do
    ("cell_inner", named(("c", Gate("cell", Array(2, L("u8")))), ("d", Gate("cell", Tuple([L("u8"), Array(2, L("bool"))]))),
                         ("z", L("u8")))),
    # accessors / validator / denials ON the single field of a flattened struct (the flattened level is transparent for
    # keys, not for the field's attributes)
    ("flat_attr", Struct([F("w", Struct([F("only", L("u8"), get=True, get_mut=True, validate=True)], flat=True)),
                          F("x", Struct([F("only", named(("p", L("u8")), ("q", L("bool"))),
                                           deny={"deserialize": "ro", "mut_any": "no mut"})], flat=True)),
                          F("y", Struct([F("only", L("i8"), deny={"serialize": "wo", "ref_any": "no ref"})], flat=True)),
                          F("z", L("u8"))])),

]

# every container kind wrapping an internal node, followed by a deeper sibling: exercises
# how each container passes result/error depths up (NotFound below it drives the iterator)
def _wrapped(kind):
    inner = Array(2, L("u8"))
    if kind == "tuple":
        return Tuple([inner])
    if kind == "array":
        return Array(1, inner)
    if kind in ("Range", "RangeInclusive", "RangeFrom", "RangeTo", "Bound"):
        return Named2(kind, [inner])
    if kind == "Result":
        return Named2("Result", [inner, Array(3, L("u8"))])
    if kind == "struct":
        return named(("w", inner))
    if kind == "flat":
        return named(("w", inner), flat=True)
    if kind == "tstruct":
        return TStruct([F(None, inner)])
    if kind == "enum":
        return Enum([V("W", inner), V("U")])
    if kind == "flatenum":
        return Enum([V("W", inner), V("U")], flat=True)
    return Gate(kind, inner)


for _k in ["tuple", "array", "Range", "RangeInclusive", "RangeFrom", "RangeTo", "Bound", "Result", "struct", "flat",
           "tstruct", "enum", "flatenum", "option", "box", "refcell", "rc", "arc", "rcweak", "arcweak", "cow", "mutex",
           "rwlock"]:
    CORPUS.append((f"wrap_{_k}", named(("k", _wrapped(_k)), ("c", Array(1, Array(3, L("u8")))), ("z", L("u8")))))


def _nest1(depth):
    t = L("unit")
    for _ in range(depth):
        t = Array(1, t)
    return t


# packed keys using exactly 62, 63 (= capacity) and 64 bits with a single leaf
for _d in (62, 63, 64):
    CORPUS.append((f"bits{_d}", named(("x", L("u8")), ("chain", _nest1(_d - 1)))))
