"""Random tree types for the thorough tier: compositions of the constructs of the fixed corpus
(sizes kept small enough for exhaustive enumeration, array lengths from the boundary set)."""
import random

from spec import *

LEAFS = ["u8", "u16", "i32", "bool", "unit", "i8", "u32"]
NAMES = ["a", "b", "c", "gain", "offset", "channel", "x", "y", "z", "k0", "k1", "long_field_name", "é", "mode"]
LENS = [1, 2, 3, 4, 5, 7, 8, 9, 10, 11, 16, 17]


def rnd_type(rng, depth, budget):
    """returns (spec, leaves) with leaves <= budget"""
    if depth == 0 or budget <= 1 or rng.random() < 0.25:
        return Leaf(rng.choice(LEAFS)), 1
    kind = rng.choice(["struct", "struct", "tstruct", "tuple", "array", "array", "option", "box", "range", "rangefrom",
                       "result", "bound", "enum"])
    if kind == "array":
        n = rng.choice([x for x in LENS if x <= max(1, budget)] or [1])
        t, l = rnd_type(rng, depth - 1, max(1, budget // n))
        return Array(n, t), n * l
    if kind in ("struct", "tstruct", "tuple"):
        k = rng.randrange(1, 5)
        fields, total = [], 0
        names = rng.sample(NAMES, k)
        for i in range(k):
            t, l = rnd_type(rng, depth - 1, max(1, (budget - total) // (k - i)))
            total += l
            fields.append((names[i], t))
        if kind == "struct":
            return Struct([F(n, t) for n, t in fields]), total
        if kind == "tstruct":
            return TStruct([F(None, t) for _n, t in fields]), total
        return Tuple([t for _n, t in fields]), total
    if kind in ("option", "box"):
        t, l = rnd_type(rng, depth - 1, budget)
        return Gate(kind, t), l
    if kind in ("range", "bound"):
        t, l = rnd_type(rng, depth - 1, max(1, budget // 2))
        return Named2("Range" if kind == "range" else "Bound", [t]), 2 * l
    if kind == "rangefrom":
        t, l = rnd_type(rng, depth - 1, budget)
        return Named2(rng.choice(["RangeFrom", "RangeTo"]), [t]), l
    if kind == "result":
        a, la = rnd_type(rng, depth - 1, max(1, budget // 2))
        b, lb = rnd_type(rng, depth - 1, max(1, budget // 2))
        return Named2("Result", [a, b]), la + lb
    # enum with a unit variant and two payload variants
    a, la = rnd_type(rng, depth - 1, max(1, budget // 2))
    b, lb = rnd_type(rng, depth - 1, max(1, budget // 2))
    return Enum([V("None"), V("A", a), V("B", b)]), la + lb


def random_types(n, seed):
    rng = random.Random(seed)
    out = []
    while len(out) < n:
        t, l = rnd_type(rng, rng.choice([2, 3, 4, 5]), rng.choice([8, 30, 80, 200]))
        if isinstance(t, (Leaf,)):
            continue
        out.append((f"rnd{seed}_{len(out)}", t))
    return out
