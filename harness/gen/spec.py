"""Type specs for the generated corpus and their *independent* reading as a schema.

This module shares no code with the Lean model: `schema()` re-derives what a type means
for key lookup from the documentation of the derive macro and the container impls.
"""
from dataclasses import dataclass, field
from typing import Any, List, Optional

# ----------------------------------------------------------------------------- leaf types
# name -> (rust type, list of (rust expr, canonical snapshot) sample values)
LEAF_TYPES = {
    "u8": "u8", "u16": "u16", "u32": "u32", "u64": "u64", "usize": "usize",
    "i8": "i8", "i16": "i16", "i32": "i32", "i64": "i64", "bool": "bool",
    "f32": "f32", "f64": "f64", "string": "String", "hstr8": "heapless::String<8>",
    "opti32": "Option<i32>", "arr3i16": "[i16; 3]", "unit": "()",
    "sstruct": "crate::gen_rt::SerdeS", "uenum": "crate::gen_rt::SerdeE",
}


@dataclass
class Leaf:
    ty: str = "u32"


@dataclass
class StrLeaf:
    pass  # StrLeaf<StrE> with variants Alpha, Beta, Gamma, alpha


@dataclass
class Deny:
    ty: str = "u32"


@dataclass
class F:
    """a struct field / tuple field / enum variant payload"""
    name: Optional[str]
    ty: Any
    rename: Optional[str] = None
    skip: bool = False            # #[tree(skip)] (ty is then a plain Rust type string)
    get: bool = False
    get_mut: bool = False
    validate: bool = False
    defer: bool = False           # typ=<ty>, defer=self.<slot>; declared type ()
    deny: dict = field(default_factory=dict)   # op -> msg, ops: serialize deserialize ref_any mut_any


@dataclass
class Struct:
    fields: List[F]
    flat: bool = False
    generic: bool = False         # emit as generic struct over its (single) distinct field type


@dataclass
class TStruct:
    fields: List[F]
    flat: bool = False


@dataclass
class V:
    """enum variant: unit (ty None), skipped, or newtype/tuple with skipped tail"""
    name: str
    ty: Any = None
    rename: Optional[str] = None
    skip: bool = False
    skip_tail: int = 0
    attrs: Optional[F] = None     # get/get_mut/validate/deny on the payload


@dataclass
class Enum:
    variants: List[V]
    flat: bool = False


@dataclass
class Array:
    n: int
    ty: Any


@dataclass
class Tuple:
    tys: List[Any]


@dataclass
class Named2:
    """core containers with a fixed lookup: Range, RangeInclusive, RangeFrom, RangeTo, Result, Bound"""
    kind: str
    tys: List[Any]


@dataclass
class Gate:
    kind: str   # option box cell refcell rc arc rcweak arcweak cow mutex rwlock
    ty: Any


NAMED2 = {
    "Range": ["start", "end"], "RangeInclusive": ["start", "end"], "RangeFrom": ["start"], "RangeTo": ["end"],
    "Result": ["Ok", "Err"], "Bound": ["Included", "Excluded"],
}


# ----------------------------------------------------------------------------- schema reading

def retained_fields(t):
    """fields that take part in key lookup, in order (skip filtering as documented:
    named fields anywhere, tuple fields only at the tail)"""
    if isinstance(t, Struct):
        return [f for f in t.fields if not f.skip]
    if isinstance(t, TStruct):
        return [f for f in t.fields if not f.skip]
    raise TypeError


def retained_variants(t):
    return [v for v in t.variants if not v.skip and v.ty is not None]


def schema(t):
    """("leaf",) | ("node", names or None, [children]) | ("array", n, child)"""
    if isinstance(t, (Leaf, StrLeaf, Deny)):
        return ("leaf",)
    if isinstance(t, Gate):
        return schema(t.ty)
    if isinstance(t, Array):
        return ("array", t.n, schema(t.ty))
    if isinstance(t, Tuple):
        return ("node", None, [schema(x) for x in t.tys])
    if isinstance(t, Named2):
        names = NAMED2[t.kind]
        tys = t.tys if t.kind == "Result" else [t.tys[0]] * len(names)
        return ("node", names, [schema(x) for x in tys])
    if isinstance(t, Struct):
        fs = retained_fields(t)
        if t.flat:
            assert len(fs) == 1
            return schema(fs[0].ty)
        return ("node", [f.rename or f.name for f in fs], [schema(f.ty) for f in fs])
    if isinstance(t, TStruct):
        fs = retained_fields(t)
        if t.flat:
            assert len(fs) == 1
            return schema(fs[0].ty)
        return ("node", None, [schema(f.ty) for f in fs])
    if isinstance(t, Enum):
        vs = retained_variants(t)
        if t.flat:
            assert len(vs) == 1
            return schema(vs[0].ty)
        return ("node", [v.rename or v.name for v in vs], [schema(v.ty) for v in vs])
    raise TypeError(t)


def schema_text(s):
    """prefix notation read by the Lean driver"""
    if s[0] == "leaf":
        return "L"
    if s[0] == "array":
        return f"A {s[1]} {schema_text(s[2])}"
    _, names, cs = s
    lk = ("n:" + ",".join(names)) if names is not None else f"u:{len(cs)}"
    return f"N {lk} " + " ".join(schema_text(c) for c in cs)


# brute-force helpers used by the oracles ---------------------------------------------------

def children(s):
    """list of (index, name or None, child) — arrays are NOT expanded here"""
    if s[0] == "node":
        names = s[1]
        return [(i, names[i] if names else None, c) for i, c in enumerate(s[2])]
    raise TypeError


def nchildren(s):
    return s[1] if s[0] == "array" else len(s[2])


def child(s, i):
    if s[0] == "array":
        return s[2] if 0 <= i < s[1] else None
    if s[0] == "node":
        return s[2][i] if 0 <= i < len(s[2]) else None
    return None


def name_of(s, i):
    if s[0] == "node" and s[1] is not None:
        return s[1][i]
    return None


def leaves(s, limit=200000):
    """all leaf index paths in depth-first declaration order (arrays expanded)"""
    out = []

    def rec(s, p):
        if len(out) > limit:
            raise OverflowError
        if s[0] == "leaf":
            out.append(tuple(p))
            return
        for i in range(nchildren(s)):
            rec(child(s, i), p + [i])
    rec(s, [])
    return out


def nodes_upto(s, D):
    """leaves of depth ≤ D and, once each, the internal nodes at depth D; in order"""
    out = []

    def rec(s, p):
        if s[0] == "leaf":
            out.append((tuple(p), "leaf"))
            return
        if len(p) == D:
            out.append((tuple(p), "internal"))
            return
        for i in range(nchildren(s)):
            rec(child(s, i), p + [i])
    rec(s, [])
    return out


def at(s, p):
    for i in p:
        s = child(s, i)
        if s is None:
            return None
    return s


def bits_for(n):
    return max(1, n.bit_length())


def digits(n):
    return len(str(n))
