#!/usr/bin/env python3
"""Generate the Rust corpus (`src/gen_types.rs`) and its description (`corpus.json`):
for every corpus type the derive input, the trait set it has, its schema in the Lean
driver's text form, and per runtime state the value-level tree text + a constructor."""
import json
import os
import sys

sys.path.insert(0, os.path.dirname(os.path.abspath(__file__)))
from spec import *  # noqa: E402,F401
from corpus import CORPUS  # noqa: E402
import valgen  # noqa: E402

ALL = frozenset(["key", "ser", "de", "any"])
COPY_LEAVES = {"u8", "u16", "u32", "u64", "usize", "i8", "i16", "i32", "i64", "bool", "f32", "f64", "unit", "opti32",
               "arr3i16", "uenum"}


def traits(t):
    if isinstance(t, (Leaf, StrLeaf, Deny)):
        return ALL
    if isinstance(t, Gate):
        inner = traits(t.ty)
        if t.kind in ("rcweak", "arcweak"):
            return inner & {"key", "ser", "de"}
        if t.kind == "ref":
            return inner & {"key", "ser"}
        return inner
    if isinstance(t, Array):
        return traits(t.ty)
    if isinstance(t, Tuple):
        r = ALL
        for x in t.tys:
            r = r & traits(x)
        return r
    if isinstance(t, Named2):
        r = ALL
        for x in t.tys:
            r = r & traits(x)
        if t.kind == "RangeInclusive":
            r = r & {"key", "ser"}
        return r
    if isinstance(t, (Struct, TStruct)):
        r = ALL
        for f in retained_fields(t):
            r = r & field_traits(f)
        return r
    if isinstance(t, Enum):
        r = ALL
        for v in retained_variants(t):
            ft = traits(v.ty)
            if v.attrs:
                ft = ft | denied_traits(v.attrs)
            r = r & ft
        return r
    raise TypeError(t)


def denied_traits(f):
    d = set()
    if "serialize" in f.deny:
        d.add("ser")
    if "deserialize" in f.deny:
        d.add("de")
    if "ref_any" in f.deny and "mut_any" in f.deny:
        d.add("any")
    return d


def field_traits(f):
    return traits(f.ty) | denied_traits(f)


class Gen:
    def __init__(self):
        self.items = []
        self.decls = {}      # ident -> what the DEFINITION says about each retained field / variant (independent reading)
        self.n_items = 0
        self.aid = 0
        self.cur = 0

    def fresh(self):
        self.n_items += 1
        return f"T{self.cur}_{self.n_items}"

    def new_aid(self):
        self.aid += 1
        return self.aid

    def attrs(self, f, access_ref, access_mut):
        """tree(...) attribute list for a field; assigns f.aid"""
        parts = []
        if f.rename:
            parts.append(f"rename={f.rename}")
        needs_id = f.get or f.get_mut or f.validate
        f.aid = self.new_aid() if needs_id else 0
        if f.get:
            parts.append(f"get=crate::gen_rt::acc::<{f.aid}, _>({access_ref})")
        if f.get_mut:
            parts.append(f"get_mut=crate::gen_rt::accm::<{f.aid}, _>({access_mut})")
        if f.validate:
            parts.append(f"validate=crate::gen_rt::val::<{f.aid}>")
        if f.deny:
            parts.append("deny(" + ", ".join(f'{k}="{v}"' for k, v in sorted(f.deny.items())) + ")")
        return parts

    def arm_decl(self, f, place, place_mut, variant=None, fty=None):
        """what a retained field / variant payload promises per operation (documentation of the attributes)"""
        return {"name": (f.rename or f.name) if f is not None else None, "variant": variant, "place": place,
                "place_mut": place_mut, "type": fty,
                "get": getattr(f, "aid", 0) if f is not None and f.get else 0,
                "get_mut": getattr(f, "aid", 0) if f is not None and f.get_mut else 0,
                "validate": getattr(f, "aid", 0) if f is not None and f.validate else 0,
                "deny": dict(f.deny) if f is not None else {}}

    def derive(self, t):
        tr = traits(t)
        names = {"key": "TreeKey", "ser": "TreeSerialize", "de": "TreeDeserialize", "any": "TreeAny"}
        return "#[derive(" + ", ".join(names[k] for k in ("key", "ser", "de", "any") if k in tr) + ")]"

    def ty(self, t):
        """Rust type expression; appends item definitions"""
        if isinstance(t, Leaf):
            return f"Leaf<{LEAF_TYPES[t.ty]}>"
        if isinstance(t, StrLeaf):
            return "StrLeaf<crate::gen_rt::StrE>"
        if isinstance(t, Deny):
            return f"Deny<{LEAF_TYPES[t.ty]}>"
        if isinstance(t, Array):
            return f"[{self.ty(t.ty)}; {t.n}]"
        if isinstance(t, Tuple):
            return "(" + "".join(self.ty(x) + ", " for x in t.tys) + ")"
        if isinstance(t, Named2):
            m = {"Range": "core::ops::Range", "RangeInclusive": "core::ops::RangeInclusive",
                 "RangeFrom": "core::ops::RangeFrom", "RangeTo": "core::ops::RangeTo",
                 "Result": "Result", "Bound": "core::ops::Bound"}[t.kind]
            return f"{m}<" + ", ".join(self.ty(x) for x in t.tys) + ">"
        if isinstance(t, Gate):
            inner = self.ty(t.ty)
            m = {"option": "Option<{}>", "box": "Box<{}>", "cell": "core::cell::Cell<{}>",
                 "refcell": "core::cell::RefCell<{}>", "rc": "std::rc::Rc<{}>", "arc": "std::sync::Arc<{}>",
                 "rcweak": "std::rc::Weak<{}>", "arcweak": "std::sync::Weak<{}>",
                 "cow": "std::borrow::Cow<'static, {}>", "mutex": "std::sync::Mutex<{}>",
                 "rwlock": "std::sync::RwLock<{}>"}[t.kind]
            return m.format(inner)
        if isinstance(t, Struct):
            name = self.fresh()
            t.rust_name = name
            lines = []
            decl_arms = []
            for f in t.fields:
                if f.skip:
                    lines.append(f"    #[tree(skip)] pub {f.name}: {f.ty},")
                    continue
                fty = self.ty(f.ty)
                store = f"slot_{f.name}" if f.defer else f.name
                parts = self.attrs(f, f"&self.{store}", f"&mut self.{store}")
                decl_arms.append(self.arm_decl(f, f"self.{store}", f"self.{store}", fty=fty))
                if f.defer:
                    parts = [f'typ="{fty}"', f"defer=self.{store}"] + parts
                    lines.append(f"    #[tree({', '.join(parts)})] pub {f.name}: (),")
                    lines.append(f"    #[tree(skip)] pub {store}: {fty},")
                else:
                    a = f"#[tree({', '.join(parts)})] " if parts else ""
                    lines.append(f"    {a}pub {f.name}: {fty},")
            flat = "#[tree(flatten)]\n" if t.flat else ""
            self.items.append(f"{self.derive(t)}\n{flat}pub struct {name} {{\n" + "\n".join(lines) + "\n}\n")
            self.decls[name] = {"kind": "struct", "flat": t.flat, "traits": sorted(traits(t)), "arms": decl_arms}
            return name
        if isinstance(t, TStruct):
            name = self.fresh()
            t.rust_name = name
            parts_all = []
            decl_arms = []
            for i, f in enumerate(t.fields):
                if f.skip:
                    parts_all.append(f"#[tree(skip)] pub {f.ty}")
                    continue
                fty = self.ty(f.ty)
                parts = self.attrs(f, f"&self.{i}", f"&mut self.{i}")
                decl_arms.append(self.arm_decl(f, f"self.{i}", f"self.{i}", fty=fty))
                a = f"#[tree({', '.join(parts)})] " if parts else ""
                parts_all.append(f"{a}pub {fty}")
            flat = "#[tree(flatten)]\n" if t.flat else ""
            self.items.append(f"{self.derive(t)}\n{flat}pub struct {name}(" + ", ".join(parts_all) + ");\n")
            self.decls[name] = {"kind": "tstruct", "flat": t.flat, "traits": sorted(traits(t)), "arms": decl_arms}
            return name
        if isinstance(t, Enum):
            name = self.fresh()
            t.rust_name = name
            lines = []
            decl_arms = []
            for v in t.variants:
                if v.ty is None:
                    lines.append(f"    {'#[tree(skip)] ' if v.skip else ''}{v.name},")
                    continue
                if v.skip:
                    lines.append(f"    #[tree(skip)] {v.name}({v.ty}),")
                    continue
                fty = self.ty(v.ty)
                fa = ""
                if v.attrs:
                    parts = self.attrs(v.attrs, "value", "value")
                    fa = f"#[tree({', '.join(parts)})] " if parts else ""
                d = self.arm_decl(v.attrs, "value", "value", variant=v.name, fty=fty)
                d["name"] = v.rename or v.name
                decl_arms.append(d)
                tail = "".join(", #[tree(skip)] u8" for _ in range(v.skip_tail))
                ren = f"#[tree(rename={v.rename})] " if v.rename else ""
                lines.append(f"    {ren}{v.name}({fa}{fty}{tail}),")
            flat = "#[tree(flatten)]\n" if t.flat else ""
            self.items.append(f"{self.derive(t)}\n{flat}pub enum {name} {{\n" + "\n".join(lines) + "\n}\n")
            self.decls[name] = {"kind": "enum", "flat": t.flat, "traits": sorted(traits(t)), "arms": decl_arms}
            return name
        raise TypeError(t)


def leaf_count(s):
    if s[0] == "leaf":
        return 1
    if s[0] == "array":
        return s[1] * leaf_count(s[2])
    return sum(leaf_count(c) for c in s[2])


def corpus_with_random():
    """the fixed corpus, plus `VERIF_RANDOM_TYPES=<n>:<seed>` random compositions (thorough tier)"""
    spec_env = os.environ.get("VERIF_RANDOM_TYPES", "")
    if not spec_env:
        return list(CORPUS)
    import randtypes
    n, seed = (int(x) for x in spec_env.split(":"))
    return list(CORPUS) + randtypes.random_types(n, seed)


def main(out_rs, out_json):
    CORPUS = corpus_with_random()
    g = Gen()
    entries = []
    arms = []
    varms = []
    vitems = []
    for k, (label, t) in enumerate(CORPUS):
        g.cur = k
        rust = g.ty(t)
        s = schema(t)
        tr = traits(t)
        entry = {"tid": k, "label": label, "rust": rust, "traits": sorted(tr),
                 "schema": s, "schema_text": schema_text(s), "states": []}
        g.items.append(f"pub type C{k} = {rust};\n")
        arms.append(f"        {k} => crate::rt::tk_ops::<C{k}>(args),")
        # value level (instances) for types of moderate size
        if leaf_count(s) <= 64:
            sts = valgen.states(t)
            marms = []
            for si, st in enumerate(sts):
                inst = valgen.Inst(t, st).build(t)
                marms.append(f"        {si} => Some({valgen.rust_make(inst)}),")
                entry["states"].append({"sid": si, "choice": {str(a): b for a, b in st.items()},
                                        "tree_text": valgen.tree_text(inst), "inst": valgen.inst_json(inst)})
            inst0 = valgen.Inst(t, {}).build(t)
            snap = valgen.SnapGen().stmts(inst0, "t", "root.clone()")
            vitems.append(
                f"#[allow(unused_variables, unused_mut, clippy::all)]\npub fn make_{k}(state: usize, keep: &mut Vec<Box<dyn std::any::Any>>) -> Option<C{k}> {{\n"
                f"    match state {{\n" + "\n".join(marms) + "\n        _ => None,\n    }\n}\n"
                f"#[allow(unused_variables, clippy::all)]\npub fn snap_{k}(t: &C{k}, out: &mut Vec<(String, String)>) {{\n    let root = String::new();\n{snap}}}\n")
            def opt(name, need):
                return f"Some(crate::vrt::f_{name}::<C{k}>)" if need in tr else "None"
            varms.append(
                f"        {k} => {{ let mut keep = vec![]; let Some(mut t) = make_{k}(state, &mut keep) else {{ return \"bad-op\".into() }};\n"
                f"            let ops = crate::vrt::Ops::<C{k}> {{ jget: {opt('jget', 'ser')}, ser: {opt('ser', 'ser')}, jset: {opt('jset', 'de')}, "
                f"de: {opt('de', 'de')}, pget: {opt('pget', 'ser')}, pset: {opt('pset', 'de')}, refany: {opt('refany', 'any')}, "
                f"mutany: {opt('mutany', 'any')}, snap: snap_{k} }};\n"
                f"            crate::vrt::run_ops(&mut t, args, &ops) }}")
        entries.append(entry)
    src = ["// GENERATED by gen/typegen.py — do not edit.",
           "#![allow(non_camel_case_types, dead_code, unused_imports, unused_parens, clippy::all)]",
           "use miniconf::{Deny, Leaf, StrLeaf, TreeAny, TreeDeserialize, TreeKey, TreeSerialize};", ""]
    src += g.items
    src += vitems
    src.append("pub fn dispatch_tk(tid: usize, args: &[&str]) -> String {\n    match tid {\n" + "\n".join(arms)
               + "\n        _ => \"bad-op\".into(),\n    }\n}\n")
    src.append("pub fn dispatch_tv(tid: usize, state: usize, args: &[&str]) -> String {\n    match tid {\n" + "\n".join(varms)
               + "\n        _ => \"bad-op\".into(),\n    }\n}\n")
    src.append(f"pub const N_TYPES: usize = {len(CORPUS)};\n")
    text = "\n".join(src)
    try:
        same = open(out_rs).read() == text
    except FileNotFoundError:
        same = False
    if not same:
        open(out_rs, "w").write(text)
    json.dump({"types": entries, "decls": g.decls}, open(out_json, "w"), indent=0)


if __name__ == "__main__":
    here = os.path.dirname(os.path.abspath(__file__))
    main(os.path.join(here, "..", "src", "gen_types.rs"), os.path.join(here, "corpus.json"))
