"""Value-level generation: runtime states of a corpus type, the instance (type + state +
leaf values) as a Python structure, and its three renderings: Rust constructor
expression, Rust snapshot statements, and the Lean driver's tree text."""
from spec import *  # noqa: F401,F403
from values import SAMPLES, cp, rust_expr, val_text

CP_ALTS = {
    "option": ["some", "none"], "rc": ["unique", "shared"], "arc": ["unique", "shared"],
    "rcweak": ["alive", "dangling"], "arcweak": ["alive", "dangling"], "cow": ["owned", "borrowed"],
    "mutex": ["ok", "poisoned"], "rwlock": ["ok", "poisoned"], "refcell": ["free", "mutborrowed", "shrborrowed"],
    "Result": ["Ok", "Err"], "Bound": ["Included", "Excluded", "Unbounded"],
}


def choice_points(t):
    """list of (spec node, alternatives) in traversal order; ids are positions"""
    out = []

    def rec(t):
        if isinstance(t, (Leaf, StrLeaf, Deny)):
            return
        if isinstance(t, Gate):
            if t.kind in CP_ALTS:
                out.append((t, CP_ALTS[t.kind]))
            rec(t.ty)
        elif isinstance(t, Array):
            rec(t.ty)
        elif isinstance(t, Tuple):
            for x in t.tys:
                rec(x)
        elif isinstance(t, Named2):
            if t.kind in CP_ALTS:
                out.append((t, CP_ALTS[t.kind]))
            for x in t.tys:
                rec(x)
        elif isinstance(t, (Struct, TStruct)):
            for f in t.fields:
                if not f.skip:
                    rec(f.ty)
        elif isinstance(t, Enum):
            # default: first retained variant
            alts = [i for i, v in enumerate(t.variants) if not v.skip and v.ty is not None]
            alts += [i for i, v in enumerate(t.variants) if v.skip or v.ty is None]
            out.append((t, alts))
            for v in t.variants:
                if not v.skip and v.ty is not None:
                    rec(v.ty)
        else:
            raise TypeError(t)
    rec(t)
    return out


def states(t, max_states=12):
    cps = choice_points(t)
    sts = [dict()]
    for i, (_n, alts) in enumerate(cps):
        for a in range(1, len(alts)):
            sts.append({i: a})
    # one state with everything toggled to its last alternative
    if len(cps) > 1:
        sts.append({i: len(alts) - 1 for i, (_n, alts) in enumerate(cps)})
    return sts[:max_states]


class Inst:
    """builds the instance structure for (type, state)"""

    def __init__(self, t, state):
        self.cps = {id(n): (i, alts) for i, (n, alts) in enumerate(choice_points(t))}
        self.state = state
        self.leaf_no = 0

    def alt(self, node):
        i, alts = self.cps[id(node)]
        return alts[self.state.get(i, 0)]

    def sample(self, ty):
        s = SAMPLES[ty]
        v = s[self.leaf_no % len(s)]
        self.leaf_no += 1
        return v

    def build(self, t):
        if isinstance(t, Leaf):
            return {"k": "leaf", "lk": "leaf", "ty": t.ty, "v": self.sample(t.ty)}
        if isinstance(t, StrLeaf):
            return {"k": "leaf", "lk": "strleaf", "ty": "strleaf", "v": self.sample("strleaf")}
        if isinstance(t, Deny):
            return {"k": "leaf", "lk": "deny", "ty": t.ty, "v": self.sample(t.ty)}
        if isinstance(t, Array):
            if t.n > 16:
                save = self.leaf_no
                e = self.build(t.ty)
                # from_fn: every element identical
                self.leaf_no = save + 1
                return {"k": "array", "elems": [e] * t.n, "fromfn": True, "n": t.n}
            return {"k": "array", "elems": [self.build(t.ty) for _ in range(t.n)], "fromfn": False, "n": t.n}
        if isinstance(t, Tuple):
            return {"k": "node", "kind": "tuple", "flat": False, "active": None, "names": None,
                    "fields": [{"f": None, "inst": self.build(x)} for x in t.tys]}
        if isinstance(t, Named2):
            names = NAMED2[t.kind]
            if t.kind == "Result":
                a = self.alt(t)
                fields = [{"f": None, "inst": self.build(t.tys[0])}, {"f": None, "inst": self.build(t.tys[1])}]
                return {"k": "node", "kind": "Result", "flat": False, "active": 0 if a == "Ok" else 1, "names": names,
                        "fields": fields}
            if t.kind == "Bound":
                a = self.alt(t)
                fields = [{"f": None, "inst": self.build(t.tys[0])}, {"f": None, "inst": self.build(t.tys[0])}]
                return {"k": "node", "kind": "Bound", "flat": False,
                        "active": {"Included": 0, "Excluded": 1, "Unbounded": "x"}[a], "names": names, "fields": fields}
            fields = [{"f": None, "inst": self.build(t.tys[0])} for _ in names]
            return {"k": "node", "kind": t.kind, "flat": False, "active": None, "names": names, "fields": fields}
        if isinstance(t, Gate):
            a = self.alt(t) if t.kind in CP_ALTS else "open"
            closed = a in ("none", "shared", "dangling", "poisoned", "mutborrowed")
            return {"k": "gate", "g": t.kind, "alt": a, "closed": closed, "inner": self.build(t.ty)}
        if isinstance(t, Struct):
            fs = [{"f": f, "inst": self.build(f.ty)} for f in t.fields if not f.skip]
            return {"k": "node", "kind": "struct", "flat": t.flat, "active": None,
                    "names": [f["f"].rename or f["f"].name for f in fs], "fields": fs, "spec": t}
        if isinstance(t, TStruct):
            fs = [{"f": f, "inst": self.build(f.ty)} for f in t.fields if not f.skip]
            return {"k": "node", "kind": "tstruct", "flat": t.flat, "active": None, "names": None, "fields": fs, "spec": t}
        if isinstance(t, Enum):
            vi = self.alt(t)
            retained = [i for i, v in enumerate(t.variants) if not v.skip and v.ty is not None]
            fs = [{"f": t.variants[i].attrs, "inst": self.build(t.variants[i].ty), "variant": i} for i in retained]
            active = retained.index(vi) if vi in retained else "x"
            return {"k": "node", "kind": "enum", "flat": t.flat, "active": active,
                    "names": [t.variants[i].rename or t.variants[i].name for i in retained], "fields": fs,
                    "spec": t, "variant": vi}
        raise TypeError(t)


# ------------------------------------------------------------------------------- Rust constructor

def rust_make(inst):
    k = inst["k"]
    if k == "leaf":
        w = {"leaf": "Leaf", "strleaf": "StrLeaf", "deny": "Deny"}[inst["lk"]]
        return f"{w}({rust_expr(inst['ty'], inst['v'])})"
    if k == "array":
        if inst["fromfn"]:
            return f"core::array::from_fn(|_| {rust_make(inst['elems'][0])})"
        return "[" + ", ".join(rust_make(e) for e in inst["elems"]) + "]"
    if k == "gate":
        e = rust_make(inst["inner"])
        g, a = inst["g"], inst["alt"]
        if g == "option":
            return f"Some({e})" if a == "some" else "None"
        if g == "box":
            return f"Box::new({e})"
        if g == "cell":
            return f"core::cell::Cell::new({e})"
        if g == "refcell":
            if a == "mutborrowed":
                # a leaked `RefMut` guard leaves the cell mutably borrowed for ever (safe Rust)
                return f"{{ let c = core::cell::RefCell::new({e}); std::mem::forget(c.borrow_mut()); c }}"
            if a == "shrborrowed":
                # a leaked shared `Ref` guard: reads (`try_borrow`) and `get_mut()` through `&mut` still work
                return f"{{ let c = core::cell::RefCell::new({e}); std::mem::forget(c.borrow()); c }}"
            return f"core::cell::RefCell::new({e})"
        if g in ("rc", "arc"):
            ty = "std::rc::Rc" if g == "rc" else "std::sync::Arc"
            if a == "shared":
                return f"{{ let r = {ty}::new({e}); keep.push(Box::new(r.clone())); r }}"
            return f"{ty}::new({e})"
        if g in ("rcweak", "arcweak"):
            ty = "std::rc::Rc" if g == "rcweak" else "std::sync::Arc"
            if a == "alive":
                return f"{{ let r = {ty}::new({e}); let w = {ty}::downgrade(&r); keep.push(Box::new(r)); w }}"
            return f"{{ let r = {ty}::new({e}); {ty}::downgrade(&r) }}"
        if g == "cow":
            if a == "borrowed":
                return f"std::borrow::Cow::Borrowed(&*Box::leak(Box::new({e})))"
            return f"std::borrow::Cow::Owned({e})"
        if g in ("mutex", "rwlock"):
            ty = "std::sync::Mutex" if g == "mutex" else "std::sync::RwLock"
            lock = "lock" if g == "mutex" else "write"
            if a == "poisoned":
                return (f"{{ let m = {ty}::new({e}); let _ = std::panic::catch_unwind(std::panic::AssertUnwindSafe(|| "
                        f"{{ let _g = m.{lock}().unwrap(); panic!(\"poison\") }})); m }}")
            return f"{ty}::new({e})"
        raise ValueError(g)
    # node
    kind = inst["kind"]
    fs = inst["fields"]
    if kind == "tuple":
        return "(" + "".join(rust_make(f["inst"]) + ", " for f in fs) + ")"
    if kind == "Range":
        return f"({rust_make(fs[0]['inst'])})..({rust_make(fs[1]['inst'])})"
    if kind == "RangeInclusive":
        return f"({rust_make(fs[0]['inst'])})..=({rust_make(fs[1]['inst'])})"
    if kind == "RangeFrom":
        return f"({rust_make(fs[0]['inst'])}).."
    if kind == "RangeTo":
        return f"..({rust_make(fs[0]['inst'])})"
    if kind == "Result":
        return f"Ok({rust_make(fs[0]['inst'])})" if inst["active"] == 0 else f"Err({rust_make(fs[1]['inst'])})"
    if kind == "Bound":
        if inst["active"] == "x":
            return "core::ops::Bound::Unbounded"
        return (f"core::ops::Bound::Included({rust_make(fs[0]['inst'])})" if inst["active"] == 0
                else f"core::ops::Bound::Excluded({rust_make(fs[1]['inst'])})")
    t = inst["spec"]
    name = t.rust_name
    if kind == "struct":
        parts = []
        it = iter(fs)
        for f in t.fields:
            if f.skip:
                parts.append(f"{f.name}: Default::default()")
                continue
            fi = next(it)
            if f.defer:
                parts.append(f"{f.name}: ()")
                parts.append(f"slot_{f.name}: {rust_make(fi['inst'])}")
            else:
                parts.append(f"{f.name}: {rust_make(fi['inst'])}")
        return f"{name} {{ " + ", ".join(parts) + " }"
    if kind == "tstruct":
        parts = []
        it = iter(fs)
        for f in t.fields:
            parts.append("Default::default()" if f.skip else rust_make(next(it)["inst"]))
        return f"{name}(" + ", ".join(parts) + ")"
    if kind == "enum":
        v = t.variants[inst["variant"]]
        if v.ty is None:
            return f"{name}::{v.name}"
        if v.skip:
            return f"{name}::{v.name}(Default::default())"
        fi = fs[inst["active"]]
        tail = "".join(", 0u8" for _ in range(v.skip_tail))
        return f"{name}::{v.name}({rust_make(fi['inst'])}{tail})"
    raise ValueError(kind)


# ------------------------------------------------------------------------------- Rust snapshot

class SnapGen:
    def __init__(self):
        self.n = 0

    def var(self):
        self.n += 1
        return f"x{self.n}"

    def stmts(self, inst, expr, path):
        """Rust statements pushing (path, text) entries for `expr: &T`; `path` is a Rust
        expression of type String"""
        k = inst["k"]
        if k == "leaf":
            return f"out.push(({path}, crate::vrt::snapv(&({expr}).0)));\n"
        if k == "array":
            v, i = self.var(), self.var()
            body = self.stmts(inst["elems"][0], v, f"crate::vrt::pj(&{path}, {i})")
            return f"for ({i}, {v}) in ({expr}).iter().enumerate() {{\n{body}}}\n"
        if k == "gate":
            g = inst["g"]
            v = self.var()
            inner = lambda e: self.stmts(inst["inner"], e, path)  # noqa: E731
            if g == "option":
                return (f"match ({expr}) {{ Some({v}) => {{ out.push((format!(\"{{}}#\", {path}), \"some\".into()));\n"
                        f"{inner(v)}}} None => out.push((format!(\"{{}}#\", {path}), \"none\".into())), }}\n")
            if g in ("box", "rc", "arc", "cow"):
                return f"{{ let {v} = &**({expr});\n{inner(v)}}}\n"
            if g == "cell":
                return f"{{ let {v} = &({expr}).get();\n{inner(v)}}}\n"
            if g == "refcell":
                # plain memory read (the cell may be in the leaked-guard "mutably borrowed" state)
                return f"{{ let {v} = unsafe {{ &*({expr}).as_ptr() }};\n{inner(v)}}}\n"
            if g in ("rcweak", "arcweak"):
                return (f"match ({expr}).upgrade() {{ Some({v}r) => {{ out.push((format!(\"{{}}#\", {path}), \"alive\".into())); "
                        f"let {v} = &*{v}r;\n{inner(v)}}} None => out.push((format!(\"{{}}#\", {path}), \"dangling\".into())), }}\n")
            if g == "mutex":
                return (f"{{ let {v}g = match ({expr}).lock() {{ Ok(g) => g, Err(p) => p.into_inner() }}; let {v} = &*{v}g;\n"
                        f"{inner(v)}}}\n")
            if g == "rwlock":
                return (f"{{ let {v}g = match ({expr}).read() {{ Ok(g) => g, Err(p) => p.into_inner() }}; let {v} = &*{v}g;\n"
                        f"{inner(v)}}}\n")
            raise ValueError(g)
        kind = inst["kind"]
        fs = inst["fields"]
        flat = inst["flat"]

        def sub(i):
            return path if flat else f"crate::vrt::pj(&{path}, {i})"
        if kind == "tuple":
            return "".join(self.stmts(f["inst"], f"&({expr}).{i}", sub(i)) for i, f in enumerate(fs))
        if kind in ("Range", "RangeFrom", "RangeTo"):
            names = {"Range": ["start", "end"], "RangeFrom": ["start"], "RangeTo": ["end"]}[kind]
            return "".join(self.stmts(f["inst"], f"&({expr}).{n}", sub(i)) for i, (f, n) in enumerate(zip(fs, names)))
        if kind == "RangeInclusive":
            return (self.stmts(fs[0]["inst"], f"({expr}).start()", sub(0))
                    + self.stmts(fs[1]["inst"], f"({expr}).end()", sub(1)))
        if kind == "Result":
            a, b = self.var(), self.var()
            return (f"match ({expr}) {{ Ok({a}) => {{ out.push((format!(\"{{}}#\", {path}), \"0\".into()));\n"
                    f"{self.stmts(fs[0]['inst'], a, sub(0))}}} Err({b}) => {{ out.push((format!(\"{{}}#\", {path}), \"1\".into()));\n"
                    f"{self.stmts(fs[1]['inst'], b, sub(1))}}} }}\n")
        if kind == "Bound":
            a, b = self.var(), self.var()
            return (f"match ({expr}) {{ core::ops::Bound::Included({a}) => {{ out.push((format!(\"{{}}#\", {path}), \"0\".into()));\n"
                    f"{self.stmts(fs[0]['inst'], a, sub(0))}}} core::ops::Bound::Excluded({b}) => {{ "
                    f"out.push((format!(\"{{}}#\", {path}), \"1\".into()));\n{self.stmts(fs[1]['inst'], b, sub(1))}}} "
                    f"core::ops::Bound::Unbounded => out.push((format!(\"{{}}#\", {path}), \"x\".into())), }}\n")
        t = inst["spec"]
        if kind == "struct":
            out = ""
            for i, fi in enumerate(fs):
                f = fi["f"]
                store = f"slot_{f.name}" if f.defer else f.name
                out += self.stmts(fi["inst"], f"&({expr}).{store}", sub(i))
            return out
        if kind == "tstruct":
            out = ""
            idx = [j for j, f in enumerate(t.fields) if not f.skip]
            for i, (fi, j) in enumerate(zip(fs, idx)):
                out += self.stmts(fi["inst"], f"&({expr}).{j}", sub(i))
            return out
        if kind == "enum":
            arms = ""
            for i, fi in enumerate(fs):
                v = t.variants[fi["variant"]]
                x = self.var()
                arms += (f"{t.rust_name}::{v.name}({x}, ..) => {{ out.push((format!(\"{{}}#\", {path}), \"{i}\".into()));\n"
                         f"{self.stmts(fi['inst'], x, sub(i))}}}\n")
            arms += f"#[allow(unreachable_patterns)] _ => out.push((format!(\"{{}}#\", {path}), \"x\".into())),\n"
            return f"match ({expr}) {{\n{arms}}}\n"
        raise ValueError(kind)


# ------------------------------------------------------------------------------- Lean tree text

def attrs_text(f):
    if f is None:
        return "a:0:-:-:-:-:0:0:0"
    d = f.deny or {}

    def m(k):
        return cp(d[k]) if k in d else "-"
    return (f"a:{getattr(f, 'aid', 0)}:{m('serialize')}:{m('deserialize')}:{m('ref_any')}:{m('mut_any')}:"
            f"{int(bool(f.get))}:{int(bool(f.get_mut))}:{int(bool(f.validate))}")


def tree_text(inst):
    k = inst["k"]
    if k == "leaf":
        kind = {"leaf": f"l:{inst['ty']}", "strleaf": "s:Alpha,Beta,Gamma,alpha", "deny": f"d:{inst['ty']}"}[inst["lk"]]
        return f"L {kind} {val_text(inst['ty'], inst['v'])}"
    if k == "array":
        if inst["fromfn"]:
            return f"R {inst['n']} {tree_text(inst['elems'][0])}"
        return f"A {inst['n']} " + " ".join(tree_text(e) for e in inst["elems"])
    if k == "gate":
        return f"G {inst['g']} {int(inst['closed'])} {tree_text(inst['inner'])}"
    names = inst["names"]
    lk = ("n:" + ",".join(names)) if names is not None else f"u:{len(inst['fields'])}"
    act = "-" if inst["active"] is None else str(inst["active"])
    fs = " ".join(f"{attrs_text(f['f'])} {tree_text(f['inst'])}" for f in inst["fields"])
    return f"N {int(inst['flat'])} {act} {lk} {len(inst['fields'])} {fs}"


# ------------------------------------------------------------------------------- JSON projection (for the oracle)

def inst_json(inst):
    k = inst["k"]
    if k == "leaf":
        return {"k": "leaf", "lk": inst["lk"], "ty": inst["ty"], "v": inst["v"]}
    if k == "array":
        return {"k": "array", "elems": [inst_json(e) for e in inst["elems"]]}
    if k == "gate":
        return {"k": "gate", "g": inst["g"], "closed": inst["closed"], "alt": inst["alt"], "inner": inst_json(inst["inner"])}
    fs = []
    for f in inst["fields"]:
        a = f["f"]
        fs.append({"aid": getattr(a, "aid", 0) if a else 0,
                   "deny": dict(a.deny) if a else {},
                   "get": bool(a and a.get), "get_mut": bool(a and a.get_mut), "validate": bool(a and a.validate),
                   "inst": inst_json(f["inst"])})
    return {"k": "node", "kind": inst["kind"], "flat": inst["flat"], "active": inst["active"], "names": inst["names"],
            "fields": fs}
