"""Leaf value universe of the corpus: per leaf type sample values as (Rust expr, canonical
text), JSON / postcard renderings for payload generation (Python side, independent of the
Lean codec model), and the model's type names."""
import json
import struct

from spec import LEAF_TYPES  # noqa: F401


def cp(s):
    return "e" if s == "" else ".".join(str(ord(c)) for c in s)


def f32bits(x):
    return struct.unpack("<I", struct.pack("<f", x))[0]


def f64bits(x):
    return struct.unpack("<Q", struct.pack("<d", x))[0]


INT_RANGES = {"u8": (0, 2**8 - 1), "u16": (0, 2**16 - 1), "u32": (0, 2**32 - 1), "u64": (0, 2**64 - 1),
              "usize": (0, 2**64 - 1), "i8": (-2**7, 2**7 - 1), "i16": (-2**15, 2**15 - 1),
              "i32": (-2**31, 2**31 - 1), "i64": (-2**63, 2**63 - 1)}

# python value model: ints -> int, bool, ("f32", float), str, None / ("some", v), list, (), {"a":..,"b":..}, ("var", i)
SAMPLES = {
    "u8": [7, 255, 0], "u16": [513, 65535, 0], "u32": [70000, 2**32 - 1, 1], "u64": [2**40 + 3, 2**64 - 1, 0],
    "usize": [12345, 2**64 - 1], "i8": [-5, 127, -128], "i16": [-300, 32767, -32768], "i32": [-70000, 2**31 - 1, -2**31],
    "i64": [-2**40, 2**63 - 1, -2**63], "bool": [True, False],
    "f32": [("f32", 1.5), ("f32", -0.1), ("f32", 1e-45), ("f32", 3.4028235e38)],
    "f64": [("f64", 2.25), ("f64", 0.1), ("f64", 5e-324), ("f64", -1.7976931348623157e308)],
    "string": ["héllo", "", "😀 x"], "hstr8": ["ab", "", "12345678"],
    "opti32": [("some", -3), None, ("some", 2**31 - 1)], "arr3i16": [[1, -2, 3], [0, 0, 0], [32767, -32768, 5]],
    "unit": [()], "sstruct": [{"a": 1, "b": True}, {"a": 255, "b": False}], "uenum": [("var", 1), ("var", 0), ("var", 2)],
    "strleaf": [("var", 1), ("var", 0), ("var", 2), ("var", 3)],
}
UENUM = ["Red", "Green", "Blue"]
STRE = ["Alpha", "Beta", "Gamma", "alpha"]


def rust_expr(ty, v):
    if ty in INT_RANGES:
        return f"{v}{ty}"
    if ty == "bool":
        return "true" if v else "false"
    if ty == "f32":
        return f"f32::from_bits({f32bits(v[1])}u32)"
    if ty == "f64":
        return f"f64::from_bits({f64bits(v[1])}u64)"
    if ty == "string":
        return f"String::from({json.dumps(v, ensure_ascii=False)})"
    if ty == "hstr8":
        return f"heapless::String::<8>::try_from({json.dumps(v, ensure_ascii=False)}).unwrap()"
    if ty == "opti32":
        return "None" if v is None else f"Some({v[1]}i32)"
    if ty == "arr3i16":
        return "[" + ", ".join(f"{x}i16" for x in v) + "]"
    if ty == "unit":
        return "()"
    if ty == "sstruct":
        return f"crate::gen_rt::SerdeS {{ a: {v['a']}, b: {'true' if v['b'] else 'false'} }}"
    if ty == "uenum":
        return f"crate::gen_rt::SerdeE::{UENUM[v[1]]}"
    if ty == "strleaf":
        return f"crate::gen_rt::StrE::{STRE[v[1]]}"
    raise ValueError(ty)


def val_text(ty, v):
    """canonical value text (same grammar in rt.rs SnapV and the Lean driver)"""
    if ty in INT_RANGES:
        return f"i{v}"
    if ty == "bool":
        return "b1" if v else "b0"
    if ty == "f32":
        return f"f{f32bits(v[1])}"
    if ty == "f64":
        return f"f{f64bits(v[1])}"
    if ty in ("string", "hstr8"):
        return "s" + cp(v)
    if ty == "opti32":
        return "n" if v is None else f"oi{v[1]}"
    if ty == "arr3i16":
        return "A(" + ",".join(f"i{x}" for x in v) + ")"
    if ty == "unit":
        return "u"
    if ty == "sstruct":
        return f"T(i{v['a']},b{1 if v['b'] else 0})"
    if ty in ("uenum", "strleaf"):
        return f"v{v[1]}"
    raise ValueError(ty)


def json_text(ty, v):
    """canonical JSON text of a value (what serde-json-core produces); None for floats"""
    if ty in INT_RANGES:
        return str(v)
    if ty == "bool":
        return "true" if v else "false"
    if ty in ("f32", "f64"):
        return None
    if ty in ("string", "hstr8"):
        return '"' + v + '"'
    if ty == "opti32":
        return "null" if v is None else str(v[1])
    if ty == "arr3i16":
        return "[" + ",".join(str(x) for x in v) + "]"
    if ty == "unit":
        return "null"
    if ty == "sstruct":
        return '{"a":%d,"b":%s}' % (v["a"], "true" if v["b"] else "false")
    if ty == "uenum":
        return '"' + UENUM[v[1]] + '"'
    if ty == "strleaf":
        return '"' + STRE[v[1]] + '"'
    raise ValueError(ty)


def varint(n):
    out = []
    while n >= 128:
        out.append(n % 128 + 128)
        n //= 128
    out.append(n)
    return out


def zigzag(v):
    return 2 * v if v >= 0 else -2 * v - 1


def postcard_bytes(ty, v):
    if ty in ("u8",):
        return [v]
    if ty == "i8":
        return [v % 256]
    if ty in ("u16", "u32", "u64", "usize"):
        return varint(v)
    if ty in ("i16", "i32", "i64"):
        return varint(zigzag(v))
    if ty == "bool":
        return [1 if v else 0]
    if ty == "f32":
        return list(struct.pack("<f", v[1]))
    if ty == "f64":
        return list(struct.pack("<d", v[1]))
    if ty in ("string", "hstr8"):
        b = list(v.encode())
        return varint(len(b)) + b
    if ty == "opti32":
        return [0] if v is None else [1] + varint(zigzag(v[1]))
    if ty == "arr3i16":
        return sum((varint(zigzag(x)) for x in v), [])
    if ty == "unit":
        return []
    if ty == "sstruct":
        return [v["a"], 1 if v["b"] else 0]
    if ty in ("uenum",):
        return varint(v[1])
    if ty == "strleaf":
        b = list(STRE[v[1]].encode())
        return varint(len(b)) + b
    raise ValueError(ty)
