//! Hand-written support for the generated corpus: leaf value types, the accessor /
//! validator functions referenced from `#[tree(get=…, get_mut=…, validate=…)]`,
//! their gate switches and the call log.
#![allow(dead_code)]
use serde::{Deserialize, Serialize};
use std::cell::RefCell;
use std::collections::HashMap;

#[derive(Debug, Clone, Copy, PartialEq, Default, Serialize, Deserialize)]
pub struct SerdeS {
    pub a: u8,
    pub b: bool,
}

#[derive(Debug, Clone, Copy, PartialEq, Default, Serialize, Deserialize)]
pub enum SerdeE {
    #[default]
    Red,
    Green,
    Blue,
}

#[derive(Debug, Clone, Copy, PartialEq, Default, strum::AsRefStr, strum::EnumString)]
#[allow(non_camel_case_types)]
pub enum StrE {
    #[default]
    Alpha,
    Beta,
    Gamma,
    /// differs from `Alpha` only in ASCII case
    alpha,
}

/// behaviour of one generated callback in the current case
#[derive(Debug, Clone, Copy, PartialEq)]
pub enum Gate {
    Ok,
    Fail,
    Replace(usize),
}

#[derive(Debug, Clone, PartialEq)]
pub enum Ev {
    Get(u32),
    GetMut(u32),
    Validate(u32, usize),
}

thread_local! {
    pub static GET: RefCell<HashMap<u32, Gate>> = RefCell::new(HashMap::new());
    pub static GETMUT: RefCell<HashMap<u32, Gate>> = RefCell::new(HashMap::new());
    pub static VAL: RefCell<HashMap<u32, Gate>> = RefCell::new(HashMap::new());
    pub static LOG: RefCell<Vec<Ev>> = const { RefCell::new(Vec::new()) };
}

pub fn reset() {
    GET.with(|g| g.borrow_mut().clear());
    GETMUT.with(|g| g.borrow_mut().clear());
    VAL.with(|g| g.borrow_mut().clear());
    LOG.with(|l| l.borrow_mut().clear());
}

pub fn take_log() -> Vec<Ev> {
    LOG.with(|l| std::mem::take(&mut *l.borrow_mut()))
}

const GMSG: [&str; 8] = ["g0", "g1", "g2", "g3", "g4", "g5", "g6", "g7"];
const MMSG: [&str; 8] = ["m0", "m1", "m2", "m3", "m4", "m5", "m6", "m7"];
const VMSG: [&str; 8] = ["v0", "v1", "v2", "v3", "v4", "v5", "v6", "v7"];

pub fn acc<const ID: u32, T: ?Sized>(x: &T) -> Result<&T, &'static str> {
    LOG.with(|l| l.borrow_mut().push(Ev::Get(ID)));
    match GET.with(|g| g.borrow().get(&ID).copied()) {
        Some(Gate::Fail) => Err(GMSG[(ID % 8) as usize]),
        _ => Ok(x),
    }
}

pub fn accm<const ID: u32, T: ?Sized>(x: &mut T) -> Result<&mut T, &'static str> {
    LOG.with(|l| l.borrow_mut().push(Ev::GetMut(ID)));
    match GETMUT.with(|g| g.borrow().get(&ID).copied()) {
        Some(Gate::Fail) => Err(MMSG[(ID % 8) as usize]),
        _ => Ok(x),
    }
}

pub fn val<const ID: u32>(depth: usize) -> Result<usize, &'static str> {
    LOG.with(|l| l.borrow_mut().push(Ev::Validate(ID, depth)));
    match VAL.with(|g| g.borrow().get(&ID).copied()) {
        Some(Gate::Fail) => Err(VMSG[(ID % 8) as usize]),
        Some(Gate::Replace(k)) => Ok(k),
        _ => Ok(depth),
    }
}
