//! Case executor: reads `<stream> <case-id> <args…>` lines on stdin, runs the real
//! miniconf code in-process and prints `<case-id> <canonical outcome>`.
//! Contains no generation logic and no expectations.
use std::io::{BufRead, Write};

mod gen_rt;
mod gen_types;
mod mq;
mod pk;
mod rt;
mod st;
mod vrt;

fn handle(line: &str) -> String {
    let mut it = line.split_ascii_whitespace();
    let (Some(stream), Some(id)) = (it.next(), it.next()) else {
        return "? bad-op".into();
    };
    let args: Vec<&str> = it.collect();
    let out = match stream {
        "pk" => pk::run(&args),
        "st" => st::run(&args),
        "T" | "V" => "decl".into(),
        "mq" => std::panic::catch_unwind(|| mq::run(&args)).unwrap_or_else(|_| "panic".into()),
        "tv" => match args.as_slice() {
            [tid, state, rest @ ..] => match (tid.parse::<usize>(), state.parse::<usize>()) {
                (Ok(tid), Ok(state)) => std::panic::catch_unwind(std::panic::AssertUnwindSafe(|| gen_types::dispatch_tv(tid, state, rest)))
                    .unwrap_or_else(|_| "panic".into()),
                _ => "bad-op".into(),
            },
            _ => "bad-op".into(),
        },
        "tk" => match args.split_first() {
            Some((tid, rest)) => match tid.parse::<usize>() {
                Ok(tid) => std::panic::catch_unwind(|| gen_types::dispatch_tk(tid, rest)).unwrap_or_else(|_| "panic".into()),
                Err(_) => "bad-op".into(),
            },
            None => "bad-op".into(),
        },
        _ => "bad-op".into(),
    };
    format!("{id} {out}")
}

fn main() {
    // panics are caught per case and reported as an outcome; keep stderr quiet
    if std::env::var_os("VERIF_SHOW_PANIC").is_none() {
        std::panic::set_hook(Box::new(|_| {}));
    }
    let stdin = std::io::stdin();
    let stdout = std::io::stdout();
    let mut out = std::io::BufWriter::new(stdout.lock());
    for line in stdin.lock().lines() {
        let line = line.unwrap();
        if line.trim().is_empty() {
            continue;
        }
        writeln!(out, "{}", handle(&line)).unwrap();
    }
}
