//! Case executor: reads `<stream> <case-id> <args…>` lines on stdin, runs the real
//! miniconf code in-process and prints `<case-id> <canonical outcome>`.
//! Contains no generation logic and no expectations.
use std::io::{BufRead, Write};

mod gen_rt;
mod gen_types;
mod mq;
mod pk;
mod rt;
mod st;
mod vrt;

fn handle(line: &str) -> String {
    let mut it = line.split_ascii_whitespace();
    let (Some(stream), Some(id)) = (it.next(), it.next()) else {
        return "? bad-op".into();
    };
    let args: Vec<&str> = it.collect();
    let out = match stream {
        "pk" => pk::run(&args),
        "ic" => std::panic::catch_unwind(|| rt::op_iterclone(&args)).unwrap_or_else(|_| "panic".into()),
        "st" => st::run(&args),
        "T" | "V" => "decl".into(),
        "mq" => std::panic::catch_unwind(|| mq::run(&args)).unwrap_or_else(|_| {
            // where and why: lets a known finding be told apart from any other panic of the client
            let m = LAST_PANIC.with(|p| p.borrow().clone());
            let m: String = m.chars().map(|c| if c.is_whitespace() { '_' } else { c }).take(200).collect();
            format!("panic {m}")
        }),
        "tv" => match args.as_slice() {
            [tid, state, rest @ ..] => match (tid.parse::<usize>(), state.parse::<usize>()) {
                (Ok(tid), Ok(state)) => std::panic::catch_unwind(std::panic::AssertUnwindSafe(|| gen_types::dispatch_tv(tid, state, rest)))
                    .unwrap_or_else(|_| "panic".into()),
                _ => "bad-op".into(),
            },
            _ => "bad-op".into(),
        },
        "tk" => match args.split_first() {
            Some((tid, rest)) => match tid.parse::<usize>() {
                Ok(tid) => std::panic::catch_unwind(|| gen_types::dispatch_tk(tid, rest)).unwrap_or_else(|_| "panic".into()),
                Err(_) => "bad-op".into(),
            },
            None => "bad-op".into(),
        },
        _ => "bad-op".into(),
    };
    format!("{id} {out}")
}

thread_local! {
    static LAST_PANIC: std::cell::RefCell<String> = const { std::cell::RefCell::new(String::new()) };
}

fn main() {
    // panics are caught per case and reported as an outcome; keep stderr quiet
    if std::env::var_os("VERIF_SHOW_PANIC").is_none() {
        std::panic::set_hook(Box::new(|info| {
            let loc = info.location().map(|l| format!("{}:{}", l.file().rsplit('/').next().unwrap_or(""), l.line())).unwrap_or_default();
            let msg = info
                .payload()
                .downcast_ref::<String>()
                .cloned()
                .or_else(|| info.payload().downcast_ref::<&str>().map(|s| s.to_string()))
                .unwrap_or_default();
            LAST_PANIC.with(|p| *p.borrow_mut() = format!("{loc} {msg}"));
        }));
    }
    let stdin = std::io::stdin();
    let stdout = std::io::stdout();
    let mut out = std::io::BufWriter::new(stdout.lock());
    for line in stdin.lock().lines() {
        let line = line.unwrap();
        if line.trim().is_empty() {
            continue;
        }
        writeln!(out, "{}", handle(&line)).unwrap();
    }
}
