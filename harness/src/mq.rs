//! In-process harness driving the real `miniconf_mqtt::MqttClient` against an in-memory
//! TCP stack, a byte-level MQTT v5 broker stub and a mock clock.
//!
//! Entry point: [`run`]. See the event list in `Driver::event`.
#![allow(dead_code)]

use std::cell::{Cell, RefCell};
use std::collections::{HashMap, VecDeque};
use std::rc::Rc;

use miniconf::{json, Leaf, Path, Tree, TreeDeserializeOwned, TreeKey, TreeSerialize};
use miniconf_mqtt::minimq::{
    self,
    embedded_nal::{nb, TcpClientStack, TcpError, TcpErrorKind},
    embedded_time::{self, fraction::Fraction, Instant},
};

const PREFIX: &str = "dt/sinara/dev";
const DEPTH: usize = 4;
/// Upper bound on packets decoded per broker processing step.
const MAX_PACKETS_PER_STEP: usize = 4096;
/// Upper bound for `un<k>`.
const MAX_UPDATES: usize = 100_000;

// ---------------------------------------------------------------------------------------------
// Settings families
// ---------------------------------------------------------------------------------------------

/// Extension hook so that the driver can manipulate family specific runtime state
/// (only used for `Option` presence in family 1).
trait Fam: TreeKey + TreeSerialize + TreeDeserializeOwned + Default + Clone {
    fn special(&mut self, _cmd: &str) -> bool {
        false
    }
}

#[derive(Tree, Clone, Default)]
struct S0 {
    foo: Leaf<bool>,
    bar: Leaf<u32>,
}
impl Fam for S0 {}

#[derive(Tree, Clone, Default)]
struct Inner1 {
    x: Leaf<bool>,
    name: Leaf<heapless::String<64>>,
}

#[derive(Tree, Clone, Default)]
struct S1 {
    a: Leaf<i32>,
    opt: Option<Leaf<u8>>,
    arr: [Leaf<u16>; 3],
    inner: Inner1,
    #[tree(validate=self.validate_v)]
    v: Leaf<u8>,
}

impl S1 {
    fn validate_v(&mut self, depth: usize) -> Result<usize, &'static str> {
        if *self.v > 100 {
            Err("too big")
        } else {
            Ok(depth)
        }
    }
}

impl Fam for S1 {
    fn special(&mut self, cmd: &str) -> bool {
        if cmd == "optnone" {
            self.opt = None;
            true
        } else if let Some(n) = cmd.strip_prefix("optsome") {
            match n.parse::<u8>() {
                Ok(n) => {
                    self.opt = Some(Leaf(n));
                    true
                }
                Err(_) => false,
            }
        } else {
            false
        }
    }
}

#[derive(Tree, Clone, Default)]
struct S2 {
    l0: Leaf<u8>,
    l1: Leaf<u8>,
    l2: Leaf<u8>,
    l3: Leaf<u8>,
    l4: Leaf<u8>,
    l5: Leaf<u8>,
}
impl Fam for S2 {}

/// family 3: an `Option` sub-tree with two leaves followed by siblings, an array with two-digit indices, a compound
/// leaf, a string long enough to exceed 128 bytes, and an enum with a skipped variant declared before retained ones
#[derive(Tree, Clone, Default)]
struct Pair3 {
    p: Leaf<u8>,
    q: Leaf<u8>,
}

thread_local! {
    /// while set, the validator of `mode/B` rejects every write (a validator on an enum variant's payload)
    static VAL_B_LOCK: std::cell::Cell<bool> = const { std::cell::Cell::new(false) };
}

fn val_b(depth: usize) -> Result<usize, &'static str> {
    if VAL_B_LOCK.with(|l| l.get()) {
        Err("b locked")
    } else {
        Ok(depth)
    }
}

#[derive(Tree, Clone, Default)]
enum Mode3 {
    #[default]
    Off,
    #[tree(skip)]
    Cal(u8),
    A(Leaf<u8>),
    B(#[tree(validate=val_b)] Leaf<u8>),
}

#[derive(Tree, Clone, Default)]
struct S3 {
    o: Option<Pair3>,
    lutab: [Leaf<u8>; 12],
    trip: Leaf<[i16; 3]>,
    text: Leaf<heapless::String<256>>,
    k: Leaf<u8>,
    mode: Mode3,
}
impl Fam for S3 {
    fn special(&mut self, cmd: &str) -> bool {
        if cmd == "optnone" {
            self.o = None;
            true
        } else if let Some(n) = cmd.strip_prefix("optsome") {
            match n.parse::<u8>() {
                Ok(n) => {
                    self.o = Some(Pair3 { p: Leaf(n), q: Leaf(n) });
                    true
                }
                Err(_) => false,
            }
        } else if cmd == "vlock0" || cmd == "vlock1" {
            VAL_B_LOCK.with(|l| l.set(cmd == "vlock1"));
            true
        } else if let Some(m) = cmd.strip_prefix("mode") {
            let (v, n) = m.split_at(1.min(m.len()));
            let n: u8 = n.parse().unwrap_or(0);
            self.mode = match v {
                "o" => Mode3::Off,
                "c" => Mode3::Cal(n),
                "a" => Mode3::A(Leaf(n)),
                "b" => Mode3::B(Leaf(n)),
                _ => return false,
            };
            true
        } else {
            false
        }
    }
}

// ---------------------------------------------------------------------------------------------
// Token encoding helpers
// ---------------------------------------------------------------------------------------------

fn enc_cp(s: &str) -> String {
    if s.is_empty() {
        return "e".to_string();
    }
    let v: Vec<String> = s.chars().map(|c| (c as u32).to_string()).collect();
    v.join(".")
}

fn dec_cp(tok: &str) -> Option<String> {
    if tok == "e" || tok.is_empty() {
        return Some(String::new());
    }
    let mut out = String::new();
    for part in tok.split('.') {
        let n: u32 = part.parse().ok()?;
        out.push(char::from_u32(n)?);
    }
    Some(out)
}

fn enc_hex(b: &[u8]) -> String {
    if b.is_empty() {
        return "e".to_string();
    }
    b.iter().map(|x| format!("{:02x}", x)).collect()
}

fn dec_hex(tok: &str) -> Option<Vec<u8>> {
    if tok == "e" || tok.is_empty() {
        return Some(Vec::new());
    }
    if tok.len() % 2 != 0 || !tok.is_ascii() {
        return None;
    }
    let mut out = Vec::new();
    for i in (0..tok.len()).step_by(2) {
        out.push(u8::from_str_radix(&tok[i..i + 2], 16).ok()?);
    }
    Some(out)
}

fn enc_payload(b: &[u8]) -> String {
    match std::str::from_utf8(b) {
        Ok(s) => enc_cp(s),
        Err(_) => format!("x{}", enc_hex(b)),
    }
}

/// Plain JSON text, with ' ', ',', '%' and bytes outside 0x21..=0x7e escaped as %XX so that the
/// END token stays a single, comma separable token.
fn esc_json(b: &[u8]) -> String {
    let mut out = String::new();
    for &c in b {
        if c == b' ' || c == b',' || c == b'%' || !(0x21..=0x7e).contains(&c) {
            out.push_str(&format!("%{:02X}", c));
        } else {
            out.push(c as char);
        }
    }
    out
}

// ---------------------------------------------------------------------------------------------
// Mock clock
// ---------------------------------------------------------------------------------------------

/// A 32-bit millisecond counter (it wraps after 49.7 days, as on a typical embedded target): the elapsed time of the
/// history (first cell, monotone, what the traces report) plus a start offset (second cell) that lets a history begin
/// shortly before the counter wraps.
#[derive(Clone)]
struct MockClock(Rc<Cell<u64>>, Rc<Cell<u64>>);

impl embedded_time::Clock for MockClock {
    type T = u32;
    const SCALING_FACTOR: Fraction = Fraction::new(1, 1000);
    fn try_now(&self) -> Result<Instant<Self>, embedded_time::clock::Error> {
        Ok(Instant::new((self.0.get().wrapping_add(self.1.get()) & 0xFFFF_FFFF) as u32))
    }
}

// ---------------------------------------------------------------------------------------------
// World: in-memory TCP link + broker stub
// ---------------------------------------------------------------------------------------------

struct World {
    // --- link ---
    next_sock: u32,
    /// The socket id of the currently established TCP connection (if any).
    cur_sock: Option<u32>,
    /// The current connection was broken by `drop`.
    broken: bool,
    /// broker -> client bytes
    rx: VecDeque<u8>,
    /// client -> broker bytes not yet decoded
    tx: Vec<u8>,
    /// Remaining bytes the socket accepts (None = unlimited).
    txcap: Option<usize>,
    /// per-call limit of `send()`: a slow link that takes a few bytes at a time (partial writes)
    txchunk: Option<usize>,

    // --- broker ---
    log: Vec<String>,
    auto_ack: bool,
    auto_suback: bool,
    /// encode the properties of a request PUBLISH in reverse order (user property, correlation data, response topic)
    props_reversed: bool,
    pingresp: bool,
    sess_next: bool,
    recvmax_next: u16,
    /// Client QoS1 publications (packet ids) not yet acknowledged, oldest first.
    unacked: VecDeque<u16>,
    /// Withheld SUBACKs: (packet id, number of filters).
    pending_subacks: VecDeque<(u16, usize)>,
    /// Packet id allocator for broker -> client QoS1 publishes.
    out_pid_next: u16,
    /// pid -> ordinal of broker -> client QoS1 publishes.
    out_ordinals: HashMap<u16, usize>,
    out_count: usize,
}

impl World {
    fn new() -> Self {
        Self {
            next_sock: 0,
            cur_sock: None,
            broken: false,
            rx: VecDeque::new(),
            tx: Vec::new(),
            txcap: None,
            txchunk: None,
            log: Vec::new(),
            auto_ack: true,
            auto_suback: true,
            props_reversed: false,
            pingresp: true,
            sess_next: false,
            recvmax_next: 0,
            unacked: VecDeque::new(),
            pending_subacks: VecDeque::new(),
            out_pid_next: 1,
            out_ordinals: HashMap::new(),
            out_count: 0,
        }
    }

    fn link_up(&self) -> bool {
        self.cur_sock.is_some() && !self.broken
    }

    /// Forget all per-connection state.
    fn reset_connection_state(&mut self) {
        self.rx.clear();
        self.tx.clear();
        self.unacked.clear();
        self.pending_subacks.clear();
    }

    fn to_client(&mut self, bytes: &[u8]) {
        if self.link_up() {
            self.rx.extend(bytes.iter().copied());
        }
    }

    // --- encoding helpers ---

    fn push_varint(out: &mut Vec<u8>, mut v: usize) {
        loop {
            let mut b = (v % 128) as u8;
            v /= 128;
            if v > 0 {
                b |= 0x80;
            }
            out.push(b);
            if v == 0 {
                break;
            }
        }
    }

    fn push_str(out: &mut Vec<u8>, s: &[u8]) {
        out.extend_from_slice(&(s.len() as u16).to_be_bytes());
        out.extend_from_slice(s);
    }

    fn packet(header: u8, body: &[u8]) -> Vec<u8> {
        let mut out = vec![header];
        Self::push_varint(&mut out, body.len());
        out.extend_from_slice(body);
        out
    }

    fn send_connack(&mut self) {
        let mut body = vec![self.sess_next as u8, 0x00];
        if self.recvmax_next != 0 {
            body.push(3);
            body.push(0x21);
            body.extend_from_slice(&self.recvmax_next.to_be_bytes());
        } else {
            body.push(0);
        }
        // One-shot settings.
        self.sess_next = false;
        self.recvmax_next = 0;
        let p = Self::packet(0x20, &body);
        self.to_client(&p);
    }

    fn send_suback(&mut self, pid: u16, n: usize) {
        let mut body = pid.to_be_bytes().to_vec();
        body.push(0); // no properties
        body.extend(std::iter::repeat(0u8).take(n));
        let p = Self::packet(0x90, &body);
        self.to_client(&p);
    }

    fn send_puback(&mut self, pid: u16) {
        let p = Self::packet(0x40, &pid.to_be_bytes());
        self.to_client(&p);
    }

    fn flush_acks(&mut self, n: usize) {
        for _ in 0..n {
            let Some(pid) = self.unacked.pop_front() else {
                break;
            };
            self.send_puback(pid);
        }
    }

    fn flush_subacks(&mut self) {
        while let Some((pid, n)) = self.pending_subacks.pop_front() {
            self.send_suback(pid, n);
        }
    }

    #[allow(clippy::too_many_arguments)]
    fn send_publish(
        &mut self,
        topic: &str,
        payload: &[u8],
        resp: Option<&str>,
        cd: Option<&[u8]>,
        qos: u8,
        retain: bool,
        user: Option<(&str, &str)>,
    ) {
        if !self.link_up() {
            return;
        }
        let mut body = Vec::new();
        Self::push_str(&mut body, topic.as_bytes());
        if qos > 0 {
            let pid = self.out_pid_next;
            self.out_pid_next = if pid == u16::MAX { 1 } else { pid + 1 };
            self.out_count += 1;
            self.out_ordinals.insert(pid, self.out_count);
            body.extend_from_slice(&pid.to_be_bytes());
        }
        let mut plist: Vec<Vec<u8>> = Vec::new();
        if let Some(rt) = resp {
            let mut e = vec![0x08];
            Self::push_str(&mut e, rt.as_bytes());
            plist.push(e);
        }
        if let Some(cd) = cd {
            let mut e = vec![0x09];
            Self::push_str(&mut e, cd);
            plist.push(e);
        }
        if let Some((k, v)) = user {
            let mut e = vec![0x26];
            Self::push_str(&mut e, k.as_bytes());
            Self::push_str(&mut e, v.as_bytes());
            plist.push(e);
        }
        if self.props_reversed {
            plist.reverse();
        }
        let props: Vec<u8> = plist.concat();
        Self::push_varint(&mut body, props.len());
        body.extend_from_slice(&props);
        body.extend_from_slice(payload);
        let header = 0x30 | ((qos & 3) << 1) | retain as u8;
        let p = Self::packet(header, &body);
        self.to_client(&p);
    }

    // --- decoding of client packets ---

    /// Decode everything complete in `tx`; keep partial packets.
    fn process(&mut self) {
        for _ in 0..MAX_PACKETS_PER_STEP {
            if self.tx.is_empty() {
                break;
            }
            // Fixed header
            let mut len = 0usize;
            let mut hdr = None;
            for i in 0..4 {
                let Some(&b) = self.tx.get(1 + i) else {
                    break;
                };
                len += ((b & 0x7f) as usize) << (7 * i);
                if b & 0x80 == 0 {
                    hdr = Some(2 + i);
                    break;
                }
            }
            let Some(hdr) = hdr else {
                if self.tx.len() >= 5 {
                    self.log.push("BAD".into());
                    self.tx.clear();
                }
                break;
            };
            if self.tx.len() < hdr + len {
                break;
            }
            let pkt: Vec<u8> = self.tx.drain(..hdr + len).collect();
            let first = pkt[0];
            if self.handle_packet(first, &pkt[hdr..]).is_none() {
                self.log.push(format!("BAD({})", first >> 4));
            }
        }
        if self.auto_ack {
            let n = self.unacked.len();
            self.flush_acks(n);
        }
        if self.auto_suback {
            self.flush_subacks();
        }
    }

    fn handle_packet(&mut self, first: u8, body: &[u8]) -> Option<()> {
        let mut r = Reader { b: body, i: 0 };
        match first >> 4 {
            1 => {
                let _name = r.bin()?;
                let _version = r.u8()?;
                let flags = r.u8()?;
                let keepalive = r.u16()?;
                let _props = r.props()?;
                let _client_id = r.bin()?;
                let clean = (flags >> 1) & 1;
                let will = if flags & 0x04 != 0 {
                    let _wprops = r.props()?;
                    let topic = r.bin()?;
                    let payload = r.bin()?;
                    format!(
                        "{}|{}|q{}|r{}",
                        enc_payload(topic),
                        enc_payload(payload),
                        (flags >> 3) & 3,
                        (flags >> 5) & 1
                    )
                } else {
                    "-".to_string()
                };
                self.log.push(format!(
                    "CONNECT(clean={},keepalive={},will={})",
                    clean, keepalive, will
                ));
                // New MQTT connection: forget per-connection broker state.
                self.unacked.clear();
                self.pending_subacks.clear();
                self.send_connack();
            }
            3 => {
                let dup = (first >> 3) & 1;
                let qos = (first >> 1) & 3;
                let retain = first & 1;
                let topic = r.bin()?;
                let pid = if qos > 0 { Some(r.u16()?) } else { None };
                let props = r.props()?;
                let payload = r.rest();
                let mut code = "-".to_string();
                let mut cd = "-".to_string();
                let mut rt = "-".to_string();
                // every user property, raw: `<key>~<value>` (payload encoding) joined by ';'
                let up: Vec<String> = props
                    .iter()
                    .filter_map(|p| match p {
                        Prop::Pair(k, v) => Some(format!("{}~{}", enc_payload(k), enc_payload(v))),
                        _ => None,
                    })
                    .collect();
                let up = if up.is_empty() { "-".to_string() } else { up.join(";") };
                for p in &props {
                    match p {
                        Prop::Str(0x08, s) => rt = enc_payload(s),
                        Prop::Str(0x09, s) => cd = enc_hex(s),
                        Prop::Pair(k, v) if k.as_slice() == b"code" => {
                            code = String::from_utf8_lossy(v).into_owned()
                        }
                        _ => {}
                    }
                }
                self.log.push(format!(
                    "PUB(t={},p={},q={},r={},d={},code={},cd={},rt={},up={})",
                    enc_payload(topic),
                    enc_payload(payload),
                    qos,
                    retain,
                    dup,
                    code,
                    cd,
                    rt,
                    up
                ));
                if qos == 1 {
                    self.unacked.push_back(pid?);
                }
            }
            4 => {
                let pid = r.u16()?;
                match self.out_ordinals.remove(&pid) {
                    Some(n) => self.log.push(format!("PUBACK({})", n)),
                    None => self.log.push("PUBACK(?)".into()),
                }
            }
            8 => {
                let pid = r.u16()?;
                let _props = r.props()?;
                let mut filters = Vec::new();
                while !r.done() {
                    let f = r.bin()?;
                    let o = r.u8()?;
                    filters.push(format!("{},nl={},q={}", enc_payload(f), (o >> 2) & 1, o & 3));
                }
                self.log.push(format!("SUB({})", filters.join(";")));
                self.pending_subacks.push_back((pid, filters.len()));
            }
            12 => {
                self.log.push("PING".into());
                if self.pingresp {
                    self.to_client(&[0xd0, 0x00]);
                }
            }
            14 => {
                self.log.push("DISCONNECT".into());
            }
            t => {
                self.log.push(format!("PKT({})", t));
            }
        }
        Some(())
    }
}

enum Prop {
    Num(u8, u32),
    Str(u8, Vec<u8>),
    Pair(Vec<u8>, Vec<u8>),
}

struct Reader<'a> {
    b: &'a [u8],
    i: usize,
}

impl<'a> Reader<'a> {
    fn done(&self) -> bool {
        self.i >= self.b.len()
    }
    fn take(&mut self, n: usize) -> Option<&'a [u8]> {
        if self.i + n > self.b.len() {
            return None;
        }
        let s = &self.b[self.i..self.i + n];
        self.i += n;
        Some(s)
    }
    fn rest(&mut self) -> &'a [u8] {
        let s = &self.b[self.i..];
        self.i = self.b.len();
        s
    }
    fn u8(&mut self) -> Option<u8> {
        Some(self.take(1)?[0])
    }
    fn u16(&mut self) -> Option<u16> {
        let s = self.take(2)?;
        Some(u16::from_be_bytes([s[0], s[1]]))
    }
    fn u32(&mut self) -> Option<u32> {
        let s = self.take(4)?;
        Some(u32::from_be_bytes([s[0], s[1], s[2], s[3]]))
    }
    fn varint(&mut self) -> Option<u32> {
        let mut v = 0u32;
        for i in 0..4 {
            let b = self.u8()?;
            v |= ((b & 0x7f) as u32) << (7 * i);
            if b & 0x80 == 0 {
                return Some(v);
            }
        }
        None
    }
    fn bin(&mut self) -> Option<&'a [u8]> {
        let n = self.u16()? as usize;
        self.take(n)
    }
    fn props(&mut self) -> Option<Vec<Prop>> {
        let n = self.varint()? as usize;
        let block = self.take(n)?;
        let mut r = Reader { b: block, i: 0 };
        let mut out = Vec::new();
        while !r.done() {
            let id = r.varint()?;
            let id8 = id as u8;
            let p = match id {
                0x01 | 0x17 | 0x19 | 0x24 | 0x25 | 0x28 | 0x29 | 0x2a => {
                    Prop::Num(id8, r.u8()? as u32)
                }
                0x13 | 0x21 | 0x22 | 0x23 => Prop::Num(id8, r.u16()? as u32),
                0x02 | 0x11 | 0x18 | 0x27 => Prop::Num(id8, r.u32()?),
                0x0b => Prop::Num(id8, r.varint()?),
                0x03 | 0x08 | 0x09 | 0x12 | 0x15 | 0x16 | 0x1a | 0x1c | 0x1f => {
                    Prop::Str(id8, r.bin()?.to_vec())
                }
                0x26 => {
                    let k = r.bin()?.to_vec();
                    let v = r.bin()?.to_vec();
                    Prop::Pair(k, v)
                }
                _ => return None,
            };
            out.push(p);
        }
        Some(out)
    }
}

// ---------------------------------------------------------------------------------------------
// TcpClientStack over the shared world
// ---------------------------------------------------------------------------------------------

#[derive(Debug)]
struct NetErr;

impl TcpError for NetErr {
    fn kind(&self) -> TcpErrorKind {
        TcpErrorKind::PipeClosed
    }
}

struct Stack(Rc<RefCell<World>>);

impl TcpClientStack for Stack {
    type TcpSocket = u32;
    type Error = NetErr;

    fn socket(&mut self) -> Result<u32, NetErr> {
        let mut w = self.0.borrow_mut();
        w.next_sock += 1;
        Ok(w.next_sock)
    }

    fn connect(
        &mut self,
        socket: &mut u32,
        _remote: core::net::SocketAddr,
    ) -> nb::Result<(), NetErr> {
        // Connecting always succeeds immediately and always yields a *fresh* connection
        // (also when minimq re-connects an already connected socket).
        let mut w = self.0.borrow_mut();
        w.cur_sock = Some(*socket);
        w.broken = false;
        w.reset_connection_state();
        Ok(())
    }

    fn send(&mut self, socket: &mut u32, buffer: &[u8]) -> nb::Result<usize, NetErr> {
        let mut w = self.0.borrow_mut();
        if w.cur_sock != Some(*socket) || w.broken {
            return Err(nb::Error::Other(NetErr));
        }
        let n = match w.txcap {
            None => buffer.len(),
            Some(0) if !buffer.is_empty() => return Err(nb::Error::WouldBlock),
            Some(cap) => cap.min(buffer.len()),
        };
        let n = match w.txchunk {
            Some(c) => n.min(c.max(1)),
            None => n,
        };
        if let Some(cap) = w.txcap.as_mut() {
            *cap -= n;
        }
        w.tx.extend_from_slice(&buffer[..n]);
        Ok(n)
    }

    fn receive(&mut self, socket: &mut u32, buffer: &mut [u8]) -> nb::Result<usize, NetErr> {
        let mut w = self.0.borrow_mut();
        if w.cur_sock != Some(*socket) || w.broken {
            return Err(nb::Error::Other(NetErr));
        }
        if w.rx.is_empty() || buffer.is_empty() {
            return Err(nb::Error::WouldBlock);
        }
        let n = buffer.len().min(w.rx.len());
        for (dst, src) in buffer.iter_mut().zip(w.rx.drain(..n)) {
            *dst = src;
        }
        Ok(n)
    }

    fn close(&mut self, socket: u32) -> Result<(), NetErr> {
        let mut w = self.0.borrow_mut();
        if w.cur_sock == Some(socket) {
            w.cur_sock = None;
            w.broken = false;
            w.reset_connection_state();
        }
        Ok(())
    }
}

// ---------------------------------------------------------------------------------------------
// Driver
// ---------------------------------------------------------------------------------------------

type Client<'a, S> =
    miniconf_mqtt::MqttClient<'a, S, Stack, MockClock, minimq::broker::IpBroker, DEPTH>;

struct Driver<'a, S: Fam> {
    world: Rc<RefCell<World>>,
    time: Rc<Cell<u64>>,
    client: Client<'a, S>,
    settings: S,
    /// for every injected Set request that `json::set_by_key` refuses on a copy of the settings as they are at injection:
    /// `<topic>~<payload>~<Display of the error>` (what the Error response has to carry, computed outside the client)
    xerr: Vec<String>,
}

impl<S: Fam> Driver<'_, S> {
    fn log(&self, s: impl Into<String>) {
        self.world.borrow_mut().log.push(s.into());
    }

    fn update(&mut self) {
        let _ = miniconf_mqtt::verif::take();
        let now = self.time.get();
        let tok = match self.client.update(&mut self.settings) {
            Ok(true) => "U:t",
            Ok(false) => "U:f",
            Err(_) => "U:err",
        };
        // hook trace: environment observations made during this update + resulting state
        let tr = miniconf_mqtt::verif::take();
        let st = self.client.verif_state();
        self.log(format!("{}{{{};now={};st={}:{}}}", tok, tr.join(","), now, st.0, st.1 as u8));
        self.world.borrow_mut().process();
    }

    /// Handle one event token. Unknown / malformed tokens are logged as `?<token>`.
    fn event(&mut self, ev: &str) {
        if self.event_inner(ev).is_none() {
            self.log(format!("?{}", ev));
        }
        self.world.borrow_mut().process();
    }

    fn event_inner(&mut self, ev: &str) -> Option<()> {
        if ev == "u" {
            self.update();
        } else if let Some(k) = ev.strip_prefix("un") {
            let k: usize = k.parse().ok()?;
            for _ in 0..k.min(MAX_UPDATES) {
                self.update();
            }
        } else if let Some(ms) = ev.strip_prefix("adv") {
            let ms: u64 = ms.parse().ok()?;
            self.time.set(self.time.get().saturating_add(ms));
        } else if let Some(rest) = ev.strip_prefix("pub:") {
            let f: Vec<&str> = rest.split(':').collect();
            if f.len() < 6 || f.len() > 7 {
                return None;
            }
            let topic = dec_cp(f[0])?;
            let payload = dec_cp(f[1])?;
            if let Some(path) = topic.strip_prefix(PREFIX).and_then(|t| t.strip_prefix("/settings")) {
                if !payload.is_empty() {
                    let mut copy = self.settings.clone();
                    if let Err(e) = json::set_by_key(&mut copy, Path::<_, '/'>::from(path), payload.as_bytes()) {
                        self.xerr.push(format!("{}~{}~{}", f[0], f[1], enc_cp(&format!("{e}"))));
                    }
                }
            }
            let resp = if f[2] == "-" { None } else { Some(dec_cp(f[2])?) };
            let cd = if f[3] == "-" { None } else { Some(dec_hex(f[3])?) };
            let qos: u8 = f[4].parse().ok().filter(|q| *q <= 1)?;
            let retain: u8 = f[5].parse().ok().filter(|q| *q <= 1)?;
            let user = match f.get(6) {
                None => None,
                Some(u) => {
                    let (k, v) = u.split_once('~')?;
                    Some((dec_cp(k)?, dec_cp(v)?))
                }
            };
            self.world.borrow_mut().send_publish(
                &topic,
                payload.as_bytes(),
                resp.as_deref(),
                cd.as_deref(),
                qos,
                retain == 1,
                user.as_ref().map(|(k, v)| (k.as_str(), v.as_str())),
            );
        } else if ev == "ackall" {
            let mut w = self.world.borrow_mut();
            let n = w.unacked.len();
            w.flush_acks(n);
        } else if let Some(n) = ev.strip_prefix("ack") {
            let n: usize = n.parse().ok()?;
            self.world.borrow_mut().flush_acks(n);
        } else if ev == "auto0" {
            self.world.borrow_mut().auto_ack = false;
        } else if ev == "auto1" {
            self.world.borrow_mut().auto_ack = true;
        } else if ev == "prop0" {
            self.world.borrow_mut().props_reversed = false;
        } else if ev == "prop1" {
            self.world.borrow_mut().props_reversed = true;
        } else if ev == "suback0" {
            self.world.borrow_mut().auto_suback = false;
        } else if ev == "suback1" {
            self.world.borrow_mut().auto_suback = true;
        } else if ev == "subacknow" {
            self.world.borrow_mut().flush_subacks();
        } else if ev == "pingresp0" {
            self.world.borrow_mut().pingresp = false;
        } else if ev == "pingresp1" {
            self.world.borrow_mut().pingresp = true;
        } else if ev == "txchunkoff" {
            self.world.borrow_mut().txchunk = None;
        } else if let Some(n) = ev.strip_prefix("txchunk") {
            let n: usize = n.parse().ok()?;
            self.world.borrow_mut().txchunk = Some(n);
        } else if ev == "txcapoff" {
            self.world.borrow_mut().txcap = None;
        } else if let Some(n) = ev.strip_prefix("txcap") {
            let n: usize = n.parse().ok()?;
            self.world.borrow_mut().txcap = Some(n);
        } else if ev == "drop" {
            let mut w = self.world.borrow_mut();
            if w.cur_sock.is_some() {
                w.broken = true;
            }
            w.reset_connection_state();
        } else if let Some(v) = ev.strip_prefix("sess") {
            let v: u8 = v.parse().ok().filter(|q| *q <= 1)?;
            self.world.borrow_mut().sess_next = v == 1;
        } else if let Some(v) = ev.strip_prefix("recvmax") {
            let v: u16 = v.parse().ok()?;
            self.world.borrow_mut().recvmax_next = v;
        } else if let Some(p) = ev.strip_prefix("dump:") {
            let res = if p == "-" {
                self.client.dump(None)
            } else {
                let path = dec_cp(p)?;
                self.client.dump(Some(&path))
            };
            self.log(if res.is_ok() { "D:ok" } else { "D:err" });
        } else if ev == "reset" {
            self.client.reset();
        } else if let Some(rest) = ev.strip_prefix("set:") {
            let (p, j) = rest.split_once(':')?;
            let path = dec_cp(p)?;
            let data = dec_cp(j)?;
            let res = json::set(&mut self.settings, &path, data.as_bytes());
            self.log(if res.is_ok() { "S:ok" } else { "S:err" });
        } else if let Some(p) = ev.strip_prefix("get:") {
            let path = dec_cp(p)?;
            let mut buf = [0u8; 1024];
            match json::get(&self.settings, &path, &mut buf) {
                Ok(n) => self.log(format!("G:{}", enc_payload(&buf[..n]))),
                Err(_) => self.log("G:err"),
            }
        } else if self.settings.special(ev) {
            // family specific extension (optsome<n> / optnone for family 1)
        } else {
            return None;
        }
        Some(())
    }

    fn state_settings(&self) -> String {
        let mut out = Vec::new();
        for item in S::nodes::<Path<String, '/'>, DEPTH>() {
            let Ok((path, _node)) = item else {
                out.push("?".to_string());
                continue;
            };
            let path = path.into_inner();
            let mut buf = [0u8; 1024];
            let val = match json::get(&self.settings, &path, &mut buf) {
                Ok(n) => esc_json(&buf[..n]),
                Err(miniconf::Error::Traversal(miniconf::Traversal::Absent(_))) => {
                    "absent".to_string()
                }
                Err(_) => "err".to_string(),
            };
            out.push(format!("{}={}", path, val));
        }
        out.join(",")
    }
}

fn run_family<S: Fam>(bufsize: usize, events: &[&str]) -> String {
    VAL_B_LOCK.with(|l| l.set(false));
    let world = Rc::new(RefCell::new(World::new()));
    let time = Rc::new(Cell::new(0u64));
    // `clk<start>` as the first event: the value of the 32-bit clock when the history begins
    let (start, events) = match events.first().and_then(|e| e.strip_prefix("clk")).and_then(|v| v.parse::<u64>().ok()) {
        Some(v) => (v, &events[1..]),
        None => (0, events),
    };
    let offset = Rc::new(Cell::new(start));
    let mut buffer = vec![0u8; bufsize];
    let localhost: core::net::IpAddr = core::net::IpAddr::V4(core::net::Ipv4Addr::LOCALHOST);
    // `txmax<n>` next: the transmit buffer takes at most n bytes of the client's memory, so the session state (where
    // unacknowledged QoS 1 publications wait) holds several publications and `can_publish()` stays true for more than
    // one loop pass of `iter_list` / `iter_dump` per `update()` (with minimq's even split exactly one fits)
    let (txmax, events) = match events.first().and_then(|e| e.strip_prefix("txmax")).and_then(|v| v.parse::<usize>().ok()) {
        Some(v) => (Some(v), &events[1..]),
        None => (None, events),
    };
    // `pfx<k>` next: the device prefix is PREFIX followed by k more bytes (the constructor's topic-length assert and the
    // longest topic of a dump are probed with it; such histories are judged by their own oracle only)
    let (prefix, events): (&'static str, _) = match events.first().and_then(|e| e.strip_prefix("pfx")).and_then(|v| v.parse::<usize>().ok()) {
        Some(k) => (Box::leak(format!("{PREFIX}{}", "p".repeat(k.min(200))).into_boxed_str()), &events[1..]),
        None => (PREFIX, events),
    };
    let mut config =
        minimq::ConfigBuilder::<minimq::broker::IpBroker>::new(localhost.into(), &mut buffer);
    if let Some(n) = txmax {
        config = config.tx_buffer(minimq::config::BufferConfig::Maximum(n));
    }
    let client = match Client::<S>::new(
        Stack(world.clone()),
        prefix,
        MockClock(time.clone(), offset.clone()),
        config,
    ) {
        Ok(c) => c,
        Err(_) => return "NEWERR".to_string(),
    };
    let mut d = Driver {
        world: world.clone(),
        time,
        client,
        settings: S::default(),
        xerr: vec![],
    };
    for ev in events {
        d.event(ev);
    }
    let tail = format!("END state_settings={} xerr={}", d.state_settings(), if d.xerr.is_empty() { "-".to_string() } else { d.xerr.join(";") });
    let mut w = world.borrow_mut();
    w.log.push(tail);
    w.log.join(" ")
}

/// `args = [family, buffer_size, event, event, ...]`
pub fn run(args: &[&str]) -> String {
    let Some(fam) = args.first().and_then(|f| f.parse::<u32>().ok()) else {
        return "ARGERR".to_string();
    };
    let Some(bufsize) = args.get(1).and_then(|f| f.parse::<usize>().ok()) else {
        return "ARGERR".to_string();
    };
    let events = &args[2..];
    match fam {
        0 => run_family::<S0>(bufsize, events),
        1 => run_family::<S1>(bufsize, events),
        2 => run_family::<S2>(bufsize, events),
        3 => run_family::<S3>(bufsize, events),
        _ => "ARGERR".to_string(),
    }
}
