//! `pk` stream: raw `Packed` arithmetic.
use miniconf::Packed;
use std::num::NonZero;
use std::panic::{catch_unwind, AssertUnwindSafe};

fn num(s: &str) -> Option<usize> {
    s.parse::<u64>().ok().map(|v| v as usize)
}

fn op(p: &mut Packed, o: &[&str]) -> Option<String> {
    Some(match o {
        ["push", b, v] => {
            let (b, v) = (num(b)?, num(v)?);
            if b > u32::MAX as usize {
                return None;
            }
            match catch_unwind(AssertUnwindSafe(|| {
                let mut q = *p;
                (q.push_lsb(b as u32, v), q)
            })) {
                Err(_) => "panic".into(),
                Ok((None, q)) => {
                    *p = q;
                    "none".into()
                }
                Ok((Some(r), q)) => {
                    *p = q;
                    format!("some {} {}", q.get(), r)
                }
            }
        }
        ["pop", b] => {
            let b = num(b)?;
            if b > u32::MAX as usize {
                return None;
            }
            match catch_unwind(AssertUnwindSafe(|| {
                let mut q = *p;
                (q.pop_msb(b as u32), q)
            })) {
                Err(_) => "panic".into(),
                Ok((None, q)) => {
                    *p = q;
                    "none".into()
                }
                Ok((Some(r), q)) => {
                    *p = q;
                    format!("some {} {}", q.get(), r)
                }
            }
        }
        ["len"] => match catch_unwind(AssertUnwindSafe(|| p.len())) {
            Ok(l) => l.to_string(),
            Err(_) => "panic".into(),
        },
        ["cap"] => p.capacity().to_string(),
        ["empty"] => p.is_empty().to_string(),
        ["into_lsb"] => match catch_unwind(AssertUnwindSafe(|| p.into_lsb())) {
            Ok(l) => l.get().to_string(),
            Err(_) => "panic".into(),
        },
        ["from_lsb"] => match catch_unwind(AssertUnwindSafe(|| Packed::from_lsb(**p))) {
            Ok(l) => l.get().to_string(),
            Err(_) => "panic".into(),
        },
        ["clear"] => {
            p.clear();
            p.get().to_string()
        }
        _ => return None,
    })
}

pub fn run(args: &[&str]) -> String {
    match args {
        ["bits_for", n] => match num(n) {
            Some(n) => match catch_unwind(|| Packed::bits_for(n)) {
                Ok(b) => b.to_string(),
                Err(_) => "panic".into(),
            },
            None => "bad-op".into(),
        },
        ["new", v] => match num(v) {
            Some(v) => match catch_unwind(|| Packed::new(v)) {
                Ok(Some(p)) => format!("some {}", p.get()),
                Ok(None) => "none".into(),
                Err(_) => "panic".into(),
            },
            None => "bad-op".into(),
        },
        ["new_from_lsb", v] => match num(v) {
            Some(v) => match catch_unwind(|| Packed::new_from_lsb(v)) {
                Ok(Some(p)) => format!("some {}", p.get()),
                Ok(None) => "none".into(),
                Err(_) => "panic".into(),
            },
            None => "bad-op".into(),
        },
        ["word", w, rest @ ..] => {
            let Some(w) = num(w).and_then(NonZero::new) else {
                return "bad-op".into();
            };
            let mut p = Packed::from(w);
            let mut acc = vec![];
            for o in rest.split(|t| *t == ";").filter(|o| !o.is_empty()) {
                match op(&mut p, o) {
                    None => return "bad-op".into(),
                    Some(s) => {
                        let stop = s == "panic";
                        acc.push(s);
                        if stop {
                            break;
                        }
                    }
                }
            }
            acc.join(" | ")
        }
        _ => "bad-op".into(),
    }
}
