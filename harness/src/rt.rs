//! Runtime shared by the generated corpus (`gen_types.rs`): key-spec parsing, transcode
//! targets with run-time capacity (all delegating to miniconf's own `Transcode` impls),
//! canonical printing.  Executes cases; never decides what is expected.
#![allow(dead_code)]
use crate::st::{dec_str, enc_str};
use miniconf::{
    Error, Indices, IntoKeys, JsonPath, Key, KeyLookup, Keys, Metadata, Node, NodeIter, Packed, Path,
    Transcode, Traversal, TreeKey, Walk,
};
use std::cell::Cell;
use std::fmt::Write;
use std::num::NonZero;

// ------------------------------------------------------------------ canonical results

pub fn trav_str(t: &Traversal) -> String {
    match t {
        Traversal::Absent(d) => format!("absent {d}"),
        Traversal::TooShort(d) => format!("tooShort {d}"),
        Traversal::NotFound(d) => format!("notFound {d}"),
        Traversal::TooLong(d) => format!("tooLong {d}"),
        Traversal::Access(d, m) => format!("access {d} {}", enc_str(m)),
        Traversal::Invalid(d, m) => format!("invalid {d} {}", enc_str(m)),
    }
}

pub fn res_str<E>(r: &Result<usize, Error<E>>) -> String {
    match r {
        Ok(d) => format!("ok {d}"),
        Err(Error::Traversal(t)) => trav_str(t),
        Err(Error::Inner(d, _)) => format!("inner {d}"),
        Err(Error::Finalization(_)) => "final".into(),
    }
}

pub fn node_str(r: &Result<Node, Traversal>) -> String {
    match r {
        Ok(n) if n.is_leaf() => format!("leaf {}", n.depth()),
        Ok(n) => format!("internal {}", n.depth()),
        Err(t) => format!("err {}", trav_str(t)),
    }
}

// ------------------------------------------------------------------ keys

/// one key of a key list, in any of the integer widths miniconf implements `Key` for
#[derive(Debug, Clone)]
pub enum K {
    S(String),
    Usize(usize),
    U8(u8),
    U32(u32),
    I8(i8),
    I64(i64),
    Isize(isize),
    I128(i128),
    U128(u128),
}

impl Key for K {
    fn find(&self, lookup: &KeyLookup) -> Result<usize, Traversal> {
        match self {
            K::S(s) => Key::find(s.as_str(), lookup),
            K::Usize(v) => v.find(lookup),
            K::U8(v) => v.find(lookup),
            K::U32(v) => v.find(lookup),
            K::I8(v) => v.find(lookup),
            K::I64(v) => v.find(lookup),
            K::Isize(v) => v.find(lookup),
            K::I128(v) => v.find(lookup),
            K::U128(v) => v.find(lookup),
        }
    }
}

fn parse_k(t: &str) -> Option<K> {
    let (tag, rest) = t.split_at(1);
    Some(match tag {
        "s" => K::S(dec_str(rest)?),
        "i" => {
            // integer key: pick the narrowest of a few widths that holds it, so that all
            // `impl_key_integer!` instantiations get exercised
            let v: i128 = rest.parse().ok()?;
            if v < 0 {
                if v >= i8::MIN as i128 {
                    K::I8(v as i8)
                } else if v >= i64::MIN as i128 {
                    K::I64(v as i64)
                } else {
                    K::I128(v)
                }
            } else if v <= u8::MAX as i128 && v % 3 == 0 {
                K::U8(v as u8)
            } else if v <= u32::MAX as i128 && v % 3 == 1 {
                K::U32(v as u32)
            } else if v <= isize::MAX as i128 && v % 5 == 2 {
                K::Isize(v as isize)
            } else if v <= usize::MAX as i128 {
                K::Usize(v as usize)
            } else {
                K::I128(v)
            }
        }
        "w" => K::U128(rest.parse().ok()?), // beyond i128: 2^127 ..
        _ => return None,
    })
}

/// owner of parsed key material; `keys()` borrows from it
pub enum KeySpec {
    List(Vec<K>),
    Path(u32, String),
    /// the same text handed over BY REFERENCE (`&Path<String, S>`: the `IntoKeys for &Path<T, S>` impl)
    PathRef2F(Path<String, '/'>),
    PathRef2E(Path<String, '.'>),
    PathRefE9(Path<String, 'é'>),
    PathRef1F600(Path<String, '😀'>),
    Json(JsonPath<String>),
    /// keys from an iterator that is NOT fused: it yields `None` at each hole and goes on afterwards (`N:k,-,k`)
    Holey(Vec<Option<K>>),
    Packed(usize),
    Chain(Box<KeySpec>, Box<KeySpec>),
}

/// parse `L:k,k` | `P<cp>:str` | `R<cp>:str` (by reference) | `J:str` | `Q:word` | `C[ks][ks]`; returns (spec, rest)
pub fn parse_keyspec(s: &str) -> Option<(KeySpec, &str)> {
    if let Some(r) = s.strip_prefix("C[") {
        let (a, r) = parse_keyspec(r)?;
        let r = r.strip_prefix("][")?;
        let (b, r) = parse_keyspec(r)?;
        let r = r.strip_prefix("]")?;
        return Some((KeySpec::Chain(Box::new(a), Box::new(b)), r));
    }
    let end = s.find(']').unwrap_or(s.len());
    let (tok, rest) = s.split_at(end);
    let spec = if let Some(r) = tok.strip_prefix("L:") {
        if r.is_empty() {
            KeySpec::List(vec![])
        } else {
            KeySpec::List(r.split(',').map(parse_k).collect::<Option<Vec<_>>>()?)
        }
    } else if let Some(r) = tok.strip_prefix("P") {
        let (cp, text) = r.split_once(':')?;
        KeySpec::Path(cp.parse().ok()?, dec_str(text)?)
    } else if let Some(r) = tok.strip_prefix("R") {
        let (cp, text) = r.split_once(':')?;
        let text = dec_str(text)?;
        match cp.parse::<u32>().ok()? {
            0x2F => KeySpec::PathRef2F(Path(text)),
            0x2E => KeySpec::PathRef2E(Path(text)),
            0xE9 => KeySpec::PathRefE9(Path(text)),
            0x1F600 => KeySpec::PathRef1F600(Path(text)),
            _ => return None,
        }
    } else if let Some(r) = tok.strip_prefix("N:") {
        KeySpec::Holey(r.split(',').map(|t| if t == "-" { Some(None) } else { parse_k(t).map(Some) }).collect::<Option<Vec<_>>>()?)
    } else if let Some(r) = tok.strip_prefix("J:") {
        KeySpec::Json(JsonPath(dec_str(r)?))
    } else if let Some(r) = tok.strip_prefix("Q:") {
        KeySpec::Packed(r.parse::<u64>().ok()? as usize)
    } else {
        return None;
    };
    Some((spec, rest))
}

impl KeySpec {
    pub fn parse(s: &str) -> Option<Self> {
        match parse_keyspec(s)? {
            (k, "") => Some(k),
            _ => None,
        }
    }

    /// build the real miniconf key source
    pub fn keys(&self) -> Option<Box<dyn Keys + '_>> {
        Some(match self {
            KeySpec::List(v) => Box::new(v.iter().into_keys()),
            KeySpec::Path(cp, s) => match cp {
                0x2F => Box::new(Path::<&str, '/'>::from(s.as_str()).into_keys()),
                0x2E => Box::new(Path::<&str, '.'>::from(s.as_str()).into_keys()),
                0xE9 => Box::new(Path::<&str, 'é'>::from(s.as_str()).into_keys()),
                0x1F600 => Box::new(Path::<&str, '😀'>::from(s.as_str()).into_keys()),
                _ => return None,
            },
            KeySpec::PathRef2F(p) => Box::new(p.into_keys()),
            KeySpec::PathRef2E(p) => Box::new(p.into_keys()),
            KeySpec::PathRefE9(p) => Box::new(p.into_keys()),
            KeySpec::PathRef1F600(p) => Box::new(p.into_keys()),
            KeySpec::Holey(v) => Box::new(HoleyIter(v, 0).into_keys()),
            KeySpec::Json(jp) => Box::new(jp.into_keys()),
            KeySpec::Packed(w) => Box::new(Packed::new(*w)?),
            KeySpec::Chain(a, b) => Box::new(DynKeys(a.keys()?).chain(DynKeys(b.keys()?))),
        })
    }
}

/// an iterator over keys that resumes after having returned `None` (what `map_while` / `from_fn` adapters may do)
pub struct HoleyIter<'a>(&'a [Option<K>], usize);
impl<'a> Iterator for HoleyIter<'a> {
    type Item = &'a K;
    fn next(&mut self) -> Option<&'a K> {
        let i = self.1;
        if i >= self.0.len() {
            return None;
        }
        self.1 += 1;
        self.0[i].as_ref()
    }
}

/// `Keys`/`IntoKeys` adapter over a boxed key source (lets the public helpers that take
/// `IntoKeys` be called with a source chosen at run time)
pub struct DynKeys<'a>(pub Box<dyn Keys + 'a>);
impl Keys for DynKeys<'_> {
    fn next(&mut self, lookup: &KeyLookup) -> Result<usize, Traversal> {
        self.0.next(lookup)
    }
    fn finalize(&mut self) -> Result<(), Traversal> {
        self.0.finalize()
    }
}
impl IntoKeys for DynKeys<'_> {
    type IntoKeys = Self;
    fn into_keys(self) -> Self {
        self
    }
}

// ------------------------------------------------------------------ transcode targets

thread_local! {
    /// capacity handed to the `Default` constructors below (bytes or slots)
    pub static CAP: Cell<usize> = const { Cell::new(usize::MAX) };
}

/// `fmt::Write` with a byte capacity; a write that does not fit fails as a whole
/// (the behaviour of `heapless::String`)
#[derive(Debug, Clone, PartialEq)]
pub struct CapString {
    pub buf: String,
    pub cap: usize,
}
impl Default for CapString {
    fn default() -> Self {
        Self { buf: String::new(), cap: CAP.with(|c| c.get()) }
    }
}
impl Write for CapString {
    fn write_str(&mut self, s: &str) -> std::fmt::Result {
        if self.buf.len() + s.len() > self.cap {
            Err(std::fmt::Error)
        } else {
            self.buf.push_str(s);
            Ok(())
        }
    }
}

/// index slots with run-time capacity, delegating to `Transcode for Indices<T: AsMut<[usize]>>`
#[derive(Debug, Clone, PartialEq)]
pub struct IdxT(pub Indices<Vec<usize>>, pub usize);
impl Default for IdxT {
    fn default() -> Self {
        let cap = CAP.with(|c| c.get()).min(64);
        Self(Indices(vec![0; cap]), cap)
    }
}
impl Transcode for IdxT {
    fn transcode<M: TreeKey + ?Sized, K: IntoKeys>(&mut self, keys: K) -> Result<Node, Traversal> {
        self.0.transcode::<M, K>(keys)
    }
}

/// `u8` index slots, delegating to `Transcode for [u8]`
#[derive(Debug, Clone, PartialEq)]
pub struct IdxU8(pub Vec<u8>);
impl Default for IdxU8 {
    fn default() -> Self {
        Self(vec![0; CAP.with(|c| c.get()).min(64)])
    }
}
impl Transcode for IdxU8 {
    fn transcode<M: TreeKey + ?Sized, K: IntoKeys>(&mut self, keys: K) -> Result<Node, Traversal> {
        self.0[..].transcode::<M, K>(keys)
    }
}

/// how a filled target is printed (only the first `depth` slots of index targets are meaningful)
pub trait ShowTarget {
    fn show(&self, depth: usize) -> String;
    /// look the filled target up again as a key of `M` (None: the target carries no key)
    fn relookup<M: TreeKey + ?Sized>(&self, _depth: usize) -> Option<Result<Node, Traversal>> {
        None
    }
}
impl ShowTarget for () {
    fn show(&self, _d: usize) -> String {
        "unit".into()
    }
}
impl ShowTarget for Packed {
    fn show(&self, _d: usize) -> String {
        format!("Q:{}", self.get())
    }
    fn relookup<M: TreeKey + ?Sized>(&self, _d: usize) -> Option<Result<Node, Traversal>> {
        Some(M::transcode::<(), _>(*self).map(|x| x.1))
    }
}
impl ShowTarget for IdxT {
    fn show(&self, d: usize) -> String {
        let v: Vec<String> = self.0 .0.iter().take(d).map(|i| i.to_string()).collect();
        format!("I:{}", v.join(","))
    }
    fn relookup<M: TreeKey + ?Sized>(&self, d: usize) -> Option<Result<Node, Traversal>> {
        Some(M::transcode::<(), _>(self.0 .0.iter().take(d).copied()).map(|x| x.1))
    }
}
impl ShowTarget for IdxU8 {
    fn show(&self, d: usize) -> String {
        let v: Vec<String> = self.0.iter().take(d).map(|i| i.to_string()).collect();
        format!("I:{}", v.join(","))
    }
}
impl<const D: usize> ShowTarget for Indices<[usize; D]> {
    fn show(&self, d: usize) -> String {
        let v: Vec<String> = self.0.iter().take(d).map(|i| i.to_string()).collect();
        format!("I:{}", v.join(","))
    }
    fn relookup<M: TreeKey + ?Sized>(&self, d: usize) -> Option<Result<Node, Traversal>> {
        Some(M::transcode::<(), _>(self.0.iter().take(d).copied()).map(|x| x.1))
    }
}
impl<const S: char> ShowTarget for Path<CapString, S> {
    fn show(&self, _d: usize) -> String {
        format!("P:{}", enc_str(&self.0.buf))
    }
    fn relookup<M: TreeKey + ?Sized>(&self, _d: usize) -> Option<Result<Node, Traversal>> {
        Some(M::transcode::<(), _>(Path::<&str, S>(self.0.buf.as_str())).map(|x| x.1))
    }
}
impl<const S: char, const N: usize> ShowTarget for Path<heapless::String<N>, S> {
    fn show(&self, _d: usize) -> String {
        format!("P:{}", enc_str(self.0.as_str()))
    }
    fn relookup<M: TreeKey + ?Sized>(&self, _d: usize) -> Option<Result<Node, Traversal>> {
        Some(M::transcode::<(), _>(Path::<&str, S>(self.0.as_str())).map(|x| x.1))
    }
}
impl ShowTarget for JsonPath<CapString> {
    fn show(&self, _d: usize) -> String {
        format!("J:{}", enc_str(&self.0.buf))
    }
    fn relookup<M: TreeKey + ?Sized>(&self, _d: usize) -> Option<Result<Node, Traversal>> {
        Some(M::transcode::<(), _>(&JsonPath(self.0.buf.as_str())).map(|x| x.1))
    }
}

// ------------------------------------------------------------------ type-level operations

/// `trav <keyspec> <cbfail|->`
pub fn op_trav<M: TreeKey + ?Sized>(ks: &KeySpec, cbfail: Option<usize>) -> String {
    let Some(keys) = ks.keys() else { return "bad-op".into() };
    let mut log: Vec<String> = vec![];
    let mut calls = 0usize;
    let r = M::traverse_by_key(DynKeys(keys), |i: usize, n: Option<&'static str>, l: NonZero<usize>| {
        if Some(calls) == cbfail {
            return Err(());
        }
        calls += 1;
        log.push(format!("{}:{}:{}", i, n.map(enc_str).unwrap_or("-".into()), l));
        Ok(())
    });
    format!("{} cb={}", res_str(&r), if log.is_empty() { "-".into() } else { log.join(",") })
}

pub fn xcode_with<M: TreeKey + ?Sized, N: Transcode + Default + ShowTarget>(ks: &KeySpec) -> String {
    let Some(keys) = ks.keys() else { return "bad-op".into() };
    match M::transcode::<N, _>(DynKeys(keys)) {
        Ok((n, node)) => format!("{} {}", node_str(&Ok(node)), n.show(node.depth())),
        Err(e) => node_str(&Err(e)),
    }
}

/// `xcode <keyspec> <target> <cap>`
pub fn op_xcode<M: TreeKey + ?Sized>(ks: &KeySpec, target: &str, cap: usize) -> String {
    CAP.with(|c| c.set(cap));
    match target {
        "unit" => xcode_with::<M, ()>(ks),
        "packed" => xcode_with::<M, Packed>(ks),
        "idx" => xcode_with::<M, IdxT>(ks),
        "idx8" => xcode_with::<M, IdxU8>(ks),
        "idxarr" => match cap {
            0 => xcode_with::<M, Indices<[usize; 0]>>(ks),
            1 => xcode_with::<M, Indices<[usize; 1]>>(ks),
            2 => xcode_with::<M, Indices<[usize; 2]>>(ks),
            3 => xcode_with::<M, Indices<[usize; 3]>>(ks),
            4 => xcode_with::<M, Indices<[usize; 4]>>(ks),
            8 => xcode_with::<M, Indices<[usize; 8]>>(ks),
            _ => "bad-op".into(),
        },
        "path47" => xcode_with::<M, Path<CapString, '/'>>(ks),
        "path46" => xcode_with::<M, Path<CapString, '.'>>(ks),
        "path233" => xcode_with::<M, Path<CapString, 'é'>>(ks),
        "path128512" => xcode_with::<M, Path<CapString, '😀'>>(ks),
        "hpath47" => match cap {
            0 => xcode_with::<M, Path<heapless::String<0>, '/'>>(ks),
            3 => xcode_with::<M, Path<heapless::String<3>, '/'>>(ks),
            8 => xcode_with::<M, Path<heapless::String<8>, '/'>>(ks),
            128 => xcode_with::<M, Path<heapless::String<128>, '/'>>(ks),
            _ => "bad-op".into(),
        },
        "json" => xcode_with::<M, JsonPath<CapString>>(ks),
        _ => "bad-op".into(),
    }
}

/// how the iterator under test is obtained: `pre` calls of `next()` on a fresh iterator, then `root()` with each
/// of `roots` in turn (a plain rooted iteration is `pre = 0` and one root)
pub struct RootHist {
    pub pre: usize,
    pub roots: Vec<KeySpec>,
}

impl RootHist {
    /// `-` | `<keyspec>` | `H<pre>;<keyspec>;<keyspec>…`
    pub fn parse(tok: &str) -> Option<Self> {
        if tok == "-" {
            return Some(RootHist { pre: 0, roots: vec![] });
        }
        if let Some(r) = tok.strip_prefix('H') {
            let mut parts = r.split(';');
            let pre = parts.next()?.parse().ok()?;
            let roots = parts.map(KeySpec::parse).collect::<Option<Vec<_>>>()?;
            if pre > 0 && roots.is_empty() {
                return None;
            }
            return Some(RootHist { pre, roots });
        }
        Some(RootHist { pre: 0, roots: vec![KeySpec::parse(tok)?] })
    }
}

fn iter_run<M: TreeKey + ?Sized, N: Transcode + Default + ShowTarget, const D: usize>(
    root: &RootHist,
    polls: usize,
    exact: bool,
    limit: usize,
) -> String {
    let mut it: NodeIter<M, N, D> = M::nodes::<N, D>();
    for _ in 0..root.pre {
        let _ = it.next();
    }
    for ks in &root.roots {
        let Some(keys) = ks.keys() else { return "bad-op".into() };
        it = match it.root(DynKeys(keys)) {
            Ok(it) => it,
            Err(e) => return format!("rooterr {}", trav_str(&e)),
        };
    }
    let mut out: Vec<String> = vec![];
    // every yielded key is looked up again (through the key's own `IntoKeys`): it must resolve to the node it was
    // yielded for; a disagreement is appended to the item, which neither the model nor the oracle ever print
    let item = |x: Result<(N, Node), usize>| match x {
        Ok((n, node)) => {
            let again = match n.relookup::<M>(node.depth()) {
                Some(r) if r != Ok(node) => format!("!relookup={}", node_str(&r).replace(' ', "")),
                _ => String::new(),
            };
            format!("{}@{}{}", node_str(&Ok(node)).replace(' ', ""), n.show(node.depth()), again)
        }
        Err(d) => format!("caperr{d}"),
    };
    if exact {
        let mut it = it.exact_size();
        loop {
            out.push(format!("len{}", it.len()));
            match it.next() {
                Some(x) => out.push(item(x)),
                None => break,
            }
            if out.len() > 2 * limit {
                out.push("ENDLESS".into());
                return out.join(" ");
            }
        }
        let extra = (0..polls).filter(|_| it.next().is_some()).count();
        out.push(format!("extra{extra} len{}", it.len()));
    } else {
        let mut it = it;
        loop {
            match it.next() {
                Some(x) => out.push(item(x)),
                None => break,
            }
            if out.len() > limit {
                out.push("ENDLESS".into());
                return out.join(" ");
            }
        }
        let extra = (0..polls).filter(|_| it.next().is_some()).count();
        out.push(format!("extra{extra}"));
    }
    summarise(out)
}

fn iter_d<M: TreeKey + ?Sized, const D: usize>(
    root: &RootHist,
    target: &str,
    polls: usize,
    exact: bool,
    limit: usize,
) -> String {
    match target {
        "unit" => iter_run::<M, (), D>(root, polls, exact, limit),
        "packed" => iter_run::<M, Packed, D>(root, polls, exact, limit),
        "idx" => iter_run::<M, IdxT, D>(root, polls, exact, limit),
        "idxarr" => iter_run::<M, Indices<[usize; D]>, D>(root, polls, exact, limit),
        "path47" => iter_run::<M, Path<CapString, '/'>, D>(root, polls, exact, limit),
        "path128512" => iter_run::<M, Path<CapString, '😀'>, D>(root, polls, exact, limit),
        "hpath47" => iter_run::<M, Path<heapless::String<3>, '/'>, D>(root, polls, exact, limit),
        "json" => iter_run::<M, JsonPath<CapString>, D>(root, polls, exact, limit),
        _ => "bad-op".into(),
    }
}

/// long item sequences are printed as count + first/last three items
fn summarise(out: Vec<String>) -> String {
    if out.len() <= 2000 {
        out.join(" ")
    } else {
        format!("n={} {} ... {}", out.len(), out[..3].join(" "), out[out.len() - 4..].join(" "))
    }
}

/// `iter <D> <rootkeyspec|-> <target> <cap> <polls> <exact>`
pub fn op_iter<M: TreeKey + ?Sized>(
    d: usize,
    root: &RootHist,
    target: &str,
    cap: usize,
    polls: usize,
    exact: bool,
    limit: usize,
) -> String {
    CAP.with(|c| c.set(cap));
    match d {
        0 => iter_d::<M, 0>(root, target, polls, exact, limit),
        1 => iter_d::<M, 1>(root, target, polls, exact, limit),
        2 => iter_d::<M, 2>(root, target, polls, exact, limit),
        3 => iter_d::<M, 3>(root, target, polls, exact, limit),
        4 => iter_d::<M, 4>(root, target, polls, exact, limit),
        5 => iter_d::<M, 5>(root, target, polls, exact, limit),
        6 => iter_d::<M, 6>(root, target, polls, exact, limit),
        8 => iter_d::<M, 8>(root, target, polls, exact, limit),
        _ => "bad-op".into(),
    }
}

/// a `Walk` that records the structure it is shown
#[derive(Debug, Clone)]
pub struct Rec(pub String);
impl Walk for Rec {
    type Error = ();
    fn leaf() -> Self {
        Rec("L".into())
    }
    fn internal(children: &[&Self], lookup: &KeyLookup) -> Result<Self, ()> {
        let lk = match lookup {
            KeyLookup::Named(n) => format!("n:{}", n.join(",")),
            KeyLookup::Numbered(n) => format!("u:{n}"),
            KeyLookup::Homogeneous(n) => format!("h:{n}"),
        };
        let cs: Vec<&str> = children.iter().map(|c| c.0.as_str()).collect();
        Ok(Rec(format!("({} {})", lk, cs.join(" "))))
    }
}

/// `meta`
pub fn op_meta<M: TreeKey + ?Sized>() -> String {
    let m: Metadata = M::traverse_all().unwrap();
    let r: Rec = M::traverse_all().unwrap();
    format!(
        "count={} depth={} length={} bits={} sep1={} sep4={} walk={}",
        m.count,
        m.max_depth,
        m.max_length,
        m.max_bits,
        m.max_length("/"),
        m.max_length("😀"),
        r.0.replace(' ', "_")
    )
}

/// type-level dispatcher for one corpus type
pub fn tk_ops<M: TreeKey + ?Sized>(args: &[&str]) -> String {
    let usz = |s: &str| s.parse::<usize>().ok();
    match args {
        ["trav", ks, cbfail] => {
            let Some(ks) = KeySpec::parse(ks) else { return "bad-op".into() };
            op_trav::<M>(&ks, usz(cbfail))
        }
        ["xcode", ks, target, cap] => {
            let (Some(ks), Some(cap)) = (KeySpec::parse(ks), usz(cap)) else { return "bad-op".into() };
            op_xcode::<M>(&ks, target, cap)
        }
        ["iter", d, root, target, cap, polls, exact, limit] => {
            let (Some(d), Some(cap), Some(polls), Some(limit)) = (usz(d), usz(cap), usz(polls), usz(limit)) else {
                return "bad-op".into();
            };
            let Some(root) = RootHist::parse(root) else { return "bad-op".into() };
            op_iter::<M>(d, &root, target, cap, polls, *exact == "1", limit)
        }
        ["meta"] => op_meta::<M>(),
        _ => "bad-op".into(),
    }
}

// ------------------------------------------------------------------ clones of a used iterator

/// `ic <case> <root index list | -> <k>`: on the fixed type `[[[Leaf<u8>; 2]; 3]; 2]` (which is `Clone`, as
/// `#[derive(Clone)]` on `NodeIter` demands of `M`): root the iterator, call `next()` k times, clone it, and print what the
/// CLONE and then what the ORIGINAL still yield (`|` between them): both must be the rest of the rooted iteration
pub fn op_iterclone(args: &[&str]) -> String {
    type T = [[[miniconf::Leaf<u8>; 2]; 3]; 2];
    let [root, k] = args else { return "bad-op".into() };
    let Ok(k) = k.parse::<usize>() else { return "bad-op".into() };
    let mut it = T::nodes::<Indices<[usize; 3]>, 3>();
    if *root != "-" {
        let Ok(idx) = root.split(',').map(|x| x.parse::<usize>()).collect::<Result<Vec<_>, _>>() else { return "bad-op".into() };
        it = match it.root(idx.iter().copied()) {
            Ok(it) => it,
            Err(e) => return format!("rooterr {}", trav_str(&e)),
        };
    }
    for _ in 0..k {
        let _ = it.next();
    }
    let show = |it: NodeIter<T, Indices<[usize; 3]>, 3>| -> String {
        it.take(50)
            .map(|x| match x {
                Ok((n, node)) => n.0.iter().take(node.depth()).map(|i| i.to_string()).collect::<Vec<_>>().join(","),
                Err(d) => format!("caperr{d}"),
            })
            .collect::<Vec<_>>()
            .join(";")
    };
    let c = it.clone();
    format!("{}|{}", show(c), show(it))
}
