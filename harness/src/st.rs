//! `st` stream: `PathIter` / `JsonPathIter` on arbitrary strings.
use miniconf::{JsonPathIter, PathIter};
use std::panic::{catch_unwind, AssertUnwindSafe};

pub fn dec_str(s: &str) -> Option<String> {
    if s == "e" {
        return Some(String::new());
    }
    s.split('.')
        .map(|t| t.parse::<u32>().ok().and_then(char::from_u32))
        .collect()
}

pub fn enc_str(s: &str) -> String {
    if s.is_empty() {
        "e".into()
    } else {
        s.chars()
            .map(|c| (c as u32).to_string())
            .collect::<Vec<_>>()
            .join(".")
    }
}

pub fn enc_list<'a>(l: impl IntoIterator<Item = &'a str>) -> String {
    let v: Vec<String> = l.into_iter().map(enc_str).collect();
    if v.is_empty() {
        "-".into()
    } else {
        v.join(",")
    }
}

fn split<const S: char>(text: &str) -> String {
    let mut it = PathIter::<'_, S>::root(text);
    let mut keys = vec![];
    // cap: an iterator that never ends is reported, not waited for
    for _ in 0..text.len() + 3 {
        match it.next() {
            Some(k) => keys.push(k),
            None => break,
        }
    }
    let extra = (0..2).filter(|_| it.next().is_some()).count();
    format!("{} {}", enc_list(keys), extra)
}

fn jsplit(text: &str) -> String {
    let mut it = JsonPathIter::from(text);
    let mut keys = vec![];
    for _ in 0..text.len() + 3 {
        match it.next() {
            Some(k) => keys.push(k),
            None => break,
        }
    }
    let extra = (0..2).filter(|_| it.next().is_some()).count();
    let rest: &str = it.into();
    format!("{} {} {}", enc_list(keys), extra, enc_str(rest))
}

pub fn run(args: &[&str]) -> String {
    let r = catch_unwind(AssertUnwindSafe(|| match args {
        ["split", sep, text] => {
            let (Some(sep), Some(text)) = (sep.parse::<u32>().ok(), dec_str(text)) else {
                return "bad-op".into();
            };
            match sep {
                0x2F => split::<'/'>(&text),
                0x2E => split::<'.'>(&text),
                0x61 => split::<'a'>(&text),
                0xE9 => split::<'é'>(&text),
                0x20AC => split::<'€'>(&text),
                0x1F600 => split::<'😀'>(&text),
                _ => "bad-op".into(),
            }
        }
        ["jsplit", text] => match dec_str(text) {
            Some(text) => jsplit(&text),
            None => "bad-op".into(),
        },
        _ => "bad-op".into(),
    }));
    r.unwrap_or_else(|_| "panic".into())
}
