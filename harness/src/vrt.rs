//! Value-level case executor: runs op sequences on an instance of a generated corpus type
//! through the public by-key API and prints canonical outcomes + whole-tree snapshots
//! (taken by generated plain field access, no miniconf involved).
#![allow(dead_code)]
use crate::gen_rt::{self, Ev, Gate, SerdeE, SerdeS, StrE};
use crate::rt::{res_str, trav_str, DynKeys, KeySpec};
use crate::st::{dec_str, enc_str};
use miniconf::{Error, Traversal, TreeAny, TreeDeserializeOwned, TreeSerialize};
use std::any::Any;

// ------------------------------------------------------------------ canonical values

pub trait SnapV {
    fn snapv(&self) -> String;
}
macro_rules! snap_int { ($($t:ty)+) => {$( impl SnapV for $t { fn snapv(&self) -> String { format!("i{}", self) } } )+}; }
snap_int!(u8 u16 u32 u64 usize i8 i16 i32 i64);
impl SnapV for bool {
    fn snapv(&self) -> String {
        if *self { "b1".into() } else { "b0".into() }
    }
}
impl SnapV for f32 {
    fn snapv(&self) -> String {
        format!("f{}", self.to_bits())
    }
}
impl SnapV for f64 {
    fn snapv(&self) -> String {
        format!("f{}", self.to_bits())
    }
}
impl SnapV for String {
    fn snapv(&self) -> String {
        format!("s{}", enc_str(self))
    }
}
impl<const N: usize> SnapV for heapless::String<N> {
    fn snapv(&self) -> String {
        format!("s{}", enc_str(self.as_str()))
    }
}
impl SnapV for Option<i32> {
    fn snapv(&self) -> String {
        match self {
            None => "n".into(),
            Some(v) => format!("o{}", v.snapv()),
        }
    }
}
impl SnapV for [i16; 3] {
    fn snapv(&self) -> String {
        format!("A({})", self.iter().map(|v| v.snapv()).collect::<Vec<_>>().join(","))
    }
}
impl SnapV for () {
    fn snapv(&self) -> String {
        "u".into()
    }
}
impl SnapV for SerdeS {
    fn snapv(&self) -> String {
        format!("T({},{})", self.a.snapv(), self.b.snapv())
    }
}
impl SnapV for SerdeE {
    fn snapv(&self) -> String {
        format!("v{}", *self as u8)
    }
}
impl SnapV for StrE {
    fn snapv(&self) -> String {
        format!("v{}", *self as u8)
    }
}

pub fn snapv<T: SnapV>(v: &T) -> String {
    v.snapv()
}

/// join a snapshot path
pub fn pj(p: &str, i: usize) -> String {
    if p.is_empty() {
        i.to_string()
    } else {
        format!("{p}.{i}")
    }
}

macro_rules! try_any_text { ($a:expr, $($t:ty)+) => {$( if let Some(x) = $a.downcast_ref::<$t>() { return Some(x.snapv()); } )+}; }
/// canonical text of a leaf value reached through `&dyn Any`
pub fn any_text(a: &dyn Any) -> Option<String> {
    try_any_text!(a, u8 u16 u32 u64 usize i8 i16 i32 i64 bool f32 f64 String heapless::String<8> Option<i32> [i16; 3] () SerdeS SerdeE StrE);
    None
}

macro_rules! try_any_assign { ($a:expr, $p:expr, $($t:ty)+) => {$(
    if let Some(x) = $a.downcast_mut::<$t>() {
        return match serde_json_core::from_slice::<$t>($p) { Ok((v, _)) => { *x = v; "assigned" } Err(_) => "nodecode" };
    } )+}; }
/// `*downcast_mut::<T>() = from_json(payload)` for the leaf's own type
pub fn any_assign(a: &mut dyn Any, payload: &[u8]) -> &'static str {
    try_any_assign!(a, payload, u8 u16 u32 u64 usize i8 i16 i32 i64 bool f32 f64 heapless::String<8> Option<i32> [i16; 3] () SerdeS SerdeE);
    if let Some(x) = a.downcast_mut::<String>() {
        return match serde_json_core::from_slice::<&str>(payload) {
            Ok((v, _)) => {
                *x = v.into();
                "assigned"
            }
            Err(_) => "nodecode",
        };
    }
    "unknowntype"
}

// ------------------------------------------------------------------ per-type operation table

pub struct Ops<T> {
    pub jget: Option<for<'a> fn(&T, DynKeys<'a>, &mut [u8]) -> Result<usize, Error<serde_json_core::ser::Error>>>,
    pub ser: Option<for<'a> fn(&T, DynKeys<'a>, &mut [u8]) -> (Result<usize, Error<serde_json_core::ser::Error>>, usize)>,
    pub jset: Option<for<'a> fn(&mut T, DynKeys<'a>, &[u8]) -> Result<usize, Error<serde_json_core::de::Error>>>,
    pub de: Option<for<'a> fn(&mut T, DynKeys<'a>, &[u8]) -> Result<usize, Error<serde_json_core::de::Error>>>,
    pub pget: Option<for<'a> fn(&T, DynKeys<'a>, &mut [u8]) -> Result<usize, Error<postcard::Error>>>,
    pub pset: Option<for<'a> fn(&mut T, DynKeys<'a>, &[u8]) -> Result<usize, Error<postcard::Error>>>,
    pub refany: Option<for<'a> fn(&T, DynKeys<'a>) -> Result<Option<String>, Traversal>>,
    pub mutany: Option<for<'a> fn(&mut T, DynKeys<'a>, Option<&[u8]>) -> Result<&'static str, Traversal>>,
    pub snap: fn(&T, &mut Vec<(String, String)>),
}

pub fn f_jget<T: TreeSerialize>(t: &T, k: DynKeys<'_>, buf: &mut [u8]) -> Result<usize, Error<serde_json_core::ser::Error>> {
    miniconf::json::get_by_key(t, k, buf)
}
pub fn f_ser<T: TreeSerialize>(
    t: &T,
    k: DynKeys<'_>,
    buf: &mut [u8],
) -> (Result<usize, Error<serde_json_core::ser::Error>>, usize) {
    let mut ser = serde_json_core::ser::Serializer::new(buf);
    let r = t.serialize_by_key(k, &mut ser);
    (r, ser.end())
}
pub fn f_jset<T: TreeDeserializeOwned>(t: &mut T, k: DynKeys<'_>, data: &[u8]) -> Result<usize, Error<serde_json_core::de::Error>> {
    miniconf::json::set_by_key(t, k, data)
}
pub fn f_de<T: TreeDeserializeOwned>(t: &mut T, k: DynKeys<'_>, data: &[u8]) -> Result<usize, Error<serde_json_core::de::Error>> {
    let mut de = serde_json_core::de::Deserializer::new(data, None);
    t.deserialize_by_key(k, &mut de)
}
pub fn f_pget<T: TreeSerialize>(t: &T, k: DynKeys<'_>, buf: &mut [u8]) -> Result<usize, Error<postcard::Error>> {
    miniconf::postcard::get_by_key(t, k, postcard::ser_flavors::Slice::new(buf)).map(|s| s.len())
}
pub fn f_pset<T: TreeDeserializeOwned>(t: &mut T, k: DynKeys<'_>, data: &[u8]) -> Result<usize, Error<postcard::Error>> {
    miniconf::postcard::set_by_key(t, k, postcard::de_flavors::Slice::new(data)).map(|rest| data.len() - rest.len())
}
pub fn f_refany<T: TreeAny>(t: &T, k: DynKeys<'_>) -> Result<Option<String>, Traversal> {
    t.ref_any_by_key(k).map(any_text)
}
pub fn f_mutany<T: TreeAny>(t: &mut T, k: DynKeys<'_>, payload: Option<&[u8]>) -> Result<&'static str, Traversal> {
    t.mut_any_by_key(k).map(|a| match payload {
        Some(p) => any_assign(a, p),
        None => "access",
    })
}

// ------------------------------------------------------------------ op sequences

fn parse_gates(s: &str) -> Option<()> {
    gen_rt::reset();
    if s == "-" {
        return Some(());
    }
    for g in s.split(',') {
        let (id, mode) = g.split_once('=')?;
        let id: u32 = id.parse().ok()?;
        match mode {
            "gf" => gen_rt::GET.with(|m| m.borrow_mut().insert(id, Gate::Fail)),
            "mf" => gen_rt::GETMUT.with(|m| m.borrow_mut().insert(id, Gate::Fail)),
            "vf" => gen_rt::VAL.with(|m| m.borrow_mut().insert(id, Gate::Fail)),
            m if m.starts_with("vr") => {
                let k: usize = m[2..].parse().ok()?;
                gen_rt::VAL.with(|mm| mm.borrow_mut().insert(id, Gate::Replace(k)))
            }
            _ => return None,
        };
    }
    Some(())
}

fn log_str() -> String {
    let l = gen_rt::take_log();
    if l.is_empty() {
        return "-".into();
    }
    l.iter()
        .map(|e| match e {
            Ev::Get(i) => format!("g{i}"),
            Ev::GetMut(i) => format!("m{i}"),
            Ev::Validate(i, d) => format!("v{i}:{d}"),
        })
        .collect::<Vec<_>>()
        .join(",")
}

fn snap_str<T>(t: &T, ops: &Ops<T>) -> String {
    let mut out = vec![];
    (ops.snap)(t, &mut out);
    out.iter().map(|(p, v)| format!("{p}={v}")).collect::<Vec<_>>().join(",")
}

fn hex(b: &[u8]) -> String {
    if b.is_empty() {
        "-".into()
    } else {
        b.iter().map(|x| format!("{x:02x}")).collect()
    }
}
fn unhex(s: &str) -> Option<Vec<u8>> {
    if s == "-" {
        return Some(vec![]);
    }
    (0..s.len()).step_by(2).map(|i| u8::from_str_radix(s.get(i..i + 2)?, 16).ok()).collect()
}

/// `gates op op …`, op = `name|keyspec[|arg[|arg]]`
pub fn run_ops<T>(t: &mut T, args: &[&str], ops: &Ops<T>) -> String {
    let Some((gates, oplist)) = args.split_first() else { return "bad-op".into() };
    if parse_gates(gates).is_none() {
        return "bad-op".into();
    }
    let mut outs: Vec<String> = vec![];
    for op in oplist {
        let f: Vec<&str> = op.split('|').collect();
        if f[0] == "snap" {
            outs.push(format!("snap={}", snap_str(t, ops)));
            continue;
        }
        if f.len() < 2 {
            return "bad-op".into();
        }
        let Some(ks) = KeySpec::parse(f[1]) else { return "bad-op".into() };
        let Some(keys) = ks.keys() else { return "bad-op".into() };
        let keys = DynKeys(keys);
        let _ = gen_rt::take_log();
        let r: String = match (f[0], f.len()) {
            ("jget", 3) => {
                let (Some(func), Some(n)) = (ops.jget, f[2].parse::<usize>().ok()) else { return "bad-op".into() };
                let mut buf = vec![0u8; n];
                match func(t, keys, &mut buf) {
                    Ok(len) => match std::str::from_utf8(&buf[..len]) {
                        Ok(s) => format!("ok {} {}", len, enc_str(s)),
                        Err(_) => format!("ok {} x{}", len, hex(&buf[..len])),
                    },
                    Err(e) => res_str::<serde_json_core::ser::Error>(&Err(e)),
                }
            }
            ("ser", 3) => {
                let (Some(func), Some(n)) = (ops.ser, f[2].parse::<usize>().ok()) else { return "bad-op".into() };
                let mut buf = vec![0u8; n];
                let (r, len) = func(t, keys, &mut buf);
                match r {
                    Ok(d) => format!("ok {} {}", d, std::str::from_utf8(&buf[..len]).map(enc_str).unwrap_or("x".into())),
                    e => res_str(&e),
                }
            }
            ("jset", 3) | ("de", 3) => {
                let func = if f[0] == "jset" { ops.jset } else { ops.de };
                let (Some(func), Some(p)) = (func, dec_str(f[2])) else { return "bad-op".into() };
                res_str(&func(t, keys, p.as_bytes()))
            }
            ("pget", 3) => {
                let (Some(func), Some(n)) = (ops.pget, f[2].parse::<usize>().ok()) else { return "bad-op".into() };
                let mut buf = vec![0u8; n];
                match func(t, keys, &mut buf) {
                    Ok(len) => format!("ok {} {}", len, hex(&buf[..len])),
                    Err(e) => res_str::<postcard::Error>(&Err(e)),
                }
            }
            ("pset", 3) => {
                let (Some(func), Some(p)) = (ops.pset, unhex(f[2])) else { return "bad-op".into() };
                res_str(&func(t, keys, &p))
            }
            ("ref", 2) => {
                let Some(func) = ops.refany else { return "bad-op".into() };
                match func(t, keys) {
                    Ok(Some(v)) => format!("ok {v}"),
                    Ok(None) => "ok ?".into(),
                    Err(e) => trav_str(&e),
                }
            }
            ("mut", 3) => {
                let Some(func) = ops.mutany else { return "bad-op".into() };
                let payload = if f[2] == "-" { None } else { dec_str(f[2]) };
                match func(t, keys, payload.as_ref().map(|s| s.as_bytes())) {
                    Ok(s) => format!("ok {s}"),
                    Err(e) => trav_str(&e),
                }
            }
            _ => return "bad-op".into(),
        };
        let mutating = matches!(f[0], "jset" | "de" | "pset" | "mut");
        if mutating {
            outs.push(format!("{} log={} snap={}", r, log_str(), snap_str(t, ops)));
        } else {
            outs.push(format!("{} log={}", r, log_str()));
        }
    }
    outs.join(" ; ")
}
