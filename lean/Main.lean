import MiniconfVerif.Model.PackedDriver
import MiniconfVerif.Model.PathDriver

open MiniconfVerif

/-- `<stream> <case-id> <args…>` in, `<case-id> <canonical outcome>` out -/
def handle (line : String) : String :=
  match line.trimAscii.toString.splitOn " " with
  | stream :: id :: args =>
    let out := match stream with
      | "pk" => PackedDriver.run args
      | "st" => PathDriver.run args
      | _ => "bad-op"
    s!"{id} {out}"
  | _ => "? bad-op"

partial def loop (h : IO.FS.Stream) (out : IO.FS.Stream) : IO Unit := do
  let line ← h.getLine
  if line.isEmpty then return ()
  if line.trimAscii.toString.isEmpty then loop h out else
  out.putStrLn (handle line)
  loop h out

def main : IO Unit := do
  let stdin ← IO.getStdin
  let stdout ← IO.getStdout
  loop stdin stdout
