import MiniconfVerif.Model.PackedDriver
import MiniconfVerif.Model.PathDriver
import MiniconfVerif.Model.TreeDriver
import MiniconfVerif.Model.ValueDriver
import MiniconfVerif.Model.MqttDriver
import MiniconfVerif.Model.PyDriver
import MiniconfVerif.Model.Hyp

open MiniconfVerif

structure DState where
  schemas : Array (Nat × Schema) := #[]
  trees : Array (Nat × Nat × Tree) := #[]

def DState.schema? (st : DState) (tid : Nat) : Option Schema :=
  (st.schemas.find? (·.1 == tid)).map (·.2)

def DState.tree? (st : DState) (tid sid : Nat) : Option Tree :=
  (st.trees.find? fun x => x.1 == tid && x.2.1 == sid).map (·.2.2)

/-- `<stream> <case-id> <args…>` in, `<case-id> <canonical outcome>` out -/
def handle (st : DState) (line : String) : DState × String :=
  match line.trimAscii.toString.splitOn " " with
  | stream :: id :: args =>
    match stream with
    | "pk" => (st, s!"{id} {PackedDriver.run args}")
    | "st" => (st, s!"{id} {PathDriver.run args}")
    | "py" =>
      match args with
      | "norm" :: paths => (st, s!"{id} {PyDriver.runNorm paths}")
      | "clia" :: cliargs => (st, s!"{id} {PyDriver.runCli cliargs}")
      | "clis" :: cliargs => (st, s!"{id} {PyDriver.runCli cliargs}")
      | variant :: events => (st, s!"{id} {PyDriver.run variant events}")
      | [] => (st, s!"{id} bad-op")
    | "T" =>
      match args with
      | tid :: rest =>
        match tid.toNat?, TreeDriver.parseSchema rest with
        | some tid, some (s, []) => ({ st with schemas := st.schemas.push (tid, s) }, s!"{id} decl")
        | _, _ => (st, s!"{id} bad-op")
      | _ => (st, s!"{id} bad-op")
    | "V" =>
      match args with
      | tid :: sid :: rest =>
        match tid.toNat?, sid.toNat?, ValueDriver.parseTree rest with
        | some tid, some sid, some (t, []) => ({ st with trees := st.trees.push (tid, sid, t) }, s!"{id} decl")
        | _, _, _ => (st, s!"{id} bad-op")
      | _ => (st, s!"{id} bad-op")
    | "Tw" =>
      -- do the hypotheses of the type-level theorems hold for this corpus type?
      match args with
      | tid :: _ =>
        match tid.toNat?.bind st.schema? with
        | some s => (st, s!"{id} wf={if s.wfB then 1 else 0} small={if s.smallB then 1 else 0} fits={if s.fitsB then 1 else 0}")
        | none => (st, s!"{id} bad-op")
      | _ => (st, s!"{id} bad-op")
    | "Vw" =>
      -- … and of the value-level theorems for this instance?
      match args with
      | tid :: sid :: _ =>
        match tid.toNat?, sid.toNat? with
        | some tid, some sid =>
          match st.tree? tid sid with
          | some t => (st, s!"{id} wf={if t.wfB then 1 else 0} fits={if t.fitsB then 1 else 0}")
          | none => (st, s!"{id} bad-op")
        | _, _ => (st, s!"{id} bad-op")
      | _ => (st, s!"{id} bad-op")
    | "tv" =>
      match args with
      | tid :: sid :: rest =>
        match tid.toNat?, sid.toNat? with
        | some tid, some sid =>
          match st.tree? tid sid with
          | some t => (st, s!"{id} {ValueDriver.run t rest}")
          | none => (st, s!"{id} bad-op")
        | _, _ => (st, s!"{id} bad-op")
      | _ => (st, s!"{id} bad-op")
    | "mqm" =>
      match args with
      | tid :: sid :: rest =>
        match tid.toNat?, sid.toNat? with
        | some tid, some sid =>
          match st.tree? tid sid with
          | some t => (st, s!"{id} {MqttDriver.run t rest}")
          | none => (st, s!"{id} bad-op")
        | _, _ => (st, s!"{id} bad-op")
      | _ => (st, s!"{id} bad-op")
    | "tk" =>
      match args with
      | tid :: rest =>
        match tid.toNat?.bind st.schema? with
        | some s => (st, s!"{id} {TreeDriver.runOp s rest}")
        | none => (st, s!"{id} bad-op")
      | _ => (st, s!"{id} bad-op")
    | _ => (st, s!"{id} bad-op")
  | _ => (st, "? bad-op")

partial def loop (h : IO.FS.Stream) (out : IO.FS.Stream) (st : DState) : IO Unit := do
  let line ← h.getLine
  if line.isEmpty then return ()
  if line.trimAscii.toString.isEmpty then loop h out st else
  let (st', o) := handle st line
  out.putStrLn o
  loop h out st'

def main : IO Unit := do
  let stdin ← IO.getStdin
  let stdout ← IO.getStdout
  loop stdin stdout {}
