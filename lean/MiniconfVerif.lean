import MiniconfVerif.Gen.Packed
import MiniconfVerif.Lemmas.PackedWord
import MiniconfVerif.Lemmas.PackedLsb
import MiniconfVerif.Lemmas.PackedSeq
import MiniconfVerif.Props.C08
