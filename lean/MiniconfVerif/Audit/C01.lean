import MiniconfVerif.Props.C01
#print axioms MiniconfVerif.C01.failed_access_changes_nothing
#print axioms MiniconfVerif.C01.read_never_modifies
#print axioms MiniconfVerif.C01.at_most_one_leaf_changes
#print axioms MiniconfVerif.C01.read_after_write
#print axioms MiniconfVerif.C01.chain_equivalent
#print axioms MiniconfVerif.C01.histories
#print axioms MiniconfVerif.C01.source_array_access_is_model
#print axioms MiniconfVerif.C01.source_tuple_access_is_model
#print axioms MiniconfVerif.C01.source_option_access_is_model
#print axioms MiniconfVerif.C01.source_result_bound_access_is_model
#print axioms MiniconfVerif.C01.source_derive_access_is_model
