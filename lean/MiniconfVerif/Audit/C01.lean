import MiniconfVerif.Props.C01
#print axioms MiniconfVerif.C01.failed_access_changes_nothing
#print axioms MiniconfVerif.C01.read_never_modifies
