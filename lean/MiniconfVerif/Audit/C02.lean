import MiniconfVerif.Props.C02
#print axioms MiniconfVerif.C02.leaf_surplus_first
#print axioms MiniconfVerif.C02.closed_container_first
#print axioms MiniconfVerif.C02.lookup_before_arm
#print axioms MiniconfVerif.C02.absent_variant_before_accessor
#print axioms MiniconfVerif.C02.flatten_adds_no_depth
#print axioms MiniconfVerif.C02.one_walk
#print axioms MiniconfVerif.C02.operations_agree
#print axioms MiniconfVerif.C02.structural_depths
#print axioms MiniconfVerif.C02.indices_in_range
#print axioms MiniconfVerif.C02.source_bookkeeping_is_model
#print axioms MiniconfVerif.C02.source_containers_are_model
#print axioms MiniconfVerif.C02.source_derive_is_model
#print axioms MiniconfVerif.C02.source_leaves_are_model
#print axioms MiniconfVerif.C02.source_wrappers_are_model
