import MiniconfVerif.Props.C03
#print axioms MiniconfVerif.C03.nodes_enumerates_leaves
#print axioms MiniconfVerif.C03.source_next_enumerates_leaves
#print axioms MiniconfVerif.C03.yielded_target_is_transcoding
#print axioms MiniconfVerif.C03.targets_accept
#print axioms MiniconfVerif.C03.leaves_successor_orbit
#print axioms MiniconfVerif.C03.leaves_sorted
#print axioms MiniconfVerif.C03.leaf_iff_enumerated
#print axioms MiniconfVerif.C03.count_eq
#print axioms MiniconfVerif.C03.state_keys_never_too_long
