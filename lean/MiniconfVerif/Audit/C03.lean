import MiniconfVerif.Props.C03
#print axioms MiniconfVerif.C03.count_eq
#print axioms MiniconfVerif.C03.state_keys_never_too_long
