import MiniconfVerif.Props.C04
#print axioms MiniconfVerif.C04.chain_is_concat
#print axioms MiniconfVerif.C04.chain_transcode
#print axioms MiniconfVerif.C04.bisimilar_sources_interchangeable
#print axioms MiniconfVerif.C04.callback_once_per_key
#print axioms MiniconfVerif.C04.any_key_any_target
#print axioms MiniconfVerif.C04.index_form_is_position
#print axioms MiniconfVerif.C04.packed_form_resolves
#print axioms MiniconfVerif.C04.path_text_roundtrip
#print axioms MiniconfVerif.C04.jsonpath_text_roundtrip
#print axioms MiniconfVerif.C04.source_key_find_is_model
#print axioms MiniconfVerif.C04.source_transcode_callbacks_are_model
#print axioms MiniconfVerif.C04.source_keys_are_model
