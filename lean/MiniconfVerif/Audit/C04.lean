import MiniconfVerif.Props.C04
#print axioms MiniconfVerif.C04.chain_is_concat
#print axioms MiniconfVerif.C04.chain_transcode
#print axioms MiniconfVerif.C04.bisimilar_sources_interchangeable
