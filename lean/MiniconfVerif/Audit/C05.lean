import MiniconfVerif.Props.C05
#print axioms MiniconfVerif.C05.unzigzag_zigzag
#print axioms MiniconfVerif.C05.bool_roundtrip
#print axioms MiniconfVerif.C05.unit_roundtrip
#print axioms MiniconfVerif.C05.json_roundtrip
#print axioms MiniconfVerif.C05.json_set_of_get
#print axioms MiniconfVerif.C05.postcard_roundtrip
#print axioms MiniconfVerif.C05.varint_roundtrip
#print axioms MiniconfVerif.C05.write_back_identity
#print axioms MiniconfVerif.C05.read_back
#print axioms MiniconfVerif.C05.small_buffer_no_partial
#print axioms MiniconfVerif.C05.source_helpers_are_model
