import MiniconfVerif.Props.C05
#print axioms MiniconfVerif.C05.unzigzag_zigzag
#print axioms MiniconfVerif.C05.bool_roundtrip
#print axioms MiniconfVerif.C05.unit_roundtrip
