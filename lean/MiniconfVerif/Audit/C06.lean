import MiniconfVerif.Props.C06
#print axioms MiniconfVerif.C06.count_exact
#print axioms MiniconfVerif.C06.depth_exact
#print axioms MiniconfVerif.C06.bits_exact
#print axioms MiniconfVerif.C06.length_exact
#print axioms MiniconfVerif.C06.buffers_suffice
#print axioms MiniconfVerif.C06.node_len_le_max
#print axioms MiniconfVerif.C06.path_buffer_suffices
#print axioms MiniconfVerif.C06.source_internal_is_model
#print axioms MiniconfVerif.C06.source_internal_array_is_model
#print axioms MiniconfVerif.C06.source_leaf_and_max_length
#print axioms MiniconfVerif.C06.walker_sees_every_node
