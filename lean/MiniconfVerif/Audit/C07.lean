import MiniconfVerif.Props.C07
#print axioms MiniconfVerif.C07.set_answer
#print axioms MiniconfVerif.C07.get_answer
#print axioms MiniconfVerif.C07.get_error
#print axioms MiniconfVerif.C07.list_accepted
#print axioms MiniconfVerif.C07.busy_refused
#print axioms MiniconfVerif.C07.list_no_gaps
#print axioms MiniconfVerif.C07.list_complete
#print axioms MiniconfVerif.C07.list_any_schedule
#print axioms MiniconfVerif.C07.foreign_topic_ignored
#print axioms MiniconfVerif.C07.source_handler_is_model
#print axioms MiniconfVerif.C07.source_iter_list_is_model
