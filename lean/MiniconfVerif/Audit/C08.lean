import MiniconfVerif.Props.C08
#print axioms MiniconfVerif.C08.every_word_is_a_stack
#print axioms MiniconfVerif.C08.push_refines
#print axioms MiniconfVerif.C08.push_len
#print axioms MiniconfVerif.C08.pop_refines
#print axioms MiniconfVerif.C08.push_pop_seq
#print axioms MiniconfVerif.C08.push_seq_overflow
#print axioms MiniconfVerif.C08.lsb_bijection
#print axioms MiniconfVerif.C08.constructors
#print axioms MiniconfVerif.C08.lsb_preserves
#print axioms MiniconfVerif.C08.bitsFor_spec
#print axioms MiniconfVerif.C08.key_width
