import MiniconfVerif.Props.C09
#print axioms MiniconfVerif.C09.level_roundtrip
