import MiniconfVerif.Props.C09
#print axioms MiniconfVerif.C09.level_roundtrip
#print axioms MiniconfVerif.C09.encode
#print axioms MiniconfVerif.C09.decode
#print axioms MiniconfVerif.C09.unique
#print axioms MiniconfVerif.C09.bounded
#print axioms MiniconfVerif.C09.order
#print axioms MiniconfVerif.C09.widthsAgree_kid
#print axioms MiniconfVerif.C09.append_stable
#print axioms MiniconfVerif.C09.source_packed_keys_are_model
