import MiniconfVerif.Props.C10
#print axioms MiniconfVerif.C10.dump_exactly_once
#print axioms MiniconfVerif.C10.dump_completes
#print axioms MiniconfVerif.C10.dump_entry_points
#print axioms MiniconfVerif.C10.api_dump_busy
#print axioms MiniconfVerif.C10.source_iter_dump_is_model
#print axioms MiniconfVerif.C10.source_dump_api_is_model
