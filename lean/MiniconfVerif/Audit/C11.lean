import MiniconfVerif.Props.C11
#print axioms MiniconfVerif.C11.fused
#print axioms MiniconfVerif.C11.init_not_done
#print axioms MiniconfVerif.C11.state_keys_finalize
#print axioms MiniconfVerif.C11.full_depth_exact
#print axioms MiniconfVerif.C11.limited_exact
#print axioms MiniconfVerif.C11.depth_limited_items
#print axioms MiniconfVerif.C11.targets_do_not_panic
#print axioms MiniconfVerif.C11.rooted_exact
#print axioms MiniconfVerif.C11.rooted_limited_exact
#print axioms MiniconfVerif.C11.exactCounts_finished
#print axioms MiniconfVerif.C11.exactCounts_items
#print axioms MiniconfVerif.C11.exact_size_remaining
#print axioms MiniconfVerif.C11.source_next_is_model
#print axioms MiniconfVerif.C11.source_root_is_model
#print axioms MiniconfVerif.C11.exactCountsM_eq
#print axioms MiniconfVerif.C11.source_exact_size_is_model
