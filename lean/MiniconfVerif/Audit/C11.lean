import MiniconfVerif.Props.C11
#print axioms MiniconfVerif.C11.fused
#print axioms MiniconfVerif.C11.init_not_done
#print axioms MiniconfVerif.C11.state_keys_finalize
