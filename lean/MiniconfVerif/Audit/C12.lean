import MiniconfVerif.Props.C12
#print axioms MiniconfVerif.C12.validators_only_on_de
#print axioms MiniconfVerif.C12.call_order
#print axioms MiniconfVerif.C12.validators_only_after_success
#print axioms MiniconfVerif.C12.deny_stops
#print axioms MiniconfVerif.C12.getter_error_stops
#print axioms MiniconfVerif.C12.getter_by_mutability
#print axioms MiniconfVerif.C12.validator_protocol
#print axioms MiniconfVerif.C12.source_derive_arms_are_model
