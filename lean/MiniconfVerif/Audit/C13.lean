import MiniconfVerif.Props.C13
#print axioms MiniconfVerif.C13.epoch_invariant
#print axioms MiniconfVerif.C13.epoch_order
#print axioms MiniconfVerif.C13.loss_restarts
#print axioms MiniconfVerif.C13.transitions
#print axioms MiniconfVerif.C13.transition_table_matches
#print axioms MiniconfVerif.C13.source_update_is_model
#print axioms MiniconfVerif.C13.source_update_composed_is_model
