import MiniconfVerif.Props.C14
#print axioms MiniconfVerif.C14.change_only_by_set
#print axioms MiniconfVerif.C14.changed_flag
#print axioms MiniconfVerif.C14.long_props_refused
#print axioms MiniconfVerif.C14.handleMsg_no_panic
#print axioms MiniconfVerif.C14.no_panic
