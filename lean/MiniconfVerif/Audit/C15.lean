import MiniconfVerif.Props.C15
#print axioms MiniconfVerif.C15.splitSpec_characterisation
#print axioms MiniconfVerif.C15.pathIter_spec
#print axioms MiniconfVerif.C15.pathIter_no_panic
#print axioms MiniconfVerif.C15.pathIter_fused
#print axioms MiniconfVerif.C15.pathIter_root_cases
#print axioms MiniconfVerif.C15.json_notations
#print axioms MiniconfVerif.C15.json_notations_agree
#print axioms MiniconfVerif.C15.json_no_panic
#print axioms MiniconfVerif.C15.json_fused_terminates
#print axioms MiniconfVerif.C15.source_iterators_are_model
