import MiniconfVerif.Props.C16
#print axioms MiniconfVerif.C16.path_split_no_panic
#print axioms MiniconfVerif.C16.json_split_no_panic
#print axioms MiniconfVerif.C16.packed_ops_no_overflow
#print axioms MiniconfVerif.C16.lsb_no_panic
#print axioms MiniconfVerif.C16.key_width_in_contract
#print axioms MiniconfVerif.C16.source_packed_next_no_panic
#print axioms MiniconfVerif.C16.walk_total
#print axioms MiniconfVerif.C16.traverse_total
#print axioms MiniconfVerif.C16.keys_total
