import MiniconfVerif.Props.C17
#print axioms MiniconfVerif.C17.completes_once
#print axioms MiniconfVerif.C17.interleaving
#print axioms MiniconfVerif.C17.foreign_inert
#print axioms MiniconfVerif.C17.others_untouched
#print axioms MiniconfVerif.C17.do_post
#print axioms MiniconfVerif.C17.source_do_tail_is_model
#print axioms MiniconfVerif.C17.normalize_spec
#print axioms MiniconfVerif.C17.source_dispatch_is_model
