def hello := "world"
