import MiniconfVerif.Gen.Packed

/-! Hand-written prelude of the regenerated translations (`extract/rust2lean.py`): result types that make
Rust panics explicit, and the few `core` functions the translated bodies call.  These are *assumed*
semantics of `core` (trusted base): `usize::checked_ilog10`, `NonZero::new`, `Packed::bits_for` on `Nat`. -/
namespace MiniconfVerif.Gen

/-- value of a translated function that may panic -/
inductive P (α : Type) where
  | val (a : α)
  | panic (site : String)
  deriving Repr, DecidableEq, Inhabited

/-- one pass through the body of a translated `loop`: `next` = `continue` / fall through,
`ret` = `return` -/
inductive Ctl (σ ρ : Type) where
  | next (s : σ)
  | ret (s : σ) (r : ρ)
  | panic (site : String)
  deriving Repr, DecidableEq, Inhabited

/-- one arm of the `match index { … }` of a derived by-key function, as `extract/gen_derive.read_arm` reads it off the
derive's output (`Gen/DeriveArms.lean`): `Err(Traversal::Access(0, msg).into())`, or the chain
`G.and_then(|item| child(item, keys, …))[.and_then(|depth| val::<k>(depth).map_err(Invalid(0, ·)))]` with `G` the plain
place `Ok(&[mut] self.f)` (`get = none`) or the accessor call `acc[m]::<k, _>(…).map_err(Access(0, ·))` -/
inductive ArmShape where
  | deny (msg : String)
  | access (get : Option Nat) (validate : Option Nat)
  deriving Repr, DecidableEq, Inhabited

/-- floor(log10 n) for n > 0 -/
def ilog10 (n : Nat) : Nat :=
  if h : n < 10 then 0 else 1 + ilog10 (n / 10)
decreasing_by omega

/-- `usize::checked_ilog10` -/
def checkedIlog10 (n : Nat) : Option Nat := if n = 0 then none else some (ilog10 n)

/-- `NonZero::new` (a `NonZero<usize>` is represented by its value) -/
def nonZeroNew (n : Nat) : Option Nat := if n = 0 then none else some n

/-- `Packed::bits_for` of the regenerated `Gen/Packed.lean`, on naturals (argument below 2^64) -/
def packedBitsFor (n : Nat) : Nat := (Packed.bitsFor (BitVec.ofNat 64 n)).toNat

/-- `Iterator::map_while(f)` collected -/
def mapWhile {α β : Type} (f : α → Option β) : List α → List β
  | [] => []
  | a :: as => match f a with
    | some b => b :: mapWhile f as
    | none => []

/-- `TryInto<usize>` for the twelve primitive integer types (value as an `Int`, 64-bit `usize`) -/
def tryIntoUsize (v : Int) : Option Nat := if 0 ≤ v ∧ v < 2 ^ 64 then some v.toNat else none

/-- `self[i].f(keys)` for a child function that returns a result and the updated child (`&mut self`): the result and
the container with that child replaced; an index out of bounds is the panic of `Index::index` -/
def applyAt {C K R : Type} (child : C → K → R × C) (self : List C) (i : Nat) (keys : K) : P (R × List C) :=
  match self[i]? with
  | some c => let rc := child c keys; .val (rc.1, self.set i rc.2)
  | none => .panic "index out of bounds"

/-- `self[i].f(keys)` for a child function on `&self` -/
def applyAtR {C K R : Type} (child : C → K → R) (self : List C) (i : Nat) (keys : K) : P R :=
  match self[i]? with
  | some c => .val (child c keys)
  | none => .panic "index out of bounds"

end MiniconfVerif.Gen
