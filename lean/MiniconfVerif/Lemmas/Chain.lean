import MiniconfVerif.Model.Schema

/-! Bisimulation of key sources: two sources related by `R` yield the same indices and
errors for every lookup, hence the same traversal of every schema. -/
namespace MiniconfVerif

structure Bisim (R : KeySrc → KeySrc → Prop) : Prop where
  next : ∀ k1 k2 lk, R k1 k2 →
    match k1.next lk, k2.next lk with
    | .ok (i, k1'), .ok (j, k2') => i = j ∧ R k1' k2'
    | .error e1, .error e2 => e1 = e2
    | _, _ => False
  fin : ∀ k1 k2, R k1 k2 → k1.finalize = k2.finalize

mutual
theorem traverse_bisim {σ : Type} {R : KeySrc → KeySrc → Prop} (hR : Bisim R) (cb : σ → CbArg → Option σ) :
    ∀ (s : Schema) (k1 k2 : KeySrc) (st : σ), R k1 k2 → s.traverse cb k1 st = s.traverse cb k2 st
  | .leaf, k1, k2, st, h => by
    simp only [Schema.traverse, hR.fin k1 k2 h]
  | .node lk cs, k1, k2, st, h => by
    have hn := hR.next k1 k2 lk h
    simp only [Schema.traverse]
    cases h1 : k1.next lk with
    | error e1 =>
      cases h2 : k2.next lk with
      | error e2 => simp only [h1, h2] at hn; simp [hn]
      | ok r2 => simp only [h1, h2] at hn
    | ok r1 =>
      cases h2 : k2.next lk with
      | error e2 => simp only [h1, h2] at hn
      | ok r2 =>
        obtain ⟨i, k1'⟩ := r1
        obtain ⟨j, k2'⟩ := r2
        simp only [h1, h2] at hn
        obtain ⟨rfl, hr⟩ := hn
        simp only []
        cases cb st ⟨i, lk.name? i, lk.len⟩ with
        | none => rfl
        | some st' => simp only [traverse_go_bisim hR cb cs i k1' k2' st' hr]
  | .array n c, k1, k2, st, h => by
    have hn := hR.next k1 k2 (.homog n) h
    simp only [Schema.traverse]
    cases h1 : k1.next (.homog n) with
    | error e1 =>
      cases h2 : k2.next (.homog n) with
      | error e2 => simp only [h1, h2] at hn; simp [hn]
      | ok r2 => simp only [h1, h2] at hn
    | ok r1 =>
      cases h2 : k2.next (.homog n) with
      | error e2 => simp only [h1, h2] at hn
      | ok r2 =>
        obtain ⟨i, k1'⟩ := r1
        obtain ⟨j, k2'⟩ := r2
        simp only [h1, h2] at hn
        obtain ⟨rfl, hr⟩ := hn
        simp only []
        cases cb st ⟨i, none, n⟩ with
        | none => rfl
        | some st' => simp only [traverse_bisim hR cb c k1' k2' st' hr]
theorem traverse_go_bisim {σ : Type} {R : KeySrc → KeySrc → Prop} (hR : Bisim R) (cb : σ → CbArg → Option σ) :
    ∀ (cs : List Schema) (i : Nat) (k1 k2 : KeySrc) (st : σ), R k1 k2 →
      Schema.traverse.go cb cs i k1 st = Schema.traverse.go cb cs i k2 st
  | [], _, _, _, _, _ => by simp [Schema.traverse.go]
  | c :: _, 0, k1, k2, st, h => by
    simp only [Schema.traverse.go]; exact traverse_bisim hR cb c k1 k2 st h
  | _ :: cs, i + 1, k1, k2, st, h => by
    simp only [Schema.traverse.go]; exact traverse_go_bisim hR cb cs i k1 k2 st h
end

/-- `Chain(list a, list b)` ~ `list (a ++ b)` -/
def ChainRel (k1 k2 : KeySrc) : Prop :=
  ∃ a b, k1 = .chain (.list a) (.list b) ∧ k2 = .list (a ++ b)

theorem chainRel_bisim : Bisim ChainRel where
  next := by
    intro k1 k2 lk ⟨a, b, h1, h2⟩
    subst h1; subst h2
    cases a with
    | nil =>
      cases b with
      | nil => simp [KeySrc.next]
      | cons k b =>
        simp only [KeySrc.next, List.nil_append]
        cases hk : k.find lk with
        | ok i => exact ⟨rfl, [], b, rfl, rfl⟩
        | error e => rfl
    | cons k a =>
      simp only [KeySrc.next, List.cons_append]
      cases hk : k.find lk with
      | ok i => exact ⟨rfl, a, b, rfl, rfl⟩
      | error e =>
        -- an error of the first source is final unless it is `TooShort`; `Key.find` never is
        have : ∀ d, e ≠ .tooShort d := by
          intro d he
          subst he
          cases k with
          | int v => simp only [Key.find] at hk; split at hk <;> simp at hk
          | str s =>
            simp only [Key.find] at hk
            split at hk
            · split at hk <;> simp at hk
            · split at hk
              · split at hk <;> simp at hk
              · simp at hk
            · split at hk
              · split at hk <;> simp at hk
              · simp at hk
        cases e <;> simp_all
  fin := by
    intro k1 k2 ⟨a, b, h1, h2⟩
    subst h1; subst h2
    cases a <;> cases b <;> simp [KeySrc.finalize]

end MiniconfVerif
