import MiniconfVerif.Model.Basic

/-! Decimal digits: `itoa` (what `itoa`/`core::fmt` write) and the readers (`usize::from_str`,
serde-json-core's number scanner) are inverse to each other. -/
namespace MiniconfVerif
set_option autoImplicit false

def digitChar (d : Nat) : Char := Char.ofNat (48 + d)

theorem digitChar_ok : ∀ (d : Nat), d < 10 → isDigit (digitChar d) = true ∧ (digitChar d).toNat - '0'.toNat = d
  | 0, _ => by decide
  | 1, _ => by decide
  | 2, _ => by decide
  | 3, _ => by decide
  | 4, _ => by decide
  | 5, _ => by decide
  | 6, _ => by decide
  | 7, _ => by decide
  | 8, _ => by decide
  | 9, _ => by decide
  | n + 10, h => by omega

theorem digitChar_zero_iff : ∀ (d : Nat), d < 10 → (digitChar d = '0' ↔ d = 0)
  | 0, _ => by decide
  | 1, _ => by decide
  | 2, _ => by decide
  | 3, _ => by decide
  | 4, _ => by decide
  | 5, _ => by decide
  | 6, _ => by decide
  | 7, _ => by decide
  | 8, _ => by decide
  | 9, _ => by decide
  | n + 10, h => by omega

theorem itoa_eq (n : Nat) : itoa n = if n < 10 then [digitChar n] else itoa (n / 10) ++ [digitChar (n % 10)] := by
  rw [itoa]; split <;> rfl

theorem itoa_ne_nil (n : Nat) : itoa n ≠ [] := by
  rw [itoa_eq]; split <;> simp

theorem itoa_all_digits : ∀ (n : Nat), (itoa n).all isDigit = true := by
  intro n
  induction n using Nat.strongRecOn with
  | _ n ih =>
    rw [itoa_eq]
    split
    · next h => simp [(digitChar_ok n h).1]
    · next h =>
      have := ih (n / 10) (by omega)
      simp only [List.all_append, this, List.all_cons, List.all_nil, Bool.and_true, Bool.true_and]
      exact (digitChar_ok (n % 10) (by omega)).1

theorem digitsVal_append : ∀ (a b : List Char) (acc : Nat), digitsVal (a ++ b) acc = digitsVal b (digitsVal a acc)
  | [], _, _ => rfl
  | c :: a, b, acc => by simp only [List.cons_append, digitsVal]; exact digitsVal_append a b _

theorem digitsVal_itoa : ∀ (n : Nat), digitsVal (itoa n) 0 = n := by
  intro n
  induction n using Nat.strongRecOn with
  | _ n ih =>
    rw [itoa_eq]
    split
    · next h => simp only [digitsVal, (digitChar_ok n h).2]; omega
    · next h =>
      rw [digitsVal_append, ih (n / 10) (by omega)]
      simp only [digitsVal, (digitChar_ok (n % 10) (by omega)).2]
      omega

/-- no leading zero except for zero itself -/
theorem itoa_head : ∀ (n : Nat), ∃ c rest, itoa n = c :: rest ∧ isDigit c = true ∧ (c = '0' → n = 0 ∧ rest = []) := by
  intro n
  induction n using Nat.strongRecOn with
  | _ n ih =>
    rw [itoa_eq]
    split
    · next h =>
      refine ⟨digitChar n, [], rfl, (digitChar_ok n h).1, ?_⟩
      intro hz
      exact ⟨(digitChar_zero_iff n h).mp hz, rfl⟩
    · next h =>
      obtain ⟨c, rest, h1, h2, h3⟩ := ih (n / 10) (by omega)
      refine ⟨c, rest ++ [digitChar (n % 10)], by rw [h1]; rfl, h2, ?_⟩
      intro hz
      have := (h3 hz).1
      omega

theorem takeWhile_append_of_all {α : Type} (p : α → Bool) : ∀ (a b : List α), a.all p = true →
    (∀ x ∈ b.head?, p x = false) → (a ++ b).takeWhile p = a ∧ (a ++ b).dropWhile p = b
  | [], b, _, hb => by
    cases b with
    | nil => simp
    | cons x xs =>
      have := hb x (by simp)
      simp [List.takeWhile, List.dropWhile, this]
  | x :: a, b, ha, hb => by
    simp only [List.all_cons, Bool.and_eq_true] at ha
    have := takeWhile_append_of_all p a b ha.2 hb
    simp [List.takeWhile, List.dropWhile, ha.1, this.1, this.2]

/-- `usize::from_str` reads back what `itoa` wrote -/
theorem parseUsize_itoa (n : Nat) (h : n < 2 ^ 64) : parseUsize (itoa n) = some n := by
  obtain ⟨c, rest, h1, h2, _⟩ := itoa_head n
  have hall := itoa_all_digits n
  have hv := digitsVal_itoa n
  have hne : c ≠ '+' := by
    intro e; subst e; simp [isDigit] at h2
  unfold parseUsize
  rw [h1] at hall hv ⊢
  simp only []
  split
  · next heq => simp only [List.cons.injEq] at heq; exact absurd heq.1 hne
  · have hnil : (c :: rest).isEmpty = false := rfl
    simp only [hnil, hall, hv, Bool.not_true, Bool.or_self, Bool.false_eq_true, if_false]
    have h' : n < 2 ^ 64 := h
    simp [h']

end MiniconfVerif
