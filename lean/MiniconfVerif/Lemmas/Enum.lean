import MiniconfVerif.Lemmas.Meta

/-! Depth-first order of the leaves as a successor function ("odometer with carry"), and
the proof that iterating the successor from the first leaf enumerates `Schema.leaves`.
Pure combinatorics: nothing about keys or the iterator state here. -/
namespace MiniconfVerif
set_option autoImplicit false

/-- children of a node as a list (arrays: `n` copies) -/
def Schema.kids : Schema → List Schema
  | .leaf => []
  | .node _ cs => cs
  | .array n c => List.replicate n c

def Schema.arity (s : Schema) : Nat := s.kids.length

/-- path of the first leaf: all zeros -/
def Schema.firstLeaf : Schema → List Nat
  | .leaf => []
  | .node _ cs => go cs
  | .array n c => if n = 0 then [] else 0 :: c.firstLeaf
where
  go : List Schema → List Nat
    | [] => []
    | c :: _ => 0 :: c.firstLeaf

theorem child?_eq_kids (s : Schema) (i : Nat) : s.child? i = s.kids[i]? := by
  cases s with
  | leaf => simp [Schema.child?, Schema.kids]
  | node lk cs => simp [Schema.child?, Schema.kids]
  | array n c =>
    simp only [Schema.child?, Schema.kids]
    by_cases h : i < n
    · simp [h]
    · simp [h]

/-- leaves of a list of children starting at index `i` -/
theorem leaves_array_go (n : Nat) (c : Schema) (i : Nat) :
    (List.range' i n).flatMap (fun k => c.leaves.map (k :: ·)) = Schema.leaves.go (List.replicate n c) i := by
  induction n generalizing i with
  | zero => simp [Schema.leaves.go]
  | succ n ih =>
    simp only [List.range'_succ, List.flatMap_cons, List.replicate_succ, Schema.leaves.go]
    rw [ih]

/-- the leaves of an internal node are those of its `kids` in order -/
theorem leaves_eq_kids (s : Schema) (h : s ≠ .leaf) : s.leaves = Schema.leaves.go s.kids 0 := by
  cases s with
  | leaf => exact absurd rfl h
  | node lk cs => rfl
  | array n c =>
    simp only [Schema.leaves, Schema.kids]
    rw [List.range_eq_range', leaves_array_go]

theorem wfList_mem : ∀ (cs : List Schema), Schema.WF.wfList cs → ∀ c ∈ cs, c.WF
  | [], _, _, hc => by simp at hc
  | c :: cs, h, x, hx => by
    simp only [List.mem_cons] at hx
    rcases hx with rfl | hx
    · exact h.1
    · exact wfList_mem cs h.2 x hx

/-- every kid of a well-formed schema is well-formed -/
theorem wf_kids (s : Schema) (h : s.WF) : ∀ c ∈ s.kids, c.WF := by
  cases s with
  | leaf => simp [Schema.kids]
  | node lk cs => exact wfList_mem cs h.2.2.2
  | array n c =>
    simp only [Schema.kids]
    intro x hx
    rw [List.mem_replicate] at hx
    rw [hx.2]; exact h.2

theorem wf_arity_pos (s : Schema) (h : s.WF) (hne : s ≠ .leaf) : 0 < s.arity := by
  cases s with
  | leaf => exact absurd rfl hne
  | node lk cs =>
    obtain ⟨hlen, hpos, _, _⟩ := h
    simp only [Schema.arity, Schema.kids]; omega
  | array n c => simp only [Schema.arity, Schema.kids, List.length_replicate]; exact h.1

theorem firstLeaf_eq_kids (s : Schema) : s.firstLeaf = Schema.firstLeaf.go s.kids := by
  cases s with
  | leaf => rfl
  | node lk cs => rfl
  | array n c =>
    simp only [Schema.firstLeaf, Schema.kids]
    cases n with
    | zero => rfl
    | succ n => simp [List.replicate_succ, Schema.firstLeaf.go]

theorem mem_leaves_go : ∀ (cs : List Schema) (k : Nat) (p : List Nat), p ∈ Schema.leaves.go cs k →
    ∃ i c rest, cs[i]? = some c ∧ p = (k + i) :: rest ∧ rest ∈ c.leaves
  | [], _, _, h => by simp [Schema.leaves.go] at h
  | c :: cs, k, p, h => by
    simp only [Schema.leaves.go, List.mem_append, List.mem_map] at h
    rcases h with ⟨rest, hr, rfl⟩ | h
    · exact ⟨0, c, rest, by simp, by simp, hr⟩
    · obtain ⟨i, c', rest, h1, h2, h3⟩ := mem_leaves_go cs (k + 1) p h
      exact ⟨i + 1, c', rest, by simpa using h1, by rw [h2]; congr 1; omega, h3⟩

theorem leaves_go_mem_of : ∀ (cs : List Schema) (k i : Nat) (c : Schema) (rest : List Nat), cs[i]? = some c →
    rest ∈ c.leaves → ((k + i) :: rest) ∈ Schema.leaves.go cs k
  | [], _, _, _, _, h, _ => by simp at h
  | c0 :: cs, k, 0, c, rest, h, hr => by
    simp only [List.getElem?_cons_zero, Option.some.injEq] at h
    subst h
    simp only [Schema.leaves.go, List.mem_append, List.mem_map, Nat.add_zero]
    exact Or.inl ⟨rest, hr, rfl⟩
  | c0 :: cs, k, i + 1, c, rest, h, hr => by
    simp only [List.getElem?_cons_succ] at h
    simp only [Schema.leaves.go, List.mem_append]
    right
    have := leaves_go_mem_of cs (k + 1) i c rest h hr
    have e : k + 1 + i = k + (i + 1) := by omega
    rw [e] at this; exact this

theorem maxDepth_go_ge : ∀ (cs : List Schema) (c : Schema), c ∈ cs → c.maxDepth ≤ Schema.maxDepth.go cs
  | [], _, h => by simp at h
  | c0 :: cs, c, h => by
    simp only [List.mem_cons] at h
    simp only [Schema.maxDepth.go]
    rcases h with rfl | h
    · omega
    · have := maxDepth_go_ge cs c h; omega

/-! ## the successor -/

/-- after finishing child `j` of the node at (reversed) path `qr`: the first leaf of the next
sibling, or carry to the parent; `none` = the walk is complete -/
def succRev (s : Schema) : List Nat → Nat → Option (List Nat)
  | [], j =>
    match s.at? [] with
    | some t => if j + 1 < t.arity then some ((j + 1) :: ((t.kids[j + 1]?).getD .leaf).firstLeaf) else none
    | none => none
  | j' :: qr, j =>
    match s.at? (j' :: qr).reverse with
    | some t =>
      if j + 1 < t.arity then some ((j' :: qr).reverse ++ (j + 1) :: ((t.kids[j + 1]?).getD .leaf).firstLeaf)
      else succRev s qr j'
    | none => none

/-- the leaf after the subtree at path `q` has been finished -/
def after (s : Schema) (q : List Nat) : Option (List Nat) :=
  match q.reverse with
  | [] => none
  | j :: qr => succRev s qr j

theorem after_snoc (s : Schema) (q : List Nat) (j : Nat) : after s (q ++ [j]) = succRev s q.reverse j := by
  simp [after]

/-- unfolding of `succRev` in terms of `after` -/
theorem succRev_eq (s : Schema) (q : List Nat) (j : Nat) (t : Schema) (ht : s.at? q = some t) :
    succRev s q.reverse j =
      if j + 1 < t.arity then some (q ++ (j + 1) :: ((t.kids[j + 1]?).getD .leaf).firstLeaf) else after s q := by
  cases hq : q.reverse with
  | nil =>
    have : q = [] := by simpa using hq
    subst this
    simp only [succRev, ht, after, List.reverse_nil, List.nil_append]
  | cons j' qr =>
    have hq' : q = (j' :: qr).reverse := by rw [← hq, List.reverse_reverse]
    simp only [succRev, after, hq]
    rw [← hq', ht]

/-! ## chains -/

/-- `l` is a run of `f`: each element is mapped to the next, the last one to `e` -/
def Chain {α : Type} (f : α → Option α) : List α → Option α → Prop
  | [], _ => True
  | [a], e => f a = e
  | a :: b :: l, e => f a = some b ∧ Chain f (b :: l) e

theorem chain_append {α : Type} (f : α → Option α) (l1 l2 : List α) (e : Option α) (h2ne : l2 ≠ [])
    (h1 : Chain f l1 l2.head?) (h2 : Chain f l2 e) : Chain f (l1 ++ l2) e := by
  induction l1 with
  | nil => simpa using h2
  | cons a l1 ih =>
    cases l1 with
    | nil =>
      cases l2 with
      | nil => exact absurd rfl h2ne
      | cons b l2 =>
        simp only [Chain, List.head?_cons] at h1
        simp only [List.cons_append, List.nil_append, Chain]
        exact ⟨h1, h2⟩
    | cons b l1 =>
      simp only [Chain] at h1
      simp only [List.cons_append, Chain]
      exact ⟨h1.1, ih h1.2⟩

theorem chain_map_single {α : Type} (f : α → Option α) (a : α) (e : Option α) (h : f a = e) : Chain f [a] e := h

/-! ## the leaves are a chain of the successor -/

theorem leaves_ne_nil : ∀ (s : Schema), s.WF → s.leaves ≠ []
  | .leaf, _ => by simp [Schema.leaves]
  | .node lk cs, h => by
    obtain ⟨hlen, hpos, _, hwf⟩ := h
    cases cs with
    | nil => simp at hlen; omega
    | cons c cs =>
      simp only [Schema.leaves, Schema.leaves.go]
      have := leaves_ne_nil c hwf.1
      intro e
      simp at e
      exact this e.1
  | .array n c, h => by
    simp only [Schema.leaves]
    have hc := leaves_ne_nil c h.2
    obtain ⟨x, hx⟩ := List.exists_mem_of_ne_nil _ hc
    intro e
    have : (0 :: x) ∈ (List.range n).flatMap (fun i => c.leaves.map (i :: ·)) := by
      simp only [List.mem_flatMap, List.mem_range, List.mem_map]
      exact ⟨0, h.1, x, hx, rfl⟩
    rw [e] at this
    simp at this

theorem leaves_head : ∀ (s : Schema), s.WF → s.leaves.head? = some s.firstLeaf
  | .leaf, _ => rfl
  | .node lk cs, h => by
    obtain ⟨hlen, hpos, _, hwf⟩ := h
    cases cs with
    | nil => simp at hlen; omega
    | cons c cs =>
      simp only [Schema.leaves, Schema.leaves.go, Schema.firstLeaf, Schema.firstLeaf.go]
      have hne := leaves_ne_nil c hwf.1
      have hh := leaves_head c hwf.1
      cases hl : c.leaves with
      | nil => exact absurd hl hne
      | cons x xs =>
        rw [hl] at hh
        simp only [List.head?_cons, Option.some.injEq] at hh
        simp [hh]
  | .array n c, h => by
    have hne := leaves_ne_nil c h.2
    have hh := leaves_head c h.2
    have hn : n ≠ 0 := by have := h.1; omega
    simp only [Schema.leaves, Schema.firstLeaf, hn, if_false]
    obtain ⟨m, rfl⟩ : ∃ m, n = m + 1 := ⟨n - 1, by omega⟩
    rw [List.range_eq_range', List.range'_succ, List.flatMap_cons]
    cases hl : c.leaves with
    | nil => exact absurd hl hne
    | cons x xs =>
      rw [hl] at hh
      simp only [List.head?_cons, Option.some.injEq] at hh
      simp [hh]

/-- the leaves below the subtree `c` at path `q` are a run of the successor, ending in what
follows that subtree -/
def LeavesChain (s : Schema) (q : List Nat) (c : Schema) : Prop :=
  Chain (after s) (c.leaves.map (q ++ ·)) (after s q)

theorem at?_snoc (s : Schema) (q : List Nat) (i : Nat) (t c : Schema) (ht : s.at? q = some t)
    (hc : t.kids[i]? = some c) : s.at? (q ++ [i]) = some c := by
  induction q generalizing s with
  | nil =>
    simp only [Schema.at?] at ht
    cases ht
    simp [Schema.at?, child?_eq_kids, hc]
  | cons j q ih =>
    simp only [List.cons_append, Schema.at?] at ht ⊢
    cases hj : s.child? j with
    | none => simp [hj] at ht
    | some cj =>
      simp only [hj] at ht ⊢
      exact ih cj ht

theorem leaves_go_ne_nil (c : Schema) (cs : List Schema) (k : Nat) (hc : c.WF) : Schema.leaves.go (c :: cs) k ≠ [] := by
  simp only [Schema.leaves.go]
  intro e
  simp at e
  exact leaves_ne_nil c hc e.1

theorem chain_kids (s t : Schema) (q : List Nat) (ht : s.at? q = some t)
    (hwf : ∀ c ∈ t.kids, c.WF)
    (hP : ∀ i c, t.kids[i]? = some c → LeavesChain s (q ++ [i]) c) :
    ∀ (suf pre : List Schema), suf ≠ [] → t.kids = pre ++ suf →
      Chain (after s) ((Schema.leaves.go suf pre.length).map (q ++ ·)) (after s q) := by
  intro suf
  induction suf with
  | nil => intro pre h; exact absurd rfl h
  | cons c suf ih =>
    intro pre _ hk
    have hck : t.kids[pre.length]? = some c := by rw [hk]; simp
    have hcwf : c.WF := hwf c (by rw [hk]; simp)
    have hc := hP pre.length c hck
    have hmap : (c.leaves.map (pre.length :: ·)).map (q ++ ·) = c.leaves.map ((q ++ [pre.length]) ++ ·) := by
      simp [List.map_map, Function.comp_def]
    have hafter := after_snoc s q pre.length
    rw [succRev_eq s q pre.length t ht] at hafter
    cases suf with
    | nil =>
      simp only [Schema.leaves.go, List.append_nil, hmap]
      have har : ¬ (pre.length + 1 < t.arity) := by
        simp only [Schema.arity, hk, List.length_append, List.length_cons, List.length_nil]; omega
      simp only [har, if_false] at hafter
      unfold LeavesChain at hc
      rw [hafter] at hc
      exact hc
    | cons c' rest =>
      have hc'k : t.kids[pre.length + 1]? = some c' := by
        rw [hk]; simp [List.getElem?_append_right]
      have hc'wf : c'.WF := hwf c' (by rw [hk]; simp)
      have har : pre.length + 1 < t.arity := by
        simp only [Schema.arity, hk, List.length_append, List.length_cons]; omega
      simp only [har, if_true, hc'k, Option.getD_some] at hafter
      have ih' := ih (pre ++ [c]) (by simp) (by rw [hk]; simp)
      simp only [List.length_append, List.length_cons, List.length_nil] at ih'
      have hgo : Schema.leaves.go (c :: c' :: rest) pre.length =
          c.leaves.map (pre.length :: ·) ++ Schema.leaves.go (c' :: rest) (pre.length + 1) := by
        simp [Schema.leaves.go]
      rw [hgo, List.map_append, hmap]
      refine chain_append _ _ _ _ ?_ ?_ ih'
      · intro e
        have := leaves_go_ne_nil c' rest (pre.length + 1) hc'wf
        simp only [List.map_eq_nil_iff] at e
        exact this e
      · -- the run below `c` ends in the first leaf below `c'`
        have hh : ((Schema.leaves.go (c' :: rest) (pre.length + 1)).map (q ++ ·)).head? =
            some (q ++ (pre.length + 1) :: c'.firstLeaf) := by
          simp only [Schema.leaves.go, List.map_append, List.map_map]
          have hne := leaves_ne_nil c' hc'wf
          have hh := leaves_head c' hc'wf
          cases hl : c'.leaves with
          | nil => exact absurd hl hne
          | cons x xs =>
            rw [hl] at hh
            simp only [List.head?_cons, Option.some.injEq] at hh
            simp [hh]
        rw [hh]
        unfold LeavesChain at hc
        rw [hafter] at hc
        exact hc

/-- the statement for every member of a list (structural companion) -/
def AllChain : List Schema → Prop
  | [] => True
  | c :: cs => (∀ (s : Schema) (q : List Nat), c.WF → s.at? q = some c → LeavesChain s q c) ∧ AllChain cs

theorem allChain_mem : ∀ (cs : List Schema), AllChain cs → ∀ c ∈ cs, ∀ (s : Schema) (q : List Nat), c.WF →
    s.at? q = some c → LeavesChain s q c
  | [], _, c, h => by simp at h
  | c0 :: cs, hall, c, h => by
    simp only [List.mem_cons] at h
    rcases h with rfl | h
    · exact hall.1
    · exact allChain_mem cs hall.2 c h

mutual
theorem leaves_chain : ∀ (t s : Schema) (q : List Nat), t.WF → s.at? q = some t → LeavesChain s q t
  | .leaf, s, q, _, _ => by
    simp [LeavesChain, Schema.leaves, Chain]
  | .node lk cs, s, q, hwf, ht => by
    have hkids : (Schema.node lk cs).kids = cs := rfl
    have hne : cs ≠ [] := by
      obtain ⟨hlen, hpos, _, _⟩ := hwf
      intro e; subst e; simp at hlen; omega
    have h := chain_kids s (.node lk cs) q ht (wf_kids _ hwf)
      (fun i c hc => allChain_mem cs (leaves_chain_all cs) c (by rw [hkids] at hc; exact List.mem_of_getElem? hc) s (q ++ [i])
        (wf_kids _ hwf c (by rw [hkids] at hc ⊢; exact List.mem_of_getElem? hc))
        (at?_snoc s q i _ c ht hc))
      cs [] hne (by simp [hkids])
    simpa [LeavesChain, Schema.leaves] using h
  | .array n c, s, q, hwf, ht => by
    have hne : List.replicate n c ≠ [] := by
      have := hwf.1
      intro e
      have : (List.replicate n c).length = 0 := by rw [e]; rfl
      simp at this; omega
    have h := chain_kids s (.array n c) q ht (wf_kids _ hwf)
      (fun i c' hc' => by
        have hc'' : c' = c := by
          simp only [Schema.kids] at hc'
          have := List.mem_of_getElem? hc'
          rw [List.mem_replicate] at this
          exact this.2
        subst hc''
        exact leaves_chain c' s (q ++ [i]) hwf.2 (at?_snoc s q i _ c' ht hc'))
      (List.replicate n c) [] hne (by simp [Schema.kids])
    have hl := leaves_eq_kids (.array n c) (by simp)
    simp only [Schema.kids] at hl
    simpa [LeavesChain, hl] using h
theorem leaves_chain_all : ∀ (cs : List Schema), AllChain cs
  | [] => trivial
  | c :: cs => ⟨fun s q hwf ht => leaves_chain c s q hwf ht, leaves_chain_all cs⟩
end

/-- **The leaves, in order, are exactly what iterating the successor from the first leaf
visits**, and the successor of the last leaf is `none`. -/
theorem leaves_are_successor_chain (s : Schema) (h : s.WF) :
    s.leaves.head? = some s.firstLeaf ∧ Chain (after s) s.leaves none := by
  refine ⟨leaves_head s h, ?_⟩
  have := leaves_chain s s [] h rfl
  simpa [LeavesChain, after] using this

end MiniconfVerif
