import MiniconfVerif.Lemmas.PackedPath
import MiniconfVerif.Lemmas.WalkStruct
import MiniconfVerif.Lemmas.WalkTotal

/-! Every traversal, with any key source, factors through an index path: the keys consumed
select a valid node path `p`; the callback was invoked exactly once per consumed key, in
order, with that level's index, name and sibling count; the walk then stops at the node at
`p` (leaf: `finalize`; internal node: the key source has no further usable key). -/
namespace MiniconfVerif
set_option autoImplicit false

/-- the outcome at the node where the walk stops -/
def stopAt (t : Schema) (ks : KeySrc) : Res :=
  if t.isLeaf then
    (match ks.finalize with | .ok () => .ok 0 | .error e => .trav e)
  else
    (match ks.next t.lookup with | .ok _ => .trav (.panic "not a stop") | .error e => .trav e)

/-- `traverse cb ks st` walked `p`, all callbacks along it succeeded, and it stopped there -/
def FactorOk {σ : Type} (cb : σ → CbArg → Option σ) (s : Schema) (ks : KeySrc) (st : σ) (p : List Nat) : Prop :=
  ∃ t ks' st', s.at? p = some t ∧ cbAlong cb s p st = some st' ∧
    (t.isLeaf = true ∨ ∃ e, ks'.next t.lookup = .error e) ∧
    s.traverse cb ks st = (Res.incrN p.length (stopAt t ks'), st')

/-- … or the callback refused the last index of `p` (capacity): `Inner(|p|)` -/
def FactorFail {σ : Type} (cb : σ → CbArg → Option σ) (s : Schema) (ks : KeySrc) (st : σ) (p : List Nat) : Prop :=
  ∃ q i t stq, p = q ++ [i] ∧ s.at? q = some t ∧ i < t.arity ∧ cbAlong cb s q st = some stq ∧
    cb stq (t.cbArg i) = none ∧ s.traverse cb ks st = (.inner p.length, stq)

theorem stop_of_leaf {σ : Type} (cb : σ → CbArg → Option σ) (ks : KeySrc) (st : σ) :
    Schema.leaf.traverse cb ks st = (stopAt .leaf ks, st) := by
  simp only [Schema.traverse, stopAt, Schema.isLeaf, if_true]
  cases ks.finalize <;> rfl

/-- one level of the factorization -/
theorem factor_step {σ : Type} (cb : σ → CbArg → Option σ) (s c : Schema) (hwf : s.WF) (ks ks1 : KeySrc) (st st1 : σ)
    (i : Nat) (hk : s.kids[i]? = some c) (hn : ks.next s.lookup = .ok (i, ks1)) (hcb : cb st (s.cbArg i) = some st1)
    (p : List Nat) (h : FactorOk cb c ks1 st1 p ∨ FactorFail cb c ks1 st1 p) :
    FactorOk cb s ks st (i :: p) ∨ FactorFail cb s ks st (i :: p) := by
  have htr := traverse_step cb s c ks ks1 i st hk hn
  simp only [hcb] at htr
  rcases h with ⟨t, ks', st', h1, h2, h3, h4⟩ | ⟨q, j, t, stq, h1, h2, h3, h4, h5, h6⟩
  · left
    refine ⟨t, ks', st', by rw [at?_cons, hk]; exact h1, by simp only [cbAlong, hk, hcb]; exact h2, h3, ?_⟩
    rw [htr, h4]
    simp only [List.length_cons, Res.incrN]
  · right
    refine ⟨i :: q, j, t, stq, by rw [h1]; rfl, by rw [at?_cons, hk]; exact h2, h3,
      by simp only [cbAlong, hk, hcb]; exact h4, h5, ?_⟩
    rw [htr, h6]
    simp [Res.incr]

/-- the statement for every member of a list (structural companion) -/
def AllFactor {σ : Type} (cb : σ → CbArg → Option σ) : List Schema → Prop
  | [] => True
  | c :: cs => (∀ (ks : KeySrc) (st : σ), c.WF → ∃ p, FactorOk cb c ks st p ∨ FactorFail cb c ks st p) ∧ AllFactor cb cs

theorem allFactor_mem {σ : Type} (cb : σ → CbArg → Option σ) : ∀ (cs : List Schema), AllFactor cb cs → ∀ c ∈ cs,
    ∀ (ks : KeySrc) (st : σ), c.WF → ∃ p, FactorOk cb c ks st p ∨ FactorFail cb c ks st p
  | [], _, c, h => by simp at h
  | c0 :: cs, hall, c, h => by
    simp only [List.mem_cons] at h
    rcases h with rfl | h
    · exact hall.1
    · exact allFactor_mem cb cs hall.2 c h

mutual
/-- **Factorization** of `traverse_by_key` for every schema, key source, callback and state -/
theorem traverse_factor {σ : Type} (cb : σ → CbArg → Option σ) :
    ∀ (s : Schema) (ks : KeySrc) (st : σ), s.WF → ∃ p, FactorOk cb s ks st p ∨ FactorFail cb s ks st p
  | .leaf, ks, st, _ =>
    ⟨[], Or.inl ⟨.leaf, ks, st, rfl, rfl, Or.inl rfl, by rw [stop_of_leaf]; rfl⟩⟩
  | .node lk cs, ks, st, hwf => by
    cases hn : ks.next lk with
    | error e =>
      refine ⟨[], Or.inl ⟨.node lk cs, ks, st, rfl, rfl, Or.inr ⟨e, hn⟩, ?_⟩⟩
      simp only [Schema.traverse, hn, stopAt, Schema.isLeaf, Bool.false_eq_true, if_false, Schema.lookup,
        List.length_nil, Res.incrN]
    | ok r =>
      obtain ⟨i, ks1⟩ := r
      have hlt := next_lt ks lk i ks1 hn
      have hlt' : i < cs.length := by rw [hwf.1]; exact hlt
      have hk : (Schema.node lk cs).kids[i]? = some cs[i] := by simp [Schema.kids, hlt']
      cases hcb : cb st ((Schema.node lk cs).cbArg i) with
      | none =>
        refine ⟨[i], Or.inr ⟨[], i, .node lk cs, st, rfl, rfl, by simpa [Schema.arity, Schema.kids] using hlt', rfl, hcb, ?_⟩⟩
        simp only [Schema.cbArg] at hcb
        simp only [Schema.traverse, hn, hcb, List.length_cons, List.length_nil]
      | some st1 =>
        obtain ⟨p, hp⟩ := allFactor_mem cb cs (traverse_factor_all cb cs) cs[i] (List.getElem_mem hlt') ks1 st1
          (wfList_mem cs hwf.2.2.2 _ (List.getElem_mem hlt'))
        exact ⟨i :: p, factor_step cb (.node lk cs) cs[i] hwf ks ks1 st st1 i hk hn hcb p hp⟩
  | .array n c, ks, st, hwf => by
    cases hn : ks.next (.homog n) with
    | error e =>
      refine ⟨[], Or.inl ⟨.array n c, ks, st, rfl, rfl, Or.inr ⟨e, hn⟩, ?_⟩⟩
      simp only [Schema.traverse, hn, stopAt, Schema.isLeaf, Bool.false_eq_true, if_false, Schema.lookup,
        List.length_nil, Res.incrN]
    | ok r =>
      obtain ⟨i, ks1⟩ := r
      have hlt := next_lt ks _ i ks1 hn
      simp only [Lookup.len] at hlt
      have hk : (Schema.array n c).kids[i]? = some c := by simp [Schema.kids, hlt]
      cases hcb : cb st ((Schema.array n c).cbArg i) with
      | none =>
        refine ⟨[i], Or.inr ⟨[], i, .array n c, st, rfl, rfl, by simpa [Schema.arity, Schema.kids] using hlt, rfl, hcb, ?_⟩⟩
        simp only [Schema.cbArg] at hcb
        simp only [Schema.traverse, hn, hcb, List.length_cons, List.length_nil]
      | some st1 =>
        obtain ⟨p, hp⟩ := traverse_factor cb c ks1 st1 hwf.2
        exact ⟨i :: p, factor_step cb (.array n c) c hwf ks ks1 st st1 i hk hn hcb p hp⟩
theorem traverse_factor_all {σ : Type} (cb : σ → CbArg → Option σ) : ∀ (cs : List Schema), AllFactor cb cs
  | [] => trivial
  | c :: cs => ⟨fun ks st hwf => traverse_factor cb c ks st hwf, traverse_factor_all cb cs⟩
end

end MiniconfVerif

namespace MiniconfVerif
set_option autoImplicit false

/-- the callback arguments along an index path -/
def argsAlong : Schema → List Nat → List CbArg
  | _, [] => []
  | t, i :: p => t.cbArg i :: (match t.kids[i]? with | some c => argsAlong c p | none => [])

/-- the recording callback -/
def recCb : List CbArg → CbArg → Option (List CbArg) := fun log a => some (log ++ [a])

theorem cbAlong_rec : ∀ (p : List Nat) (s t : Schema) (log : List CbArg), s.at? p = some t →
    cbAlong recCb s p log = some (log ++ argsAlong s p) := by
  intro p
  induction p with
  | nil => intro s t log _; simp [cbAlong, argsAlong]
  | cons i p ih =>
    intro s t log h
    rw [at?_cons] at h
    cases hk : s.kids[i]? with
    | none => simp [hk] at h
    | some c =>
      simp only [hk] at h
      simp only [cbAlong, hk, recCb, argsAlong]
      rw [ih c t _ h]; simp

theorem argsAlong_length : ∀ (p : List Nat) (s t : Schema), s.at? p = some t → (argsAlong s p).length = p.length := by
  intro p
  induction p with
  | nil => intro s t _; rfl
  | cons i p ih =>
    intro s t h
    rw [at?_cons] at h
    cases hk : s.kids[i]? with
    | none => simp [hk] at h
    | some c =>
      simp only [hk] at h
      simp only [argsAlong, hk, List.length_cons, ih c t h]

/-- node kind of a transcode result for a walk that stopped at `t` after `d` keys -/
theorem toNode_stop (t : Schema) (ks : KeySrc) (d : Nat) :
    (Res.incrN d (stopAt t ks)).toNode =
      if t.isLeaf then
        (match ks.finalize with | .ok () => .leaf d | .error e => (Res.incrN d (.trav e)).toNode)
      else
        (match ks.next t.lookup with
         | .ok _ => .err (.panic "not a stop")
         | .error e => (Res.incrN d (.trav e)).toNode) := by
  unfold stopAt
  cases t.isLeaf with
  | true =>
    simp only [if_true]
    cases ks.finalize with
    | ok u => simp [incrN_ok, Res.toNode]
    | error e => rfl
  | false =>
    simp only [Bool.false_eq_true, if_false]
    cases ks.next t.lookup with
    | ok r =>
      have : ∀ n, Res.incrN n (.trav (.panic "not a stop")) = .trav (.panic "not a stop") := by
        intro n; induction n with
        | zero => rfl
        | succ n ih => simp [Res.incrN, ih, Res.incr, Trav.incr]
      simp [this, Res.toNode]
    | error e => rfl

theorem incrN_tooLong (n d : Nat) : Res.incrN n (.trav (.tooLong d)) = .trav (.tooLong (d + n)) := by
  induction n with
  | zero => rfl
  | succ n ih => simp [Res.incrN, ih, Res.incr, Trav.incr]; omega

theorem incrN_panic (n : Nat) (e : Trav) (h : e.isPanic = true) : ∃ s, Res.incrN n (.trav e) = .trav (.panic s) := by
  cases e <;> simp [Trav.isPanic] at h
  next s =>
    refine ⟨s, ?_⟩
    induction n with
    | zero => rfl
    | succ n ih => simp [Res.incrN, ih, Res.incr, Trav.incr]

/-- when a walk that stopped at `t` after `d` keys reports a node at all, it reports `t`'s
kind at depth `d` -/
theorem stop_node_kind (t : Schema) (ks : KeySrc) (d : Nat) (hstop : t.isLeaf = true ∨ ∃ e, ks.next t.lookup = .error e)
    (k : Nat) (h : (Res.incrN d (stopAt t ks)).toNode = .leaf k ∨ (Res.incrN d (stopAt t ks)).toNode = .internal k) :
    (Res.incrN d (stopAt t ks)).toNode = (if t.isLeaf then NodeRes.leaf d else NodeRes.internal d) := by
  rw [toNode_stop] at h ⊢
  cases hl : t.isLeaf with
  | true =>
    simp only [hl, if_true] at h ⊢
    cases hf : ks.finalize with
    | ok u => rfl
    | error e =>
      exfalso
      simp only [hf] at h
      rw [finalize_err ks e hf, incrN_tooLong] at h
      simp [Res.toNode] at h
  | false =>
    simp only [hl, Bool.false_eq_true, if_false] at h ⊢
    rcases hstop with hs | ⟨e, he⟩
    · rw [hl] at hs; cases hs
    · simp only [he] at h ⊢
      rcases next_err ks _ e he with rfl | rfl | hp
      · simp [incrN_tooShort, Res.toNode]
      · exfalso; simp [incrN_notFound, Res.toNode] at h
      · exfalso
        obtain ⟨s, hs⟩ := incrN_panic d e hp
        rw [hs] at h; simp [Res.toNode] at h

/-- **Any key, any target**: with a target that accepts every path of the type, transcoding
*any* key source walks some node path `p`, stops at the node there, and the produced target
is exactly `tgtAt s fresh p` — what the index tuple `p` itself produces. -/
theorem transcode_factor (s : Schema) (hwf : s.WF) (fresh : Target) (hacc : Accepts s fresh) (ks : KeySrc) :
    ∃ p t ks', s.at? p = some t ∧ (t.isLeaf = true ∨ ∃ e, ks'.next t.lookup = .error e) ∧
      s.transcode ks fresh = ((Res.incrN p.length (stopAt t ks')).toNode, tgtAt s fresh p) := by
  obtain ⟨p, hp⟩ := traverse_factor Target.cbP s ks (fresh, false) hwf
  rcases hp with ⟨t, ks', st', h1, h2, h3, h4⟩ | ⟨q, i, t, stq, h1, h2, h3, h4, h5, _⟩
  · obtain ⟨tg, htg⟩ := hacc p t h1
    rw [htg] at h2
    cases h2
    refine ⟨p, t, ks', h1, h3, ?_⟩
    simp only [Schema.transcode, h4, Bool.false_eq_true, if_false, tgtAt, htg]
  · -- the target accepts `q ++ [i]`, so the callback cannot have refused
    exfalso
    have hk : t.kids[i]? = some (t.kids[i]'h3) := by unfold Schema.arity at h3; simp [h3]
    have hat := at?_snoc s q i t _ h2 hk
    obtain ⟨tg, htg⟩ := hacc (q ++ [i]) _ hat
    rw [cbAlong_append Target.cbP q s t [i] (fresh, false) h2, h4] at htg
    simp only [Option.bind_some, cbAlong, hk, h5] at htg
    cases htg

/-- transcoding the index tuple of a node (leaf or internal) gives that node and `tgtAt` -/
theorem transcode_index_key (s t : Schema) (hwf : s.WF) (hsm : s.Small) (fresh : Target) (hacc : Accepts s fresh)
    (p : List Nat) (ht : s.at? p = some t) :
    s.transcode (.list (intKeys p)) fresh =
      ((if t.isLeaf then NodeRes.leaf p.length else NodeRes.internal p.length), tgtAt s fresh p) := by
  obtain ⟨tg, h⟩ := hacc p t ht
  have hsrc : KeySrc.list (intKeys p) = idxSrc true p := by simp [idxSrc]
  simp only [Schema.transcode, hsrc, traverse_eq_idxWalk Target.cbP true _ s _ hwf hsm]
  have := idxWalk_prefix Target.cbP true p s t [] (fresh, false) (tg, false) ht h
  rw [List.append_nil] at this
  rw [this]
  unfold idxWalk
  cases hl : t.isLeaf <;> simp [incrN_ok, incrN_tooShort, Res.toNode, tgtAt, h]

/-- a packed word accepts every path of a type whose `max_bits` fits -/
theorem accepts_packed (s : Schema) (hwf : s.WF) (hsm : s.Small) (hmax : s.meta.maxBits ≤ 63) :
    Accepts s (.packed Gen.Packed.EMPTY) := by
  intro p t ht
  have hV0 : PackedWord.Valid 0 0 := by constructor <;> decide
  have htb := totalBits_eq_pathW p s t hwf ht
  have hle := node_bits_le_max s t hwf p ht
  obtain ⟨w, _, hw2, _⟩ := cbAlong_packed p s t 0 0 hwf hsm ht hV0 (by rw [htb]; simp; omega)
  rw [← PackedWord.empty_repr] at hw2
  exact ⟨_, hw2⟩

end MiniconfVerif
