import MiniconfVerif.Gen.Core
import MiniconfVerif.Model.Iter
import MiniconfVerif.Model.Meta

/-! The hand-written model agrees with the definitions regenerated from the Rust source
(`Gen/Core.lean`, `extract/gen_core.py`).  Every theorem here is re-checked on every run against what
`error.rs`, `key.rs`, `node.rs`, `walk.rs` and `iter.rs` say *now*; the property theorems are about the
hand-written model, these ties carry them over to the translated source. -/
namespace MiniconfVerif.GenTie
open MiniconfVerif MiniconfVerif.Gen MiniconfVerif.Gen.Core

/-! ### error.rs -/

def travOfGen : Traversal → Trav
  | .Absent d => .absent d
  | .TooShort d => .tooShort d
  | .NotFound d => .notFound d
  | .TooLong d => .tooLong d
  | .Access d m => .access d m
  | .Invalid d m => .invalid d m

def travToGen : Trav → Option Traversal
  | .absent d => some (.Absent d)
  | .tooShort d => some (.TooShort d)
  | .notFound d => some (.NotFound d)
  | .tooLong d => some (.TooLong d)
  | .access d m => some (.Access d m)
  | .invalid d m => some (.Invalid d m)
  | .panic _ => none

theorem travToGen_ofGen (t : Traversal) : travToGen (travOfGen t) = some t := by cases t <;> rfl

theorem travOfGen_not_panic (t : Traversal) : (travOfGen t).isPanic = false := by cases t <;> rfl

/-- `Result<usize, Error<()>>` of the source as the model's `Res` -/
def resOfGen : Except (Error Unit) Nat → Res
  | .ok d => .ok d
  | .error (.Traversal t) => .trav (travOfGen t)
  | .error (.Inner d ()) => .inner d
  | .error (.Finalization ()) => .final

theorem increment_tie (t : Traversal) : travOfGen t.increment = (travOfGen t).incr := by
  cases t <;> rfl

theorem depth_tie (t : Traversal) : t.depth = (travOfGen t).depth := by
  cases t <;> rfl

theorem increment_result_tie (r : Except (Error Unit) Nat) :
    resOfGen (Error.increment_result r) = (resOfGen r).incr := by
  rcases r with e | d
  · rcases e with t | ⟨d, u⟩ | u
    · simp [Error.increment_result, Error.increment, resOfGen, Res.incr, increment_tie]
    · rfl
    · rfl
  · rfl

/-! ### key.rs -/

def lookupToGen : Lookup → KeyLookup
  | .named ns => .Named ns
  | .numbered n => .Numbered n
  | .homog n => .Homogeneous n

theorem len_tie (lk : Lookup) (h : 0 < lk.len) : (lookupToGen lk).len = .val lk.len := by
  cases lk with
  | named ns =>
    have : ns.length ≠ 0 := by simpa [Lookup.len] using Nat.pos_iff_ne_zero.mp h
    simp [lookupToGen, KeyLookup.len, nonZeroNew, this, Lookup.len]
  | numbered n => rfl
  | homog n => rfl

/-- a lookup without children is the `panic!("Must have at least one child")` -/
theorem len_panics_iff (ns : List String) :
    (∃ s, (KeyLookup.Named ns).len = .panic s) ↔ ns.length = 0 := by
  by_cases h : ns.length = 0 <;> simp [KeyLookup.len, nonZeroNew, h]

theorem lookup_tie (lk : Lookup) (i : Nat) :
    (lookupToGen lk).lookup i =
      if i < lk.len then .ok (lk.name? i) else .error (.NotFound 1) := by
  cases lk with
  | named ns =>
    simp only [lookupToGen, KeyLookup.lookup, Lookup.len, Lookup.name?]
    by_cases h : i < ns.length
    · simp [h]
    · simp [h, List.getElem?_eq_none (Nat.le_of_not_lt h)]
  | numbered n =>
    simp only [lookupToGen, KeyLookup.lookup, Lookup.len, Lookup.name?]
    by_cases h : i < n
    · simp [h, Nat.not_le.mpr h]
    · simp [h, Nat.le_of_not_lt h]
  | homog n =>
    simp only [lookupToGen, KeyLookup.lookup, Lookup.len, Lookup.name?]
    by_cases h : i < n
    · simp [h, Nat.not_le.mpr h]
    · simp [h, Nat.le_of_not_lt h]

/-! ### node.rs -/

def nodeResOfGen : P (Except Traversal Node) → NodeRes
  | .val (.ok ⟨d, .Leaf⟩) => .leaf d
  | .val (.ok ⟨d, .Internal⟩) => .internal d
  | .val (.error t) => .err (travOfGen t)
  | .panic _ => .err (.panic "unreachable")

theorem try_from_tie (r : Except (Error Unit) Nat) :
    nodeResOfGen (Node.try_from r) = (resOfGen r).toNode := by
  rcases r with e | d
  · rcases e with t | ⟨d, u⟩ | u
    · cases t <;> rfl
    · rfl
    · rfl
  · rfl

/-! ### walk.rs -/

def metaToGen (m : Meta) : Metadata :=
  { max_length := m.maxLength, max_depth := m.maxDepth, count := m.count, max_bits := m.maxBits }

theorem leaf_tie : Metadata.leaf = metaToGen Meta.leaf := rfl

theorem ilog10_digits (n : Nat) : ilog10 n + 1 = digits n := by
  induction n using Nat.strongRecOn with
  | _ n ih =>
    unfold ilog10 digits
    by_cases h : n < 10
    · simp [h]
    · simp only [h, ↓reduceDIte]
      have := ih (n / 10) (by omega)
      omega

theorem checkedIlog10_digits (n : Nat) : (checkedIlog10 n).getD 0 + 1 = digits n := by
  unfold checkedIlog10
  by_cases h : n = 0
  · subst h; simp [digits]
  · simp [h, ilog10_digits]

theorem packedBitsFor_widthFor (len : Nat) (h : 0 < len) (h64 : len < 2 ^ 64) :
    packedBitsFor (len - 1) = widthFor len := by
  unfold packedBitsFor widthFor Packed.keyBits
  congr 2
  apply BitVec.eq_of_toNat_eq
  rw [BitVec.toNat_sub_of_le]
  · simp [Nat.mod_eq_of_lt h64, Nat.mod_eq_of_lt (show len - 1 < 2 ^ 64 by omega)]
  · simp [BitVec.le_def, Nat.mod_eq_of_lt h64]; omega

/-- the accumulator of the `for` loop -/
abbrev Acc := Nat × Nat × Nat × Nat

def accOf (m : Meta) : Acc := (m.maxDepth, m.maxLength, m.count, m.maxBits)

/-- `Schema.meta.go` over the metadata of the children -/
def mergeList (lk : Lookup) : List Meta → Nat → Meta → Meta
  | [], _, acc => acc
  | c :: cs, i, acc => mergeList lk cs (i + 1) (acc.merge c (lk.keyLen i) 1 lk.len)

theorem go_eq_mergeList (lk : Lookup) (cs : List Schema) (i : Nat) (acc : Meta) :
    Schema.meta.go lk cs i acc = mergeList lk (cs.map Schema.meta) i acc := by
  induction cs generalizing i acc with
  | nil => rfl
  | cons c cs ih => simp [Schema.meta.go, mergeList, ih]

/-- one pass of the translated loop body = `Meta.merge` (struct / tuple / enum lookups) -/
theorem loop1_tie (lk : Lookup) (children : List Metadata) (a c : Meta) (i : Nat)
    (hpos : 0 < lk.len) (h64 : lk.len < 2 ^ 64) (hi : i < lk.len) (hk : ∀ n, lk ≠ .homog n) :
    Metadata.internal.loop1 children (lookupToGen lk) (.val (accOf a)) (metaToGen c, i) =
      .val (accOf (a.merge c (lk.keyLen i) 1 lk.len)) := by
  cases lk with
  | named ns =>
    have hi' : i < ns.length := hi
    have hne : ns.length ≠ 0 := by omega
    have h1 : 1 ≤ ns.length := by omega
    simp [Metadata.internal.loop1, lookupToGen, accOf, metaToGen, Meta.merge, Lookup.keyLen, hi',
      KeyLookup.len, nonZeroNew, hne, h1, Lookup.len, packedBitsFor_widthFor ns.length hpos h64]
  | numbered n =>
    have hne : n ≠ 0 := by simp [Lookup.len] at hpos; omega
    have h1 : 1 ≤ n := by omega
    simp [Metadata.internal.loop1, lookupToGen, accOf, metaToGen, Meta.merge, Lookup.keyLen,
      KeyLookup.len, h1, Lookup.len, packedBitsFor_widthFor n hpos h64, checkedIlog10_digits]
  | homog n => exact absurd rfl (hk n)

theorem fold_tie (lk : Lookup) (children : List Metadata) (cs : List Meta) (a : Meta) (i : Nat)
    (hpos : 0 < lk.len) (h64 : lk.len < 2 ^ 64) (hi : i + cs.length ≤ lk.len) (hk : ∀ n, lk ≠ .homog n) :
    List.foldl (Metadata.internal.loop1 children (lookupToGen lk)) (.val (accOf a))
        ((cs.map metaToGen).zipIdx i) = .val (accOf (mergeList lk cs i a)) := by
  induction cs generalizing a i with
  | nil => rfl
  | cons c cs ih =>
    simp only [List.map_cons, List.zipIdx_cons, List.foldl_cons, mergeList]
    rw [loop1_tie lk children a c i hpos h64 (by simp at hi; omega) hk]
    exact ih _ _ (by simp at hi ⊢; omega)

theorem mergeList_count_pos (lk : Lookup) (cs : List Meta) (a : Meta) (i : Nat)
    (h : 0 < a.count ∨ (cs ≠ [] ∧ ∀ c ∈ cs, 0 < c.count)) : 0 < (mergeList lk cs i a).count := by
  induction cs generalizing a i with
  | nil => rcases h with h | ⟨h, _⟩ <;> simp_all [mergeList]
  | cons c cs ih =>
    simp only [mergeList]
    apply ih
    left
    rcases h with h | ⟨_, h⟩
    · simp [Meta.merge]; omega
    · have := h c (by simp)
      simp [Meta.merge]; omega

/-- **`<Metadata as Walk>::internal` of the source = the model's merge over the children** (struct, tuple,
enum, `Result`, … lookups): no panic, and the four fields are those of `Schema.meta.go`. -/
theorem internal_tie (lk : Lookup) (cs : List Meta)
    (hlen : cs.length = lk.len) (hpos : 0 < lk.len) (h64 : lk.len < 2 ^ 64)
    (hk : ∀ n, lk ≠ .homog n) (hc : ∀ c ∈ cs, 0 < c.count) :
    Metadata.internal (cs.map metaToGen) (lookupToGen lk) =
      .val (.ok (metaToGen (mergeList lk cs 0 Meta.zero))) := by
  have hfold := fold_tie lk (cs.map metaToGen) cs Meta.zero 0 hpos h64 (by omega) hk
  have hne : cs ≠ [] := by intro h; subst h; simp at hlen; omega
  have hcount := mergeList_count_pos lk cs Meta.zero 0 (Or.inr ⟨hne, hc⟩)
  have hfold' : List.foldl (Metadata.internal.loop1 (cs.map metaToGen) (lookupToGen lk)) (.val (0, 0, 0, 0))
      ((cs.map metaToGen).zipIdx) = .val (accOf (mergeList lk cs 0 Meta.zero)) := hfold
  unfold Metadata.internal
  simp only [hfold']
  have : (mergeList lk cs 0 Meta.zero).count ≠ 0 := by omega
  simp [nonZeroNew, this, metaToGen, accOf]

/-- the same for arrays: one child, `Homogeneous(n)` -/
theorem internal_array_tie (n : Nat) (c : Meta) (hpos : 0 < n) (h64 : n < 2 ^ 64) (hc : 0 < c.count) :
    Metadata.internal [metaToGen c] (.Homogeneous n) =
      .val (.ok (metaToGen (Meta.zero.merge c (digits (n - 1)) n n))) := by
  have hne : n ≠ 0 := by omega
  have h1 : 1 ≤ n := by omega
  have hcnt : n * c.count ≠ 0 := Nat.mul_ne_zero hne (by omega)
  simp [Metadata.internal, Metadata.internal.loop1, KeyLookup.len, h1, nonZeroNew, hcnt, metaToGen, Meta.merge,
    Meta.zero, packedBitsFor_widthFor n hpos h64, checkedIlog10_digits]

theorem max_length_sep_tie (m : Meta) (sep : String) :
    (metaToGen m).max_length_sep sep = m.maxLength + m.maxDepth * sep.utf8ByteSize := rfl

end MiniconfVerif.GenTie

namespace MiniconfVerif.GenTie
open MiniconfVerif MiniconfVerif.Gen MiniconfVerif.Gen.Core

/-! ### iter.rs -/

def itToGen (it : IterSt) : NodeIter := { state := it.state, root := it.root, depth := it.depth }
def itOfGen (it : NodeIter) : IterSt := ⟨it.state, it.root, it.depth⟩

theorem default_tie (D : Nat) : NodeIter.default D = itToGen (IterSt.init D) := rfl

/-- the result of a transcoding as `NodeIter::next` sees it (`Result<(N, Node), Traversal>`); `none` when the
model says the call panics (excluded by `C16.walk_total` under the `Fits` hypotheses) -/
def tcToGen : NodeRes × Target → Option (Except Traversal (Target × Node))
  | (.leaf d, t) => some (.ok (t, ⟨d, .Leaf⟩))
  | (.internal d, t) => some (.ok (t, ⟨d, .Internal⟩))
  | (.err e, _) => (travToGen e).map .error

def tcUToGen : NodeRes × Target → Option (Except Traversal (Unit × Node))
  | (.leaf d, _) => some (.ok ((), ⟨d, .Leaf⟩))
  | (.internal d, _) => some (.ok ((), ⟨d, .Internal⟩))
  | (.err e, _) => (travToGen e).map .error

def nodeResOf (n : Node) : NodeRes :=
  match n.typ with
  | .Leaf => .leaf n.depth
  | .Internal => .internal n.depth

/-- the model's reading of one pass of the translated loop (panic sites erased) -/
def stepOfCtl : Ctl NodeIter (Option (Except Nat (Target × Node))) → IterStep
  | .next it => .retry (itOfGen it)
  | .ret _ none => .done
  | .ret it (some (.ok (t, n))) => .yield (.node t (nodeResOf n)) (itOfGen it)
  | .ret it (some (.error d)) => .yield (.capErr d) (itOfGen it)
  | .panic _ => .panic ""

def _root_.MiniconfVerif.IterStep.erase : IterStep → IterStep
  | .panic _ => .panic ""
  | s => s

set_option hygiene false in
/-- the `NotFound(d)` arm: reset the index, carry -/
local macro "nf_tac" : tactic => `(tactic| (
  by_cases h0' : d = 0
  · simp [h0', stepOfCtl, IterStep.erase]
  · by_cases h1' : d > st.length
    · have hnone : st[d - 1]? = none := List.getElem?_eq_none (by omega)
      simp [h0', h1', hnone, stepOfCtl, IterStep.erase, Nat.one_le_iff_ne_zero]
    · have hlt' : d - 1 < st.length := by omega
      have hsome : st[d - 1]? = some st[d - 1] := List.getElem?_eq_getElem hlt'
      simp [h0', h1', hsome, stepOfCtl, IterStep.erase, Nat.one_le_iff_ne_zero, itOfGen]))

set_option hygiene false in
/-- the part of the loop body after the increment, for the (incremented) state `st` -/
local macro "tail_tac" : tactic => `(tactic| (
  have hN' := hN st
  have hU' := hU st
  rcases hres : s.transcode (stateKeys st) fresh with ⟨r, tgt⟩
  rw [hres] at hN'
  cases r with
  | leaf d =>
    simp only [tcToGen, Option.some.injEq] at hN'
    simp [← hN', stepOfCtl, IterStep.erase, itOfGen, nodeResOf]
  | internal d =>
    simp only [tcToGen, Option.some.injEq] at hN'
    simp [← hN', stepOfCtl, IterStep.erase, itOfGen, nodeResOf]
  | err e =>
    cases e with
    | panic site => simp [tcToGen, travToGen] at hN'
    | notFound d =>
      simp only [tcToGen, travToGen, Option.map_some, Option.some.injEq] at hN'
      simp only [← hN']
      nf_tac
    | tooShort cd =>
      simp only [tcToGen, travToGen, Option.map_some, Option.some.injEq] at hN'
      simp only [← hN']
      rcases hresU : s.transcode (stateKeys st) .unit with ⟨rU, tU⟩
      rw [hresU] at hU'
      cases rU with
      | leaf d =>
        simp only [tcUToGen, Option.some.injEq] at hU'
        simp [← hU', stepOfCtl, IterStep.erase, itOfGen]
      | internal d =>
        simp only [tcUToGen, Option.some.injEq] at hU'
        simp [← hU', stepOfCtl, IterStep.erase, itOfGen]
      | err e =>
        cases e with
        | panic site => simp [tcUToGen, travToGen] at hU'
        | notFound d =>
          simp only [tcUToGen, travToGen, Option.map_some, Option.some.injEq] at hU'
          simp only [← hU']
          nf_tac
        | absent d | tooShort d | tooLong d | access d m | invalid d m =>
          simp only [tcUToGen, travToGen, Option.map_some, Option.some.injEq] at hU'
          simp [← hU', stepOfCtl, IterStep.erase]
    | absent d | tooLong d | access d m | invalid d m =>
      simp only [tcToGen, travToGen, Option.map_some, Option.some.injEq] at hN'
      simp [← hN', stepOfCtl, IterStep.erase]))

/-- **One pass through the loop of `NodeIter::next` as translated from `iter.rs` is the model's
`IterSt.step`**, for every schema, target, depth limit and iterator state whose index array has `D` slots,
whenever the two transcoding calls return (do not panic). -/
theorem next_body_tie (s : Schema) (D : Nat) (fresh : Target) (it : IterSt)
    (hlen : it.state.length = D)
    (tcN : List Nat → Except Traversal (Target × Node)) (tcU : List Nat → Except Traversal (Unit × Node))
    (hN : ∀ st, tcToGen (s.transcode (stateKeys st) fresh) = some (tcN st))
    (hU : ∀ st, tcUToGen (s.transcode (stateKeys st) .unit) = some (tcU st)) :
    stepOfCtl (NodeIter.next_body D tcN tcU (itToGen it)) = (it.step s D fresh).erase := by
  obtain ⟨state, root, depth⟩ := it
  simp only at hlen
  unfold NodeIter.next_body IterSt.step
  simp only [itToGen]
  by_cases hdone : depth = root
  · simp [hdone, stepOfCtl, IterStep.erase]
  simp only [hdone, decide_false, Bool.false_eq_true, ↓reduceIte]
  by_cases hD : depth ≤ D
  · by_cases h0 : depth = 0
    · simp [hD, h0, stepOfCtl, IterStep.erase]
    · have h1 : 1 ≤ depth := by omega
      have hlt : depth - 1 < state.length := by omega
      have hget : state[depth - 1]? = some state[depth - 1] := List.getElem?_eq_getElem hlt
      have hmod : state.modify (depth - 1) (· + 1) = state.set (depth - 1) (state[depth - 1] + 1) := by
        rw [List.modify_eq_set]; simp [hget]
      simp only [hD, decide_true, ↓reduceIte, h1, hget, h0, and_false, hmod]
      generalize hst0 : state.set (depth - 1) (state[depth - 1] + 1) = st
      have hst : st.length = D := by rw [← hst0]; simp [hlen]
      tail_tac
  · simp only [hD, decide_false, Bool.false_eq_true, ↓reduceIte, false_and]
    obtain ⟨st, rfl⟩ : ∃ st, st = state := ⟨_, rfl⟩
    have hst := hlen
    tail_tac

/-- `self.state.transcode::<M, _>(root)` on the cleared state, against the model's transcoding of the root key into
`D` index slots: the consumed indices in place (the rest still zero) and the node, or the traversal error -/
def TcStateRel (s : Schema) (D : Nat) (ks : KeySrc) (tc : List Nat → List Nat × Except Traversal Node) : Prop :=
  match s.transcode ks (.idx [] D (2 ^ 64 - 1)) with
  | (.err e, _) => ∃ st e', travToGen e = some e' ∧ tc (List.replicate D 0) = (st, .error e')
  | (.leaf d, .idx slots _ _) =>
    tc (List.replicate D 0) = (slots ++ List.replicate (D - slots.length) 0, .ok ⟨d, .Leaf⟩)
  | (.internal d, .idx slots _ _) =>
    tc (List.replicate D 0) = (slots ++ List.replicate (D - slots.length) 0, .ok ⟨d, .Internal⟩)
  | _ => False

/-- **`NodeIter::root` as translated from iter.rs is the model's `withRoot`, whatever the iterator did before**: the
state is cleared first, so indices left by earlier iteration or an earlier root never become the start position. -/
theorem root_tie (s : Schema) (D : Nat) (ks : KeySrc) (it0 : IterSt)
    (tc : List Nat → List Nat × Except Traversal Node) (h : TcStateRel s D ks tc) :
    match IterSt.withRoot s D ks with
    | .ok it => NodeIter.reroot D tc (itToGen it0) = .ok (itToGen it)
    | .error e => ∃ e', travToGen e = some e' ∧ NodeIter.reroot D tc (itToGen it0) = .error e' := by
  unfold TcStateRel at h
  unfold IterSt.withRoot
  cases hx : s.transcode ks (.idx [] D (2 ^ 64 - 1)) with
  | mk r t =>
    rw [hx] at h
    cases r with
    | err e =>
      obtain ⟨st, e', he, htc⟩ := h
      simp only [NodeIter.reroot, itToGen, htc]
      exact ⟨e', he, rfl⟩
    | leaf d =>
      cases t with
      | idx slots c m => simp only at h ⊢; simp only [NodeIter.reroot, itToGen, h]
      | _ => exact absurd h (by simp)
    | internal d =>
      cases t with
      | idx slots c m => simp only at h ⊢; simp only [NodeIter.reroot, itToGen, h]
      | _ => exact absurd h (by simp)

end MiniconfVerif.GenTie
