import MiniconfVerif.Gen.Prelude
import MiniconfVerif.Model.Tree

/-! # The arms of the derived by-key functions are the model's field step

`Gen/DeriveArms.lean` (regenerated on every run from the derive's own output) lists, for every derived type of the corpus
and each of the four by-key functions, the arms of `match index { … }` as `ArmShape`s.  `Arm.run` is what such an arm
evaluates to — written with `Result::and_then` / `Result::map_err` exactly as the derive writes it, every user callback
(`get` / `get_mut` accessor, `validate`) logging its invocation — and `arm_is_goFld` proves that this is the head case of the
model's `Tree.walk.goFld` for the `Attrs` of that field: same result, same call log.  The theorems of C12 (`call_order`,
`validators_only_after_success`, `deny_stops`, `getter_error_stops`, `validator_protocol`) are statements about `goFld`. -/
namespace MiniconfVerif.GenTie.Arm
open MiniconfVerif MiniconfVerif.Gen

/-- a `Result<T, Error<E>>` (errors as the model's non-`ok` `Res`) with the user callbacks invoked so far, in order -/
abbrev Rl (α : Type) := Except Res α × List Ev

/-- `Ok(x)` -/
def ok {α : Type} (x : α) : Rl α := (.ok x, [])
/-- `Err(e)` -/
def err {α : Type} (e : Res) : Rl α := (.error e, [])

/-- `r.map_err(|msg| f(msg))` on the `Result<_, &'static str>` a user callback returned -/
def mapErr {α : Type} (r : Except String α × List Ev) (f : String → Res) : Rl α :=
  (match r.1 with
   | .ok x => .ok x
   | .error m => .error (f m), r.2)

/-- `r.and_then(|x| f(x))`: the closure runs only on `Ok`; what it invokes comes after what was invoked before -/
def andThen {α β : Type} (r : Rl α) (f : α → Rl β) : Rl β :=
  match r.1 with
  | .ok x => ((f x).1, r.2 ++ (f x).2)
  | .error e => (.error e, r.2)

/-- the runtime behaviour of the user callbacks of one field: the custom accessor used by the operation (its log entry
and failure message), and the validator -/
structure Rt where
  acc : Ev × Option String
  val : Nat → Ev × VRt

/-- `acc[m]::<k, _>(&[mut] self.f)`: logs the call, returns the place or `Err(msg)` -/
def callAcc (rt : Rt) : Except String Unit × List Ev :=
  (match rt.acc.2 with
   | none => .ok ()
   | some m => .error m, [rt.acc.1])

/-- `val::<k>(depth)`: logs the call with the depth it was given; `Ok(depth)`, `Ok(k)` or `Err(msg)` -/
def callVal (rt : Rt) (depth : Nat) : Except String Nat × List Ev :=
  (match (rt.val depth).2 with
   | .keep => .ok depth
   | .replace k => .ok k
   | .err m => .error m, [(rt.val depth).1])

/-- the arm as the derive writes it; `child` is `Tree…::…_by_key(item, keys, …)` on the field -/
def run (a : ArmShape) (rt : Rt) (child : Rl Nat) : Rl Nat :=
  match a with
  | .deny msg => err (.trav (.access 0 msg))
  | .access get validate =>
    let g : Rl Unit :=
      match get with
      | none => ok ()
      | some _ => mapErr (callAcc rt) (fun msg => .trav (.access 0 msg))
    let r := andThen g (fun _item => child)
    match validate with
    | none => r
    | some _ => andThen r (fun depth => mapErr (callVal rt depth) (fun msg => .trav (.invalid 0 msg)))

/-- the shape the derive must generate for a field with attributes `a` in the function for `op`: the operation's deny
message if any; else the accessor of the operation's mutability if declared, and the validator only in
`deserialize_by_key` -/
def shapeOf (a : Attrs) (op : Op) : ArmShape :=
  match a.deny op with
  | some msg => .deny msg
  | none => .access ((a.getter op).map fun _ => a.id)
      (match op with
       | .de => a.validate.map fun _ => a.id
       | _ => none)

/-- the callbacks' behaviour the model records in `Attrs` -/
def rtOf (a : Attrs) (op : Op) : Rt where
  acc := (a.getter op).getD (.get a.id, none)
  val := fun d => (.validate a.id d, a.validate.getD .keep)

/-- a by-key result of the child as a `Result` -/
def childOf (o : Out) : Rl Nat :=
  (match o.res with
   | .ok d => .ok d
   | r => .error r, o.log)

/-- back to the model's `Res` -/
def toRes : Except Res Nat → Res
  | .ok d => .ok d
  | .error r => r

/-- **An arm of the generated `match` is the model's field step**: for every field attribute set, operation, subtree,
key source and codec, the arm the derive generates for it (`shapeOf`), run on the child's by-key result, returns the result
and makes exactly the user-callback invocations, in the order, of `Tree.walk.goFld` at that field. -/
theorem arm_is_goFld (io : Io) (op : Op) (a : Attrs) (t : Tree) (rest : List (Attrs × Tree)) (ks : KeySrc) :
    let r := run (shapeOf a op) (rtOf a op) (childOf (t.walk io op ks))
    toRes r.1 = (Tree.walk.goFld io op ((a, t) :: rest) 0 ks).1.res ∧
      r.2 = (Tree.walk.goFld io op ((a, t) :: rest) 0 ks).1.log := by
  simp only [Tree.walk.goFld, shapeOf]
  cases hd : a.deny op with
  | some msg => simp [run, err, toRes]
  | none =>
    have hval : a.validate = none ∨ a.validate = some .keep ∨ (∃ k, a.validate = some (.replace k)) ∨
        ∃ m, a.validate = some (.err m) := by
      cases a.validate with
      | none => simp
      | some v => cases v <;> simp
    cases hg : a.getter op with
    | none =>
      rcases hval with hv | hv | ⟨k, hv⟩ | ⟨m, hv⟩ <;> cases op <;> cases hr : (t.walk io _ ks).res <;>
        simp [run, ok, andThen, mapErr, childOf, toRes, applyValidator, getterLog, hr, hv, callVal, rtOf]
    | some g =>
      obtain ⟨ev, m⟩ := g
      cases m with
      | some msg =>
        rcases hval with hv | hv | ⟨k, hv⟩ | ⟨m, hv⟩ <;> cases op <;>
          simp [run, andThen, mapErr, callAcc, rtOf, hg, toRes, hv]
      | none =>
        rcases hval with hv | hv | ⟨k, hv⟩ | ⟨m, hv⟩ <;> cases op <;> cases hr : (t.walk io _ ks).res <;>
          simp [run, andThen, mapErr, childOf, toRes, applyValidator, getterLog, hr, hv, callVal, callAcc, rtOf, hg]

end MiniconfVerif.GenTie.Arm
