import MiniconfVerif.Lemmas.GenTieValue

/-! Value-level ties for the two enum-like containers: `Tree.walk` at the node of a `Result<T, E>` / `Bound<T>` agrees
with their by-key functions as translated from impls.rs: the payload of the present variant is accessed when the key
names it, every other key of the node is `Absent(0)` (one level up: `Absent(1)`), nothing else is touched. -/
set_option linter.unusedSimpArgs false
namespace MiniconfVerif.GenTie
open MiniconfVerif MiniconfVerif.Gen MiniconfVerif.Gen.Core MiniconfVerif.Gen.Impls

/-- the model tree of a `Result` value (`other`: the type-only tree standing for the absent arm) -/
def resultTree (other : Tree) : ResultSt Tree → Tree
  | .Ok v => .node false (some (some 0)) (.named ["Ok", "Err"]) (plainFields [v, other])
  | .Err v => .node false (some (some 1)) (.named ["Ok", "Err"]) (plainFields [other, v])

/-- the model tree of a `Bound` value -/
def boundTree (other : Tree) : BoundSt Tree → Tree
  | .Included v => .node false (some (some 0)) (.named ["Included", "Excluded"]) (plainFields [v, other])
  | .Excluded v => .node false (some (some 1)) (.named ["Included", "Excluded"]) (plainFields [other, v])
  | .Unbounded => .node false (some none) (.named ["Included", "Excluded"]) (plainFields [other, other])

/-! the model side, case by case -/

theorem walk_enum_err (io : Io) (op : Op) (act : Option Nat) (lk : Lookup) (es : List Tree) (ks : KeySrc) (e : Trav)
    (h : ks.next lk = .error e) :
    (Tree.walk io op (.node false (some act) lk (plainFields es)) ks).res = .trav e ∧
    (Tree.walk io op (.node false (some act) lk (plainFields es)) ks).tree = .node false (some act) lk (plainFields es) := by
  simp [Tree.walk, h]

theorem walk_enum_miss (io : Io) (op : Op) (act : Option Nat) (lk : Lookup) (es : List Tree) (ks ks' : KeySrc) (i : Nat)
    (h : ks.next lk = .ok (i, ks')) (hne : act ≠ some i) :
    (Tree.walk io op (.node false (some act) lk (plainFields es)) ks).res = .trav (.absent 1) ∧
    (Tree.walk io op (.node false (some act) lk (plainFields es)) ks).tree = .node false (some act) lk (plainFields es) := by
  simp [Tree.walk, h, hne, Res.incr, Trav.incr]

theorem walk_enum_hit (io : Io) (op : Op) (lk : Lookup) (es : List Tree) (ks ks' : KeySrc) (i : Nat) (t : Tree)
    (h : ks.next lk = .ok (i, ks')) (hget : es[i]? = some t) :
    (Tree.walk io op (.node false (some (some i)) lk (plainFields es)) ks).res = (t.walk io op ks').res.incr ∧
    (Tree.walk io op (.node false (some (some i)) lk (plainFields es)) ks).tree =
      .node false (some (some i)) lk (plainFields (es.set i (t.walk io op ks').tree)) := by
  simp [Tree.walk, h, goFld_plain io op es i ks' t hget]

section
variable (io : Io) (other : Tree) (ks : KeySrc)

theorem result_ser_tie (st : ResultSt Tree) (hnp : ∀ s, ks.next (.named ["Ok", "Err"]) ≠ .error (.panic s))
    (c0 c1 : Tree → KeySrc → Except (Error Unit) Nat)
    (h0 : ∀ t ks, resOfGen (c0 t ks) = (t.walk io .ser ks).res) (h1 : ∀ t ks, resOfGen (c1 t ks) = (t.walk io .ser ks).res) :
    ∃ r, Result.serialize_by_key keysNextM c0 c1 st ks = .val r ∧
      resOfGen r = (Tree.walk io .ser (resultTree other st) ks).res := by
  simp only [Result.serialize_by_key, RESULT_LOOKUP, keysNextM, lookupOfGen]
  cases hnext : ks.next (.named ["Ok", "Err"]) with
  | error e =>
    cases e with
    | panic s => exact absurd hnext (hnp s)
    | _ =>
      cases st <;> simp only [resultTree] <;>
        exact ⟨_, rfl, by rw [(walk_enum_err io .ser _ _ _ ks _ hnext).1] <;> simp [resOfGen, travToGen, travOfGen]⟩
  | ok p =>
    obtain ⟨i, ks'⟩ := p
    have hi := next_lt ks _ i ks' hnext
    simp only [Lookup.len, List.length_cons, List.length_nil] at hi
    have hi' : i = 0 ∨ i = 1 := by omega
    cases st with
    | Ok v =>
      simp only [resultTree]
      rcases hi' with rfl | rfl
      · exact ⟨_, rfl, by rw [(walk_enum_hit io .ser _ [v, other] ks ks' 0 v hnext rfl).1, resOfGen_incr, h0]⟩
      · exact ⟨_, rfl, by
          rw [(walk_enum_miss io .ser (some 0) _ [v, other] ks ks' 1 hnext (by simp)).1]
          simp [resOfGen, Error.increment_result, Error.increment, Traversal.increment, travOfGen]⟩
    | Err v =>
      simp only [resultTree]
      rcases hi' with rfl | rfl
      · exact ⟨_, rfl, by
          rw [(walk_enum_miss io .ser (some 1) _ [other, v] ks ks' 0 hnext (by simp)).1]
          simp [resOfGen, Error.increment_result, Error.increment, Traversal.increment, travOfGen]⟩
      · exact ⟨_, rfl, by rw [(walk_enum_hit io .ser _ [other, v] ks ks' 1 v hnext rfl).1, resOfGen_incr, h1]⟩

theorem result_de_tie (st : ResultSt Tree) (hnp : ∀ s, ks.next (.named ["Ok", "Err"]) ≠ .error (.panic s))
    (c0 c1 : Tree → KeySrc → Except (Error Unit) Nat × Tree)
    (h0 : ∀ t ks, resOfGen (c0 t ks).1 = (t.walk io .de ks).res ∧ (c0 t ks).2 = (t.walk io .de ks).tree)
    (h1 : ∀ t ks, resOfGen (c1 t ks).1 = (t.walk io .de ks).res ∧ (c1 t ks).2 = (t.walk io .de ks).tree) :
    ∃ st' r, Result.deserialize_by_key keysNextM c0 c1 st ks = .val (st', r) ∧
      resOfGen r = (Tree.walk io .de (resultTree other st) ks).res ∧
      resultTree other st' = (Tree.walk io .de (resultTree other st) ks).tree := by
  simp only [Result.deserialize_by_key, RESULT_LOOKUP, keysNextM, lookupOfGen]
  cases hnext : ks.next (.named ["Ok", "Err"]) with
  | error e =>
    cases e with
    | panic s => exact absurd hnext (hnp s)
    | _ =>
      cases st <;> simp only [resultTree] <;>
        exact ⟨_, _, rfl, by rw [(walk_enum_err io .de _ _ _ ks _ hnext).1] <;> simp [resOfGen, travToGen, travOfGen],
          by rw [(walk_enum_err io .de _ _ _ ks _ hnext).2] <;> rfl⟩
  | ok p =>
    obtain ⟨i, ks'⟩ := p
    have hi := next_lt ks _ i ks' hnext
    simp only [Lookup.len, List.length_cons, List.length_nil] at hi
    have hi' : i = 0 ∨ i = 1 := by omega
    cases st with
    | Ok v =>
      simp only [resultTree]
      rcases hi' with rfl | rfl
      · have hw := walk_enum_hit io .de _ [v, other] ks ks' 0 v hnext rfl
        exact ⟨_, _, rfl, by rw [hw.1, resOfGen_incr, (h0 _ _).1], by rw [hw.2, (h0 _ _).2] <;> rfl⟩
      · have hw := walk_enum_miss io .de (some 0) _ [v, other] ks ks' 1 hnext (by simp)
        exact ⟨_, _, rfl, by rw [hw.1] <;> simp [resOfGen, Error.increment_result, Error.increment, Traversal.increment, travOfGen],
          by rw [hw.2] <;> rfl⟩
    | Err v =>
      simp only [resultTree]
      rcases hi' with rfl | rfl
      · have hw := walk_enum_miss io .de (some 1) _ [other, v] ks ks' 0 hnext (by simp)
        exact ⟨_, _, rfl, by rw [hw.1] <;> simp [resOfGen, Error.increment_result, Error.increment, Traversal.increment, travOfGen],
          by rw [hw.2] <;> rfl⟩
      · have hw := walk_enum_hit io .de _ [other, v] ks ks' 1 v hnext rfl
        exact ⟨_, _, rfl, by rw [hw.1, resOfGen_incr, (h1 _ _).1], by rw [hw.2, (h1 _ _).2] <;> rfl⟩

theorem bound_ser_tie (st : BoundSt Tree) (hnp : ∀ s, ks.next (.named ["Included", "Excluded"]) ≠ .error (.panic s))
    (c : Tree → KeySrc → Except (Error Unit) Nat) (h : ∀ t ks, resOfGen (c t ks) = (t.walk io .ser ks).res) :
    ∃ r, Bound.serialize_by_key keysNextM c st ks = .val r ∧
      resOfGen r = (Tree.walk io .ser (boundTree other st) ks).res := by
  simp only [Bound.serialize_by_key, BOUND_LOOKUP, keysNextM, lookupOfGen]
  cases hnext : ks.next (.named ["Included", "Excluded"]) with
  | error e =>
    cases e with
    | panic s => exact absurd hnext (hnp s)
    | _ =>
      cases st <;> simp only [boundTree] <;>
        exact ⟨_, rfl, by rw [(walk_enum_err io .ser _ _ _ ks _ hnext).1] <;> simp [resOfGen, travToGen, travOfGen]⟩
  | ok p =>
    obtain ⟨i, ks'⟩ := p
    have hi := next_lt ks _ i ks' hnext
    simp only [Lookup.len, List.length_cons, List.length_nil] at hi
    have hi' : i = 0 ∨ i = 1 := by omega
    have absent : resOfGen (Error.increment_result (Except.error (Error.Traversal (Traversal.Absent 0)) :
        Except (Error Unit) Nat)) = Res.trav (.absent 1) := rfl
    cases st with
    | Included v =>
      simp only [boundTree]
      rcases hi' with rfl | rfl
      · exact ⟨_, rfl, by rw [(walk_enum_hit io .ser _ [v, other] ks ks' 0 v hnext rfl).1, resOfGen_incr, h]⟩
      · exact ⟨_, rfl, by rw [(walk_enum_miss io .ser (some 0) _ [v, other] ks ks' 1 hnext (by simp)).1] <;> exact absent⟩
    | Excluded v =>
      simp only [boundTree]
      rcases hi' with rfl | rfl
      · exact ⟨_, rfl, by rw [(walk_enum_miss io .ser (some 1) _ [other, v] ks ks' 0 hnext (by simp)).1] <;> exact absent⟩
      · exact ⟨_, rfl, by rw [(walk_enum_hit io .ser _ [other, v] ks ks' 1 v hnext rfl).1, resOfGen_incr, h]⟩
    | Unbounded =>
      simp only [boundTree]
      rcases hi' with rfl | rfl
      · exact ⟨_, rfl, by rw [(walk_enum_miss io .ser none _ [other, other] ks ks' 0 hnext (by simp)).1] <;> exact absent⟩
      · exact ⟨_, rfl, by rw [(walk_enum_miss io .ser none _ [other, other] ks ks' 1 hnext (by simp)).1] <;> exact absent⟩

theorem bound_de_tie (st : BoundSt Tree) (hnp : ∀ s, ks.next (.named ["Included", "Excluded"]) ≠ .error (.panic s))
    (c : Tree → KeySrc → Except (Error Unit) Nat × Tree)
    (h : ∀ t ks, resOfGen (c t ks).1 = (t.walk io .de ks).res ∧ (c t ks).2 = (t.walk io .de ks).tree) :
    ∃ st' r, Bound.deserialize_by_key keysNextM c st ks = .val (st', r) ∧
      resOfGen r = (Tree.walk io .de (boundTree other st) ks).res ∧
      boundTree other st' = (Tree.walk io .de (boundTree other st) ks).tree := by
  simp only [Bound.deserialize_by_key, BOUND_LOOKUP, keysNextM, lookupOfGen]
  cases hnext : ks.next (.named ["Included", "Excluded"]) with
  | error e =>
    cases e with
    | panic s => exact absurd hnext (hnp s)
    | _ =>
      cases st <;> simp only [boundTree] <;>
        exact ⟨_, _, rfl, by rw [(walk_enum_err io .de _ _ _ ks _ hnext).1] <;> simp [resOfGen, travToGen, travOfGen],
          by rw [(walk_enum_err io .de _ _ _ ks _ hnext).2] <;> rfl⟩
  | ok p =>
    obtain ⟨i, ks'⟩ := p
    have hi := next_lt ks _ i ks' hnext
    simp only [Lookup.len, List.length_cons, List.length_nil] at hi
    have hi' : i = 0 ∨ i = 1 := by omega
    have absent : resOfGen (Error.increment_result (Except.error (Error.Traversal (Traversal.Absent 0)) :
        Except (Error Unit) Nat)) = Res.trav (.absent 1) := rfl
    cases st with
    | Included v =>
      simp only [boundTree]
      rcases hi' with rfl | rfl
      · have hw := walk_enum_hit io .de _ [v, other] ks ks' 0 v hnext rfl
        exact ⟨_, _, rfl, by rw [hw.1, resOfGen_incr, (h _ _).1], by rw [hw.2, (h _ _).2] <;> rfl⟩
      · have hw := walk_enum_miss io .de (some 0) _ [v, other] ks ks' 1 hnext (by simp)
        exact ⟨_, _, rfl, by rw [hw.1] <;> exact absent, by rw [hw.2] <;> rfl⟩
    | Excluded v =>
      simp only [boundTree]
      rcases hi' with rfl | rfl
      · have hw := walk_enum_miss io .de (some 1) _ [other, v] ks ks' 0 hnext (by simp)
        exact ⟨_, _, rfl, by rw [hw.1] <;> exact absent, by rw [hw.2] <;> rfl⟩
      · have hw := walk_enum_hit io .de _ [other, v] ks ks' 1 v hnext rfl
        exact ⟨_, _, rfl, by rw [hw.1, resOfGen_incr, (h _ _).1], by rw [hw.2, (h _ _).2] <;> rfl⟩
    | Unbounded =>
      simp only [boundTree]
      rcases hi' with rfl | rfl
      · have hw := walk_enum_miss io .de none _ [other, other] ks ks' 0 hnext (by simp)
        exact ⟨_, _, rfl, by rw [hw.1] <;> exact absent, by rw [hw.2] <;> rfl⟩
      · have hw := walk_enum_miss io .de none _ [other, other] ks ks' 1 hnext (by simp)
        exact ⟨_, _, rfl, by rw [hw.1] <;> exact absent, by rw [hw.2] <;> rfl⟩

end

end MiniconfVerif.GenTie
