import MiniconfVerif.Lemmas.GenTie
import MiniconfVerif.Lemmas.IterRootGen

/-! `ExactSize<T>::next` and `NodeIter::exact_size` **as translated from iter.rs** (debug profile: `count -= 1` is
overflow-checked and the `debug_assert!`s are checked) against the model's `exactCounts` (Props/C11) and the
conditions under which the model's driver reports a panic for `exact_size()`. -/
namespace MiniconfVerif.GenTie
open MiniconfVerif MiniconfVerif.Gen MiniconfVerif.Gen.Core

/-- what `n` calls of an inner `next` return, as the model's `Polled` (a panic ends the run) -/
def innerPolled {ι τ : Type} (f : τ → IterItem) (nextI : ι → P (ι × Option τ)) : Nat → ι → List Polled
  | 0, _ => []
  | n + 1, i =>
    match nextI i with
    | .panic _ => [.broken]
    | .val (i', some v) => .item (f v) :: innerPolled f nextI n i'
    | .val (i', none) => .finished :: innerPolled f nextI n i'

/-- the counter of the translated `ExactSize` after each of `n` calls of its `next` (`none` = that call panicked,
which ends the run) -/
def exactRun {ι τ : Type} (nextI : ι → P (ι × Option τ)) : Nat → ExactSize ι → List (Option Nat)
  | 0, _ => []
  | n + 1, e =>
    match ExactSize.next nextI e with
    | .panic _ => [none]
    | .val (e', _) => some e'.count :: exactRun nextI n e'

/-- the model's `exactCounts`, restated here so that this file does not depend on Props -/
def exactCountsM : List Polled → Nat → List (Option Nat)
  | [], _ => []
  | .item _ :: rest, count => if count = 0 then [none] else some (count - 1) :: exactCountsM rest (count - 1)
  | .finished :: rest, count => if count = 0 then some 0 :: exactCountsM rest 0 else [none]
  | .broken :: _, _ => [none]

theorem exactSize_next_cases {ι τ : Type} (nextI : ι → P (ι × Option τ)) (i : ι) (c : Nat) :
    ExactSize.next nextI ⟨i, c⟩ =
      match nextI i with
      | .panic _ => .panic "ExactSize.next: callee panicked"
      | .val (i', some v) =>
        if 1 ≤ c then .val (⟨i', c - 1⟩, some v) else .panic "ExactSize.next: attempt to subtract with overflow"
      | .val (i', none) => if c = 0 then .val (⟨i', c⟩, none) else .panic "ExactSize.next: assert! failed" := by
  simp only [ExactSize.next]
  cases h : nextI i with
  | panic m => rfl
  | val p =>
    obtain ⟨i', r⟩ := p
    cases r with
    | some v => simp only
    | none => simp only [decide_eq_true_eq]

/-- **`ExactSize` over any inner iterator**: the remaining length the translated wrapper holds after each call is the
model's `exactCounts` of what the inner iterator returned -/
theorem exactRun_tie {ι τ : Type} (f : τ → IterItem) (nextI : ι → P (ι × Option τ)) (n : Nat) (i : ι) (c : Nat) :
    exactRun nextI n ⟨i, c⟩ = exactCountsM (innerPolled f nextI n i) c := by
  induction n generalizing i c with
  | zero => rfl
  | succ n ih =>
    simp only [exactRun, innerPolled, exactSize_next_cases]
    cases h : nextI i with
    | panic m => simp [exactCountsM]
    | val p =>
      obtain ⟨i', r⟩ := p
      cases r with
      | some v =>
        simp only [exactCountsM]
        by_cases hc : c = 0
        · subst hc; simp
        · have : 1 ≤ c := by omega
          simp [this, hc, ih]
      | none =>
        simp only [exactCountsM]
        by_cases hc : c = 0
        · subst hc; simp [ih]
        · simp [hc]

/-- **`NodeIter::exact_size`** on a fresh iterator or one rooted by any key: it panics exactly when the iterator is rooted
below the tree root or `D` is smaller than the type's maximum depth (the `debug_assert_eq!` on the state never fires),
and otherwise starts the counter at `Metadata::count`. -/
theorem exact_size_tie (s : Schema) (hwf : s.WF) (D : Nat) (ks : KeySrc) (it : IterSt)
    (hroot : IterSt.withRoot s D ks = .ok it) :
    (if it.root = 0 ∧ s.meta.maxDepth ≤ D
      then NodeIter.exact_size D (metaToGen s.meta) (itToGen it) = .val ⟨itToGen it, s.meta.count⟩
      else ∃ m, NodeIter.exact_size D (metaToGen s.meta) (itToGen it) = .panic m) := by
  obtain ⟨c, t0, _, hc, rfl⟩ := withRoot_lift s hwf D ks it hroot
  cases c with
  | nil =>
    simp only [liftSt, IterSt.init, List.nil_append, List.length_nil, Nat.add_zero, Nat.sub_zero, true_and,
      NodeIter.exact_size, itToGen, metaToGen, decide_true, ↓reduceIte, ge_iff_le]
    by_cases hD : s.meta.maxDepth ≤ D <;> simp [hD]
  | cons x xs =>
    simp only [liftSt, IterSt.init, List.length_cons, Nat.add_eq_zero_iff, Nat.add_one_ne_zero, and_false, false_and,
      ↓reduceIte, NodeIter.exact_size, itToGen]
    split
    · split
      · rename_i h; simp at h
      · exact ⟨_, rfl⟩
    · exact ⟨_, rfl⟩

theorem exact_size_fresh_tie (m : Meta) (D : Nat) :
    NodeIter.exact_size D (metaToGen m) (NodeIter.default D) =
      if m.maxDepth ≤ D then .val ⟨NodeIter.default D, m.count⟩ else .panic "NodeIter.exact_size: assert! failed" := by
  simp only [NodeIter.exact_size, NodeIter.default, metaToGen, decide_true, ↓reduceIte, ge_iff_le]
  by_cases hD : m.maxDepth ≤ D <;> simp [hD]

end MiniconfVerif.GenTie
