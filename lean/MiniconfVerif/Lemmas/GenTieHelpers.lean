import MiniconfVerif.Gen.Helpers
import MiniconfVerif.Model.Helpers
import MiniconfVerif.Lemmas.GenTie

/-! `json::{set,get}_by_key` and `postcard::{set,get}_by_key` **as translated from json.rs / postcard.rs** are the model's
`setThenEnd` / `getThenEnd`: the by-key walk first; only after it succeeded the (de)serializer's finalization, whose
failure is `Error::Finalization`; the tree is what the walk left in either case. -/
namespace MiniconfVerif.GenTie
open MiniconfVerif MiniconfVerif.Gen MiniconfVerif.Gen.Core MiniconfVerif.Gen.Helpers

/-- a helper's result read as the model's `HelperOut` (`count`: how a successful finalization is counted) -/
def helperOfGen {R : Type} (count : R → Nat) : Except (Error Unit) R → HelperOut
  | .ok r => .ok (count r)
  | .error (.Finalization ()) => .final
  | .error e => .walk (resOfGen (.error e : Except (Error Unit) Nat))

def endOfGen {R : Type} (count : R → Nat) : Except Unit R → Option Nat
  | .ok r => some (count r)
  | .error () => none

theorem set_by_key_tie {T K Data De R : Type} (count : R → Nat)
    (deserByKey : T → K → De → Except (Error Unit) Nat × (T × De)) (deEnd : De → Except Unit R)
    (tree : T) (keys : K) (de0 : De) (data : Data)
    (hwalk : ∀ d, (deserByKey tree keys de0).1 ≠ .error (.Finalization d)) :
    ∀ (out : P (Except (Error Unit) R × T)),
      (out = json.set_by_key (fun (_ : Data) _ => de0) deserByKey deEnd tree keys data ∨
       out = postcard.set_by_key (fun (_ : Data) => de0) deserByKey deEnd tree keys data) →
      ∃ r, out = .val (r, (deserByKey tree keys de0).2.1) ∧
        helperOfGen count r =
          setThenEnd (resOfGen (deserByKey tree keys de0).1) (endOfGen count (deEnd (deserByKey tree keys de0).2.2)) := by
  intro out hout
  have key : ∀ o, o = (match (deserByKey tree keys de0) with
      | (.ok _, (t, de)) => P.val (Except.mapError Error.Finalization (deEnd de), t)
      | (.error e, (t, _)) => P.val (.error e, t)) →
      ∃ r, o = .val (r, (deserByKey tree keys de0).2.1) ∧
        helperOfGen count r =
          setThenEnd (resOfGen (deserByKey tree keys de0).1) (endOfGen count (deEnd (deserByKey tree keys de0).2.2)) := by
    intro o ho
    rcases hd : deserByKey tree keys de0 with ⟨r1, t, de⟩
    rw [hd] at ho hwalk
    cases r1 with
    | ok d =>
      subst ho
      refine ⟨_, rfl, ?_⟩
      cases he : deEnd de with
      | ok r => simp [Except.mapError, helperOfGen, setThenEnd, resOfGen, endOfGen]
      | error u => cases u; simp [Except.mapError, helperOfGen, setThenEnd, resOfGen, endOfGen]
    | error e =>
      subst ho
      refine ⟨_, rfl, ?_⟩
      cases e with
      | Finalization d => exact absurd rfl (hwalk d)
      | Traversal t => cases t <;> simp [helperOfGen, setThenEnd, resOfGen]
      | Inner d u => simp [helperOfGen, setThenEnd, resOfGen]
  rcases hout with h | h
  · apply key; rw [h]; simp only [json.set_by_key]; rcases deserByKey tree keys de0 with ⟨r1, t, de⟩; cases r1 <;> rfl
  · apply key; rw [h]; simp only [postcard.set_by_key]; rcases deserByKey tree keys de0 with ⟨r1, t, de⟩; cases r1 <;> rfl

theorem json_get_by_key_tie {T K Data Ser : Type} (serByKey : T → K → Ser → Except (Error Unit) Nat × Ser)
    (serEnd : Ser → Nat) (tree : T) (keys : K) (ser0 : Ser) (data : Data)
    (hwalk : ∀ d, (serByKey tree keys ser0).1 ≠ .error (.Finalization d)) :
    helperOfGen id (json.get_by_key (fun _ => ser0) serByKey serEnd tree keys data) =
      getThenEnd (resOfGen (serByKey tree keys ser0).1) (serEnd (serByKey tree keys ser0).2) := by
  simp only [json.get_by_key]
  rcases hd : serByKey tree keys ser0 with ⟨r1, s⟩
  rw [hd] at hwalk
  cases r1 with
  | ok d => simp [helperOfGen, getThenEnd, resOfGen]
  | error e =>
    cases e with
    | Finalization d => exact absurd rfl (hwalk d)
    | Traversal t => cases t <;> simp [helperOfGen, getThenEnd, resOfGen]
    | Inner d u => simp [helperOfGen, getThenEnd, resOfGen]

/-- `postcard::get_by_key`: as `json::get_by_key`, but the flavor's `finalize()` may itself fail (`Error::Finalization`) -/
theorem postcard_get_by_key_tie {T K F O : Type} (count : O → Nat) (serByKey : T → K → F → Except (Error Unit) Nat × F)
    (serFinalize : F → Except Unit O) (tree : T) (keys : K) (ser0 : F)
    (hwalk : ∀ d, (serByKey tree keys ser0).1 ≠ .error (.Finalization d)) :
    helperOfGen count (postcard.get_by_key serByKey serFinalize tree keys ser0) =
      setThenEnd (resOfGen (serByKey tree keys ser0).1) (endOfGen count (serFinalize (serByKey tree keys ser0).2)) := by
  simp only [postcard.get_by_key]
  rcases hd : serByKey tree keys ser0 with ⟨r1, s⟩
  rw [hd] at hwalk
  cases r1 with
  | ok d =>
    cases he : serFinalize s with
    | ok r => simp [Except.mapError, helperOfGen, setThenEnd, resOfGen, endOfGen, he]
    | error u => cases u; simp [Except.mapError, helperOfGen, setThenEnd, resOfGen, endOfGen, he]
  | error e =>
    cases e with
    | Finalization d => exact absurd rfl (hwalk d)
    | Traversal t => cases t <;> simp [helperOfGen, setThenEnd, resOfGen]
    | Inner d u => simp [helperOfGen, setThenEnd, resOfGen]

end MiniconfVerif.GenTie
