import MiniconfVerif.Gen.Impls
import MiniconfVerif.Lemmas.GenTie
import MiniconfVerif.Lemmas.WalkStruct

/-! The type-level traversal of the model (`Schema.traverse` at a node / an array) agrees with
`TreeKey::traverse_by_key` of the built-in containers **as translated from impls.rs** (`Gen/Impls.lean`,
`extract/gen_impls.py`): tuples of every arity of the source, arrays, `Result`, `Bound`, `Range`,
`RangeInclusive`, `RangeFrom`, `RangeTo`.  This also fixes, inside Lean, which schema each of these Rust types
*is* (lookup and children), which elsewhere is only the generator's (`spec.schema`) reading. -/
namespace MiniconfVerif.GenTie
open MiniconfVerif MiniconfVerif.Gen MiniconfVerif.Gen.Core

def lookupOfGen : KeyLookup → Lookup
  | .Named ns => .named ns
  | .Numbered n => .numbered n
  | .Homogeneous n => .homog n

@[simp] theorem lookupOfGen_toGen (lk : Lookup) : lookupOfGen (lookupToGen lk) = lk := by cases lk <;> rfl

/-- the model's key source as `Keys::next` of the translated impls (a panicking `next` is excluded by hypothesis
where this is used; it is mapped to an arbitrary error here) -/
def keysNextM (ks : KeySrc) (lk : KeyLookup) : Except Traversal Nat × KeySrc :=
  match ks.next (lookupOfGen lk) with
  | .ok (i, ks') => (.ok i, ks')
  | .error e => (.error ((travToGen e).getD (.NotFound 0)), ks)

/-- the model's callback as the `FnMut(usize, Option<&str>, NonZero<usize>) -> Result<(), ()>` of the source -/
def funcM {σ : Type} (cb : σ → CbArg → Option σ) (st : σ) (i : Nat) (n : Option String) (l : Nat) : Except Unit σ :=
  match cb st ⟨i, n, l⟩ with
  | some st' => .ok st'
  | none => .error ()

/-- a translated child traversal and a model child traversal that return the same thing -/
def ChildRel {σ : Type} (child : KeySrc → σ → Except (Error Unit) Nat × σ) (c : KeySrc → σ → Res × σ) : Prop :=
  ∀ ks st, (resOfGen (child ks st).1, (child ks st).2) = c ks st

/-- one node of the model's traversal with the children abstracted -/
def nodeStep {σ : Type} (cb : σ → CbArg → Option σ) (lk : Lookup) (children : List (KeySrc → σ → Res × σ))
    (ks : KeySrc) (st : σ) : Res × σ :=
  match ks.next lk with
  | .error e => (.trav e, st)
  | .ok (i, ks') =>
    match cb st ⟨i, lk.name? i, lk.len⟩ with
    | none => (.inner 1, st)
    | some st' =>
      match children[i]? with
      | some c => let r := c ks' st'; (r.1.incr, r.2)
      | none => (.trav (.panic "unreachable"), st')

theorem traverse_go_eq {σ : Type} (cb : σ → CbArg → Option σ) (cs : List Schema) (i : Nat) (ks : KeySrc) (st : σ) :
    Schema.traverse.go cb cs i ks st =
      match (cs.map fun c => c.traverse cb)[i]? with
      | some c => c ks st
      | none => (.trav (.panic "unreachable"), st) := by
  induction cs generalizing i with
  | nil => simp [Schema.traverse.go]
  | cons c cs ih =>
    cases i with
    | zero => simp [Schema.traverse.go]
    | succ i => simp [Schema.traverse.go, ih]

theorem traverse_node_eq {σ : Type} (cb : σ → CbArg → Option σ) (lk : Lookup) (cs : List Schema) (ks : KeySrc) (st : σ) :
    Schema.traverse cb (.node lk cs) ks st = nodeStep cb lk (cs.map fun c => c.traverse cb) ks st := by
  simp only [Schema.traverse, nodeStep]
  cases h : ks.next lk with
  | error e => rfl
  | ok p =>
    obtain ⟨i, ks'⟩ := p
    simp only
    cases hcb : cb st ⟨i, lk.name? i, lk.len⟩ with
    | none => rfl
    | some st' =>
      simp only [traverse_go_eq]
      cases (cs.map fun c => c.traverse cb)[i]? <;> rfl

theorem resOfGen_incr (r : Except (Error Unit) Nat) : resOfGen (Error.increment_result r) = (resOfGen r).incr :=
  increment_result_tie r

/-- what a translated `traverse_by_key` returned, read as the model's result (`none` = it panicked) -/
def outOfP {σ : Type} : P (Except (Error Unit) Nat × σ) → Option (Res × σ)
  | .val (r, s) => some (resOfGen r, s)
  | .panic _ => none

theorem childRel_apply {σ : Type} {child : KeySrc → σ → Except (Error Unit) Nat × σ} {c : KeySrc → σ → Res × σ}
    (h : ChildRel child c) (ks : KeySrc) (st : σ) :
    (resOfGen (Error.increment_result (child ks st).1), (child ks st).2) = ((c ks st).1.incr, (c ks st).2) := by
  rw [resOfGen_incr, ← h ks st]


/-- `<Result<T, E> as TreeKey>::traverse_by_key` of the source = the model's traversal of the node `named ["Ok", "Err"]` with the children `[T, E]` -/
theorem result_traverse_tie {σ : Type} (cb : σ → CbArg → Option σ) (c0 c1 : Schema) (ks : KeySrc) (st : σ)
    (child0 child1 : KeySrc → σ → Except (Error Unit) Nat × σ) (h0 : ChildRel child0 (c0.traverse cb)) (h1 : ChildRel child1 (c1.traverse cb))
    (hnp : ∀ s, ks.next (.named ["Ok", "Err"]) ≠ .error (.panic s)) :
    outOfP (Impls.Result.traverse_by_key keysNextM (funcM cb) child0 child1 ks st) =
      some (Schema.traverse cb (.node (.named ["Ok", "Err"]) [c0, c1]) ks st) := by
  rw [traverse_node_eq]
  simp only [nodeStep, Impls.Result.traverse_by_key, Impls.RESULT_LOOKUP, keysNextM, lookupOfGen, Impls.KeyLookup.numbered, nonZeroNew]
  try simp +decide only [↓reduceIte, lookupOfGen]
  cases hnext : ks.next (.named ["Ok", "Err"]) with
  | error e =>
    cases e with
    | panic s => exact absurd hnext (hnp s)
    | _ => simp [outOfP, resOfGen, travToGen, travOfGen, hnext, KeyLookup.len]
  | ok p =>
    obtain ⟨i, ks'⟩ := p
    have hi := next_lt ks _ i ks' hnext
    simp only [Lookup.len, List.length_cons, List.length_nil] at hi
    have hi' : i = 0 ∨ i = 1 := by omega
    rcases hi' with rfl | rfl
    · simp only [KeyLookup.lookup, KeyLookup.len, nonZeroNew, funcM, Lookup.name?, Lookup.len, hnext]
      cases hcb : cb st ⟨0, some "Ok", 2⟩ with
      | none => simp [Except.mapError, hcb, outOfP, resOfGen]
      | some st' => simp [Except.mapError, hcb, outOfP, childRel_apply h0]
    · simp only [KeyLookup.lookup, KeyLookup.len, nonZeroNew, funcM, Lookup.name?, Lookup.len, hnext]
      cases hcb : cb st ⟨1, some "Err", 2⟩ with
      | none => simp [Except.mapError, hcb, outOfP, resOfGen]
      | some st' => simp [Except.mapError, hcb, outOfP, childRel_apply h1]

/-- `Bound<T>`: `named ["Included", "Excluded"]`, children `[T, T]` -/
theorem bound_traverse_tie {σ : Type} (cb : σ → CbArg → Option σ) (c0 : Schema) (ks : KeySrc) (st : σ)
    (child0 : KeySrc → σ → Except (Error Unit) Nat × σ) (h0 : ChildRel child0 (c0.traverse cb))
    (hnp : ∀ s, ks.next (.named ["Included", "Excluded"]) ≠ .error (.panic s)) :
    outOfP (Impls.Bound.traverse_by_key keysNextM (funcM cb) child0 ks st) =
      some (Schema.traverse cb (.node (.named ["Included", "Excluded"]) [c0, c0]) ks st) := by
  rw [traverse_node_eq]
  simp only [nodeStep, Impls.Bound.traverse_by_key, Impls.BOUND_LOOKUP, keysNextM, lookupOfGen, Impls.KeyLookup.numbered, nonZeroNew]
  try simp +decide only [↓reduceIte, lookupOfGen]
  cases hnext : ks.next (.named ["Included", "Excluded"]) with
  | error e =>
    cases e with
    | panic s => exact absurd hnext (hnp s)
    | _ => simp [outOfP, resOfGen, travToGen, travOfGen, hnext, KeyLookup.len]
  | ok p =>
    obtain ⟨i, ks'⟩ := p
    have hi := next_lt ks _ i ks' hnext
    simp only [Lookup.len, List.length_cons, List.length_nil] at hi
    have hi' : i = 0 ∨ i = 1 := by omega
    rcases hi' with rfl | rfl
    · simp only [KeyLookup.lookup, KeyLookup.len, nonZeroNew, funcM, Lookup.name?, Lookup.len, hnext]
      cases hcb : cb st ⟨0, some "Included", 2⟩ with
      | none => simp [Except.mapError, hcb, outOfP, resOfGen]
      | some st' => simp [Except.mapError, hcb, outOfP, childRel_apply h0]
    · simp only [KeyLookup.lookup, KeyLookup.len, nonZeroNew, funcM, Lookup.name?, Lookup.len, hnext]
      cases hcb : cb st ⟨1, some "Excluded", 2⟩ with
      | none => simp [Except.mapError, hcb, outOfP, resOfGen]
      | some st' => simp [Except.mapError, hcb, outOfP, childRel_apply h0]

/-- `Range<T>`: `named ["start", "end"]`, children `[T, T]` -/
theorem range_traverse_tie {σ : Type} (cb : σ → CbArg → Option σ) (c0 : Schema) (ks : KeySrc) (st : σ)
    (child0 : KeySrc → σ → Except (Error Unit) Nat × σ) (h0 : ChildRel child0 (c0.traverse cb))
    (hnp : ∀ s, ks.next (.named ["start", "end"]) ≠ .error (.panic s)) :
    outOfP (Impls.Range.traverse_by_key keysNextM (funcM cb) child0 ks st) =
      some (Schema.traverse cb (.node (.named ["start", "end"]) [c0, c0]) ks st) := by
  rw [traverse_node_eq]
  simp only [nodeStep, Impls.Range.traverse_by_key, Impls.RANGE_LOOKUP, keysNextM, lookupOfGen, Impls.KeyLookup.numbered, nonZeroNew]
  try simp +decide only [↓reduceIte, lookupOfGen]
  cases hnext : ks.next (.named ["start", "end"]) with
  | error e =>
    cases e with
    | panic s => exact absurd hnext (hnp s)
    | _ => simp [outOfP, resOfGen, travToGen, travOfGen, hnext, KeyLookup.len]
  | ok p =>
    obtain ⟨i, ks'⟩ := p
    have hi := next_lt ks _ i ks' hnext
    simp only [Lookup.len, List.length_cons, List.length_nil] at hi
    have hi' : i = 0 ∨ i = 1 := by omega
    rcases hi' with rfl | rfl
    · simp only [KeyLookup.lookup, KeyLookup.len, nonZeroNew, funcM, Lookup.name?, Lookup.len, hnext]
      cases hcb : cb st ⟨0, some "start", 2⟩ with
      | none => simp [Except.mapError, hcb, outOfP, resOfGen]
      | some st' => simp [Except.mapError, hcb, outOfP, childRel_apply h0]
    · simp only [KeyLookup.lookup, KeyLookup.len, nonZeroNew, funcM, Lookup.name?, Lookup.len, hnext]
      cases hcb : cb st ⟨1, some "end", 2⟩ with
      | none => simp [Except.mapError, hcb, outOfP, resOfGen]
      | some st' => simp [Except.mapError, hcb, outOfP, childRel_apply h0]

/-- `RangeInclusive<T>`: `named ["start", "end"]`, children `[T, T]` -/
theorem rangeInclusive_traverse_tie {σ : Type} (cb : σ → CbArg → Option σ) (c0 : Schema) (ks : KeySrc) (st : σ)
    (child0 : KeySrc → σ → Except (Error Unit) Nat × σ) (h0 : ChildRel child0 (c0.traverse cb))
    (hnp : ∀ s, ks.next (.named ["start", "end"]) ≠ .error (.panic s)) :
    outOfP (Impls.RangeInclusive.traverse_by_key keysNextM (funcM cb) child0 ks st) =
      some (Schema.traverse cb (.node (.named ["start", "end"]) [c0, c0]) ks st) := by
  rw [traverse_node_eq]
  simp only [nodeStep, Impls.RangeInclusive.traverse_by_key, Impls.RANGE_LOOKUP, keysNextM, lookupOfGen, Impls.KeyLookup.numbered, nonZeroNew]
  try simp +decide only [↓reduceIte, lookupOfGen]
  cases hnext : ks.next (.named ["start", "end"]) with
  | error e =>
    cases e with
    | panic s => exact absurd hnext (hnp s)
    | _ => simp [outOfP, resOfGen, travToGen, travOfGen, hnext, KeyLookup.len]
  | ok p =>
    obtain ⟨i, ks'⟩ := p
    have hi := next_lt ks _ i ks' hnext
    simp only [Lookup.len, List.length_cons, List.length_nil] at hi
    have hi' : i = 0 ∨ i = 1 := by omega
    rcases hi' with rfl | rfl
    · simp only [KeyLookup.lookup, KeyLookup.len, nonZeroNew, funcM, Lookup.name?, Lookup.len, hnext]
      cases hcb : cb st ⟨0, some "start", 2⟩ with
      | none => simp [Except.mapError, hcb, outOfP, resOfGen]
      | some st' => simp [Except.mapError, hcb, outOfP, childRel_apply h0]
    · simp only [KeyLookup.lookup, KeyLookup.len, nonZeroNew, funcM, Lookup.name?, Lookup.len, hnext]
      cases hcb : cb st ⟨1, some "end", 2⟩ with
      | none => simp [Except.mapError, hcb, outOfP, resOfGen]
      | some st' => simp [Except.mapError, hcb, outOfP, childRel_apply h0]

/-- `RangeFrom<T>`: `named ["start"]`, child `[T]` -/
theorem rangeFrom_traverse_tie {σ : Type} (cb : σ → CbArg → Option σ) (c0 : Schema) (ks : KeySrc) (st : σ)
    (child0 : KeySrc → σ → Except (Error Unit) Nat × σ) (h0 : ChildRel child0 (c0.traverse cb))
    (hnp : ∀ s, ks.next (.named ["start"]) ≠ .error (.panic s)) :
    outOfP (Impls.RangeFrom.traverse_by_key keysNextM (funcM cb) child0 ks st) =
      some (Schema.traverse cb (.node (.named ["start"]) [c0]) ks st) := by
  rw [traverse_node_eq]
  simp only [nodeStep, Impls.RangeFrom.traverse_by_key, Impls.RANGE_FROM_LOOKUP, keysNextM, lookupOfGen, Impls.KeyLookup.numbered, nonZeroNew]
  try simp +decide only [↓reduceIte, lookupOfGen]
  cases hnext : ks.next (.named ["start"]) with
  | error e =>
    cases e with
    | panic s => exact absurd hnext (hnp s)
    | _ => simp [outOfP, resOfGen, travToGen, travOfGen, hnext, KeyLookup.len]
  | ok p =>
    obtain ⟨i, ks'⟩ := p
    have hi := next_lt ks _ i ks' hnext
    simp only [Lookup.len, List.length_cons, List.length_nil] at hi
    obtain rfl : i = 0 := by omega
    simp only [KeyLookup.lookup, KeyLookup.len, nonZeroNew, funcM, Lookup.name?, Lookup.len, hnext]
    cases hcb : cb st ⟨0, some "start", 1⟩ with
    | none => simp [Except.mapError, hcb, outOfP, resOfGen]
    | some st' => simp [Except.mapError, hcb, outOfP, childRel_apply h0]

/-- `RangeTo<T>`: `named ["end"]`, child `[T]` -/
theorem rangeTo_traverse_tie {σ : Type} (cb : σ → CbArg → Option σ) (c0 : Schema) (ks : KeySrc) (st : σ)
    (child0 : KeySrc → σ → Except (Error Unit) Nat × σ) (h0 : ChildRel child0 (c0.traverse cb))
    (hnp : ∀ s, ks.next (.named ["end"]) ≠ .error (.panic s)) :
    outOfP (Impls.RangeTo.traverse_by_key keysNextM (funcM cb) child0 ks st) =
      some (Schema.traverse cb (.node (.named ["end"]) [c0]) ks st) := by
  rw [traverse_node_eq]
  simp only [nodeStep, Impls.RangeTo.traverse_by_key, Impls.RANGE_TO_LOOKUP, keysNextM, lookupOfGen, Impls.KeyLookup.numbered, nonZeroNew]
  try simp +decide only [↓reduceIte, lookupOfGen]
  cases hnext : ks.next (.named ["end"]) with
  | error e =>
    cases e with
    | panic s => exact absurd hnext (hnp s)
    | _ => simp [outOfP, resOfGen, travToGen, travOfGen, hnext, KeyLookup.len]
  | ok p =>
    obtain ⟨i, ks'⟩ := p
    have hi := next_lt ks _ i ks' hnext
    simp only [Lookup.len, List.length_cons, List.length_nil] at hi
    obtain rfl : i = 0 := by omega
    simp only [KeyLookup.lookup, KeyLookup.len, nonZeroNew, funcM, Lookup.name?, Lookup.len, hnext]
    cases hcb : cb st ⟨0, some "end", 1⟩ with
    | none => simp [Except.mapError, hcb, outOfP, resOfGen]
    | some st' => simp [Except.mapError, hcb, outOfP, childRel_apply h0]

/-- the 1-tuple: `numbered 1`, children in order -/
theorem tuple1_traverse_tie {σ : Type} (cb : σ → CbArg → Option σ) (c0 : Schema) (ks : KeySrc) (st : σ)
    (child0 : KeySrc → σ → Except (Error Unit) Nat × σ) (h0 : ChildRel child0 (c0.traverse cb))
    (hnp : ∀ s, ks.next (.numbered 1) ≠ .error (.panic s)) :
    outOfP (Impls.tuple1.traverse_by_key keysNextM (funcM cb) child0 ks st) =
      some (Schema.traverse cb (.node (.numbered 1) [c0]) ks st) := by
  rw [traverse_node_eq]
  simp only [nodeStep, Impls.tuple1.traverse_by_key, keysNextM, lookupOfGen, Impls.KeyLookup.numbered, nonZeroNew]
  try simp +decide only [↓reduceIte, lookupOfGen]
  cases hnext : ks.next (.numbered 1) with
  | error e =>
    cases e with
    | panic s => exact absurd hnext (hnp s)
    | _ => simp [outOfP, resOfGen, travToGen, travOfGen, hnext, KeyLookup.len]
  | ok p =>
    obtain ⟨i, ks'⟩ := p
    have hi := next_lt ks _ i ks' hnext
    simp only [Lookup.len, List.length_cons, List.length_nil] at hi
    obtain rfl : i = 0 := by omega
    simp only [KeyLookup.lookup, KeyLookup.len, nonZeroNew, funcM, Lookup.name?, Lookup.len, hnext]
    cases hcb : cb st ⟨0, none, 1⟩ with
    | none => simp [Except.mapError, hcb, outOfP, resOfGen]
    | some st' => simp [Except.mapError, hcb, outOfP, childRel_apply h0]

/-- the 2-tuple: `numbered 2`, children in order -/
theorem tuple2_traverse_tie {σ : Type} (cb : σ → CbArg → Option σ) (c0 c1 : Schema) (ks : KeySrc) (st : σ)
    (child0 child1 : KeySrc → σ → Except (Error Unit) Nat × σ) (h0 : ChildRel child0 (c0.traverse cb)) (h1 : ChildRel child1 (c1.traverse cb))
    (hnp : ∀ s, ks.next (.numbered 2) ≠ .error (.panic s)) :
    outOfP (Impls.tuple2.traverse_by_key keysNextM (funcM cb) child0 child1 ks st) =
      some (Schema.traverse cb (.node (.numbered 2) [c0, c1]) ks st) := by
  rw [traverse_node_eq]
  simp only [nodeStep, Impls.tuple2.traverse_by_key, keysNextM, lookupOfGen, Impls.KeyLookup.numbered, nonZeroNew]
  try simp +decide only [↓reduceIte, lookupOfGen]
  cases hnext : ks.next (.numbered 2) with
  | error e =>
    cases e with
    | panic s => exact absurd hnext (hnp s)
    | _ => simp [outOfP, resOfGen, travToGen, travOfGen, hnext, KeyLookup.len]
  | ok p =>
    obtain ⟨i, ks'⟩ := p
    have hi := next_lt ks _ i ks' hnext
    simp only [Lookup.len, List.length_cons, List.length_nil] at hi
    have hi' : i = 0 ∨ i = 1 := by omega
    rcases hi' with rfl | rfl
    · simp only [KeyLookup.lookup, KeyLookup.len, nonZeroNew, funcM, Lookup.name?, Lookup.len, hnext]
      cases hcb : cb st ⟨0, none, 2⟩ with
      | none => simp [Except.mapError, hcb, outOfP, resOfGen]
      | some st' => simp [Except.mapError, hcb, outOfP, childRel_apply h0]
    · simp only [KeyLookup.lookup, KeyLookup.len, nonZeroNew, funcM, Lookup.name?, Lookup.len, hnext]
      cases hcb : cb st ⟨1, none, 2⟩ with
      | none => simp [Except.mapError, hcb, outOfP, resOfGen]
      | some st' => simp [Except.mapError, hcb, outOfP, childRel_apply h1]

/-- the 3-tuple: `numbered 3`, children in order -/
theorem tuple3_traverse_tie {σ : Type} (cb : σ → CbArg → Option σ) (c0 c1 c2 : Schema) (ks : KeySrc) (st : σ)
    (child0 child1 child2 : KeySrc → σ → Except (Error Unit) Nat × σ) (h0 : ChildRel child0 (c0.traverse cb)) (h1 : ChildRel child1 (c1.traverse cb)) (h2 : ChildRel child2 (c2.traverse cb))
    (hnp : ∀ s, ks.next (.numbered 3) ≠ .error (.panic s)) :
    outOfP (Impls.tuple3.traverse_by_key keysNextM (funcM cb) child0 child1 child2 ks st) =
      some (Schema.traverse cb (.node (.numbered 3) [c0, c1, c2]) ks st) := by
  rw [traverse_node_eq]
  simp only [nodeStep, Impls.tuple3.traverse_by_key, keysNextM, lookupOfGen, Impls.KeyLookup.numbered, nonZeroNew]
  try simp +decide only [↓reduceIte, lookupOfGen]
  cases hnext : ks.next (.numbered 3) with
  | error e =>
    cases e with
    | panic s => exact absurd hnext (hnp s)
    | _ => simp [outOfP, resOfGen, travToGen, travOfGen, hnext, KeyLookup.len]
  | ok p =>
    obtain ⟨i, ks'⟩ := p
    have hi := next_lt ks _ i ks' hnext
    simp only [Lookup.len, List.length_cons, List.length_nil] at hi
    have hi' : i = 0 ∨ i = 1 ∨ i = 2 := by omega
    rcases hi' with rfl | rfl | rfl
    · simp only [KeyLookup.lookup, KeyLookup.len, nonZeroNew, funcM, Lookup.name?, Lookup.len, hnext]
      cases hcb : cb st ⟨0, none, 3⟩ with
      | none => simp [Except.mapError, hcb, outOfP, resOfGen]
      | some st' => simp [Except.mapError, hcb, outOfP, childRel_apply h0]
    · simp only [KeyLookup.lookup, KeyLookup.len, nonZeroNew, funcM, Lookup.name?, Lookup.len, hnext]
      cases hcb : cb st ⟨1, none, 3⟩ with
      | none => simp [Except.mapError, hcb, outOfP, resOfGen]
      | some st' => simp [Except.mapError, hcb, outOfP, childRel_apply h1]
    · simp only [KeyLookup.lookup, KeyLookup.len, nonZeroNew, funcM, Lookup.name?, Lookup.len, hnext]
      cases hcb : cb st ⟨2, none, 3⟩ with
      | none => simp [Except.mapError, hcb, outOfP, resOfGen]
      | some st' => simp [Except.mapError, hcb, outOfP, childRel_apply h2]

/-- the 4-tuple: `numbered 4`, children in order -/
theorem tuple4_traverse_tie {σ : Type} (cb : σ → CbArg → Option σ) (c0 c1 c2 c3 : Schema) (ks : KeySrc) (st : σ)
    (child0 child1 child2 child3 : KeySrc → σ → Except (Error Unit) Nat × σ) (h0 : ChildRel child0 (c0.traverse cb)) (h1 : ChildRel child1 (c1.traverse cb)) (h2 : ChildRel child2 (c2.traverse cb)) (h3 : ChildRel child3 (c3.traverse cb))
    (hnp : ∀ s, ks.next (.numbered 4) ≠ .error (.panic s)) :
    outOfP (Impls.tuple4.traverse_by_key keysNextM (funcM cb) child0 child1 child2 child3 ks st) =
      some (Schema.traverse cb (.node (.numbered 4) [c0, c1, c2, c3]) ks st) := by
  rw [traverse_node_eq]
  simp only [nodeStep, Impls.tuple4.traverse_by_key, keysNextM, lookupOfGen, Impls.KeyLookup.numbered, nonZeroNew]
  try simp +decide only [↓reduceIte, lookupOfGen]
  cases hnext : ks.next (.numbered 4) with
  | error e =>
    cases e with
    | panic s => exact absurd hnext (hnp s)
    | _ => simp [outOfP, resOfGen, travToGen, travOfGen, hnext, KeyLookup.len]
  | ok p =>
    obtain ⟨i, ks'⟩ := p
    have hi := next_lt ks _ i ks' hnext
    simp only [Lookup.len, List.length_cons, List.length_nil] at hi
    have hi' : i = 0 ∨ i = 1 ∨ i = 2 ∨ i = 3 := by omega
    rcases hi' with rfl | rfl | rfl | rfl
    · simp only [KeyLookup.lookup, KeyLookup.len, nonZeroNew, funcM, Lookup.name?, Lookup.len, hnext]
      cases hcb : cb st ⟨0, none, 4⟩ with
      | none => simp [Except.mapError, hcb, outOfP, resOfGen]
      | some st' => simp [Except.mapError, hcb, outOfP, childRel_apply h0]
    · simp only [KeyLookup.lookup, KeyLookup.len, nonZeroNew, funcM, Lookup.name?, Lookup.len, hnext]
      cases hcb : cb st ⟨1, none, 4⟩ with
      | none => simp [Except.mapError, hcb, outOfP, resOfGen]
      | some st' => simp [Except.mapError, hcb, outOfP, childRel_apply h1]
    · simp only [KeyLookup.lookup, KeyLookup.len, nonZeroNew, funcM, Lookup.name?, Lookup.len, hnext]
      cases hcb : cb st ⟨2, none, 4⟩ with
      | none => simp [Except.mapError, hcb, outOfP, resOfGen]
      | some st' => simp [Except.mapError, hcb, outOfP, childRel_apply h2]
    · simp only [KeyLookup.lookup, KeyLookup.len, nonZeroNew, funcM, Lookup.name?, Lookup.len, hnext]
      cases hcb : cb st ⟨3, none, 4⟩ with
      | none => simp [Except.mapError, hcb, outOfP, resOfGen]
      | some st' => simp [Except.mapError, hcb, outOfP, childRel_apply h3]

/-- the 5-tuple: `numbered 5`, children in order -/
theorem tuple5_traverse_tie {σ : Type} (cb : σ → CbArg → Option σ) (c0 c1 c2 c3 c4 : Schema) (ks : KeySrc) (st : σ)
    (child0 child1 child2 child3 child4 : KeySrc → σ → Except (Error Unit) Nat × σ) (h0 : ChildRel child0 (c0.traverse cb)) (h1 : ChildRel child1 (c1.traverse cb)) (h2 : ChildRel child2 (c2.traverse cb)) (h3 : ChildRel child3 (c3.traverse cb)) (h4 : ChildRel child4 (c4.traverse cb))
    (hnp : ∀ s, ks.next (.numbered 5) ≠ .error (.panic s)) :
    outOfP (Impls.tuple5.traverse_by_key keysNextM (funcM cb) child0 child1 child2 child3 child4 ks st) =
      some (Schema.traverse cb (.node (.numbered 5) [c0, c1, c2, c3, c4]) ks st) := by
  rw [traverse_node_eq]
  simp only [nodeStep, Impls.tuple5.traverse_by_key, keysNextM, lookupOfGen, Impls.KeyLookup.numbered, nonZeroNew]
  try simp +decide only [↓reduceIte, lookupOfGen]
  cases hnext : ks.next (.numbered 5) with
  | error e =>
    cases e with
    | panic s => exact absurd hnext (hnp s)
    | _ => simp [outOfP, resOfGen, travToGen, travOfGen, hnext, KeyLookup.len]
  | ok p =>
    obtain ⟨i, ks'⟩ := p
    have hi := next_lt ks _ i ks' hnext
    simp only [Lookup.len, List.length_cons, List.length_nil] at hi
    have hi' : i = 0 ∨ i = 1 ∨ i = 2 ∨ i = 3 ∨ i = 4 := by omega
    rcases hi' with rfl | rfl | rfl | rfl | rfl
    · simp only [KeyLookup.lookup, KeyLookup.len, nonZeroNew, funcM, Lookup.name?, Lookup.len, hnext]
      cases hcb : cb st ⟨0, none, 5⟩ with
      | none => simp [Except.mapError, hcb, outOfP, resOfGen]
      | some st' => simp [Except.mapError, hcb, outOfP, childRel_apply h0]
    · simp only [KeyLookup.lookup, KeyLookup.len, nonZeroNew, funcM, Lookup.name?, Lookup.len, hnext]
      cases hcb : cb st ⟨1, none, 5⟩ with
      | none => simp [Except.mapError, hcb, outOfP, resOfGen]
      | some st' => simp [Except.mapError, hcb, outOfP, childRel_apply h1]
    · simp only [KeyLookup.lookup, KeyLookup.len, nonZeroNew, funcM, Lookup.name?, Lookup.len, hnext]
      cases hcb : cb st ⟨2, none, 5⟩ with
      | none => simp [Except.mapError, hcb, outOfP, resOfGen]
      | some st' => simp [Except.mapError, hcb, outOfP, childRel_apply h2]
    · simp only [KeyLookup.lookup, KeyLookup.len, nonZeroNew, funcM, Lookup.name?, Lookup.len, hnext]
      cases hcb : cb st ⟨3, none, 5⟩ with
      | none => simp [Except.mapError, hcb, outOfP, resOfGen]
      | some st' => simp [Except.mapError, hcb, outOfP, childRel_apply h3]
    · simp only [KeyLookup.lookup, KeyLookup.len, nonZeroNew, funcM, Lookup.name?, Lookup.len, hnext]
      cases hcb : cb st ⟨4, none, 5⟩ with
      | none => simp [Except.mapError, hcb, outOfP, resOfGen]
      | some st' => simp [Except.mapError, hcb, outOfP, childRel_apply h4]

/-- the 6-tuple: `numbered 6`, children in order -/
theorem tuple6_traverse_tie {σ : Type} (cb : σ → CbArg → Option σ) (c0 c1 c2 c3 c4 c5 : Schema) (ks : KeySrc) (st : σ)
    (child0 child1 child2 child3 child4 child5 : KeySrc → σ → Except (Error Unit) Nat × σ) (h0 : ChildRel child0 (c0.traverse cb)) (h1 : ChildRel child1 (c1.traverse cb)) (h2 : ChildRel child2 (c2.traverse cb)) (h3 : ChildRel child3 (c3.traverse cb)) (h4 : ChildRel child4 (c4.traverse cb)) (h5 : ChildRel child5 (c5.traverse cb))
    (hnp : ∀ s, ks.next (.numbered 6) ≠ .error (.panic s)) :
    outOfP (Impls.tuple6.traverse_by_key keysNextM (funcM cb) child0 child1 child2 child3 child4 child5 ks st) =
      some (Schema.traverse cb (.node (.numbered 6) [c0, c1, c2, c3, c4, c5]) ks st) := by
  rw [traverse_node_eq]
  simp only [nodeStep, Impls.tuple6.traverse_by_key, keysNextM, lookupOfGen, Impls.KeyLookup.numbered, nonZeroNew]
  try simp +decide only [↓reduceIte, lookupOfGen]
  cases hnext : ks.next (.numbered 6) with
  | error e =>
    cases e with
    | panic s => exact absurd hnext (hnp s)
    | _ => simp [outOfP, resOfGen, travToGen, travOfGen, hnext, KeyLookup.len]
  | ok p =>
    obtain ⟨i, ks'⟩ := p
    have hi := next_lt ks _ i ks' hnext
    simp only [Lookup.len, List.length_cons, List.length_nil] at hi
    have hi' : i = 0 ∨ i = 1 ∨ i = 2 ∨ i = 3 ∨ i = 4 ∨ i = 5 := by omega
    rcases hi' with rfl | rfl | rfl | rfl | rfl | rfl
    · simp only [KeyLookup.lookup, KeyLookup.len, nonZeroNew, funcM, Lookup.name?, Lookup.len, hnext]
      cases hcb : cb st ⟨0, none, 6⟩ with
      | none => simp [Except.mapError, hcb, outOfP, resOfGen]
      | some st' => simp [Except.mapError, hcb, outOfP, childRel_apply h0]
    · simp only [KeyLookup.lookup, KeyLookup.len, nonZeroNew, funcM, Lookup.name?, Lookup.len, hnext]
      cases hcb : cb st ⟨1, none, 6⟩ with
      | none => simp [Except.mapError, hcb, outOfP, resOfGen]
      | some st' => simp [Except.mapError, hcb, outOfP, childRel_apply h1]
    · simp only [KeyLookup.lookup, KeyLookup.len, nonZeroNew, funcM, Lookup.name?, Lookup.len, hnext]
      cases hcb : cb st ⟨2, none, 6⟩ with
      | none => simp [Except.mapError, hcb, outOfP, resOfGen]
      | some st' => simp [Except.mapError, hcb, outOfP, childRel_apply h2]
    · simp only [KeyLookup.lookup, KeyLookup.len, nonZeroNew, funcM, Lookup.name?, Lookup.len, hnext]
      cases hcb : cb st ⟨3, none, 6⟩ with
      | none => simp [Except.mapError, hcb, outOfP, resOfGen]
      | some st' => simp [Except.mapError, hcb, outOfP, childRel_apply h3]
    · simp only [KeyLookup.lookup, KeyLookup.len, nonZeroNew, funcM, Lookup.name?, Lookup.len, hnext]
      cases hcb : cb st ⟨4, none, 6⟩ with
      | none => simp [Except.mapError, hcb, outOfP, resOfGen]
      | some st' => simp [Except.mapError, hcb, outOfP, childRel_apply h4]
    · simp only [KeyLookup.lookup, KeyLookup.len, nonZeroNew, funcM, Lookup.name?, Lookup.len, hnext]
      cases hcb : cb st ⟨5, none, 6⟩ with
      | none => simp [Except.mapError, hcb, outOfP, resOfGen]
      | some st' => simp [Except.mapError, hcb, outOfP, childRel_apply h5]

/-- the 7-tuple: `numbered 7`, children in order -/
theorem tuple7_traverse_tie {σ : Type} (cb : σ → CbArg → Option σ) (c0 c1 c2 c3 c4 c5 c6 : Schema) (ks : KeySrc) (st : σ)
    (child0 child1 child2 child3 child4 child5 child6 : KeySrc → σ → Except (Error Unit) Nat × σ) (h0 : ChildRel child0 (c0.traverse cb)) (h1 : ChildRel child1 (c1.traverse cb)) (h2 : ChildRel child2 (c2.traverse cb)) (h3 : ChildRel child3 (c3.traverse cb)) (h4 : ChildRel child4 (c4.traverse cb)) (h5 : ChildRel child5 (c5.traverse cb)) (h6 : ChildRel child6 (c6.traverse cb))
    (hnp : ∀ s, ks.next (.numbered 7) ≠ .error (.panic s)) :
    outOfP (Impls.tuple7.traverse_by_key keysNextM (funcM cb) child0 child1 child2 child3 child4 child5 child6 ks st) =
      some (Schema.traverse cb (.node (.numbered 7) [c0, c1, c2, c3, c4, c5, c6]) ks st) := by
  rw [traverse_node_eq]
  simp only [nodeStep, Impls.tuple7.traverse_by_key, keysNextM, lookupOfGen, Impls.KeyLookup.numbered, nonZeroNew]
  try simp +decide only [↓reduceIte, lookupOfGen]
  cases hnext : ks.next (.numbered 7) with
  | error e =>
    cases e with
    | panic s => exact absurd hnext (hnp s)
    | _ => simp [outOfP, resOfGen, travToGen, travOfGen, hnext, KeyLookup.len]
  | ok p =>
    obtain ⟨i, ks'⟩ := p
    have hi := next_lt ks _ i ks' hnext
    simp only [Lookup.len, List.length_cons, List.length_nil] at hi
    have hi' : i = 0 ∨ i = 1 ∨ i = 2 ∨ i = 3 ∨ i = 4 ∨ i = 5 ∨ i = 6 := by omega
    rcases hi' with rfl | rfl | rfl | rfl | rfl | rfl | rfl
    · simp only [KeyLookup.lookup, KeyLookup.len, nonZeroNew, funcM, Lookup.name?, Lookup.len, hnext]
      cases hcb : cb st ⟨0, none, 7⟩ with
      | none => simp [Except.mapError, hcb, outOfP, resOfGen]
      | some st' => simp [Except.mapError, hcb, outOfP, childRel_apply h0]
    · simp only [KeyLookup.lookup, KeyLookup.len, nonZeroNew, funcM, Lookup.name?, Lookup.len, hnext]
      cases hcb : cb st ⟨1, none, 7⟩ with
      | none => simp [Except.mapError, hcb, outOfP, resOfGen]
      | some st' => simp [Except.mapError, hcb, outOfP, childRel_apply h1]
    · simp only [KeyLookup.lookup, KeyLookup.len, nonZeroNew, funcM, Lookup.name?, Lookup.len, hnext]
      cases hcb : cb st ⟨2, none, 7⟩ with
      | none => simp [Except.mapError, hcb, outOfP, resOfGen]
      | some st' => simp [Except.mapError, hcb, outOfP, childRel_apply h2]
    · simp only [KeyLookup.lookup, KeyLookup.len, nonZeroNew, funcM, Lookup.name?, Lookup.len, hnext]
      cases hcb : cb st ⟨3, none, 7⟩ with
      | none => simp [Except.mapError, hcb, outOfP, resOfGen]
      | some st' => simp [Except.mapError, hcb, outOfP, childRel_apply h3]
    · simp only [KeyLookup.lookup, KeyLookup.len, nonZeroNew, funcM, Lookup.name?, Lookup.len, hnext]
      cases hcb : cb st ⟨4, none, 7⟩ with
      | none => simp [Except.mapError, hcb, outOfP, resOfGen]
      | some st' => simp [Except.mapError, hcb, outOfP, childRel_apply h4]
    · simp only [KeyLookup.lookup, KeyLookup.len, nonZeroNew, funcM, Lookup.name?, Lookup.len, hnext]
      cases hcb : cb st ⟨5, none, 7⟩ with
      | none => simp [Except.mapError, hcb, outOfP, resOfGen]
      | some st' => simp [Except.mapError, hcb, outOfP, childRel_apply h5]
    · simp only [KeyLookup.lookup, KeyLookup.len, nonZeroNew, funcM, Lookup.name?, Lookup.len, hnext]
      cases hcb : cb st ⟨6, none, 7⟩ with
      | none => simp [Except.mapError, hcb, outOfP, resOfGen]
      | some st' => simp [Except.mapError, hcb, outOfP, childRel_apply h6]

/-- the 8-tuple: `numbered 8`, children in order -/
theorem tuple8_traverse_tie {σ : Type} (cb : σ → CbArg → Option σ) (c0 c1 c2 c3 c4 c5 c6 c7 : Schema) (ks : KeySrc) (st : σ)
    (child0 child1 child2 child3 child4 child5 child6 child7 : KeySrc → σ → Except (Error Unit) Nat × σ) (h0 : ChildRel child0 (c0.traverse cb)) (h1 : ChildRel child1 (c1.traverse cb)) (h2 : ChildRel child2 (c2.traverse cb)) (h3 : ChildRel child3 (c3.traverse cb)) (h4 : ChildRel child4 (c4.traverse cb)) (h5 : ChildRel child5 (c5.traverse cb)) (h6 : ChildRel child6 (c6.traverse cb)) (h7 : ChildRel child7 (c7.traverse cb))
    (hnp : ∀ s, ks.next (.numbered 8) ≠ .error (.panic s)) :
    outOfP (Impls.tuple8.traverse_by_key keysNextM (funcM cb) child0 child1 child2 child3 child4 child5 child6 child7 ks st) =
      some (Schema.traverse cb (.node (.numbered 8) [c0, c1, c2, c3, c4, c5, c6, c7]) ks st) := by
  rw [traverse_node_eq]
  simp only [nodeStep, Impls.tuple8.traverse_by_key, keysNextM, lookupOfGen, Impls.KeyLookup.numbered, nonZeroNew]
  try simp +decide only [↓reduceIte, lookupOfGen]
  cases hnext : ks.next (.numbered 8) with
  | error e =>
    cases e with
    | panic s => exact absurd hnext (hnp s)
    | _ => simp [outOfP, resOfGen, travToGen, travOfGen, hnext, KeyLookup.len]
  | ok p =>
    obtain ⟨i, ks'⟩ := p
    have hi := next_lt ks _ i ks' hnext
    simp only [Lookup.len, List.length_cons, List.length_nil] at hi
    have hi' : i = 0 ∨ i = 1 ∨ i = 2 ∨ i = 3 ∨ i = 4 ∨ i = 5 ∨ i = 6 ∨ i = 7 := by omega
    rcases hi' with rfl | rfl | rfl | rfl | rfl | rfl | rfl | rfl
    · simp only [KeyLookup.lookup, KeyLookup.len, nonZeroNew, funcM, Lookup.name?, Lookup.len, hnext]
      cases hcb : cb st ⟨0, none, 8⟩ with
      | none => simp [Except.mapError, hcb, outOfP, resOfGen]
      | some st' => simp [Except.mapError, hcb, outOfP, childRel_apply h0]
    · simp only [KeyLookup.lookup, KeyLookup.len, nonZeroNew, funcM, Lookup.name?, Lookup.len, hnext]
      cases hcb : cb st ⟨1, none, 8⟩ with
      | none => simp [Except.mapError, hcb, outOfP, resOfGen]
      | some st' => simp [Except.mapError, hcb, outOfP, childRel_apply h1]
    · simp only [KeyLookup.lookup, KeyLookup.len, nonZeroNew, funcM, Lookup.name?, Lookup.len, hnext]
      cases hcb : cb st ⟨2, none, 8⟩ with
      | none => simp [Except.mapError, hcb, outOfP, resOfGen]
      | some st' => simp [Except.mapError, hcb, outOfP, childRel_apply h2]
    · simp only [KeyLookup.lookup, KeyLookup.len, nonZeroNew, funcM, Lookup.name?, Lookup.len, hnext]
      cases hcb : cb st ⟨3, none, 8⟩ with
      | none => simp [Except.mapError, hcb, outOfP, resOfGen]
      | some st' => simp [Except.mapError, hcb, outOfP, childRel_apply h3]
    · simp only [KeyLookup.lookup, KeyLookup.len, nonZeroNew, funcM, Lookup.name?, Lookup.len, hnext]
      cases hcb : cb st ⟨4, none, 8⟩ with
      | none => simp [Except.mapError, hcb, outOfP, resOfGen]
      | some st' => simp [Except.mapError, hcb, outOfP, childRel_apply h4]
    · simp only [KeyLookup.lookup, KeyLookup.len, nonZeroNew, funcM, Lookup.name?, Lookup.len, hnext]
      cases hcb : cb st ⟨5, none, 8⟩ with
      | none => simp [Except.mapError, hcb, outOfP, resOfGen]
      | some st' => simp [Except.mapError, hcb, outOfP, childRel_apply h5]
    · simp only [KeyLookup.lookup, KeyLookup.len, nonZeroNew, funcM, Lookup.name?, Lookup.len, hnext]
      cases hcb : cb st ⟨6, none, 8⟩ with
      | none => simp [Except.mapError, hcb, outOfP, resOfGen]
      | some st' => simp [Except.mapError, hcb, outOfP, childRel_apply h6]
    · simp only [KeyLookup.lookup, KeyLookup.len, nonZeroNew, funcM, Lookup.name?, Lookup.len, hnext]
      cases hcb : cb st ⟨7, none, 8⟩ with
      | none => simp [Except.mapError, hcb, outOfP, resOfGen]
      | some st' => simp [Except.mapError, hcb, outOfP, childRel_apply h7]

/-- `<[T; N] as TreeKey>::traverse_by_key` of the source = the model's traversal of `array n c` -/
theorem array_traverse_tie {σ : Type} (cb : σ → CbArg → Option σ) (n : Nat) (c : Schema) (ks : KeySrc) (st : σ)
    (child0 : KeySrc → σ → Except (Error Unit) Nat × σ) (h0 : ChildRel child0 (c.traverse cb)) (hn : 0 < n)
    (hnp : ∀ s, ks.next (.homog n) ≠ .error (.panic s)) :
    outOfP (Impls.array.traverse_by_key keysNextM (funcM cb) n child0 ks st) =
      some (Schema.traverse cb (.array n c) ks st) := by
  have hne : n ≠ 0 := by omega
  simp only [Schema.traverse, Impls.array.traverse_by_key, Impls.KeyLookup.homogeneous, nonZeroNew, hne, ↓reduceIte,
    keysNextM, lookupOfGen]
  cases hnext : ks.next (.homog n) with
  | error e =>
    cases e with
    | panic s => exact absurd hnext (hnp s)
    | _ => simp [outOfP, resOfGen, travToGen, travOfGen]
  | ok p =>
    obtain ⟨i, ks'⟩ := p
    simp only [KeyLookup.len, funcM]
    cases hcb : cb st ⟨i, none, n⟩ with
    | none => simp [Except.mapError, hcb, outOfP, resOfGen]
    | some st' => simp [Except.mapError, hcb, outOfP, childRel_apply h0]

/-- all container ties as one statement (used as an obligation of C02) -/
def ContainerTies : Prop :=
  (∀ {σ : Type}, type_of% (@result_traverse_tie σ)) ∧
  (∀ {σ : Type}, type_of% (@bound_traverse_tie σ)) ∧
  (∀ {σ : Type}, type_of% (@range_traverse_tie σ)) ∧
  (∀ {σ : Type}, type_of% (@rangeInclusive_traverse_tie σ)) ∧
  (∀ {σ : Type}, type_of% (@rangeFrom_traverse_tie σ)) ∧
  (∀ {σ : Type}, type_of% (@rangeTo_traverse_tie σ)) ∧
  (∀ {σ : Type}, type_of% (@tuple1_traverse_tie σ)) ∧
  (∀ {σ : Type}, type_of% (@tuple2_traverse_tie σ)) ∧
  (∀ {σ : Type}, type_of% (@tuple3_traverse_tie σ)) ∧
  (∀ {σ : Type}, type_of% (@tuple4_traverse_tie σ)) ∧
  (∀ {σ : Type}, type_of% (@tuple5_traverse_tie σ)) ∧
  (∀ {σ : Type}, type_of% (@tuple6_traverse_tie σ)) ∧
  (∀ {σ : Type}, type_of% (@tuple7_traverse_tie σ)) ∧
  (∀ {σ : Type}, type_of% (@tuple8_traverse_tie σ)) ∧
  (∀ {σ : Type}, type_of% (@array_traverse_tie σ))

theorem containerTies : ContainerTies :=
  ⟨@result_traverse_tie, @bound_traverse_tie, @range_traverse_tie, @rangeInclusive_traverse_tie, @rangeFrom_traverse_tie, @rangeTo_traverse_tie, @tuple1_traverse_tie, @tuple2_traverse_tie, @tuple3_traverse_tie, @tuple4_traverse_tie, @tuple5_traverse_tie, @tuple6_traverse_tie, @tuple7_traverse_tie, @tuple8_traverse_tie, @array_traverse_tie⟩

end MiniconfVerif.GenTie
