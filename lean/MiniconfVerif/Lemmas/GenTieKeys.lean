import MiniconfVerif.Gen.Keys
import MiniconfVerif.Lemmas.GenTieText
import MiniconfVerif.Lemmas.PackedLsb
import MiniconfVerif.Model.Transcode

/-! The `Keys` implementations **as translated from key.rs / iter.rs / packed.rs** (`Gen/Keys.lean`,
`extract/gen_keys.py`) are the model's `KeySrc.next` / `KeySrc.finalize`: `KeysIter` over any item list, `Packed`,
and — compositionally, for components that are themselves represented — `Chain` and `Consume`.  The traversal callback of
`Transcode for Packed` is the model's `Target.cb` / `Target.cbPanics` on packed targets. -/
namespace MiniconfVerif.GenTie
open MiniconfVerif MiniconfVerif.Gen MiniconfVerif.Gen.Core MiniconfVerif.Gen.Keys MiniconfVerif.Gen.Packed

/-- `<K as Key>::find` for the model's key sum type, from the translated `find`s of `Gen/Text.lean` -/
def keyFindG (k : Key) (lk : KeyLookup) : P (Except Traversal Nat) :=
  match k with
  | .str s => .val (Text.strFind (String.ofList s) lk)
  | .int v => Text.intFind v lk

theorem keyFindG_tie (k : Key) (lk : Lookup) (h : 0 < lk.len) :
    ∃ r, keyFindG k (lookupToGen lk) = .val r ∧ exceptOfGen r = Key.find lk k := by
  cases k with
  | str s => exact ⟨_, rfl, by simpa using strFind_tie (String.ofList s) lk⟩
  | int v =>
    refine ⟨_, intFind_tie v lk h, ?_⟩
    simp only [Key.find]
    by_cases hc : 0 ≤ v ∧ v < 2 ^ 64 ∧ v.toNat < lk.len
    · rw [if_pos hc]; rfl
    · rw [if_neg hc]; rfl

theorem find_not_tooShort (lk : Lookup) (k : Key) (d : Nat) : Key.find lk k ≠ .error (.tooShort d) := by
  cases k with
  | int v => simp only [Key.find]; split <;> simp
  | str s =>
    cases lk with
    | named ns => simp only [Key.find]; split <;> simp
    | numbered n =>
      simp only [Key.find]
      split
      · split <;> simp
      · simp
    | homog n =>
      simp only [Key.find]
      split
      · split <;> simp
      · simp

/-- what a translated `next` returned (in state `s`), against what the model's `KeySrc.next` returns for the key
source `ι s` the state represents: same index and represented successor state; same error; a `TooShort` leaves the
represented state unchanged (this is what `Chain` relies on); a panic is the model's panic marker. -/
def NextAgree {σ : Type} (ι : σ → KeySrc) (s : σ) : P (σ × Except Traversal Nat) → Except Trav (Nat × KeySrc) → Prop
  | .panic _, .error (.panic _) => True
  | .val (s', .ok i), .ok (j, k') => i = j ∧ ι s' = k'
  | .val (s', .error e), .error t => travOfGen e = t ∧ (∀ d, e = .TooShort d → ι s' = ι s)
  | _, _ => False

/-- a translated `Keys::next` on states `σ` represents the model's `KeySrc.next` through `ι` (for lookups with at
least one child — `KeyLookup::len()` is `NonZero`) -/
def KeysRel {σ : Type} (next : σ → KeyLookup → P (σ × Except Traversal Nat)) (ι : σ → KeySrc) : Prop :=
  ∀ s lk, 0 < lk.len → lk.len < 2 ^ 64 → NextAgree ι s (next s (lookupToGen lk)) ((ι s).next lk)

def unitOfGen : Except Traversal Unit → Except Trav Unit
  | .ok () => .ok ()
  | .error e => .error (travOfGen e)

/-- a translated `Keys::finalize` represents the model's -/
def FinRel {σ : Type} (fin : σ → σ × Except Traversal Unit) (ι : σ → KeySrc) : Prop :=
  ∀ s, unitOfGen (fin s).2 = (ι s).finalize

/-! ### KeysIter -/

theorem keysIter_next_tie : KeysRel (KeysIter.next keyFindG) KeySrc.list := by
  intro ks lk h _
  cases ks with
  | nil => simp [KeysIter.next, listNext, KeySrc.next, NextAgree, travOfGen]
  | cons k ks =>
    obtain ⟨r, hr, hm⟩ := keyFindG_tie k lk h
    simp only [KeysIter.next, listNext, KeySrc.next, hr, ← hm]
    cases r with
    | ok i => simp [exceptOfGen, NextAgree]
    | error e =>
      have : ∀ d, e ≠ .TooShort d := by
        intro d hd
        subst hd
        exact find_not_tooShort lk k d hm.symm
      simp only [exceptOfGen, NextAgree, true_and]
      intro d hd
      exact absurd hd (this d)

theorem keysIter_finalize_tie {κ : Type} (f : κ → Key) :
    FinRel (KeysIter.finalize (κ := κ)) (fun l => .list (l.map f)) := by
  intro l
  cases l <;> simp [KeysIter.finalize, listNext, KeySrc.finalize, unitOfGen, travOfGen]

/-! ### Packed -/

theorem ofNat_pred (n : Nat) (h : 1 ≤ n) : BitVec.ofNat 64 (n - 1) = BitVec.ofNat 64 n - 1 := by
  apply BitVec.eq_of_toNat_eq
  simp only [BitVec.toNat_ofNat, BitVec.toNat_sub]
  have : (2 ^ 64 - 1 % 2 ^ 64 + n % 2 ^ 64) = (n % 2 ^ 64 + (2 ^ 64 - 1)) := by omega
  rw [show (1 : BitVec 64).toNat = 1 from rfl]
  omega

theorem find_nat (n : Nat) (lk : Lookup) (hn : n < 2 ^ 64) :
    Key.find lk (.int (n : Int)) = if n < lk.len then .ok n else .error (.notFound 1) := by
  have h1 : (0 : Int) ≤ (n : Int) ∧ (n : Int) < 2 ^ 64 := by constructor <;> omega
  have h2 : (n : Int).toNat = n := Int.toNat_natCast n
  generalize (n : Int) = v at h1 h2
  simp only [Key.find]
  by_cases hlt : n < lk.len
  · rw [if_pos ⟨h1.1, h1.2, by rw [h2]; exact hlt⟩, if_pos hlt, h2]
  · rw [if_neg (fun hh => hlt (by rw [← h2]; exact hh.2.2)), if_neg hlt]

theorem intFind_nat (n : Nat) (lk : Lookup) (h : 0 < lk.len) (hn : n < 2 ^ 64) :
    Text.intFind (n : Int) (lookupToGen lk) = .val (if n < lk.len then .ok n else .error (.NotFound 1)) := by
  rw [intFind_tie _ lk h, find_nat n lk hn]
  by_cases hlt : n < lk.len
  · rw [if_pos hlt, if_pos hlt]
  · rw [if_neg hlt, if_neg hlt]

theorem packed_next_tie : KeysRel Packed.next KeySrc.packed := by
  intro w lk h h64
  have hb : bitsForP (lk.len - 1) = .val (keyBits (BitVec.ofNat 64 lk.len)) := by
    simp only [bitsForP, PackedWord.bitsFor_no_panic, ↓reduceIte, keyBits, ofNat_pred lk.len h]
  have hw : ∀ v : BitVec 64, Text.intFind (v.toNat : Int) (lookupToGen lk) =
      .val (if v.toNat < lk.len then .ok v.toNat else .error (.NotFound 1)) := fun v => intFind_nat _ lk h v.isLt
  simp only [Packed.next, len_tie lk h, show 1 ≤ lk.len from h, ↓reduceIte, hb, KeySrc.next, hw]
  generalize keyBits (BitVec.ofNat 64 lk.len) = bits
  cases hpre : popMsb_pre w bits with
  | false =>
    have hpop : popMsbP w bits = .panic "pop_msb" := by simp [popMsbP, hpre]
    simp [hpop, NextAgree]
  | true =>
    cases hp : popMsb w bits with
    | none =>
      have hpop : popMsbP w bits = .val (none, w) := by simp [popMsbP, hpre, hp]
      simp [hpop, NextAgree, travOfGen]
    | some p =>
      obtain ⟨w', idx⟩ := p
      cases hin : popMsb_inner w bits with
      | false =>
        have hpop : popMsbP w bits = .panic "pop_msb" := by simp [popMsbP, hpre, hp, hin]
        simp [hpop, NextAgree]
      | true =>
        have hpop : popMsbP w bits = .val (some idx, w') := by simp [popMsbP, hpre, hp, hin]
        simp only [hpop, Bool.not_true, Bool.false_eq_true, ↓reduceIte]
        by_cases hlt : idx.toNat < lk.len
        · rw [if_pos hlt, if_pos hlt]
          simp only [NextAgree, and_self]
        · rw [if_neg hlt, if_neg hlt]
          simp only [NextAgree, travOfGen, true_and]
          intro d hd; cases hd

theorem packed_finalize_tie : FinRel Packed.finalize KeySrc.packed := by
  intro w
  simp only [Packed.finalize, KeySrc.finalize]
  cases isEmpty w <;> simp [unitOfGen, travOfGen]

/-! ### Chain, Consume (compositional) -/

theorem chain_next_tie {α β : Type} (nextA : α → KeyLookup → P (α × Except Traversal Nat))
    (nextB : β → KeyLookup → P (β × Except Traversal Nat)) (ιA : α → KeySrc) (ιB : β → KeySrc)
    (hA : KeysRel nextA ιA) (hB : KeysRel nextB ιB) :
    KeysRel (Chain.next nextA nextB) (fun s => .chain (ιA s.1) (ιB s.2)) := by
  intro s lk h h64
  obtain ⟨a, b⟩ := s
  have ha := hA a lk h h64
  simp only [Chain.next, KeySrc.next, onFst, onSnd]
  cases hna : nextA a (lookupToGen lk) with
  | panic m =>
    rw [hna] at ha
    cases hma : (ιA a).next lk with
    | ok p => rw [hma] at ha; simp [NextAgree] at ha
    | error e => rw [hma] at ha; cases e <;> simp [NextAgree] at ha ⊢
  | val p =>
    obtain ⟨a', r⟩ := p
    rw [hna] at ha
    cases r with
    | ok i =>
      cases hma : (ιA a).next lk with
      | error e => rw [hma] at ha; simp [NextAgree] at ha
      | ok q =>
        obtain ⟨j, k'⟩ := q
        rw [hma] at ha
        simp only [NextAgree] at ha
        simp [NextAgree, ha.1, ha.2]
    | error e =>
      cases hma : (ιA a).next lk with
      | ok q => rw [hma] at ha; simp [NextAgree] at ha
      | error t =>
        rw [hma] at ha
        simp only [NextAgree] at ha
        obtain ⟨ht, hst⟩ := ha
        cases e with
        | TooShort d =>
          have hst' := hst d rfl
          simp only [travOfGen] at ht
          subst ht
          simp only
          have hb := hB b lk h h64
          cases hnb : nextB b (lookupToGen lk) with
          | panic m =>
            rw [hnb] at hb
            cases hmb : (ιB b).next lk with
            | ok p => rw [hmb] at hb; simp [NextAgree] at hb
            | error e => rw [hmb] at hb; cases e <;> simp [NextAgree] at hb ⊢
          | val p =>
            obtain ⟨b', r⟩ := p
            rw [hnb] at hb
            cases r with
            | ok i =>
              cases hmb : (ιB b).next lk with
              | error e => rw [hmb] at hb; simp [NextAgree] at hb
              | ok q =>
                obtain ⟨j, k'⟩ := q
                rw [hmb] at hb
                simp only [NextAgree] at hb
                simp [NextAgree, hb.1, hb.2, hst']
            | error e =>
              cases hmb : (ιB b).next lk with
              | ok q => rw [hmb] at hb; simp [NextAgree] at hb
              | error t =>
                rw [hmb] at hb
                simp only [NextAgree] at hb
                simp only [NextAgree, hb.1, true_and]
                intro d hd
                rw [hb.2 d hd, hst']
        | Absent d => simp only [travOfGen] at ht; subst ht; simp [NextAgree, travOfGen]
        | NotFound d => simp only [travOfGen] at ht; subst ht; simp [NextAgree, travOfGen]
        | TooLong d => simp only [travOfGen] at ht; subst ht; simp [NextAgree, travOfGen]
        | Access d m => simp only [travOfGen] at ht; subst ht; simp [NextAgree, travOfGen]
        | Invalid d m => simp only [travOfGen] at ht; subst ht; simp [NextAgree, travOfGen]

theorem chain_finalize_tie {α β : Type} (finA : α → α × Except Traversal Unit) (finB : β → β × Except Traversal Unit)
    (ιA : α → KeySrc) (ιB : β → KeySrc) (hA : FinRel finA ιA) (hB : FinRel finB ιB) :
    FinRel (Chain.finalize finA finB) (fun s => .chain (ιA s.1) (ιB s.2)) := by
  intro s
  obtain ⟨a, b⟩ := s
  have ha := hA a
  have hb := hB b
  simp only [Chain.finalize, onFstPure, onSndPure, KeySrc.finalize, ← ha, ← hb]
  cases h1 : (finA a).2 with
  | ok u => cases u; simp [unitOfGen]
  | error e => simp [unitOfGen]

theorem consume_next_tie {α : Type} (nextA : α → KeyLookup → P (α × Except Traversal Nat)) (ι : α → KeySrc)
    (hA : KeysRel nextA ι) : KeysRel (Consume.next nextA) (fun s => .consume (ι s)) := by
  intro a lk h h64
  have ha := hA a lk h h64
  simp only [Consume.next, swapP, KeySrc.next]
  cases hna : nextA a (lookupToGen lk) with
  | panic m =>
    rw [hna] at ha
    cases hma : (ι a).next lk with
    | ok p => rw [hma] at ha; simp [NextAgree] at ha
    | error e => rw [hma] at ha; cases e <;> simp [NextAgree] at ha ⊢
  | val p =>
    obtain ⟨a', r⟩ := p
    rw [hna] at ha
    cases r with
    | ok i =>
      cases hma : (ι a).next lk with
      | error e => rw [hma] at ha; simp [NextAgree] at ha
      | ok q =>
        obtain ⟨j, k'⟩ := q
        rw [hma] at ha
        simp only [NextAgree] at ha
        simp [NextAgree, ha.1, ha.2]
    | error e =>
      cases hma : (ι a).next lk with
      | ok q => rw [hma] at ha; simp [NextAgree] at ha
      | error t =>
        rw [hma] at ha
        simp only [NextAgree] at ha
        simp only [NextAgree, ha.1, true_and]
        intro d hd
        rw [ha.2 d hd]

theorem consume_finalize_tie {α : Type} (ι : α → KeySrc) :
    FinRel (Consume.finalize (α := α)) (fun s => .consume (ι s)) := by
  intro s; rfl

/-! ### the `Transcode for Packed` callback -/

/-- The callback panics exactly when the model flags a panic (`Target.cbPanics`), fails exactly when the model's callback
does, and otherwise leaves the model's word. -/
theorem packed_callback_tie (w : BitVec 64) (a : CbArg) (h : 0 < a.len) :
    (if (Target.packed w).cbPanics a then ∃ m, Packed.callback w a.index a.name a.len = .panic m
     else match Target.cb (.packed w) a with
      | some t => ∃ w', Packed.callback w a.index a.name a.len = .val (w', .ok ()) ∧ t = .packed w'
      | none => ∃ w', Packed.callback w a.index a.name a.len = .val (w', .error ())) := by
  have hb : bitsForP (a.len - 1) = .val (keyBits (BitVec.ofNat 64 a.len)) := by
    simp only [bitsForP, PackedWord.bitsFor_no_panic, ↓reduceIte, keyBits, ofNat_pred a.len h]
  simp only [Packed.callback, show 1 ≤ a.len from h, ↓reduceIte, hb, pushLsbP, Target.cbPanics, Target.cb]
  generalize keyBits (BitVec.ofNat 64 a.len) = bits
  generalize BitVec.ofNat 64 a.index = v
  cases hpre : pushLsb_pre w bits v <;> cases hdbg : pushLsb_dbg w bits v <;> simp
  cases hp : pushLsb w bits v with
  | none => simp
  | some p =>
    obtain ⟨w', r⟩ := p
    cases hin : pushLsb_inner w bits v <;> simp

end MiniconfVerif.GenTie
