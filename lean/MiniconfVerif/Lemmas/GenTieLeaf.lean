import MiniconfVerif.Gen.Leaf
import MiniconfVerif.Lemmas.GenTie
import MiniconfVerif.Model.Tree

/-! `Tree.walk` at a leaf agrees with the by-key functions of `Leaf<T>`, `StrLeaf<T>`, `Deny<T>` **as translated from
leaf.rs** (`Gen/Leaf.lean`): surplus keys (`finalize`) are reported before the value is touched; (de)serializer
errors are `Inner(0)`; the stored value changes exactly on a successful deserialization. -/
namespace MiniconfVerif.GenTie
open MiniconfVerif MiniconfVerif.Gen MiniconfVerif.Gen.Core

/-- `Keys::finalize` of the model's key sources, as the translated functions see it -/
def finM (ks : KeySrc) : Except Traversal Unit :=
  match ks.finalize with
  | .ok () => .ok ()
  | .error e => .error ((travToGen e).getD (.NotFound 0))

/-- finalizing never panics: it is `Ok` or `TooLong(0)` -/
theorem finalize_cases : ∀ ks : KeySrc, ks.finalize = .ok () ∨ ks.finalize = .error (.tooLong 0)
  | .list [] => Or.inl rfl
  | .list (_ :: _) => Or.inr rfl
  | .packed w => by simp only [KeySrc.finalize]; split <;> simp
  | .chain a b => by
    simp only [KeySrc.finalize]
    rcases finalize_cases a with h | h <;> rw [h]
    · exact finalize_cases b
    · exact Or.inr rfl
  | .consume _ => Or.inl rfl

def serM (io : Io) (k : LeafKind) (v : Val) : Except Unit Unit := if io.enc k v then .ok () else .error ()
def deM (io : Io) (k : LeafKind) : Unit → Except Unit Val := fun _ =>
  match io.dec k with
  | some v' => .ok v'
  | none => .error ()

def valOf : Tree → Option Val
  | .leaf _ v => some v
  | _ => none

/-- **`Leaf<T>`** -/
theorem leafLeaf_tie (io : Io) (ty : Ty) (v : Val) (ks : KeySrc) :
    resOfGen (Leaf.Leaf.traverse_by_key finM ks) = (match ks.finalize with | .ok () => Res.ok 0 | .error e => .trav e) ∧
    resOfGen (Leaf.Leaf.serialize_by_key finM (serM io (.leaf ty) v) v ks ()) =
      (Tree.walk io .ser (.leaf (.leaf ty) v) ks).res ∧
    (let r := Leaf.Leaf.deserialize_by_key finM (deM io (.leaf ty)) v ks ()
     resOfGen r.2 = (Tree.walk io .de (.leaf (.leaf ty) v) ks).res ∧
     some r.1 = valOf (Tree.walk io .de (.leaf (.leaf ty) v) ks).tree) ∧
    (match Leaf.Leaf.ref_any_by_key finM v ks with
      | .ok v' => (Tree.walk io .refAny (.leaf (.leaf ty) v) ks).res = .ok 0 ∧
          (Tree.walk io .refAny (.leaf (.leaf ty) v) ks).val = some v'
      | .error e => (Tree.walk io .refAny (.leaf (.leaf ty) v) ks).res = .trav (travOfGen e)) ∧
    (match Leaf.Leaf.mut_any_by_key finM v ks with
      | .ok _ => (Tree.walk io .mutAny (.leaf (.leaf ty) v) ks).res = .ok 0
      | .error e => (Tree.walk io .mutAny (.leaf (.leaf ty) v) ks).res = .trav (travOfGen e)) := by
  rcases finalize_cases ks with h | h
  · refine ⟨by simp [Leaf.Leaf.traverse_by_key, finM, h, resOfGen], ?_, ?_, ?_, ?_⟩
    · simp only [Leaf.Leaf.serialize_by_key, finM, h, serM, Tree.walk, leafOp]
      by_cases he : io.enc (.leaf ty) v <;> simp [he, Except.mapError, resOfGen]
    · simp only [Leaf.Leaf.deserialize_by_key, finM, h, deM, Tree.walk, leafOp]
      cases hd : io.dec (.leaf ty) <;> simp [Except.mapError, resOfGen, valOf]
    · simp [Leaf.Leaf.ref_any_by_key, finM, h, Tree.walk, leafOp]
    · simp only [Leaf.Leaf.mut_any_by_key, finM, h, Tree.walk, leafOp]
      cases hd : io.dec (.leaf ty) <;> simp
  · refine ⟨by simp [Leaf.Leaf.traverse_by_key, finM, h, resOfGen, travToGen, travOfGen], ?_, ?_, ?_, ?_⟩ <;>
      simp [Leaf.Leaf.serialize_by_key, Leaf.Leaf.deserialize_by_key, Leaf.Leaf.ref_any_by_key,
        Leaf.Leaf.mut_any_by_key, finM, h, Tree.walk, resOfGen, travToGen, travOfGen, valOf]

/-- `TryFrom<&str>` of the string-tagged enum: the variant with that name -/
def tryFromM (variants : List String) (s : List Char) : Except Unit Val :=
  match variants.findIdx? (fun n => n.toList == s) with
  | some i => .ok (.variant i)
  | none => .error ()

def deStrM (io : Io) (k : LeafKind) : Unit → Except Unit (List Char) := fun _ =>
  match io.dec k with
  | some (.str s) => .ok s
  | _ => .error ()

/-- **`StrLeaf<T>`** -/
theorem strLeaf_tie (io : Io) (variants : List String) (v : Val) (ks : KeySrc) :
    resOfGen (Leaf.StrLeaf.serialize_by_key finM (serM io (.strLeaf variants) v) v ks ()) =
      (Tree.walk io .ser (.leaf (.strLeaf variants) v) ks).res ∧
    (let r := Leaf.StrLeaf.deserialize_by_key finM (deStrM io (.strLeaf variants)) (tryFromM variants) v ks ()
     resOfGen r.2 = (Tree.walk io .de (.leaf (.strLeaf variants) v) ks).res ∧
     some r.1 = valOf (Tree.walk io .de (.leaf (.strLeaf variants) v) ks).tree) ∧
    (∀ op, op = Op.refAny ∨ op = Op.mutAny →
      (match Leaf.StrLeaf.ref_any_by_key finM v ks, Leaf.StrLeaf.mut_any_by_key finM v ks with
      | .error e, .error e' => e = e' ∧ (Tree.walk io op (.leaf (.strLeaf variants) v) ks).res = .trav (travOfGen e)
      | _, _ => False)) := by
  rcases finalize_cases ks with h | h
  · refine ⟨?_, ?_, ?_⟩
    · simp only [Leaf.StrLeaf.serialize_by_key, finM, h, serM, Tree.walk, leafOp]
      by_cases he : io.enc (.strLeaf variants) v <;> simp [he, Except.mapError, resOfGen]
    · simp only [Leaf.StrLeaf.deserialize_by_key, finM, h, deStrM, tryFromM, Tree.walk, leafOp]
      cases hd : io.dec (.strLeaf variants) with
      | none => simp [Except.mapError, resOfGen, valOf]
      | some x =>
        cases x <;> simp [Except.mapError, resOfGen, valOf]
        rename_i s
        cases hf : variants.findIdx? (fun n => n.toList == s) <;> simp [resOfGen, valOf, travOfGen]
    · intro op hop
      rcases hop with rfl | rfl <;>
        simp [Leaf.StrLeaf.ref_any_by_key, Leaf.StrLeaf.mut_any_by_key, finM, h, Tree.walk, leafOp, travOfGen]
  · refine ⟨?_, ?_, ?_⟩
    · simp [Leaf.StrLeaf.serialize_by_key, finM, h, Tree.walk, resOfGen, travToGen, travOfGen]
    · simp [Leaf.StrLeaf.deserialize_by_key, finM, h, Tree.walk, resOfGen, travToGen, travOfGen, valOf]
    · intro op hop
      rcases hop with rfl | rfl <;>
        simp [Leaf.StrLeaf.ref_any_by_key, Leaf.StrLeaf.mut_any_by_key, finM, h, Tree.walk, travToGen, travOfGen]

/-- **`Deny<T>`**: surplus keys first, then `Access(0, "Denied")` for every operation; the value is never touched -/
theorem denyLeaf_tie (io : Io) (ty : Ty) (v : Val) (ks : KeySrc) (op : Op) :
    (Tree.walk io op (.leaf (.deny ty) v) ks).tree = .leaf (.deny ty) v ∧
    (match op with
     | .ser => resOfGen (Leaf.Deny.serialize_by_key finM (serM io (.deny ty) v) v ks ())
     | .de => resOfGen (Leaf.Deny.deserialize_by_key finM (deM io (.deny ty)) v ks ()).2
     | .refAny => (match Leaf.Deny.ref_any_by_key finM v ks with | .ok _ => Res.ok 0 | .error e => .trav (travOfGen e))
     | .mutAny => (match Leaf.Deny.mut_any_by_key finM v ks with | .ok _ => Res.ok 0 | .error e => .trav (travOfGen e))) =
      (Tree.walk io op (.leaf (.deny ty) v) ks).res := by
  rcases finalize_cases ks with h | h <;> cases op <;>
    simp [Leaf.Deny.serialize_by_key, Leaf.Deny.deserialize_by_key, Leaf.Deny.ref_any_by_key, Leaf.Deny.mut_any_by_key,
      finM, h, Tree.walk, leafOp, resOfGen, travToGen, travOfGen]

end MiniconfVerif.GenTie
