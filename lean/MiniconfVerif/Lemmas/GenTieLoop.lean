import MiniconfVerif.Lemmas.GenTieExact

/-! From one pass of the translated loop body to the whole `NodeIter::next`, to `n` calls of it, and to the
`ExactSize` wrapper around it: the translated code run as written (a `loop` is iteration of its body until it
returns) is the model's `IterSt.next` / `IterSt.poll` / `exactCounts`. -/
namespace MiniconfVerif.GenTie
open MiniconfVerif MiniconfVerif.Gen MiniconfVerif.Gen.Core

/-- a Rust `loop { body }`: iterate the translated body until it returns (`none` = out of fuel) -/
def runLoop {σ ρ : Type} (body : σ → Ctl σ ρ) : Nat → σ → Option (P (σ × ρ))
  | 0, _ => none
  | fuel + 1, s =>
    match body s with
    | .next s' => runLoop body fuel s'
    | .ret s' r => some (.val (s', r))
    | .panic m => some (.panic m)

/-- what the translated `next()` returned, read as the model's `IterStep` -/
def iterStepOfP : P (NodeIter × Option (Except Nat (Target × Node))) → IterStep
  | .val (it, r) => stepOfCtl (.ret it r)
  | .panic _ => .panic ""

theorem step_retry_len (s : Schema) (D : Nat) (fresh : Target) (it it' : IterSt)
    (h : it.step s D fresh = .retry it') : it'.state.length = it.state.length := by
  have key : ∀ (st : List Nat) (d : Nat), st.length = it.state.length →
      (if d = 0 ∨ d > st.length then IterStep.panic "reset index"
        else IterStep.retry ⟨st.set (d - 1) 0, it.root, max (d - 1) it.root⟩) = .retry it' →
      it'.state.length = it.state.length := by
    intro st d hl hd
    split at hd
    · cases hd
    · injection hd with hd; subst hd; simp [hl]
  have hst : (if it.depth ≤ D then it.state.modify (it.depth - 1) (· + 1) else it.state).length = it.state.length := by
    split <;> simp
  unfold IterSt.step at h
  by_cases h1 : it.depth = it.root
  · rw [if_pos h1] at h; cases h
  rw [if_neg h1] at h
  by_cases h2 : it.depth ≤ D ∧ it.depth = 0
  · rw [if_pos h2] at h; cases h
  rw [if_neg h2] at h
  simp only at h
  split at h
  · exact key _ _ hst h
  · cases h
  · cases h
  · split at h
    · cases h
    · cases h
    · exact key _ _ hst h
    · cases h
  · cases h

theorem itToGen_ofGen (it : NodeIter) : itToGen (itOfGen it) = it := rfl

theorem erase_eq_retry {x : IterStep} {it : IterSt} (h : x.erase = .retry it) : x = .retry it := by
  cases x <;> simp_all [IterStep.erase]

/-- **`NodeIter::next` as translated** (the loop run as written) **is the model's `IterSt.next`**, for every fuel -/
theorem next_tie (s : Schema) (D : Nat) (fresh : Target)
    (tcN : List Nat → Except Traversal (Target × Node)) (tcU : List Nat → Except Traversal (Unit × Node))
    (hN : ∀ st, tcToGen (s.transcode (stateKeys st) fresh) = some (tcN st))
    (hU : ∀ st, tcUToGen (s.transcode (stateKeys st) .unit) = some (tcU st)) :
    ∀ (fuel : Nat) (it : IterSt), it.state.length = D →
      (runLoop (NodeIter.next_body D tcN tcU) fuel (itToGen it)).map iterStepOfP =
        (it.next s D fresh fuel).map IterStep.erase := by
  intro fuel
  induction fuel with
  | zero => intro it _; rfl
  | succ fuel ih =>
    intro it hlen
    have hb := next_body_tie s D fresh it hlen tcN tcU hN hU
    simp only [runLoop, IterSt.next]
    cases hc : NodeIter.next_body D tcN tcU (itToGen it) with
    | next it1 =>
      rw [hc] at hb
      simp only [stepOfCtl] at hb
      have hs := erase_eq_retry hb.symm
      rw [hs]
      simp only
      have hl := step_retry_len s D fresh it _ hs
      have := ih (itOfGen it1) (by rw [hl, hlen])
      rwa [itToGen_ofGen] at this
    | ret it1 r =>
      rw [hc] at hb
      simp only [Option.map_some, iterStepOfP]
      cases hs : it.step s D fresh with
      | retry it' => rw [hs] at hb; cases r with
        | none => simp [stepOfCtl, IterStep.erase] at hb
        | some x => cases x <;> simp [stepOfCtl, IterStep.erase] at hb
      | done => rw [hs] at hb; simp only [Option.map_some, hb]
      | yield x it' => rw [hs] at hb; simp only [Option.map_some, hb]
      | panic m => rw [hs] at hb; simp only [Option.map_some, hb]
    | panic m =>
      rw [hc] at hb
      simp only [Option.map_some, iterStepOfP]
      cases hs : it.step s D fresh with
      | retry it' => rw [hs] at hb; simp [stepOfCtl, IterStep.erase] at hb
      | done => rw [hs] at hb; simp [stepOfCtl, IterStep.erase] at hb
      | yield x it' => rw [hs] at hb; simp [stepOfCtl, IterStep.erase] at hb
      | panic m' => simp [IterStep.erase]

theorem step_yield_len (s : Schema) (D : Nat) (fresh : Target) (it it' : IterSt) (x : IterItem)
    (h : it.step s D fresh = .yield x it') : it'.state.length = it.state.length := by
  have key : ∀ (st : List Nat) (d : Nat),
      (if d = 0 ∨ d > st.length then IterStep.panic "reset index"
        else IterStep.retry ⟨st.set (d - 1) 0, it.root, max (d - 1) it.root⟩) ≠ .yield x it' := by
    intro st d hd
    split at hd <;> cases hd
  have hst : (if it.depth ≤ D then it.state.modify (it.depth - 1) (· + 1) else it.state).length = it.state.length := by
    split <;> simp
  unfold IterSt.step at h
  by_cases h1 : it.depth = it.root
  · rw [if_pos h1] at h; cases h
  rw [if_neg h1] at h
  by_cases h2 : it.depth ≤ D ∧ it.depth = 0
  · rw [if_pos h2] at h; cases h
  rw [if_neg h2] at h
  simp only at h
  split at h
  · exact absurd h (key _ _)
  · injection h with _ h; subst h; exact hst
  · injection h with _ h; subst h; exact hst
  · split at h
    · injection h with _ h; subst h; exact hst
    · injection h with _ h; subst h; exact hst
    · exact absurd h (key _ _)
    · cases h
  · cases h

theorem step_done_iff (s : Schema) (D : Nat) (fresh : Target) (it : IterSt)
    (h : it.step s D fresh = .done) : it.depth = it.root := by
  have key : ∀ (st : List Nat) (d : Nat),
      (if d = 0 ∨ d > st.length then IterStep.panic "reset index"
        else IterStep.retry ⟨st.set (d - 1) 0, it.root, max (d - 1) it.root⟩) ≠ .done := by
    intro st d hd
    split at hd <;> cases hd
  unfold IterSt.step at h
  by_cases h1 : it.depth = it.root
  · exact h1
  rw [if_neg h1] at h
  by_cases h2 : it.depth ≤ D ∧ it.depth = 0
  · rw [if_pos h2] at h; cases h
  rw [if_neg h2] at h
  simp only at h
  split at h
  · exact absurd h (key _ _)
  · cases h
  · cases h
  · split at h
    · cases h
    · cases h
    · exact absurd h (key _ _)
    · cases h
  · cases h

theorem erase_eq_done {x : IterStep} (h : x.erase = .done) : x = .done := by
  cases x <;> simp_all [IterStep.erase]

/-- a pass of the translated loop that returns `None` leaves the iterator as it was, and happens only at `depth = root` -/
theorem body_none (s : Schema) (D : Nat) (fresh : Target) (it : IterSt) (hlen : it.state.length = D)
    (tcN : List Nat → Except Traversal (Target × Node)) (tcU : List Nat → Except Traversal (Unit × Node))
    (hN : ∀ st, tcToGen (s.transcode (stateKeys st) fresh) = some (tcN st))
    (hU : ∀ st, tcUToGen (s.transcode (stateKeys st) .unit) = some (tcU st)) (i1 : NodeIter)
    (h : NodeIter.next_body D tcN tcU (itToGen it) = .ret i1 none) : i1 = itToGen it ∧ it.depth = it.root := by
  have hb := next_body_tie s D fresh it hlen tcN tcU hN hU
  rw [h] at hb
  simp only [stepOfCtl] at hb
  have hd := step_done_iff s D fresh it (erase_eq_done hb.symm)
  refine ⟨?_, hd⟩
  have : NodeIter.next_body D tcN tcU (itToGen it) = .ret (itToGen it) none := by
    simp [NodeIter.next_body, itToGen, hd]
  rw [this] at h
  injection h with h _
  exact h.symm

/-- `NodeIter::next` with the fuel the model's `poll` uses; running out of fuel is reported like a panic -/
def nextG (D : Nat) (tcN : List Nat → Except Traversal (Target × Node)) (tcU : List Nat → Except Traversal (Unit × Node))
    (it : NodeIter) : P (NodeIter × Option (Except Nat (Target × Node))) :=
  match runLoop (NodeIter.next_body D tcN tcU) (D + 2) it with
  | some r => r
  | none => .panic "out of fuel"

def itemOf : Except Nat (Target × Node) → IterItem
  | .ok (t, n) => .node t (nodeResOf n)
  | .error d => .capErr d

/-- what the loop returns, together with the invariants of the state it leaves -/
theorem next_tie_inv (s : Schema) (D : Nat) (fresh : Target)
    (tcN : List Nat → Except Traversal (Target × Node)) (tcU : List Nat → Except Traversal (Unit × Node))
    (hN : ∀ st, tcToGen (s.transcode (stateKeys st) fresh) = some (tcN st))
    (hU : ∀ st, tcUToGen (s.transcode (stateKeys st) .unit) = some (tcU st)) :
    ∀ (fuel : Nat) (it : IterSt), it.state.length = D → ∀ i1 r,
      runLoop (NodeIter.next_body D tcN tcU) fuel (itToGen it) = some (.val (i1, r)) →
        i1.state.length = D ∧ (r = none → i1.depth = i1.root) := by
  intro fuel
  induction fuel with
  | zero => intro it _ i1 r h; cases h
  | succ fuel ih =>
    intro it hlen i1 r h
    have hb := next_body_tie s D fresh it hlen tcN tcU hN hU
    simp only [runLoop] at h
    cases hc : NodeIter.next_body D tcN tcU (itToGen it) with
    | next it1 =>
      rw [hc] at hb h
      simp only [stepOfCtl] at hb
      have hs := erase_eq_retry hb.symm
      have hl := step_retry_len s D fresh it _ hs
      have := ih (itOfGen it1) (by rw [hl, hlen]) i1 r (by rwa [itToGen_ofGen])
      exact this
    | ret it1 r1 =>
      rw [hc] at hb h
      simp only [Option.some.injEq, P.val.injEq, Prod.mk.injEq] at h
      obtain ⟨rfl, rfl⟩ := h
      cases r1 with
      | none =>
        obtain ⟨h1, h2⟩ := body_none s D fresh it hlen tcN tcU hN hU _ hc
        subst h1
        exact ⟨hlen, fun _ => h2⟩
      | some v =>
        refine ⟨?_, fun h => by cases h⟩
        cases hs : it.step s D fresh with
        | yield x it' =>
          rw [hs] at hb
          have hl := step_yield_len s D fresh it it' x hs
          cases v with
          | ok p => obtain ⟨t, n⟩ := p; simp only [stepOfCtl, IterStep.erase, IterStep.yield.injEq] at hb
                    have : (itOfGen it1).state.length = D := by rw [hb.2, hl, hlen]
                    exact this
          | error d => simp only [stepOfCtl, IterStep.erase, IterStep.yield.injEq] at hb
                       have : (itOfGen it1).state.length = D := by rw [hb.2, hl, hlen]
                       exact this
        | retry it' => rw [hs] at hb; cases v with
          | ok p => obtain ⟨t, n⟩ := p; simp [stepOfCtl, IterStep.erase] at hb
          | error d => simp [stepOfCtl, IterStep.erase] at hb
        | done => rw [hs] at hb; cases v with
          | ok p => obtain ⟨t, n⟩ := p; simp [stepOfCtl, IterStep.erase] at hb
          | error d => simp [stepOfCtl, IterStep.erase] at hb
        | panic m => rw [hs] at hb; cases v with
          | ok p => obtain ⟨t, n⟩ := p; simp [stepOfCtl, IterStep.erase] at hb
          | error d => simp [stepOfCtl, IterStep.erase] at hb
    | panic m => rw [hc] at h; cases h

theorem erase_eq_yield {x : IterStep} {y : IterItem} {it : IterSt} (h : x.erase = .yield y it) : x = .yield y it := by
  cases x <;> simp_all [IterStep.erase]

theorem erase_eq_panic {x : IterStep} (h : x.erase = .panic "") : ∃ m, x = .panic m := by
  cases x <;> simp_all [IterStep.erase]

theorem finished_forever_G (D : Nat) (tcN : List Nat → Except Traversal (Target × Node))
    (tcU : List Nat → Except Traversal (Unit × Node)) (i : NodeIter) (hd : i.depth = i.root) (n : Nat) :
    innerPolled itemOf (nextG D tcN tcU) n i = List.replicate n .finished := by
  have hb : NodeIter.next_body D tcN tcU i = .ret i none := by simp [NodeIter.next_body, hd]
  induction n with
  | zero => rfl
  | succ n ih => simp [innerPolled, nextG, runLoop, hb, ih, List.replicate_succ]

theorem finished_forever_M (s : Schema) (D : Nat) (fresh : Target) (it : IterSt)
    (h : it.next s D fresh (D + 2) = some .done) (n : Nat) :
    it.poll s D fresh n = List.replicate n .finished := by
  induction n with
  | zero => rfl
  | succ n ih => simp [IterSt.poll, h, ih, List.replicate_succ]

/-- **`n` calls of `NodeIter::next` as translated = the model's `poll`** (on which `limited_exact`, `rooted_exact`,
`full_depth_exact`, … are stated) -/
theorem poll_tie (s : Schema) (D : Nat) (fresh : Target)
    (tcN : List Nat → Except Traversal (Target × Node)) (tcU : List Nat → Except Traversal (Unit × Node))
    (hN : ∀ st, tcToGen (s.transcode (stateKeys st) fresh) = some (tcN st))
    (hU : ∀ st, tcUToGen (s.transcode (stateKeys st) .unit) = some (tcU st)) :
    ∀ (n : Nat) (it : IterSt), it.state.length = D →
      innerPolled itemOf (nextG D tcN tcU) n (itToGen it) = it.poll s D fresh n := by
  intro n
  induction n with
  | zero => intro it _; rfl
  | succ n ih =>
    intro it hlen
    have ht := next_tie s D fresh tcN tcU hN hU (D + 2) it hlen
    have hinv := next_tie_inv s D fresh tcN tcU hN hU (D + 2) it hlen
    simp only [innerPolled, IterSt.poll, nextG]
    cases hr : runLoop (NodeIter.next_body D tcN tcU) (D + 2) (itToGen it) with
    | none =>
      rw [hr] at ht
      cases hm : it.next s D fresh (D + 2) with
      | none => rfl
      | some x => rw [hm] at ht; cases ht
    | some r =>
      rw [hr] at ht
      cases r with
      | panic m =>
        cases hm : it.next s D fresh (D + 2) with
        | none => simp [hm] at ht
        | some x =>
          rw [hm] at ht
          simp only [Option.map_some, iterStepOfP, Option.some.injEq] at ht
          obtain ⟨m', rfl⟩ := erase_eq_panic ht.symm
          rfl
      | val p =>
        obtain ⟨i1, r1⟩ := p
        obtain ⟨hl1, hd1⟩ := hinv i1 r1 hr
        cases hm : it.next s D fresh (D + 2) with
        | none => simp [hm] at ht
        | some x =>
          rw [hm] at ht
          simp only [Option.map_some, iterStepOfP, Option.some.injEq] at ht
          cases r1 with
          | none =>
            simp only [stepOfCtl] at ht
            have hx := erase_eq_done ht.symm
            subst hx
            simp only
            rw [finished_forever_G D tcN tcU i1 (hd1 rfl) n, finished_forever_M s D fresh it hm n]
          | some v =>
            have hy : x = .yield (itemOf v) (itOfGen i1) := by
              cases v with
              | ok q => obtain ⟨t, nd⟩ := q; exact erase_eq_yield ht.symm
              | error d => exact erase_eq_yield ht.symm
            subst hy
            simp only
            have := ih (itOfGen i1) hl1
            rw [itToGen_ofGen] at this
            rw [this]

/-- the two transcoding parameters of the translated loop exist whenever the model's transcoding of the iterator's own
keys does not hit a panic site (which `C16.traverse_total` shows under the `Fits` hypotheses): the hypotheses `hN` / `hU`
of the theorems above say nothing more than that -/
theorem transcode_params_exist (s : Schema) (fresh : Target)
    (h : ∀ st m, (s.transcode (stateKeys st) fresh).1 ≠ .err (.panic m)) :
    ∃ tcN : List Nat → Except Traversal (Target × Node),
      ∀ st, tcToGen (s.transcode (stateKeys st) fresh) = some (tcN st) := by
  refine ⟨fun st => (tcToGen (s.transcode (stateKeys st) fresh)).getD (.error (.NotFound 0)), fun st => ?_⟩
  have hs := h st
  simp only
  rcases hr : s.transcode (stateKeys st) fresh with ⟨r, t⟩
  rw [hr] at hs
  cases r with
  | leaf d => rfl
  | internal d => rfl
  | err e =>
    cases e with
    | panic m => exact absurd rfl (hs m)
    | _ => rfl

/-- **the translated `ExactSize` around the translated `NodeIter::next`**: its remaining length after each call is the
model's `exactCounts` of the model's `poll` -/
theorem exact_over_next_tie (s : Schema) (D : Nat) (fresh : Target)
    (tcN : List Nat → Except Traversal (Target × Node)) (tcU : List Nat → Except Traversal (Unit × Node))
    (hN : ∀ st, tcToGen (s.transcode (stateKeys st) fresh) = some (tcN st))
    (hU : ∀ st, tcUToGen (s.transcode (stateKeys st) .unit) = some (tcU st))
    (n : Nat) (it : IterSt) (hlen : it.state.length = D) (c : Nat) :
    exactRun (nextG D tcN tcU) n ⟨itToGen it, c⟩ = exactCountsM (it.poll s D fresh n) c := by
  rw [exactRun_tie itemOf, poll_tie s D fresh tcN tcU hN hU n it hlen]

end MiniconfVerif.GenTie
