import MiniconfVerif.Gen.Mqtt
import MiniconfVerif.Model.Mqtt
import MiniconfVerif.Lemmas.GenTie

/-! The request handler of the MQTT client **as translated from miniconf_mqtt/src/lib.rs** (`Gen/Mqtt.lean`: the closure
`poll()` hands to minimq) is the model's `handleMsg` (on which C07 / C10 / C14 are proved), for the environment answers
the model assumes: what `minimq`'s `publish` of the Get attempt returns for a given `can_publish` / value / buffer fit,
what `Multipart::try_from` and `root()` return, what `json::set_by_key` returns. -/
namespace MiniconfVerif.GenTie
open MiniconfVerif MiniconfVerif.Gen MiniconfVerif.Gen.Core MiniconfVerif.Gen.Mqtt MiniconfVerif.Mqtt MiniconfVerif.PathIter

def stToGen : St → SmState
  | .connect => .Connect | .alive => .Alive | .subscribe => .Subscribe | .wait => .Wait
  | .init => .Init | .multipart => .Multipart | .single => .Single

def stOfGen : SmState → St
  | .Connect => .connect | .Alive => .alive | .Subscribe => .subscribe | .Wait => .wait
  | .Init => .init | .Multipart => .multipart | .Single => .single

def codeOfGen : Gen.Mqtt.Code → Mqtt.Code
  | .Ok => .ok | .Continue => .continue | .Error => .error

def bodyOfErr : Error Unit → Body
  | .Traversal t => .errTrav (travOfGen t)
  | .Inner d () => .errInner d
  | .Finalization () => .errFinal

def bodyOfArg : RespArg Unit Unit → Body
  | .lit s => .text s.toList
  | .mp s => .text s.toList
  | .ser e => bodyOfErr e
  | .set e => bodyOfErr e

/-- assumed semantics of `minimq`'s `publish` for the Get attempt (the environment): no free slot → `NotReady` before
anything is serialized; otherwise the outcome of serializing the value into the transmit buffer -/
def pubGetOf (canPub : Bool) (g : GetRes) (fits : Bool) (depth : Nat) : Option (Except (PubErr Unit) Unit) :=
  if !canPub then some (.error (.Error .NotReady)) else
  match g with
  | .value _ => if fits then some (.ok ()) else some (.error (.Serialization (.Inner depth ())))
  | .internal => some (.error (.Serialization (.Traversal (.TooShort depth))))
  | .err t => (travToGen t).bind fun t' =>
      match t' with
      | .TooShort _ => none          -- the model reports an internal node as `.internal`, never as this error
      | t' => some (.error (.Serialization (.Traversal t')))

def setResOf : SetRes → Option (Except (Error Unit) Nat)
  | .ok => some (.ok 0)
  | .errTrav t => (travToGen t).map fun t' => .error (.Traversal t')
  | .errInner d => some (.error (.Inner d ()))
  | .errFinal => some (.error (.Finalization ()))

/-- `Multipart::try_from(properties)`: response topic first, then correlation data -/
def mpTryOf (m : Req) : Except String Pending :=
  if rtTooLong m then .error (String.ofList msgRtTooLong)
  else if cdTooLong m then .error (String.ofList msgCdTooLong)
  else .ok { remaining := [], respTopic := m.respTopic, cd := m.cd }

/-- what the actions of the handler put on the wire, given the request (response topic, correlation data) and whether a
publication slot is free (`Self::respond` needs both; the Get answer goes to the response topic or back to the topic) -/
def outsOfActs (m : Req) (canPub : Bool) (getTxt : Option Str) : List (Act Unit Unit) → List Out
  | [] => []
  | .pubGet :: rest =>
    (match getTxt with
     | some txt => [Out.pub (m.respTopic.getD m.topic) (.text txt) .ok m.cd]
     | none => []) ++ outsOfActs m canPub getTxt rest
  | .respond a c :: rest => respond m canPub (bodyOfArg a) (codeOfGen c) ++ outsOfActs m canPub getTxt rest

def retOfGen : Gen.Mqtt.Ret → Mqtt.Ret
  | .Unchanged => .unchanged | .Changed => .changed

theorem stripPrefix_bind (a b s : Str) :
    (stripPrefix a s).bind (stripPrefix b) = stripPrefix (a ++ b) s := by
  by_cases ha : a.isPrefixOf s = true
  · obtain ⟨t, rfl⟩ := List.isPrefixOf_iff_prefix.mp ha
    have h1 : stripPrefix a (a ++ t) = some t := by simp [stripPrefix]
    rw [h1, Option.bind_some]
    by_cases hb : b.isPrefixOf t = true
    · obtain ⟨u, rfl⟩ := List.isPrefixOf_iff_prefix.mp hb
      have h2 : stripPrefix b (b ++ u) = some u := by simp [stripPrefix]
      have h3 : stripPrefix (a ++ b) (a ++ (b ++ u)) = some u := by
        rw [← List.append_assoc]; simp [stripPrefix]
      rw [h2, h3]
    · have h2 : stripPrefix b t = none := by simp [stripPrefix, hb]
      have h3 : stripPrefix (a ++ b) (a ++ t) = none := by
        have : ¬ (a ++ b).isPrefixOf (a ++ t) = true := by
          intro h
          apply hb
          rw [List.isPrefixOf_iff_prefix] at h ⊢
          exact (List.prefix_append_right_inj a).mp h
        simp [stripPrefix, this]
      rw [h2, h3]
  · have h1 : stripPrefix a s = none := by simp [stripPrefix, ha]
    have h3 : stripPrefix (a ++ b) s = none := by
      have : ¬ (a ++ b).isPrefixOf s = true := by
        intro h
        apply ha
        rw [List.isPrefixOf_iff_prefix] at h ⊢
        exact (List.prefix_append a b).trans h
      simp [stripPrefix, this]
    rw [h1, h3]; rfl

theorem lit_pending : (String.ofList ['P', 'e', 'n', 'd', 'i', 'n', 'g', ' ', 'm', 'u', 'l', 't', 'i', 'p', 'a', 'r', 't', ' ', 'r', 'e', 's', 'p', 'o', 'n', 's', 'e']).toList = msgPending := by
  rw [String.toList_ofList]; decide +kernel

theorem msgPending_chars : msgPending = ['P', 'e', 'n', 'd', 'i', 'n', 'g', ' ', 'm', 'u', 'l', 't', 'i', 'p', 'a', 'r', 't', ' ', 'r', 'e', 's', 'p', 'o', 'n', 's', 'e'] := by
  decide +kernel

theorem msgOK_chars : msgOK = ['O', 'K'] := by decide +kernel

theorem lit_ok : (String.ofList ['O', 'K']).toList = msgOK := by
  rw [String.toList_ofList]; decide +kernel

theorem lit_settings : ['/', 's', 'e', 't', 't', 'i', 'n', 'g', 's'] = settingsSuffix := by decide +kernel

theorem travOfGen_toGen {t : Trav} {t' : Traversal} (h : travToGen t = some t') : travOfGen t' = t := by
  cases t <;> simp [travToGen] at h <;> subst h <;> rfl

theorem stOfGen_toGen (st : St) : stOfGen (stToGen st) = st := by cases st <;> rfl

theorem client_eta (c : Client) : ({ c with st := stOfGen (stToGen c.st), pending := c.pending } : Client) = c := by
  cases c; simp [stOfGen_toGen]

/-- the environment the model assumes for one message -/
def envOf {σ : Type} (ops : SettingsOps σ) (path : Str) (m : Req) (envG : Except (PubErr Unit) Unit)
    (envS : Except (Error Unit) Nat) : Env Unit Unit Pending :=
  { pubGet := envG, mpTry := mpTryOf m,
    mpRoot := fun p => (ops.leavesBelow path).map fun ls => { p with remaining := ls },
    setRes := envS }

def getTxtOf (g : GetRes) (envG : Except (PubErr Unit) Unit) : Option Str :=
  match envG, g with
  | .ok (), .value txt => some txt
  | _, _ => none

/-- **The translated request handler is the model's `handleMsg`.** -/
theorem poll_closure_tie {σ : Type} (ops : SettingsOps σ) (pfx : Str) (c : Client) (s : σ) (m : Req) (canPub fits : Bool)
    (envG : Except (PubErr Unit) Unit) (envS : Except (Error Unit) Nat)
    (hG : ∀ path, topicPath pfx m.topic = some path →
      pubGetOf canPub (ops.get s path) fits (path.count '/') = some envG)
    (hS : ∀ path, topicPath pfx m.topic = some path → setResOf (ops.set s path m.payload).1 = some envS) :
    match poll_closure (envOf ops ((topicPath pfx m.topic).getD []) m envG envS) pfx
        { st := stToGen c.st, pending := c.pending, acts := [] } m.topic m.payload with
    | .val (cl, ret) =>
      handleMsg ops pfx c s m canPub fits =
        ({ c with st := stOfGen cl.st, pending := cl.pending },
         (match topicPath pfx m.topic with
          | some p => if m.payload.isEmpty then s else (ops.set s p m.payload).2
          | none => s),
         outsOfActs m canPub (getTxtOf (ops.get s ((topicPath pfx m.topic).getD [])) envG) cl.acts, retOfGen ret)
    | .panic _ => (handleMsg ops pfx c s m canPub fits).2.2.2 = .panic := by
  simp only [poll_closure, handleMsg, stripPrefix_bind, lit_settings, topicPath, prefixSettings]
  cases hp : stripPrefix (pfx ++ settingsSuffix) m.topic with
  | none => cases c; simp [stOfGen, stToGen, outsOfActs, retOfGen]; cases ‹St› <;> rfl
  | some path =>
    have hG' := hG path (by simp [topicPath, prefixSettings, hp])
    have hS' := hS path (by simp [topicPath, prefixSettings, hp])
    simp only [Option.getD_some]
    by_cases hpay : m.payload.isEmpty = true
    · simp only [hpay, ↓reduceIte, envOf]
      cases canPub with
      | false =>
        simp only [pubGetOf, Bool.not_false, ↓reduceIte, Option.some.injEq] at hG'
        subst hG'
        simp [outsOfActs, getTxtOf, retOfGen, client_eta]
      | true =>
        simp only [pubGetOf, Bool.not_true, Bool.false_eq_true, ↓reduceIte] at hG'
        cases hg : ops.get s path with
        | value txt =>
          rw [hg] at hG'
          cases fits with
          | true =>
            simp only [↓reduceIte, Option.some.injEq] at hG'
            subst hG'
            simp [outsOfActs, getTxtOf, retOfGen, client_eta]
          | false =>
            simp only [Bool.false_eq_true, ↓reduceIte, Option.some.injEq] at hG'
            subst hG'
            simp [outsOfActs, getTxtOf, retOfGen, client_eta, bodyOfArg, bodyOfErr, codeOfGen]
        | internal =>
          rw [hg] at hG'
          simp only [Option.some.injEq] at hG'
          subst hG'
          obtain ⟨st, tmo, pend⟩ := c
          cases st
          case single =>
            simp only [stToGen, decide_true, ↓reduceIte, mpTryOf]
            by_cases hrt : rtTooLong m = true
            · simp [hrt, outsOfActs, getTxtOf, retOfGen, bodyOfArg, codeOfGen, stOfGen]
            · by_cases hcd : cdTooLong m = true
              · simp [hrt, hcd, outsOfActs, getTxtOf, retOfGen, bodyOfArg, codeOfGen, stOfGen]
              · simp only [hrt, hcd, Bool.false_eq_true, ↓reduceIte]
                cases hl : ops.leavesBelow path with
                | none => simp
                | some ls => simp [processEvent, smStep, outsOfActs, getTxtOf, retOfGen, stOfGen]
          all_goals simp [stToGen, stOfGen, outsOfActs, getTxtOf, retOfGen, bodyOfArg, codeOfGen, msgPending_chars]
        | err t =>
          rw [hg] at hG'
          cases htt : travToGen t with
          | none => simp [htt] at hG'
          | some t' =>
            have hto := travOfGen_toGen htt
            simp only [htt, Option.bind_some] at hG'
            cases t' <;> simp only [Option.some.injEq, reduceCtorEq] at hG' <;> subst hG' <;>
              simp [outsOfActs, getTxtOf, retOfGen, client_eta, bodyOfArg, bodyOfErr, codeOfGen, ← hto, travOfGen]
    · simp only [hpay, Bool.false_eq_true, ↓reduceIte, envOf]
      rcases hset : ops.set s path m.payload with ⟨r, s'⟩
      rw [hset] at hS'
      cases r with
      | ok =>
        simp only [setResOf, Option.some.injEq] at hS'
        subst hS'
        simp [outsOfActs, getTxtOf, retOfGen, bodyOfArg, codeOfGen, client_eta, msgOK_chars]
      | errTrav t =>
        cases htt : travToGen t with
        | none => simp [setResOf, htt] at hS'
        | some t' =>
          have hto := travOfGen_toGen htt
          simp only [setResOf, htt, Option.map_some, Option.some.injEq] at hS'
          subst hS'
          simp [outsOfActs, getTxtOf, retOfGen, bodyOfArg, bodyOfErr, codeOfGen, client_eta, setBody, hto]
      | errInner d =>
        simp only [setResOf, Option.some.injEq] at hS'
        subst hS'
        simp [outsOfActs, getTxtOf, retOfGen, bodyOfArg, bodyOfErr, codeOfGen, client_eta, setBody]
      | errFinal =>
        simp only [setResOf, Option.some.injEq] at hS'
        subst hS'
        simp [outsOfActs, getTxtOf, retOfGen, bodyOfArg, bodyOfErr, codeOfGen, client_eta, setBody]

end MiniconfVerif.GenTie
