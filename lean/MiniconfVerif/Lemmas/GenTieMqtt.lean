import MiniconfVerif.Gen.Mqtt
import MiniconfVerif.Model.Mqtt
import MiniconfVerif.Lemmas.GenTie
import MiniconfVerif.Lemmas.Mqtt

/-! The request handler of the MQTT client **as translated from miniconf_mqtt/src/lib.rs** (`Gen/Mqtt.lean`: the closure
`poll()` hands to minimq) is the model's `handleMsg` (on which C07 / C10 / C14 are proved), for the environment answers
the model assumes: what `minimq`'s `publish` of the Get attempt returns for a given `can_publish` / value / buffer fit,
what `Multipart::try_from` and `root()` return, what `json::set_by_key` returns. -/
namespace MiniconfVerif.GenTie
open MiniconfVerif MiniconfVerif.Gen MiniconfVerif.Gen.Core MiniconfVerif.Gen.Mqtt MiniconfVerif.Mqtt MiniconfVerif.PathIter

def stToGen : St → SmState
  | .connect => .Connect | .alive => .Alive | .subscribe => .Subscribe | .wait => .Wait
  | .init => .Init | .multipart => .Multipart | .single => .Single

def stOfGen : SmState → St
  | .Connect => .connect | .Alive => .alive | .Subscribe => .subscribe | .Wait => .wait
  | .Init => .init | .Multipart => .multipart | .Single => .single

def codeOfGen : Gen.Mqtt.Code → Mqtt.Code
  | .Ok => .ok | .Continue => .continue | .Error => .error

def bodyOfErr : Error Unit → Body
  | .Traversal t => .errTrav (travOfGen t)
  | .Inner d () => .errInner d
  | .Finalization () => .errFinal

def bodyOfArg : RespArg Unit Unit → Body
  | .lit s => .text s.toList
  | .mp s => .text s.toList
  | .ser e => bodyOfErr e
  | .set e => bodyOfErr e

/-- assumed semantics of `minimq`'s `publish` for the Get attempt (the environment): no free slot → `NotReady` before
anything is serialized; otherwise the outcome of serializing the value into the transmit buffer -/
def pubGetOf (canPub : Bool) (g : GetRes) (fits : Bool) (depth : Nat) : Option (Except (PubErr Unit) Unit) :=
  if !canPub then some (.error (.Error .NotReady)) else
  match g with
  | .value _ => if fits then some (.ok ()) else some (.error (.Serialization (.Inner depth ())))
  | .internal => some (.error (.Serialization (.Traversal (.TooShort depth))))
  | .err t => (travToGen t).bind fun t' =>
      match t' with
      | .TooShort _ => none          -- the model reports an internal node as `.internal`, never as this error
      | t' => some (.error (.Serialization (.Traversal t')))

def setResOf : SetRes → Option (Except (Error Unit) Nat)
  | .ok => some (.ok 0)
  | .errTrav t => (travToGen t).map fun t' => .error (.Traversal t')
  | .errInner d => some (.error (.Inner d ()))
  | .errFinal => some (.error (.Finalization ()))

/-- `Multipart::try_from(properties)`: response topic first, then correlation data -/
def mpTryOf (m : Req) : Except String Pending :=
  if rtTooLong m then .error (String.ofList msgRtTooLong)
  else if cdTooLong m then .error (String.ofList msgCdTooLong)
  else .ok { remaining := [], respTopic := m.respTopic, cd := m.cd }

/-- what the actions of the handler put on the wire, given the request (response topic, correlation data) and whether a
publication slot is free (`Self::respond` needs both; the Get answer goes to the response topic or back to the topic) -/
def outsOfActs (m : Req) (canPub : Bool) (getTxt : Option Str) : List (Act Unit Unit) → List Out
  | [] => []
  | .pubGet :: rest =>
    (match getTxt with
     | some txt => [Out.pub (m.respTopic.getD m.topic) (.text txt) .ok m.cd]
     | none => []) ++ outsOfActs m canPub getTxt rest
  | .respond a c :: rest => respond m canPub (bodyOfArg a) (codeOfGen c) ++ outsOfActs m canPub getTxt rest
  | .pubTo t p c cd :: rest => Out.pub t (.text p) (codeOfGen c) cd :: outsOfActs m canPub getTxt rest
  | .pubVal _ _ _ :: rest => outsOfActs m canPub getTxt rest       -- only `iter_dump` records these

def retOfGen : Gen.Mqtt.Ret → Mqtt.Ret
  | .Unchanged => .unchanged | .Changed => .changed

theorem stripPrefix_bind (a b s : Str) :
    (stripPrefix a s).bind (stripPrefix b) = stripPrefix (a ++ b) s := by
  by_cases ha : a.isPrefixOf s = true
  · obtain ⟨t, rfl⟩ := List.isPrefixOf_iff_prefix.mp ha
    have h1 : stripPrefix a (a ++ t) = some t := by simp [stripPrefix]
    rw [h1, Option.bind_some]
    by_cases hb : b.isPrefixOf t = true
    · obtain ⟨u, rfl⟩ := List.isPrefixOf_iff_prefix.mp hb
      have h2 : stripPrefix b (b ++ u) = some u := by simp [stripPrefix]
      have h3 : stripPrefix (a ++ b) (a ++ (b ++ u)) = some u := by
        rw [← List.append_assoc]; simp [stripPrefix]
      rw [h2, h3]
    · have h2 : stripPrefix b t = none := by simp [stripPrefix, hb]
      have h3 : stripPrefix (a ++ b) (a ++ t) = none := by
        have : ¬ (a ++ b).isPrefixOf (a ++ t) = true := by
          intro h
          apply hb
          rw [List.isPrefixOf_iff_prefix] at h ⊢
          exact (List.prefix_append_right_inj a).mp h
        simp [stripPrefix, this]
      rw [h2, h3]
  · have h1 : stripPrefix a s = none := by simp [stripPrefix, ha]
    have h3 : stripPrefix (a ++ b) s = none := by
      have : ¬ (a ++ b).isPrefixOf s = true := by
        intro h
        apply ha
        rw [List.isPrefixOf_iff_prefix] at h ⊢
        exact (List.prefix_append a b).trans h
      simp [stripPrefix, this]
    rw [h1, h3]; rfl

theorem lit_pending : (String.ofList ['P', 'e', 'n', 'd', 'i', 'n', 'g', ' ', 'm', 'u', 'l', 't', 'i', 'p', 'a', 'r', 't', ' ', 'r', 'e', 's', 'p', 'o', 'n', 's', 'e']).toList = msgPending := by
  rw [String.toList_ofList]; decide +kernel

theorem msgPending_chars : msgPending = ['P', 'e', 'n', 'd', 'i', 'n', 'g', ' ', 'm', 'u', 'l', 't', 'i', 'p', 'a', 'r', 't', ' ', 'r', 'e', 's', 'p', 'o', 'n', 's', 'e'] := by
  decide +kernel

theorem msgOK_chars : msgOK = ['O', 'K'] := by decide +kernel

theorem lit_ok : (String.ofList ['O', 'K']).toList = msgOK := by
  rw [String.toList_ofList]; decide +kernel

theorem lit_settings : ['/', 's', 'e', 't', 't', 'i', 'n', 'g', 's'] = settingsSuffix := by decide +kernel

theorem travOfGen_toGen {t : Trav} {t' : Traversal} (h : travToGen t = some t') : travOfGen t' = t := by
  cases t <;> simp [travToGen] at h <;> subst h <;> rfl

theorem stOfGen_toGen (st : St) : stOfGen (stToGen st) = st := by cases st <;> rfl

theorem client_eta (c : Client) : ({ c with st := stOfGen (stToGen c.st), pending := c.pending } : Client) = c := by
  cases c; simp [stOfGen_toGen]

/-- the environment the model assumes for one message -/
def envOf {σ : Type} (ops : SettingsOps σ) (path : Str) (m : Req) (envG : Except (PubErr Unit) Unit)
    (envS : Except (Error Unit) Nat) : Env Unit Unit Pending :=
  { pubGet := envG, mpTry := mpTryOf m,
    mpRoot := fun p => (ops.leavesBelow path).map fun ls => { p with remaining := ls },
    setRes := envS }

def getTxtOf (g : GetRes) (envG : Except (PubErr Unit) Unit) : Option Str :=
  match envG, g with
  | .ok (), .value txt => some txt
  | _, _ => none

/-- **The translated request handler is the model's `handleMsg`.** -/
theorem poll_closure_tie {σ : Type} (ops : SettingsOps σ) (pfx : Str) (c : Client) (s : σ) (m : Req) (canPub fits : Bool)
    (envG : Except (PubErr Unit) Unit) (envS : Except (Error Unit) Nat)
    (hG : ∀ path, topicPath pfx m.topic = some path →
      pubGetOf canPub (ops.get s path) fits (path.count '/') = some envG)
    (hS : ∀ path, topicPath pfx m.topic = some path → setResOf (ops.set s path m.payload).1 = some envS) :
    match poll_closure (envOf ops ((topicPath pfx m.topic).getD []) m envG envS) pfx
        ({ st := stToGen c.st, pending := c.pending, acts := [], ext := () } : Cl Unit Unit Pending Unit) m.topic m.payload with
    | .val (cl, ret) =>
      handleMsg ops pfx c s m canPub fits =
        ({ c with st := stOfGen cl.st, pending := cl.pending },
         (match topicPath pfx m.topic with
          | some p => if m.payload.isEmpty then s else (ops.set s p m.payload).2
          | none => s),
         outsOfActs m canPub (getTxtOf (ops.get s ((topicPath pfx m.topic).getD [])) envG) cl.acts, retOfGen ret)
    | .panic _ => (handleMsg ops pfx c s m canPub fits).2.2.2 = .panic := by
  simp only [poll_closure, handleMsg, stripPrefix_bind, lit_settings, topicPath, prefixSettings]
  cases hp : stripPrefix (pfx ++ settingsSuffix) m.topic with
  | none => cases c; simp [stOfGen, stToGen, outsOfActs, retOfGen]; cases ‹St› <;> rfl
  | some path =>
    have hG' := hG path (by simp [topicPath, prefixSettings, hp])
    have hS' := hS path (by simp [topicPath, prefixSettings, hp])
    simp only [Option.getD_some]
    by_cases hpay : m.payload.isEmpty = true
    · simp only [hpay, ↓reduceIte, envOf]
      cases canPub with
      | false =>
        simp only [pubGetOf, Bool.not_false, ↓reduceIte, Option.some.injEq] at hG'
        subst hG'
        simp [outsOfActs, getTxtOf, retOfGen, client_eta]
      | true =>
        simp only [pubGetOf, Bool.not_true, Bool.false_eq_true, ↓reduceIte] at hG'
        cases hg : ops.get s path with
        | value txt =>
          rw [hg] at hG'
          cases fits with
          | true =>
            simp only [↓reduceIte, Option.some.injEq] at hG'
            subst hG'
            simp [outsOfActs, getTxtOf, retOfGen, client_eta]
          | false =>
            simp only [Bool.false_eq_true, ↓reduceIte, Option.some.injEq] at hG'
            subst hG'
            simp [outsOfActs, getTxtOf, retOfGen, client_eta, bodyOfArg, bodyOfErr, codeOfGen]
        | internal =>
          rw [hg] at hG'
          simp only [Option.some.injEq] at hG'
          subst hG'
          obtain ⟨st, tmo, pend⟩ := c
          cases st
          case single =>
            simp only [stToGen, decide_true, ↓reduceIte, mpTryOf]
            by_cases hrt : rtTooLong m = true
            · simp [hrt, outsOfActs, getTxtOf, retOfGen, bodyOfArg, codeOfGen, stOfGen]
            · by_cases hcd : cdTooLong m = true
              · simp [hrt, hcd, outsOfActs, getTxtOf, retOfGen, bodyOfArg, codeOfGen, stOfGen]
              · simp only [hrt, hcd, Bool.false_eq_true, ↓reduceIte]
                cases hl : ops.leavesBelow path with
                | none => simp
                | some ls => simp [processEvent, smStep, outsOfActs, getTxtOf, retOfGen, stOfGen]
          all_goals simp [stToGen, stOfGen, outsOfActs, getTxtOf, retOfGen, bodyOfArg, codeOfGen, msgPending_chars]
        | err t =>
          rw [hg] at hG'
          cases htt : travToGen t with
          | none => simp [htt] at hG'
          | some t' =>
            have hto := travOfGen_toGen htt
            simp only [htt, Option.bind_some] at hG'
            cases t' <;> simp only [Option.some.injEq, reduceCtorEq] at hG' <;> subst hG' <;>
              simp [outsOfActs, getTxtOf, retOfGen, client_eta, bodyOfArg, bodyOfErr, codeOfGen, ← hto, travOfGen]
    · simp only [hpay, Bool.false_eq_true, ↓reduceIte, envOf]
      rcases hset : ops.set s path m.payload with ⟨r, s'⟩
      rw [hset] at hS'
      cases r with
      | ok =>
        simp only [setResOf, Option.some.injEq] at hS'
        subst hS'
        simp [outsOfActs, getTxtOf, retOfGen, bodyOfArg, codeOfGen, client_eta, msgOK_chars]
      | errTrav t =>
        cases htt : travToGen t with
        | none => simp [setResOf, htt] at hS'
        | some t' =>
          have hto := travOfGen_toGen htt
          simp only [setResOf, htt, Option.map_some, Option.some.injEq] at hS'
          subst hS'
          simp [outsOfActs, getTxtOf, retOfGen, bodyOfArg, bodyOfErr, codeOfGen, client_eta, setBody, hto]
      | errInner d =>
        simp only [setResOf, Option.some.injEq] at hS'
        subst hS'
        simp [outsOfActs, getTxtOf, retOfGen, bodyOfArg, bodyOfErr, codeOfGen, client_eta, setBody]
      | errFinal =>
        simp only [setResOf, Option.some.injEq] at hS'
        subst hS'
        simp [outsOfActs, getTxtOf, retOfGen, bodyOfArg, bodyOfErr, codeOfGen, client_eta, setBody]

/-! ### `update()` -/

/-- what the environment's functions thread through: the settings, what was put on the wire, the dump time-out -/
abbrev UExt (σ : Type) := σ × List Out

abbrev UCl (σ : Type) := Cl Unit Unit Pending (UExt σ)

/-- the dump time-out after the actions logged so far: `start_timeout` arms it at `now + DUMP_TIMEOUT` -/
def tmoOf (tmo : Option Nat) (now : Nat) (log : List String) : Option Nat :=
  if "start_timeout" ∈ log then some (now + DUMP_TIMEOUT_MS) else tmo

def clientOf {σ : Type} (tmo : Option Nat) (now : Nat) (cl : UCl σ) : Client :=
  { st := stOfGen cl.st, timeout := tmoOf tmo now cl.log, pending := cl.pending }

def retToGen : Mqtt.Ret → Except Unit Gen.Mqtt.Ret
  | .changed => .ok .Changed
  | .unchanged => .ok .Unchanged
  | _ => .error ()

/-- the client's sub-procedures as the model has them, lifted to the translated client part -/
def uenvOf {σ : Type} (ops : SettingsOps σ) (pfx : Str) (tmo : Option Nat) (o : Obs) : UEnv Unit Unit Pending (UExt σ) :=
  { connected := o.connected,
    alive := fun cl => (if o.aliveOk then { cl with ext := (cl.ext.1, cl.ext.2 ++ [Out.alive]) } else cl, o.aliveOk),
    subscribe := fun cl => (if o.subOk then { cl with ext := (cl.ext.1, cl.ext.2 ++ [Out.sub]) } else cl, o.subOk),
    hasRt := fun p => p.respTopic.isSome,
    dumpNone := fun cl =>
      match ops.leavesBelow [] with
      | some ls => { cl with st := .Multipart, pending := { remaining := ls, respTopic := none, cd := none } }
      | none => cl,
    iterList := fun cl =>
      let r := iterList (clientOf tmo o.now cl) o.slots
      { cl with st := stToGen r.1.st, pending := r.1.pending, ext := (cl.ext.1, cl.ext.2 ++ r.2) },
    iterDump := fun cl =>
      let r := iterDump ops pfx cl.ext.1 (clientOf tmo o.now cl) o.slots o.tooLarge
      { cl with st := stToGen r.1.st, pending := r.1.pending, ext := (cl.ext.1, cl.ext.2 ++ r.2) },
    poll := fun cl =>
      let r := pollStep ops pfx (clientOf tmo o.now cl) cl.ext.1 o.poll
      ({ cl with st := stToGen r.1.st, pending := r.1.pending, ext := (r.2.1, cl.ext.2 ++ r.2.2.1) }, retToGen r.2.2.2) }

/-- the guard `timed_out` and nothing else -/
def guardOf (tmo : Option Nat) (now : Nat) : String → Bool := fun _ =>
  match tmo with
  | some t => decide (t ≤ now)
  | none => false

def boolOfRet : Mqtt.Ret → Except Unit Bool
  | .changed => .ok true
  | .unchanged => .ok false
  | _ => .error ()

theorem map_retToGen (r : Mqtt.Ret) :
    Except.map (fun c => decide (c = Gen.Mqtt.Ret.Changed)) (retToGen r) = boolOfRet r := by
  cases r <;> rfl

theorem stToGen_ofGen (s : SmState) : stToGen (stOfGen s) = s := by cases s <;> rfl

theorem handleMsg_timeout {σ : Type} (ops : SettingsOps σ) (pfx : Str) (c : Client) (s : σ) (m : Req) (cp fits : Bool) :
    (handleMsg ops pfx c s m cp fits).1.timeout = c.timeout := by
  unfold handleMsg
  repeat' split
  all_goals rfl

theorem pollStep_timeout {σ : Type} (ops : SettingsOps σ) (pfx : Str) (c : Client) (s : σ) (p : PollObs) :
    (pollStep ops pfx c s p).1.timeout = c.timeout := by
  cases p <;> simp [pollStep, Client.reset, handleMsg_timeout]

theorem iterList_timeout (c : Client) (k : Nat) : (iterList c k).1.timeout = c.timeout := by
  unfold iterList; split <;> rfl

theorem iterDump_timeout {σ : Type} (ops : SettingsOps σ) (pfx : Str) (s : σ) (c : Client) (k : Nat) (b : List Bool) :
    (iterDump ops pfx s c k b).1.timeout = c.timeout := rfl

/-- **`MqttClient::update` as translated is the model's `step`**: it never panics by itself; the protocol state, the pending
request, the settings and everything put on the wire (alive / SUBSCRIBE, what `iter_list` / `iter_dump` / `poll` sent, in
order) are the model's; the dump time-out is armed exactly when the `start_timeout` action ran; the result is `poll`'s
mapped to "settings changed". -/
theorem update_tie {σ : Type} (ops : SettingsOps σ) (pfx : Str) (c : Client) (s : σ) (o : Obs) :
    ∃ cl r, update ({ pubGet := .ok (), mpTry := .error "", mpRoot := fun _ => none, setRes := .ok 0,
                      guard := guardOf c.timeout o.now } : Env Unit Unit Pending)
        (uenvOf ops pfx c.timeout o)
        ({ st := stToGen c.st, pending := c.pending, ext := (s, []) } : UCl σ) = .val (cl, r) ∧
      let m := step ops pfx c s o
      m.1.st = stOfGen cl.st ∧ m.1.pending = cl.pending ∧ m.1.timeout = tmoOf c.timeout o.now cl.log ∧
      m.2.1 = cl.ext.1 ∧ m.2.2.1 = cl.ext.2 ∧ boolOfRet m.2.2.2 = r := by
  obtain ⟨st, tmo, pend⟩ := c
  cases hconn : o.connected
  · -- link down: `Reset`, then the `Connect` arm does nothing
    cases st <;>
      simp [update, step, arm, Client.reset, processEvent, smStep, uenvOf, guardOf, hconn, stToGen.eq_1, stToGen.eq_2,
        stToGen.eq_3, stToGen.eq_4, stToGen.eq_5, stToGen.eq_6, stToGen.eq_7, clientOf, tmoOf, stOfGen.eq_1,
        map_retToGen, stOfGen_toGen, pollStep_timeout] <;>
      (refine ⟨_, _, ⟨rfl, rfl⟩, ?_⟩; simp [stOfGen_toGen, tmoOf])
  · cases st
    case connect =>
      simp [update, step, arm, processEvent, smStep, uenvOf, guardOf, hconn, stToGen.eq_1, clientOf, tmoOf, stOfGen.eq_2,
        map_retToGen, stOfGen_toGen, pollStep_timeout] <;>
      (refine ⟨_, _, ⟨rfl, rfl⟩, ?_⟩; simp [stOfGen_toGen, tmoOf])
    case alive =>
      cases ha : o.aliveOk <;>
        simp [update, step, arm, processEvent, smStep, uenvOf, guardOf, hconn, ha, stToGen.eq_2, clientOf, tmoOf,
          stOfGen.eq_2, stOfGen.eq_3, map_retToGen, stOfGen_toGen, pollStep_timeout] <;>
      (refine ⟨_, _, ⟨rfl, rfl⟩, ?_⟩; simp [stOfGen_toGen, tmoOf])
    case subscribe =>
      cases hs : o.subOk <;>
        simp [update, step, arm, processEvent, smStep, uenvOf, guardOf, hconn, hs, stToGen.eq_3, clientOf, tmoOf,
          stOfGen.eq_3, stOfGen.eq_4, map_retToGen, stOfGen_toGen, pollStep_timeout] <;>
      (refine ⟨_, _, ⟨rfl, rfl⟩, ?_⟩; simp [stOfGen_toGen, tmoOf])
    case wait =>
      cases tmo with
      | none =>
        simp [update, step, arm, processEvent, smStep, uenvOf, guardOf, hconn, stToGen.eq_4, clientOf, tmoOf,
          stOfGen.eq_4, map_retToGen, stOfGen_toGen, pollStep_timeout] <;>
      (refine ⟨_, _, ⟨rfl, rfl⟩, ?_⟩; simp [stOfGen_toGen, tmoOf])
      | some t =>
        by_cases ht : t ≤ o.now <;>
          simp [update, step, arm, processEvent, smStep, uenvOf, guardOf, hconn, ht, stToGen.eq_4, clientOf, tmoOf,
            stOfGen.eq_4, stOfGen.eq_5, map_retToGen, stOfGen_toGen, pollStep_timeout] <;>
      (refine ⟨_, _, ⟨rfl, rfl⟩, ?_⟩; simp [stOfGen_toGen, tmoOf])
    case init =>
      cases hl : ops.leavesBelow [] <;>
        simp [update, step, arm, processEvent, smStep, uenvOf, guardOf, hconn, hl, stToGen.eq_5, clientOf, tmoOf,
          stOfGen.eq_5, stOfGen.eq_6, map_retToGen, stOfGen_toGen, pollStep_timeout] <;>
      (refine ⟨_, _, ⟨rfl, rfl⟩, ?_⟩; simp [stOfGen_toGen, tmoOf])
    case multipart =>
      have eD : ∀ x : Client, x.timeout = tmo →
          ({ st := x.st, timeout := tmo, pending := x.pending } : Client) = x := by
        intro x hx; cases x; simp_all
      have hD := eD _ (iterDump_timeout ops pfx s ⟨.multipart, tmo, pend⟩ o.slots o.tooLarge)
      have hL := eD _ (iterList_timeout ⟨.multipart, tmo, pend⟩ o.slots)
      cases hr : pend.respTopic <;>
        simp [update, step, arm, processEvent, smStep, uenvOf, guardOf, hconn, hr, stToGen.eq_6, clientOf, tmoOf,
          stOfGen.eq_6, map_retToGen, stOfGen_toGen, pollStep_timeout, iterList_timeout, iterDump_timeout] <;>
      (refine ⟨_, _, ⟨rfl, rfl⟩, ?_⟩; simp [stOfGen_toGen, tmoOf, hD, hL])
    case single =>
      simp [update, step, arm, processEvent, smStep, uenvOf, guardOf, hconn, stToGen.eq_7, clientOf, tmoOf, stOfGen.eq_7,
        map_retToGen, stOfGen_toGen, pollStep_timeout] <;>
      (refine ⟨_, _, ⟨rfl, rfl⟩, ?_⟩; simp [stOfGen_toGen, tmoOf])

/-! ### `iter_list()` -/

/-- the `while can_publish { .. }` loop of `iter_list` run as written: `k` passes with a free slot, then the condition fails -/
def runListG {E Es X : Type} (env : Env E Es Pend) : Nat → Cl E Es Pend X → P (Cl E Es Pend X)
  | 0, cl =>
    match iter_list_body env false cl with
    | .ret cl' _ => .val cl'
    | .next cl' => .val cl'
    | .panic m => .panic m
  | k + 1, cl =>
    match iter_list_body env true cl with
    | .next cl' => runListG env k cl'
    | .ret cl' _ => .val cl'
    | .panic m => .panic m

def outOfAct {E Es : Type} : Act E Es → Option Out
  | .pubTo t p c cd => some (.pub t (.text p) (codeOfGen c) cd)
  | _ => none

/-- **`iter_list` as translated is the model's list pump** (`listPump` / `iterList`, on which `list_no_gaps`,
`list_complete`, `list_any_schedule` are proved): one `Continue` message per remaining path while slots are granted, then
one `Ok` with empty payload and the `Complete` transition; correlation data and response topic of the cached request on
every message; no panic in state `Multipart` with a cached response topic. -/
theorem iter_list_tie {E Es X : Type} (env : Env E Es Pend) (rt : Str) (cd : Option (List Nat)) :
    ∀ (k : Nat) (rem : List Str) (acts0 : List (Act E Es)) (log : List String) (ext : X),
      ∃ cl', runListG env k { st := .Multipart, pending := ⟨rem, some rt, cd⟩, acts := acts0, log := log, ext := ext } = .val cl' ∧
        cl'.pending = ⟨(listPump rt cd rem k).1, some rt, cd⟩ ∧
        cl'.st = (if (listPump rt cd rem k).2.2 then SmState.Single else SmState.Multipart) ∧
        cl'.log = log ∧ cl'.ext = ext ∧
        ∃ new, cl'.acts = acts0 ++ new ∧ new.filterMap outOfAct = (listPump rt cd rem k).2.1 := by
  intro k
  induction k with
  | zero =>
    intro rem acts0 log ext
    refine ⟨_, rfl, ?_⟩
    simp [iter_list_body, listPump]
  | succ k ih =>
    intro rem acts0 log ext
    cases rem with
    | nil =>
      simp only [runListG, iter_list_body, ↓reduceIte, processEvent, smStep, listPump]
      refine ⟨_, rfl, ?_⟩
      simp [outOfAct, codeOfGen]
    | cons p rest =>
      simp only [runListG, iter_list_body, ↓reduceIte, listPump]
      obtain ⟨cl', h1, h2, h3, h4, h5, new, h6, h7⟩ := ih rest (acts0 ++ [Act.pubTo rt p Code.Continue cd]) log ext
      simp only [ne_eq, not_true_eq_false, decide_false, Bool.false_eq_true, ↓reduceIte]
      refine ⟨cl', h1, h2, h3, h4, h5, Act.pubTo rt p Code.Continue cd :: new, ?_, ?_⟩
      · rw [h6]; simp
      · simp [outOfAct, codeOfGen, h7]

/-! ## `dump(path)` (the API) -/

/-- `Multipart::default()` / `Multipart::root(path)` in the model's terms: the walk as the list of leaf paths below a node -/
def denvOf {σ : Type} (ops : SettingsOps σ) : DEnv Pending :=
  { dflt := { remaining := (ops.leavesBelow []).getD [], respTopic := none, cd := none },
    root := fun m p => match ops.leavesBelow p with
      | some ls => .ok { m with remaining := ls }
      | none => .error () }

/-- **`MqttClient::dump` as translated is the model's `apiDump`** (on which `api_dump_busy` and the second entry point of
`dump_entry_points` are proved): an invalid path is refused before the state machine is asked; a busy or not yet
initialised client refuses and leaves the pending request untouched; otherwise the walk is rooted at the path, with no
response topic and no correlation data; nothing is sent, no panic. -/
theorem dump_tie {σ E Es X : Type} (ops : SettingsOps σ) (env : Env E Es Pending) (c : Client) (path : Option Str)
    (acts : List (Act E Es)) (log : List String) (ext : X) (hroot : (ops.leavesBelow []).isSome) :
    ∃ cl r, dump env (denvOf ops) { st := stToGen c.st, pending := c.pending, acts := acts, log := log, ext := ext } path
        = .val (cl, r) ∧
      (apiDump ops c path).1.st = stOfGen cl.st ∧ (apiDump ops c path).1.pending = cl.pending ∧
      (apiDump ops c path).2 = r.isOk ∧ cl.acts = acts ∧ cl.log = log ∧ cl.ext = ext := by
  obtain ⟨ls0, h0⟩ := Option.isSome_iff_exists.mp hroot
  obtain ⟨st, tmo, pend⟩ := c
  cases path with
  | none =>
    cases st <;>
      simp [dump, apiDump, denvOf, h0, processEvent, smStep, stToGen, stOfGen, Except.isOk, Except.toBool] <;>
      exact ⟨_, _, ⟨rfl, rfl⟩, by simp⟩
  | some p =>
    cases hl : ops.leavesBelow p with
    | none =>
      simp [dump, apiDump, denvOf, hl, Except.isOk, Except.toBool]
      exact ⟨_, _, ⟨rfl, rfl⟩, by simp [stOfGen_toGen]⟩
    | some ls =>
      cases st <;>
        simp [dump, apiDump, denvOf, h0, hl, processEvent, smStep, stToGen, stOfGen, Except.isOk, Except.toBool] <;>
        exact ⟨_, _, ⟨rfl, rfl⟩, by simp⟩

/-! ## `iter_dump` -/

/-- how the publication of leaf `p`'s value ends, as the environment of `iter_dump_body`: the model's `ops.get` says
whether the leaf is present; `big` (one entry per present leaf, as in `dumpPump`) whether its value exceeds the buffer -/
def dumpAns {σ : Type} (ops : SettingsOps σ) (s : σ) (p : Str) (big : List Bool) : Except DumpErr Unit × List Bool :=
  match ops.get s p with
  | .value _ => (if big.headD false then .error .TooLarge else .ok (), big.tail)
  | .err (.absent _) => (.error .Absent, big)
  | _ => (.error .Other, big)

def dumpAnsAt {σ : Type} (ops : SettingsOps σ) (s : σ) : List Str → List Bool → Except DumpErr Unit × List Bool
  | p :: _, big => dumpAns ops s p big
  | [], big => (.ok (), big)

/-- the loop of `iter_dump` as written: `k` passes with a free slot, then `can_publish` fails -/
def runDumpG {E Es X σ : Type} (env : Env E Es Pend) (ops : SettingsOps σ) (s : σ) (pfx : Str) :
    Nat → List Bool → Cl E Es Pend X → P (Cl E Es Pend X)
  | 0, _, cl =>
    match iter_dump_body env pfx false (.ok ()) cl with
    | .ret cl' _ => .val cl'
    | .next cl' => .val cl'
    | .panic m => .panic m
  | k + 1, big, cl =>
    match iter_dump_body env pfx true (dumpAnsAt ops s cl.pending.remaining big).1 cl with
    | .next cl' => runDumpG env ops s pfx k (dumpAnsAt ops s cl.pending.remaining big).2 cl'
    | .ret cl' _ => .val cl'
    | .panic m => .panic m

/-- what a recorded action of the dump puts on the wire -/
def outOfDumpAct {E Es σ : Type} (ops : SettingsOps σ) (s : σ) : Act E Es → Option Out
  | .pubTo t p c cd => some (.pub t (.text p) (codeOfGen c) cd)
  | .pubVal t p cd => match ops.get s p with
    | .value txt => some (.pub t (.text txt) .ok cd)
    | _ => none
  | _ => none

theorem dumpTopic_eq (pfx p : Str) : dumpTopic pfx p = prefixSettings pfx ++ p := rfl

theorem tooLarge_eq : tooLarge = msgTooLarge := rfl

/-- **`iter_dump` as translated is the model's dump pump** (`dumpPump` / `iterDump`, on which `dump_exactly_once` and
`dump_completes` are proved): per granted slot the next leaf of the walk; absent → nothing, value too large → the Error
text on the leaf's topic, otherwise its value with code Ok; at the end of the walk the `Complete` transition; cached
correlation data on every message; no panic as long as the walk yields leaf paths of the type. -/
theorem iter_dump_tie {E Es X σ : Type} (env : Env E Es Pend) (ops : SettingsOps σ) (s : σ) (pfx : Str)
    (rt : Option Str) (cd : Option (List Nat)) :
    ∀ (k : Nat) (rem : List Str) (big : List Bool) (acts0 : List (Act E Es)) (log : List String) (ext : X),
      LeafPathsOk ops s rem →
      ∃ cl', runDumpG env ops s pfx k big
          { st := .Multipart, pending := ⟨rem, rt, cd⟩, acts := acts0, log := log, ext := ext } = .val cl' ∧
        cl'.pending = ⟨(dumpPump ops pfx s cd rem k big).1, rt, cd⟩ ∧
        cl'.st = (if (dumpPump ops pfx s cd rem k big).2.2 then SmState.Single else SmState.Multipart) ∧
        cl'.log = log ∧ cl'.ext = ext ∧
        ∃ new, cl'.acts = acts0 ++ new ∧ new.filterMap (outOfDumpAct ops s) = (dumpPump ops pfx s cd rem k big).2.1 := by
  intro k
  induction k with
  | zero =>
    intro rem big acts0 log ext _
    refine ⟨_, rfl, ?_⟩
    simp [iter_dump_body, dumpPump]
  | succ k ih =>
    intro rem big acts0 log ext hok
    cases rem with
    | nil =>
      simp only [runDumpG, dumpAnsAt, iter_dump_body, ↓reduceIte, processEvent, smStep, dumpPump]
      refine ⟨_, rfl, ?_⟩
      simp
    | cons p rest =>
      have hok' : LeafPathsOk ops s rest := fun q hq => hok q (List.mem_cons_of_mem _ hq)
      rcases hok p (List.mem_cons_self) with ⟨txt, hg⟩ | ⟨d, hg⟩
      · cases hb : big.headD false
        · obtain ⟨cl', h1, h2, h3, h4, h5, new, h6, h7⟩ :=
            ih rest big.tail (acts0 ++ [Act.pubVal (dumpTopic pfx p) p cd]) log ext hok'
          simp only [runDumpG, dumpAnsAt, dumpAns, hg, hb, iter_dump_body, ↓reduceIte, dumpPump, Bool.false_eq_true]
          refine ⟨cl', h1, h2, h3, h4, h5, Act.pubVal (dumpTopic pfx p) p cd :: new, ?_, ?_⟩
          · rw [h6]; simp
          · simp [outOfDumpAct, hg, h7, dumpTopic_eq]
        · obtain ⟨cl', h1, h2, h3, h4, h5, new, h6, h7⟩ :=
            ih rest big.tail (acts0 ++ [Act.pubTo (dumpTopic pfx p) tooLarge Code.Error cd]) log ext hok'
          simp only [runDumpG, dumpAnsAt, dumpAns, hg, hb, iter_dump_body, ↓reduceIte, dumpPump]
          refine ⟨cl', ?_, h2, h3, h4, h5, Act.pubTo (dumpTopic pfx p) tooLarge Code.Error cd :: new, ?_, ?_⟩
          · simpa using h1
          · rw [h6]; simp
          · simp [outOfDumpAct, codeOfGen, h7, dumpTopic_eq, tooLarge_eq]
      · obtain ⟨cl', h1, h2, h3, h4, h5, new, h6, h7⟩ := ih rest big acts0 log ext hok'
        simp only [runDumpG, dumpAnsAt, dumpAns, hg, iter_dump_body, ↓reduceIte, dumpPump]
        refine ⟨cl', ?_, h2, h3, h4, h5, new, h6, h7⟩
        simpa using h1

end MiniconfVerif.GenTie
