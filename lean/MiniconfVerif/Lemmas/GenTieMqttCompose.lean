import MiniconfVerif.Lemmas.GenTieMqtt

/-! `update()` with its sub-procedures **as translated** in place of the model's: `iter_list` and `iter_dump` are the loops
of `Gen/Mqtt.lean` run as written (`runListG` / `runDumpG`), `dump(None)` is the translated `dump`.  Together with
`update_tie` this makes one `update()` call — dispatch, sub-procedure, then `poll` — a statement about translated code
throughout, the poll closure being covered by `poll_closure_tie`. -/
namespace MiniconfVerif.GenTie
open MiniconfVerif MiniconfVerif.Gen MiniconfVerif.Gen.Core MiniconfVerif.Gen.Mqtt MiniconfVerif.Mqtt MiniconfVerif.PathIter

def pendToG (p : Pending) : Pend := ⟨p.remaining, p.respTopic, p.cd⟩
def pendOfG (p : Pend) : Pending := ⟨p.remaining, p.response_topic, p.correlation_data⟩

/-- the client part as the loop translations see it (their own record for the pending request, a fresh action list) -/
def toLoopCl {σ : Type} (cl : UCl σ) : Cl Unit Unit Pend (UExt σ) :=
  { st := cl.st, pending := pendToG cl.pending, acts := [], log := cl.log, ext := cl.ext }

/-- … and back: what the loop put on the wire is appended to the wire log -/
def ofLoopCl {σ : Type} (f : Act Unit Unit → Option Out) (cl : UCl σ) (cl' : Cl Unit Unit Pend (UExt σ)) : UCl σ :=
  { cl with st := cl'.st, pending := pendOfG cl'.pending, log := cl'.log,
            ext := (cl.ext.1, cl.ext.2 ++ cl'.acts.filterMap f) }

/-- the environment of `update()` whose `iter_list`, `iter_dump` and `dump(None)` are the translated ones -/
def uenvG {σ : Type} (ops : SettingsOps σ) (pfx : Str) (tmo : Option Nat) (o : Obs)
    (env : Env Unit Unit Pend) (envD : Env Unit Unit Pending) : UEnv Unit Unit Pending (UExt σ) :=
  { uenvOf ops pfx tmo o with
    dumpNone := fun cl =>
      match dump envD (denvOf ops) cl none with
      | .val (cl', _) => cl'
      | .panic _ => cl,
    iterList := fun cl =>
      match runListG env o.slots (toLoopCl cl) with
      | .val cl' => ofLoopCl outOfAct cl cl'
      | .panic _ => cl,
    iterDump := fun cl =>
      match runDumpG env ops cl.ext.1 pfx o.slots o.tooLarge (toLoopCl cl) with
      | .val cl' => ofLoopCl (outOfDumpAct ops cl.ext.1) cl cl'
      | .panic _ => cl }

theorem iterList_G {σ : Type} (ops : SettingsOps σ) (pfx : Str) (tmo : Option Nat) (o : Obs)
    (env : Env Unit Unit Pend) (envD : Env Unit Unit Pending) (cl : UCl σ)
    (hst : cl.st = .Multipart) (hrt : cl.pending.respTopic.isSome) :
    (uenvG ops pfx tmo o env envD).iterList cl = (uenvOf ops pfx tmo o).iterList cl := by
  obtain ⟨st, ⟨rem, rt, cd⟩, acts, log, ext⟩ := cl
  simp only at hst hrt
  subst hst
  obtain ⟨rt, rfl⟩ := Option.isSome_iff_exists.mp hrt
  obtain ⟨cl', h1, h2, h3, h4, h5, new, h6, h7⟩ := iter_list_tie env rt cd o.slots rem [] log ext
  simp only [uenvG, uenvOf, toLoopCl, pendToG, h1, ofLoopCl, iterList, clientOf, stOfGen]
  obtain ⟨st', pend', acts', log', ext'⟩ := cl'
  simp only at h2 h3 h4 h5 h6
  subst h2 h3 h4 h5
  simp only [List.nil_append] at h6
  subst h6
  simp only [pendOfG, h7]
  by_cases hd : (listPump rt cd rem o.slots).2.2 = true <;> simp [hd, stToGen]

theorem iterDump_G {σ : Type} (ops : SettingsOps σ) (pfx : Str) (tmo : Option Nat) (o : Obs)
    (env : Env Unit Unit Pend) (envD : Env Unit Unit Pending) (cl : UCl σ)
    (hst : cl.st = .Multipart) (hok : LeafPathsOk ops cl.ext.1 cl.pending.remaining) :
    (uenvG ops pfx tmo o env envD).iterDump cl = (uenvOf ops pfx tmo o).iterDump cl := by
  obtain ⟨st, ⟨rem, rt, cd⟩, acts, log, ext⟩ := cl
  simp only at hst hok
  subst hst
  obtain ⟨cl', h1, h2, h3, h4, h5, new, h6, h7⟩ :=
    iter_dump_tie env ops ext.1 pfx rt cd o.slots rem o.tooLarge [] log ext hok
  simp only [uenvG, uenvOf, toLoopCl, pendToG, h1, ofLoopCl, iterDump, clientOf, stOfGen]
  obtain ⟨st', pend', acts', log', ext'⟩ := cl'
  simp only at h2 h3 h4 h5 h6
  subst h2 h3 h4 h5
  simp only [List.nil_append] at h6
  subst h6
  simp only [pendOfG, h7]
  by_cases hd : (dumpPump ops pfx ext'.1 cd rem o.slots o.tooLarge).2.2 = true <;> simp [hd, stToGen]

theorem dumpNone_G {σ : Type} (ops : SettingsOps σ) (pfx : Str) (tmo : Option Nat) (o : Obs)
    (env : Env Unit Unit Pend) (envD : Env Unit Unit Pending) (cl : UCl σ)
    (hst : cl.st = .Init) (hroot : (ops.leavesBelow []).isSome) :
    (uenvG ops pfx tmo o env envD).dumpNone cl = (uenvOf ops pfx tmo o).dumpNone cl := by
  obtain ⟨st, pend, acts, log, ext⟩ := cl
  simp only at hst
  subst hst
  obtain ⟨ls, hl⟩ := Option.isSome_iff_exists.mp hroot
  simp [uenvG, uenvOf, dump, denvOf, hl, processEvent, smStep]

/-- `update` looks at its environment only through the calls the current state reaches -/
theorem update_congr {E Es M X : Type} (env : Env E Es M) (u1 u2 : UEnv E Es M X) (cl : Cl E Es M X)
    (hc : u1.connected = u2.connected) (ha : u1.alive = u2.alive) (hs : u1.subscribe = u2.subscribe)
    (hh : u1.hasRt = u2.hasRt) (hp : u1.poll = u2.poll)
    (hd : cl.st = .Init → u1.dumpNone cl = u2.dumpNone cl)
    (hl : cl.st = .Multipart → u1.hasRt cl.pending = true → u1.iterList cl = u2.iterList cl)
    (hu : cl.st = .Multipart → u1.hasRt cl.pending = false → u1.iterDump cl = u2.iterDump cl) :
    update env u1 cl = update env u2 cl := by
  obtain ⟨st, pend, acts, log, ext⟩ := cl
  cases hconn : u2.connected
  · simp [update, hc, hconn, ha, hs, hh, hp, processEvent, smStep]
  · cases st
    case Init =>
      have := hd rfl
      simp [update, hc, hconn, hp, this]
    case Multipart =>
      cases hr : u2.hasRt pend
      · have := hu rfl (by rw [hh]; exact hr)
        simp [update, hc, hconn, hh, hp, hr, this]
      · have := hl rfl (by rw [hh]; exact hr)
        simp [update, hc, hconn, hh, hp, hr, this]
    all_goals simp [update, hc, hconn, ha, hs, hh, hp]

theorem stToGen_multipart (st : St) (h : stToGen st = .Multipart) : st = .multipart := by
  cases st <;> simp [stToGen] at h ⊢

/-- **One `update()` call, translated throughout**: the state dispatch of `MqttClient::update` as translated, calling the
translated `dump(None)`, the translated loops of `iter_list` / `iter_dump` run as written, and `poll` (whose closure is
covered by `poll_closure_tie`), is the model's `step` — same protocol state, pending request, time-out, settings, wire
output and result — for every client state and observation, as long as the tree has leaves below its root and a pending
dump walks leaf paths of the type. -/
theorem update_composed_tie {σ : Type} (ops : SettingsOps σ) (pfx : Str) (c : Client) (s : σ) (o : Obs)
    (env : Env Unit Unit Pend) (envD : Env Unit Unit Pending)
    (hroot : (ops.leavesBelow []).isSome)
    (hok : c.st = .multipart → c.pending.respTopic = none → LeafPathsOk ops s c.pending.remaining) :
    ∃ cl r, update ({ pubGet := .ok (), mpTry := .error "", mpRoot := fun _ => none, setRes := .ok 0,
                      guard := guardOf c.timeout o.now } : Env Unit Unit Pending)
        (uenvG ops pfx c.timeout o env envD)
        ({ st := stToGen c.st, pending := c.pending, ext := (s, []) } : UCl σ) = .val (cl, r) ∧
      let m := step ops pfx c s o
      m.1.st = stOfGen cl.st ∧ m.1.pending = cl.pending ∧ m.1.timeout = tmoOf c.timeout o.now cl.log ∧
      m.2.1 = cl.ext.1 ∧ m.2.2.1 = cl.ext.2 ∧ boolOfRet m.2.2.2 = r := by
  rw [update_congr _ (uenvG ops pfx c.timeout o env envD) (uenvOf ops pfx c.timeout o) _ rfl rfl rfl rfl rfl
    (fun h => dumpNone_G ops pfx c.timeout o env envD _ h hroot)
    (fun h hr => iterList_G ops pfx c.timeout o env envD _ h (by simpa [uenvG, uenvOf] using hr))
    (fun h hr => iterDump_G ops pfx c.timeout o env envD _ h
      (hok (stToGen_multipart _ h) (by simpa [uenvG, uenvOf] using hr)))]
  exact update_tie ops pfx c s o

end MiniconfVerif.GenTie
