import MiniconfVerif.Gen.Py

/-! The model of the Python client (`Model/PyClient.lean`) agrees with what `extract/gen_py.py` extracts from
`async_.py`, `sync.py` and `common.py` on every run (`Gen/Py.lean`). -/
namespace MiniconfVerif.GenTie
open MiniconfVerif MiniconfVerif.PathIter MiniconfVerif.PyClient MiniconfVerif.PyTable

theorem codeContinue_eq : codeContinue = ['C', 'o', 'n', 't', 'i', 'n', 'u', 'e'] := by decide +kernel
theorem codeOk_eq : codeOk = ['O', 'k'] := by decide +kernel

theorem beq_comm_dec (a code : Str) : (a == code) = decide (code = a) := by
  by_cases h : code = a
  · subst h; simp
  · have : a ≠ code := fun h' => h h'.symm
    simp [h, this]

set_option hygiene false in
local macro "dispatch_tie_tac" tb:ident : tactic => `(tactic| (
  unfold run dispatch $tb
  by_cases ht : m.topic = rt
  · cases hcd : m.cd with
    | none => simp [guardOk, ht, hcd]
    | some cd =>
      cases hl : lookup st.inflight cd with
      | none => simp [guardOk, ht, hcd, hl]
      | some ret =>
        cases hc : m.code with
        | none => simp [guardOk, ht, hcd, hl, hc]
        | some code =>
          simp only [List.all_cons, List.all_nil, guardOk, ht, hcd, hl, hc, beq_self_eq_true, Option.isSome_some,
            Bool.and_self, Bool.and_true, decide_true, Bool.not_true, Bool.false_eq_true, if_false, ne_eq, not_true_eq_false,
            List.find?, beq_comm_dec, codeContinue_eq, codeOk_eq]
          by_cases h1 : code = ['C', 'o', 'n', 't', 'i', 'n', 'u', 'e']
          · subst h1; simp [act]
          · by_cases h2 : code = ['O', 'k']
            · subst h2
              by_cases he : m.payload.isEmpty <;> simp [act, he]
            · simp [h1, h2, act]
  · simp [guardOk, ht]))

/-- running the table extracted from `async_.py` is the model's dispatcher -/
theorem async_dispatch_tie (rt : Str) (st : PySt) (m : Msg) : run Gen.Py.asyncTable rt st m = dispatch rt st m := by
  dispatch_tie_tac Gen.Py.asyncTable

/-- running the table extracted from `sync.py` is the same dispatcher -/
theorem sync_dispatch_tie (rt : Str) (st : PySt) (m : Msg) : run Gen.Py.syncTable rt st m = dispatch rt st m := by
  dispatch_tie_tac Gen.Py.syncTable

theorem findIdx_dropWhile {α : Type} (p : α → Bool) : ∀ (l : List α) (k : Nat), l.findIdx? p = some k →
    (l.dropWhile (fun a => !p a)).length = l.length - k
  | [], k, h => by simp at h
  | a :: r, k, h => by
    by_cases hp : p a
    · simp [List.findIdx?_cons, hp] at h
      subst h
      simp [List.dropWhile, hp]
    · simp only [List.findIdx?_cons, hp, Bool.false_eq_true, if_false, Option.map_eq_some_iff] at h
      obtain ⟨k', hk', rfl⟩ := h
      have := findIdx_dropWhile p r k' hk'
      simp [List.dropWhile, hp, this]

/-- `_Path.normalize` as translated from common.py is the model's `normalize`; its `assert` holds whenever the
reference directory is empty or absolute (which `normalize` itself maintains) -/
theorem normalize_tie (current path : Str) :
    (Gen.Py.normalize current path).1 = (normalize current path).1 ∧
    (Gen.Py.normalize current path).2.1 = (normalize current path).2 ∧
    ((current = [] ∨ current.head? = some '/') → (Gen.Py.normalize current path).2.2 = true) := by
  unfold Gen.Py.normalize normalize
  cases path with
  | nil => simp [pyStartsWith, pyFalsy, pyRfind, pySliceTo]
  | cons c r =>
    by_cases hc : c = '/'
    · subst hc
      have hmem : ∃ k, ('/' :: r).reverse.findIdx? (· == '/') = some k := by
        have : (('/' :: r).reverse.findIdx? (· == '/')).isSome := by
          rw [List.findIdx?_isSome]; simp
        exact Option.isSome_iff_exists.mp this
      obtain ⟨k, hk⟩ := hmem
      have hlen := findIdx_dropWhile (· == '/') _ k hk
      have hklt : k < ('/' :: r).reverse.length := by
        have := List.findIdx?_eq_some_iff_findIdx_eq.mp hk
        exact this.1
      have hd : (('/' :: r).reverse.dropWhile (· ≠ '/')) = (('/' :: r).reverse.dropWhile (fun a => !(a == '/'))) := by
        congr 1; funext a; by_cases h : a = '/' <;> simp [h]
      simp only [pyStartsWith, pyFalsy, pyRfind, pySliceTo, hk, List.isPrefixOf, beq_self_eq_true, Bool.true_and,
        Bool.true_or, if_true, List.head?_cons, true_or, hd, hlen, List.length_reverse, List.length_cons] at hklt ⊢
      refine ⟨?_, by simp, fun _ => by simp⟩
      have : (0 : Int) ≤ ((r.length + 1 - 1 - k : Nat) : Int) := Int.natCast_nonneg _
      simp only [ge_iff_le, this, if_true, Int.toNat_natCast]
      congr 1
      omega
    · have hne : ('/' == c) = false := by simp [Ne.symm hc]
      have hh : ¬ ((c :: r).head? = some '/' ∨ c :: r = []) := by simp [hc]
      simp only [pyStartsWith, pyFalsy, List.isPrefixOf, hne, Bool.false_and, List.isEmpty_cons, Bool.or_self,
        Bool.false_eq_true, if_false, hh]
      refine ⟨by simp, by simp, ?_⟩
      intro hcur
      rcases hcur with rfl | hcur
      · simp
      · cases current with
        | nil => simp
        | cons d ds =>
          simp only [List.head?_cons, Option.some.injEq] at hcur
          subst hcur
          simp

end MiniconfVerif.GenTie
