import MiniconfVerif.Gen.Text
import MiniconfVerif.Lemmas.GenTie

/-! The hand-written models of `PathIter::next`, `JsonPathIter::next` and `Key::find` agree with the
definitions regenerated from node.rs, jsonpath.rs and key.rs (`Gen/Text.lean`, `extract/gen_text.py`). -/
namespace MiniconfVerif.GenTie
open MiniconfVerif MiniconfVerif.Gen MiniconfVerif.Gen.Core MiniconfVerif.PathIter

/-! ### node.rs: `PathIter::next` -/

def stepOfP : P (Option Str × Option Str) → Step
  | .panic _ => .panic
  | .val (_, none) => .done
  | .val (st, some k) => .item k st

theorem sum_mapWhile_eq (S : Char) (s : Str) :
    List.sum (mapWhile (fun c => if decide (c ≠ S) then some c.utf8Size else none) s) =
      byteLen (s.takeWhile (· ≠ S)) := by
  induction s with
  | nil => rfl
  | cons c cs ih =>
    by_cases h : c = S
    · simp [mapWhile, h, List.takeWhile, byteLen]
    · simp [mapWhile, h, List.takeWhile, byteLen] at ih ⊢
      omega

/-- `PathIter::<S>::next` as translated from node.rs is the model's `PathIter.next` (on which
`C15.pathIter_spec`, `pathIter_no_panic`, `pathIter_fused` are proved) -/
theorem pathIter_next_tie (S : Char) (st : Option Str) :
    stepOfP (Text.PathIter.next S st) = PathIter.next S st := by
  cases st with
  | none => rfl
  | some s =>
    simp only [Text.PathIter.next, PathIter.next, sum_mapWhile_eq]
    cases h : splitAtByte s (byteLen (s.takeWhile (· ≠ S))) with
    | none => simp [stepOfP]
    | some lr => obtain ⟨l, r⟩ := lr; simp [stepOfP]

/-! ### jsonpath.rs: `JsonPathIter::next` -/

def jstepOfP : P (Str × Option Str) → JStep
  | .panic _ => .panic
  | .val (_, none) => .done
  | .val (st, some k) => .item k st

/-- `JsonPathIter::next` as translated from jsonpath.rs (rule table unrolled in source order, `ControlFlow`
match resolved per rule) is the model's `jnext` -/
theorem jsonPathIter_next_tie (s : Str) : jstepOfP (Text.JsonPathIter.next s) = jnext s := by
  unfold Text.JsonPathIter.next jnext rules
  simp only [jnextWith, applyRule, getFrom]
  repeat' split
  all_goals (subst_vars; simp_all [jstepOfP, byteLen])
  all_goals (subst_vars; simp_all)

/-! ### key.rs: `Key::find` -/

def exceptOfGen : Except Traversal Nat → Except Trav Nat
  | .ok i => .ok i
  | .error e => .error (travOfGen e)

/-- `<str as Key>::find` as translated from key.rs is the model's `Key.find` on string keys -/
theorem strFind_tie (s : String) (lk : Lookup) :
    exceptOfGen (Text.strFind s (lookupToGen lk)) = Key.find lk (.str s.toList) := by
  cases lk with
  | named ns =>
    have hf : (fun n : String => decide (n = s)) = (fun n : String => n.toList == s.toList) := by
      funext n
      by_cases h : n = s
      · simp [h]
      · have : n.toList ≠ s.toList := fun h' => h (String.toList_injective h')
        simp [h, this]
    simp only [Text.strFind, lookupToGen, Key.find, hf]
    cases ns.findIdx? (fun n => n.toList == s.toList) <;> rfl
  | numbered n =>
    simp only [Text.strFind, lookupToGen, Key.find]
    cases h : parseUsize s.toList with
    | none => rfl
    | some i => by_cases hi : i < n <;> simp [Option.filter, hi, exceptOfGen, travOfGen]
  | homog n =>
    simp only [Text.strFind, lookupToGen, Key.find]
    cases h : parseUsize s.toList with
    | none => rfl
    | some i => by_cases hi : i < n <;> simp [Option.filter, hi, exceptOfGen, travOfGen]

/-- `<$t as Key>::find` of `impl_key_integer!` as translated from key.rs is the model's `Key.find` on
integer keys (a lookup with at least one child: `KeyLookup::len` does not panic) -/
theorem intFind_tie (v : Int) (lk : Lookup) (h : 0 < lk.len) :
    (Text.intFind v (lookupToGen lk)) = .val (match Key.find lk (.int v) with
      | .ok i => .ok i
      | .error _ => .error (.NotFound 1)) := by
  simp only [Text.intFind, len_tie lk h, Key.find, tryIntoUsize]
  by_cases h1 : 0 ≤ v ∧ v < 2 ^ 64
  · rw [if_pos h1]
    by_cases h2 : v.toNat < lk.len
    · rw [if_pos ⟨h1.1, h1.2, h2⟩]; simp only [h2, decide_true, ↓reduceIte]
    · rw [if_neg (fun hh => h2 hh.2.2)]; simp only [h2, decide_false, Bool.false_eq_true, ↓reduceIte]
  · rw [if_neg h1, if_neg (fun hh => h1 ⟨hh.1, hh.2.1⟩)]

end MiniconfVerif.GenTie
