import MiniconfVerif.Gen.Transcode

/-! The traversal callbacks of `Transcode for Path<T, S>` and `Transcode for JsonPath<T>` as translated from node.rs /
jsonpath.rs agree with the model's `Target.cb`: they succeed exactly when the model's callback does, and then leave
exactly the model's buffer (separator + name or decimal index; `.name` / `[index]`). -/
namespace MiniconfVerif.GenTie
open MiniconfVerif MiniconfVerif.Gen MiniconfVerif.Gen.Transcode MiniconfVerif.PathIter

theorem path_callback_tie (sep : Char) (buf : Str) (cap : Nat) (a : CbArg) :
    (match Target.cb (.path sep buf cap) a with
     | some t => (Path.callback sep (buf, cap) a.index a.name a.len).2 = .ok () ∧
         t = .path sep (Path.callback sep (buf, cap) a.index a.name a.len).1.1 cap
     | none => (Path.callback sep (buf, cap) a.index a.name a.len).2 = .error ()) := by
  simp only [Target.cb, Path.callback, wWrite]
  cases h1 : capWrite buf cap [sep] with
  | none => simp [h1]
  | some b1 =>
    cases hn : a.name with
    | none =>
      simp only [String.toList_ofList]
      cases h2 : capWrite b1 cap (itoa a.index) <;> simp [h1, h2, hn]
    | some n =>
      cases h2 : capWrite b1 cap n.toList <;> simp [h1, h2, hn]

theorem jsonpath_callback_tie (buf : Str) (cap : Nat) (a : CbArg) :
    (match Target.cb (.json buf cap) a with
     | some t => (JsonPath.callback (buf, cap) a.index a.name a.len).2 = .ok () ∧
         t = .json (JsonPath.callback (buf, cap) a.index a.name a.len).1.1 cap
     | none => (JsonPath.callback (buf, cap) a.index a.name a.len).2 = .error ()) := by
  simp only [Target.cb, JsonPath.callback, wWrite]
  cases hn : a.name with
  | some n =>
    cases h1 : capWrite buf cap ['.'] with
    | none => simp [h1, hn]
    | some b1 => cases h2 : capWrite b1 cap n.toList <;> simp [h1, h2, hn]
  | none =>
    cases h1 : capWrite buf cap ['['] with
    | none => simp [h1, hn]
    | some b1 =>
      simp only [String.toList_ofList]
      cases h2 : capWrite b1 cap (itoa a.index) with
      | none => simp [h1, h2, hn]
      | some b2 => cases h3 : capWrite b2 cap [']'] <;> simp [h1, h2, h3, hn]

end MiniconfVerif.GenTie
