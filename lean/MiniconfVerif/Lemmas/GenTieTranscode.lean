import MiniconfVerif.Gen.Transcode

/-! The traversal callbacks of `Transcode for Path<T, S>` and `Transcode for JsonPath<T>` as translated from node.rs /
jsonpath.rs agree with the model's `Target.cb`: they succeed exactly when the model's callback does, and then leave
exactly the model's buffer (separator + name or decimal index; `.name` / `[index]`). -/
namespace MiniconfVerif.GenTie
open MiniconfVerif MiniconfVerif.Gen MiniconfVerif.Gen.Transcode MiniconfVerif.PathIter

theorem path_callback_tie (sep : Char) (buf : Str) (cap : Nat) (a : CbArg) :
    (match Target.cb (.path sep buf cap) a with
     | some t => (Path.callback sep (buf, cap) a.index a.name a.len).2 = .ok () ∧
         t = .path sep (Path.callback sep (buf, cap) a.index a.name a.len).1.1 cap
     | none => (Path.callback sep (buf, cap) a.index a.name a.len).2 = .error ()) := by
  simp only [Target.cb, Path.callback, wWrite]
  cases h1 : capWrite buf cap [sep] with
  | none => simp [h1]
  | some b1 =>
    cases hn : a.name with
    | none =>
      simp only [String.toList_ofList]
      cases h2 : capWrite b1 cap (itoa a.index) <;> simp [h1, h2, hn]
    | some n =>
      cases h2 : capWrite b1 cap n.toList <;> simp [h1, h2, hn]

theorem jsonpath_callback_tie (buf : Str) (cap : Nat) (a : CbArg) :
    (match Target.cb (.json buf cap) a with
     | some t => (JsonPath.callback (buf, cap) a.index a.name a.len).2 = .ok () ∧
         t = .json (JsonPath.callback (buf, cap) a.index a.name a.len).1.1 cap
     | none => (JsonPath.callback (buf, cap) a.index a.name a.len).2 = .error ()) := by
  simp only [Target.cb, JsonPath.callback, wWrite]
  cases hn : a.name with
  | some n =>
    cases h1 : capWrite buf cap ['.'] with
    | none => simp [h1, hn]
    | some b1 => cases h2 : capWrite b1 cap n.toList <;> simp [h1, h2, hn]
  | none =>
    cases h1 : capWrite buf cap ['['] with
    | none => simp [h1, hn]
    | some b1 =>
      simp only [String.toList_ofList]
      cases h2 : capWrite b1 cap (itoa a.index) with
      | none => simp [h1, h2, hn]
      | some b2 => cases h3 : capWrite b2 cap [']'] <;> simp [h1, h2, h3, hn]

/-- the model's index target (written slots, capacity) as the slice the source fills: the written prefix followed by
whatever the remaining slots hold -/
def sliceOf (slots rest : List Nat) : SliceIt := (slots ++ rest, slots.length)

/-- `usize -> T` for an index type that holds values up to `maxIdx` -/
def tryIntoMax (maxIdx : Nat) (i : Nat) : Option Nat := if i ≤ maxIdx then some i else none

/-- **The traversal callback of `Transcode for [T]`** (all integer slot types) as translated from node.rs is the model's
`Target.cb` on index targets: it fails exactly when no slot is left or the index does not fit the slot type — then the
slice is unchanged —, and otherwise writes the index into the next slot and nothing else. -/
theorem slice_callback_tie (slots rest : List Nat) (maxIdx : Nat) (a : CbArg) :
    (match Target.cb (.idx slots (slots.length + rest.length) maxIdx) a with
     | some t =>
       ∃ r', rest = r' ++ rest.drop 1 ∧ r'.length = 1 ∧
         Slice.callback (tryIntoMax maxIdx) (sliceOf slots rest) a.index a.name a.len =
           (sliceOf (slots ++ [a.index]) (rest.drop 1), .ok ()) ∧
         t = .idx (slots ++ [a.index]) (slots.length + rest.length) maxIdx
     | none =>
       (Slice.callback (tryIntoMax maxIdx) (sliceOf slots rest) a.index a.name a.len).2 = .error () ∧
       (Slice.callback (tryIntoMax maxIdx) (sliceOf slots rest) a.index a.name a.len).1.1 = slots ++ rest) := by
  simp only [Target.cb, Slice.callback, sliceNext, sliceOf, sliceSet, tryIntoMax, List.length_append]
  cases rest with
  | nil => simp
  | cons x xs =>
    have h1 : slots.length < slots.length + (xs.length + 1) := by omega
    simp only [List.length_cons, h1, ↓reduceIte, true_and, List.drop_succ_cons, List.drop_zero]
    by_cases hi : a.index ≤ maxIdx
    · simp only [hi, ↓reduceIte]
      refine ⟨[x], by simp, by simp, ?_, by trivial⟩
      simp [List.set_append_right]
    · simp [hi]

end MiniconfVerif.GenTie
