import MiniconfVerif.Lemmas.GenTieValue

/-! GENERATED ONCE by tools/mk_tuple_value_ties.py (committed): `Tree.walk` at a tuple (a `numbered n` node whose fields
carry no attributes) agrees with `TreeSerialize` / `TreeDeserialize` / `TreeAny` of the n-tuples as translated from the
`impl_tuple!` body of impls.rs, for n = 1..8, and of `Range`, `RangeFrom`, `RangeTo` (and `TreeSerialize` of
`RangeInclusive`) at their `named ["start", "end"]` / `["start"]` / `["end"]` nodes. -/
set_option linter.unusedSimpArgs false
namespace MiniconfVerif.GenTie
open MiniconfVerif MiniconfVerif.Gen MiniconfVerif.Gen.Core

theorem tuple1_ser_tie (io : Io) (elems : List Tree) (hlen : elems.length = 1) (ks : KeySrc)
    (hnp : ∀ s, ks.next (.numbered 1) ≠ .error (.panic s))
    (c0 : Tree → KeySrc → Except (Error Unit) Nat)
    (h0 : ∀ t ks, resOfGen (c0 t ks) = (t.walk io .ser ks).res) :
    ∃ r, Impls.tuple1.serialize_by_key keysNextM c0 elems ks = .val r ∧
      resOfGen r = (Tree.walk io .ser (.node false none (.numbered 1) (plainFields elems)) ks).res := by
  simp only [Impls.tuple1.serialize_by_key, Impls.KeyLookup.numbered, nonZeroNew, keysNextM, lookupOfGen, Tree.walk]
  try simp +decide only [↓reduceIte]
  cases hnext : ks.next (.numbered 1) with
  | error e =>
    cases e with
    | panic s => exact absurd hnext (hnp s)
    | _ => exact ⟨_, rfl, by simp [resOfGen, anyOfGen, anyView, travToGen, travOfGen]⟩
  | ok p =>
    obtain ⟨i, ks'⟩ := p
    have hi := next_lt ks _ i ks' hnext
    simp only [Lookup.len, List.length_cons, List.length_nil] at hi
    have hget : elems[i]? = some elems[i] := List.getElem?_eq_getElem (by omega)
    obtain rfl : i = 0 := by omega
    simp only [applyAtR, hget, goFld_plain io .ser elems _ ks' _ hget]
    exact ⟨_, rfl, by rw [resOfGen_incr, h0]⟩

theorem tuple1_de_tie (io : Io) (elems : List Tree) (hlen : elems.length = 1) (ks : KeySrc)
    (hnp : ∀ s, ks.next (.numbered 1) ≠ .error (.panic s))
    (c0 : Tree → KeySrc → Except (Error Unit) Nat × Tree)
    (h0 : ∀ t ks, resOfGen (c0 t ks).1 = (t.walk io .de ks).res ∧ (c0 t ks).2 = (t.walk io .de ks).tree) :
    ∃ es r, Impls.tuple1.deserialize_by_key keysNextM c0 elems ks = .val (es, r) ∧
      resOfGen r = (Tree.walk io .de (.node false none (.numbered 1) (plainFields elems)) ks).res ∧
      Tree.node false none (.numbered 1) (plainFields es) = (Tree.walk io .de (.node false none (.numbered 1) (plainFields elems)) ks).tree := by
  simp only [Impls.tuple1.deserialize_by_key, Impls.KeyLookup.numbered, nonZeroNew, keysNextM, lookupOfGen, Tree.walk]
  try simp +decide only [↓reduceIte]
  cases hnext : ks.next (.numbered 1) with
  | error e =>
    cases e with
    | panic s => exact absurd hnext (hnp s)
    | _ => exact ⟨_, _, rfl, by simp [resOfGen, anyOfGen, anyView, travToGen, travOfGen], rfl⟩
  | ok p =>
    obtain ⟨i, ks'⟩ := p
    have hi := next_lt ks _ i ks' hnext
    simp only [Lookup.len, List.length_cons, List.length_nil] at hi
    have hget : elems[i]? = some elems[i] := List.getElem?_eq_getElem (by omega)
    obtain rfl : i = 0 := by omega
    simp only [applyAt, hget, goFld_plain io .de elems _ ks' _ hget]
    exact ⟨_, _, rfl, by rw [resOfGen_incr, (h0 _ _).1], by rw [(h0 _ _).2]⟩

theorem tuple1_ref_tie (io : Io) (elems : List Tree) (hlen : elems.length = 1) (ks : KeySrc)
    (hnp : ∀ s, ks.next (.numbered 1) ≠ .error (.panic s))
    (c0 : Tree → KeySrc → Except Traversal Unit)
    (h0 : ∀ t ks, anyOfGen (c0 t ks) = anyView (t.walk io .refAny ks).res) :
    ∃ r, Impls.tuple1.ref_any_by_key keysNextM c0 elems ks = .val r ∧
      anyOfGen r = anyView (Tree.walk io .refAny (.node false none (.numbered 1) (plainFields elems)) ks).res := by
  simp only [Impls.tuple1.ref_any_by_key, Impls.KeyLookup.numbered, nonZeroNew, keysNextM, lookupOfGen, Tree.walk]
  try simp +decide only [↓reduceIte]
  cases hnext : ks.next (.numbered 1) with
  | error e =>
    cases e with
    | panic s => exact absurd hnext (hnp s)
    | _ => exact ⟨_, rfl, by simp [resOfGen, anyOfGen, anyView, travToGen, travOfGen]⟩
  | ok p =>
    obtain ⟨i, ks'⟩ := p
    have hi := next_lt ks _ i ks' hnext
    simp only [Lookup.len, List.length_cons, List.length_nil] at hi
    have hget : elems[i]? = some elems[i] := List.getElem?_eq_getElem (by omega)
    obtain rfl : i = 0 := by omega
    simp only [applyAtR, hget, goFld_plain io .refAny elems _ ks' _ hget]
    refine ⟨_, rfl, ?_⟩
    rw [anyView_incr, ← h0]
    cases c0 elems[0] ks' with
    | ok u => cases u; rfl
    | error e => simp [anyOfGen, Except.mapError, increment_tie]

theorem tuple1_mut_tie (io : Io) (elems : List Tree) (hlen : elems.length = 1) (ks : KeySrc)
    (hnp : ∀ s, ks.next (.numbered 1) ≠ .error (.panic s))
    (c0 : Tree → KeySrc → Except Traversal Unit × Tree)
    (h0 : ∀ t ks, anyOfGen (c0 t ks).1 = anyView (t.walk io .mutAny ks).res ∧ (c0 t ks).2 = (t.walk io .mutAny ks).tree) :
    ∃ es r, Impls.tuple1.mut_any_by_key keysNextM c0 elems ks = .val (es, r) ∧
      anyOfGen r = anyView (Tree.walk io .mutAny (.node false none (.numbered 1) (plainFields elems)) ks).res ∧
      Tree.node false none (.numbered 1) (plainFields es) = (Tree.walk io .mutAny (.node false none (.numbered 1) (plainFields elems)) ks).tree := by
  simp only [Impls.tuple1.mut_any_by_key, Impls.KeyLookup.numbered, nonZeroNew, keysNextM, lookupOfGen, Tree.walk]
  try simp +decide only [↓reduceIte]
  cases hnext : ks.next (.numbered 1) with
  | error e =>
    cases e with
    | panic s => exact absurd hnext (hnp s)
    | _ => exact ⟨_, _, rfl, by simp [resOfGen, anyOfGen, anyView, travToGen, travOfGen], rfl⟩
  | ok p =>
    obtain ⟨i, ks'⟩ := p
    have hi := next_lt ks _ i ks' hnext
    simp only [Lookup.len, List.length_cons, List.length_nil] at hi
    have hget : elems[i]? = some elems[i] := List.getElem?_eq_getElem (by omega)
    obtain rfl : i = 0 := by omega
    simp only [applyAt, hget, goFld_plain io .mutAny elems _ ks' _ hget]
    refine ⟨_, _, rfl, ?_, by rw [(h0 _ _).2]⟩
    rw [anyView_incr, ← (h0 _ _).1]
    cases (c0 elems[0] ks').1 with
    | ok u => cases u; rfl
    | error e => simp [anyOfGen, Except.mapError, increment_tie]

theorem tuple2_ser_tie (io : Io) (elems : List Tree) (hlen : elems.length = 2) (ks : KeySrc)
    (hnp : ∀ s, ks.next (.numbered 2) ≠ .error (.panic s))
    (c0 c1 : Tree → KeySrc → Except (Error Unit) Nat)
    (h0 : ∀ t ks, resOfGen (c0 t ks) = (t.walk io .ser ks).res) (h1 : ∀ t ks, resOfGen (c1 t ks) = (t.walk io .ser ks).res) :
    ∃ r, Impls.tuple2.serialize_by_key keysNextM c0 c1 elems ks = .val r ∧
      resOfGen r = (Tree.walk io .ser (.node false none (.numbered 2) (plainFields elems)) ks).res := by
  simp only [Impls.tuple2.serialize_by_key, Impls.KeyLookup.numbered, nonZeroNew, keysNextM, lookupOfGen, Tree.walk]
  try simp +decide only [↓reduceIte]
  cases hnext : ks.next (.numbered 2) with
  | error e =>
    cases e with
    | panic s => exact absurd hnext (hnp s)
    | _ => exact ⟨_, rfl, by simp [resOfGen, anyOfGen, anyView, travToGen, travOfGen]⟩
  | ok p =>
    obtain ⟨i, ks'⟩ := p
    have hi := next_lt ks _ i ks' hnext
    simp only [Lookup.len, List.length_cons, List.length_nil] at hi
    have hget : elems[i]? = some elems[i] := List.getElem?_eq_getElem (by omega)
    have hi' : i = 0 ∨ i = 1 := by omega
    rcases hi' with rfl | rfl
    · simp only [applyAtR, hget, goFld_plain io .ser elems _ ks' _ hget]
      exact ⟨_, rfl, by rw [resOfGen_incr, h0]⟩
    · simp only [applyAtR, hget, goFld_plain io .ser elems _ ks' _ hget]
      exact ⟨_, rfl, by rw [resOfGen_incr, h1]⟩

theorem tuple2_de_tie (io : Io) (elems : List Tree) (hlen : elems.length = 2) (ks : KeySrc)
    (hnp : ∀ s, ks.next (.numbered 2) ≠ .error (.panic s))
    (c0 c1 : Tree → KeySrc → Except (Error Unit) Nat × Tree)
    (h0 : ∀ t ks, resOfGen (c0 t ks).1 = (t.walk io .de ks).res ∧ (c0 t ks).2 = (t.walk io .de ks).tree) (h1 : ∀ t ks, resOfGen (c1 t ks).1 = (t.walk io .de ks).res ∧ (c1 t ks).2 = (t.walk io .de ks).tree) :
    ∃ es r, Impls.tuple2.deserialize_by_key keysNextM c0 c1 elems ks = .val (es, r) ∧
      resOfGen r = (Tree.walk io .de (.node false none (.numbered 2) (plainFields elems)) ks).res ∧
      Tree.node false none (.numbered 2) (plainFields es) = (Tree.walk io .de (.node false none (.numbered 2) (plainFields elems)) ks).tree := by
  simp only [Impls.tuple2.deserialize_by_key, Impls.KeyLookup.numbered, nonZeroNew, keysNextM, lookupOfGen, Tree.walk]
  try simp +decide only [↓reduceIte]
  cases hnext : ks.next (.numbered 2) with
  | error e =>
    cases e with
    | panic s => exact absurd hnext (hnp s)
    | _ => exact ⟨_, _, rfl, by simp [resOfGen, anyOfGen, anyView, travToGen, travOfGen], rfl⟩
  | ok p =>
    obtain ⟨i, ks'⟩ := p
    have hi := next_lt ks _ i ks' hnext
    simp only [Lookup.len, List.length_cons, List.length_nil] at hi
    have hget : elems[i]? = some elems[i] := List.getElem?_eq_getElem (by omega)
    have hi' : i = 0 ∨ i = 1 := by omega
    rcases hi' with rfl | rfl
    · simp only [applyAt, hget, goFld_plain io .de elems _ ks' _ hget]
      exact ⟨_, _, rfl, by rw [resOfGen_incr, (h0 _ _).1], by rw [(h0 _ _).2]⟩
    · simp only [applyAt, hget, goFld_plain io .de elems _ ks' _ hget]
      exact ⟨_, _, rfl, by rw [resOfGen_incr, (h1 _ _).1], by rw [(h1 _ _).2]⟩

theorem tuple2_ref_tie (io : Io) (elems : List Tree) (hlen : elems.length = 2) (ks : KeySrc)
    (hnp : ∀ s, ks.next (.numbered 2) ≠ .error (.panic s))
    (c0 c1 : Tree → KeySrc → Except Traversal Unit)
    (h0 : ∀ t ks, anyOfGen (c0 t ks) = anyView (t.walk io .refAny ks).res) (h1 : ∀ t ks, anyOfGen (c1 t ks) = anyView (t.walk io .refAny ks).res) :
    ∃ r, Impls.tuple2.ref_any_by_key keysNextM c0 c1 elems ks = .val r ∧
      anyOfGen r = anyView (Tree.walk io .refAny (.node false none (.numbered 2) (plainFields elems)) ks).res := by
  simp only [Impls.tuple2.ref_any_by_key, Impls.KeyLookup.numbered, nonZeroNew, keysNextM, lookupOfGen, Tree.walk]
  try simp +decide only [↓reduceIte]
  cases hnext : ks.next (.numbered 2) with
  | error e =>
    cases e with
    | panic s => exact absurd hnext (hnp s)
    | _ => exact ⟨_, rfl, by simp [resOfGen, anyOfGen, anyView, travToGen, travOfGen]⟩
  | ok p =>
    obtain ⟨i, ks'⟩ := p
    have hi := next_lt ks _ i ks' hnext
    simp only [Lookup.len, List.length_cons, List.length_nil] at hi
    have hget : elems[i]? = some elems[i] := List.getElem?_eq_getElem (by omega)
    have hi' : i = 0 ∨ i = 1 := by omega
    rcases hi' with rfl | rfl
    · simp only [applyAtR, hget, goFld_plain io .refAny elems _ ks' _ hget]
      refine ⟨_, rfl, ?_⟩
      rw [anyView_incr, ← h0]
      cases c0 elems[0] ks' with
      | ok u => cases u; rfl
      | error e => simp [anyOfGen, Except.mapError, increment_tie]
    · simp only [applyAtR, hget, goFld_plain io .refAny elems _ ks' _ hget]
      refine ⟨_, rfl, ?_⟩
      rw [anyView_incr, ← h1]
      cases c1 elems[1] ks' with
      | ok u => cases u; rfl
      | error e => simp [anyOfGen, Except.mapError, increment_tie]

theorem tuple2_mut_tie (io : Io) (elems : List Tree) (hlen : elems.length = 2) (ks : KeySrc)
    (hnp : ∀ s, ks.next (.numbered 2) ≠ .error (.panic s))
    (c0 c1 : Tree → KeySrc → Except Traversal Unit × Tree)
    (h0 : ∀ t ks, anyOfGen (c0 t ks).1 = anyView (t.walk io .mutAny ks).res ∧ (c0 t ks).2 = (t.walk io .mutAny ks).tree) (h1 : ∀ t ks, anyOfGen (c1 t ks).1 = anyView (t.walk io .mutAny ks).res ∧ (c1 t ks).2 = (t.walk io .mutAny ks).tree) :
    ∃ es r, Impls.tuple2.mut_any_by_key keysNextM c0 c1 elems ks = .val (es, r) ∧
      anyOfGen r = anyView (Tree.walk io .mutAny (.node false none (.numbered 2) (plainFields elems)) ks).res ∧
      Tree.node false none (.numbered 2) (plainFields es) = (Tree.walk io .mutAny (.node false none (.numbered 2) (plainFields elems)) ks).tree := by
  simp only [Impls.tuple2.mut_any_by_key, Impls.KeyLookup.numbered, nonZeroNew, keysNextM, lookupOfGen, Tree.walk]
  try simp +decide only [↓reduceIte]
  cases hnext : ks.next (.numbered 2) with
  | error e =>
    cases e with
    | panic s => exact absurd hnext (hnp s)
    | _ => exact ⟨_, _, rfl, by simp [resOfGen, anyOfGen, anyView, travToGen, travOfGen], rfl⟩
  | ok p =>
    obtain ⟨i, ks'⟩ := p
    have hi := next_lt ks _ i ks' hnext
    simp only [Lookup.len, List.length_cons, List.length_nil] at hi
    have hget : elems[i]? = some elems[i] := List.getElem?_eq_getElem (by omega)
    have hi' : i = 0 ∨ i = 1 := by omega
    rcases hi' with rfl | rfl
    · simp only [applyAt, hget, goFld_plain io .mutAny elems _ ks' _ hget]
      refine ⟨_, _, rfl, ?_, by rw [(h0 _ _).2]⟩
      rw [anyView_incr, ← (h0 _ _).1]
      cases (c0 elems[0] ks').1 with
      | ok u => cases u; rfl
      | error e => simp [anyOfGen, Except.mapError, increment_tie]
    · simp only [applyAt, hget, goFld_plain io .mutAny elems _ ks' _ hget]
      refine ⟨_, _, rfl, ?_, by rw [(h1 _ _).2]⟩
      rw [anyView_incr, ← (h1 _ _).1]
      cases (c1 elems[1] ks').1 with
      | ok u => cases u; rfl
      | error e => simp [anyOfGen, Except.mapError, increment_tie]

theorem tuple3_ser_tie (io : Io) (elems : List Tree) (hlen : elems.length = 3) (ks : KeySrc)
    (hnp : ∀ s, ks.next (.numbered 3) ≠ .error (.panic s))
    (c0 c1 c2 : Tree → KeySrc → Except (Error Unit) Nat)
    (h0 : ∀ t ks, resOfGen (c0 t ks) = (t.walk io .ser ks).res) (h1 : ∀ t ks, resOfGen (c1 t ks) = (t.walk io .ser ks).res) (h2 : ∀ t ks, resOfGen (c2 t ks) = (t.walk io .ser ks).res) :
    ∃ r, Impls.tuple3.serialize_by_key keysNextM c0 c1 c2 elems ks = .val r ∧
      resOfGen r = (Tree.walk io .ser (.node false none (.numbered 3) (plainFields elems)) ks).res := by
  simp only [Impls.tuple3.serialize_by_key, Impls.KeyLookup.numbered, nonZeroNew, keysNextM, lookupOfGen, Tree.walk]
  try simp +decide only [↓reduceIte]
  cases hnext : ks.next (.numbered 3) with
  | error e =>
    cases e with
    | panic s => exact absurd hnext (hnp s)
    | _ => exact ⟨_, rfl, by simp [resOfGen, anyOfGen, anyView, travToGen, travOfGen]⟩
  | ok p =>
    obtain ⟨i, ks'⟩ := p
    have hi := next_lt ks _ i ks' hnext
    simp only [Lookup.len, List.length_cons, List.length_nil] at hi
    have hget : elems[i]? = some elems[i] := List.getElem?_eq_getElem (by omega)
    have hi' : i = 0 ∨ i = 1 ∨ i = 2 := by omega
    rcases hi' with rfl | rfl | rfl
    · simp only [applyAtR, hget, goFld_plain io .ser elems _ ks' _ hget]
      exact ⟨_, rfl, by rw [resOfGen_incr, h0]⟩
    · simp only [applyAtR, hget, goFld_plain io .ser elems _ ks' _ hget]
      exact ⟨_, rfl, by rw [resOfGen_incr, h1]⟩
    · simp only [applyAtR, hget, goFld_plain io .ser elems _ ks' _ hget]
      exact ⟨_, rfl, by rw [resOfGen_incr, h2]⟩

theorem tuple3_de_tie (io : Io) (elems : List Tree) (hlen : elems.length = 3) (ks : KeySrc)
    (hnp : ∀ s, ks.next (.numbered 3) ≠ .error (.panic s))
    (c0 c1 c2 : Tree → KeySrc → Except (Error Unit) Nat × Tree)
    (h0 : ∀ t ks, resOfGen (c0 t ks).1 = (t.walk io .de ks).res ∧ (c0 t ks).2 = (t.walk io .de ks).tree) (h1 : ∀ t ks, resOfGen (c1 t ks).1 = (t.walk io .de ks).res ∧ (c1 t ks).2 = (t.walk io .de ks).tree) (h2 : ∀ t ks, resOfGen (c2 t ks).1 = (t.walk io .de ks).res ∧ (c2 t ks).2 = (t.walk io .de ks).tree) :
    ∃ es r, Impls.tuple3.deserialize_by_key keysNextM c0 c1 c2 elems ks = .val (es, r) ∧
      resOfGen r = (Tree.walk io .de (.node false none (.numbered 3) (plainFields elems)) ks).res ∧
      Tree.node false none (.numbered 3) (plainFields es) = (Tree.walk io .de (.node false none (.numbered 3) (plainFields elems)) ks).tree := by
  simp only [Impls.tuple3.deserialize_by_key, Impls.KeyLookup.numbered, nonZeroNew, keysNextM, lookupOfGen, Tree.walk]
  try simp +decide only [↓reduceIte]
  cases hnext : ks.next (.numbered 3) with
  | error e =>
    cases e with
    | panic s => exact absurd hnext (hnp s)
    | _ => exact ⟨_, _, rfl, by simp [resOfGen, anyOfGen, anyView, travToGen, travOfGen], rfl⟩
  | ok p =>
    obtain ⟨i, ks'⟩ := p
    have hi := next_lt ks _ i ks' hnext
    simp only [Lookup.len, List.length_cons, List.length_nil] at hi
    have hget : elems[i]? = some elems[i] := List.getElem?_eq_getElem (by omega)
    have hi' : i = 0 ∨ i = 1 ∨ i = 2 := by omega
    rcases hi' with rfl | rfl | rfl
    · simp only [applyAt, hget, goFld_plain io .de elems _ ks' _ hget]
      exact ⟨_, _, rfl, by rw [resOfGen_incr, (h0 _ _).1], by rw [(h0 _ _).2]⟩
    · simp only [applyAt, hget, goFld_plain io .de elems _ ks' _ hget]
      exact ⟨_, _, rfl, by rw [resOfGen_incr, (h1 _ _).1], by rw [(h1 _ _).2]⟩
    · simp only [applyAt, hget, goFld_plain io .de elems _ ks' _ hget]
      exact ⟨_, _, rfl, by rw [resOfGen_incr, (h2 _ _).1], by rw [(h2 _ _).2]⟩

theorem tuple3_ref_tie (io : Io) (elems : List Tree) (hlen : elems.length = 3) (ks : KeySrc)
    (hnp : ∀ s, ks.next (.numbered 3) ≠ .error (.panic s))
    (c0 c1 c2 : Tree → KeySrc → Except Traversal Unit)
    (h0 : ∀ t ks, anyOfGen (c0 t ks) = anyView (t.walk io .refAny ks).res) (h1 : ∀ t ks, anyOfGen (c1 t ks) = anyView (t.walk io .refAny ks).res) (h2 : ∀ t ks, anyOfGen (c2 t ks) = anyView (t.walk io .refAny ks).res) :
    ∃ r, Impls.tuple3.ref_any_by_key keysNextM c0 c1 c2 elems ks = .val r ∧
      anyOfGen r = anyView (Tree.walk io .refAny (.node false none (.numbered 3) (plainFields elems)) ks).res := by
  simp only [Impls.tuple3.ref_any_by_key, Impls.KeyLookup.numbered, nonZeroNew, keysNextM, lookupOfGen, Tree.walk]
  try simp +decide only [↓reduceIte]
  cases hnext : ks.next (.numbered 3) with
  | error e =>
    cases e with
    | panic s => exact absurd hnext (hnp s)
    | _ => exact ⟨_, rfl, by simp [resOfGen, anyOfGen, anyView, travToGen, travOfGen]⟩
  | ok p =>
    obtain ⟨i, ks'⟩ := p
    have hi := next_lt ks _ i ks' hnext
    simp only [Lookup.len, List.length_cons, List.length_nil] at hi
    have hget : elems[i]? = some elems[i] := List.getElem?_eq_getElem (by omega)
    have hi' : i = 0 ∨ i = 1 ∨ i = 2 := by omega
    rcases hi' with rfl | rfl | rfl
    · simp only [applyAtR, hget, goFld_plain io .refAny elems _ ks' _ hget]
      refine ⟨_, rfl, ?_⟩
      rw [anyView_incr, ← h0]
      cases c0 elems[0] ks' with
      | ok u => cases u; rfl
      | error e => simp [anyOfGen, Except.mapError, increment_tie]
    · simp only [applyAtR, hget, goFld_plain io .refAny elems _ ks' _ hget]
      refine ⟨_, rfl, ?_⟩
      rw [anyView_incr, ← h1]
      cases c1 elems[1] ks' with
      | ok u => cases u; rfl
      | error e => simp [anyOfGen, Except.mapError, increment_tie]
    · simp only [applyAtR, hget, goFld_plain io .refAny elems _ ks' _ hget]
      refine ⟨_, rfl, ?_⟩
      rw [anyView_incr, ← h2]
      cases c2 elems[2] ks' with
      | ok u => cases u; rfl
      | error e => simp [anyOfGen, Except.mapError, increment_tie]

theorem tuple3_mut_tie (io : Io) (elems : List Tree) (hlen : elems.length = 3) (ks : KeySrc)
    (hnp : ∀ s, ks.next (.numbered 3) ≠ .error (.panic s))
    (c0 c1 c2 : Tree → KeySrc → Except Traversal Unit × Tree)
    (h0 : ∀ t ks, anyOfGen (c0 t ks).1 = anyView (t.walk io .mutAny ks).res ∧ (c0 t ks).2 = (t.walk io .mutAny ks).tree) (h1 : ∀ t ks, anyOfGen (c1 t ks).1 = anyView (t.walk io .mutAny ks).res ∧ (c1 t ks).2 = (t.walk io .mutAny ks).tree) (h2 : ∀ t ks, anyOfGen (c2 t ks).1 = anyView (t.walk io .mutAny ks).res ∧ (c2 t ks).2 = (t.walk io .mutAny ks).tree) :
    ∃ es r, Impls.tuple3.mut_any_by_key keysNextM c0 c1 c2 elems ks = .val (es, r) ∧
      anyOfGen r = anyView (Tree.walk io .mutAny (.node false none (.numbered 3) (plainFields elems)) ks).res ∧
      Tree.node false none (.numbered 3) (plainFields es) = (Tree.walk io .mutAny (.node false none (.numbered 3) (plainFields elems)) ks).tree := by
  simp only [Impls.tuple3.mut_any_by_key, Impls.KeyLookup.numbered, nonZeroNew, keysNextM, lookupOfGen, Tree.walk]
  try simp +decide only [↓reduceIte]
  cases hnext : ks.next (.numbered 3) with
  | error e =>
    cases e with
    | panic s => exact absurd hnext (hnp s)
    | _ => exact ⟨_, _, rfl, by simp [resOfGen, anyOfGen, anyView, travToGen, travOfGen], rfl⟩
  | ok p =>
    obtain ⟨i, ks'⟩ := p
    have hi := next_lt ks _ i ks' hnext
    simp only [Lookup.len, List.length_cons, List.length_nil] at hi
    have hget : elems[i]? = some elems[i] := List.getElem?_eq_getElem (by omega)
    have hi' : i = 0 ∨ i = 1 ∨ i = 2 := by omega
    rcases hi' with rfl | rfl | rfl
    · simp only [applyAt, hget, goFld_plain io .mutAny elems _ ks' _ hget]
      refine ⟨_, _, rfl, ?_, by rw [(h0 _ _).2]⟩
      rw [anyView_incr, ← (h0 _ _).1]
      cases (c0 elems[0] ks').1 with
      | ok u => cases u; rfl
      | error e => simp [anyOfGen, Except.mapError, increment_tie]
    · simp only [applyAt, hget, goFld_plain io .mutAny elems _ ks' _ hget]
      refine ⟨_, _, rfl, ?_, by rw [(h1 _ _).2]⟩
      rw [anyView_incr, ← (h1 _ _).1]
      cases (c1 elems[1] ks').1 with
      | ok u => cases u; rfl
      | error e => simp [anyOfGen, Except.mapError, increment_tie]
    · simp only [applyAt, hget, goFld_plain io .mutAny elems _ ks' _ hget]
      refine ⟨_, _, rfl, ?_, by rw [(h2 _ _).2]⟩
      rw [anyView_incr, ← (h2 _ _).1]
      cases (c2 elems[2] ks').1 with
      | ok u => cases u; rfl
      | error e => simp [anyOfGen, Except.mapError, increment_tie]

theorem tuple4_ser_tie (io : Io) (elems : List Tree) (hlen : elems.length = 4) (ks : KeySrc)
    (hnp : ∀ s, ks.next (.numbered 4) ≠ .error (.panic s))
    (c0 c1 c2 c3 : Tree → KeySrc → Except (Error Unit) Nat)
    (h0 : ∀ t ks, resOfGen (c0 t ks) = (t.walk io .ser ks).res) (h1 : ∀ t ks, resOfGen (c1 t ks) = (t.walk io .ser ks).res) (h2 : ∀ t ks, resOfGen (c2 t ks) = (t.walk io .ser ks).res) (h3 : ∀ t ks, resOfGen (c3 t ks) = (t.walk io .ser ks).res) :
    ∃ r, Impls.tuple4.serialize_by_key keysNextM c0 c1 c2 c3 elems ks = .val r ∧
      resOfGen r = (Tree.walk io .ser (.node false none (.numbered 4) (plainFields elems)) ks).res := by
  simp only [Impls.tuple4.serialize_by_key, Impls.KeyLookup.numbered, nonZeroNew, keysNextM, lookupOfGen, Tree.walk]
  try simp +decide only [↓reduceIte]
  cases hnext : ks.next (.numbered 4) with
  | error e =>
    cases e with
    | panic s => exact absurd hnext (hnp s)
    | _ => exact ⟨_, rfl, by simp [resOfGen, anyOfGen, anyView, travToGen, travOfGen]⟩
  | ok p =>
    obtain ⟨i, ks'⟩ := p
    have hi := next_lt ks _ i ks' hnext
    simp only [Lookup.len, List.length_cons, List.length_nil] at hi
    have hget : elems[i]? = some elems[i] := List.getElem?_eq_getElem (by omega)
    have hi' : i = 0 ∨ i = 1 ∨ i = 2 ∨ i = 3 := by omega
    rcases hi' with rfl | rfl | rfl | rfl
    · simp only [applyAtR, hget, goFld_plain io .ser elems _ ks' _ hget]
      exact ⟨_, rfl, by rw [resOfGen_incr, h0]⟩
    · simp only [applyAtR, hget, goFld_plain io .ser elems _ ks' _ hget]
      exact ⟨_, rfl, by rw [resOfGen_incr, h1]⟩
    · simp only [applyAtR, hget, goFld_plain io .ser elems _ ks' _ hget]
      exact ⟨_, rfl, by rw [resOfGen_incr, h2]⟩
    · simp only [applyAtR, hget, goFld_plain io .ser elems _ ks' _ hget]
      exact ⟨_, rfl, by rw [resOfGen_incr, h3]⟩

theorem tuple4_de_tie (io : Io) (elems : List Tree) (hlen : elems.length = 4) (ks : KeySrc)
    (hnp : ∀ s, ks.next (.numbered 4) ≠ .error (.panic s))
    (c0 c1 c2 c3 : Tree → KeySrc → Except (Error Unit) Nat × Tree)
    (h0 : ∀ t ks, resOfGen (c0 t ks).1 = (t.walk io .de ks).res ∧ (c0 t ks).2 = (t.walk io .de ks).tree) (h1 : ∀ t ks, resOfGen (c1 t ks).1 = (t.walk io .de ks).res ∧ (c1 t ks).2 = (t.walk io .de ks).tree) (h2 : ∀ t ks, resOfGen (c2 t ks).1 = (t.walk io .de ks).res ∧ (c2 t ks).2 = (t.walk io .de ks).tree) (h3 : ∀ t ks, resOfGen (c3 t ks).1 = (t.walk io .de ks).res ∧ (c3 t ks).2 = (t.walk io .de ks).tree) :
    ∃ es r, Impls.tuple4.deserialize_by_key keysNextM c0 c1 c2 c3 elems ks = .val (es, r) ∧
      resOfGen r = (Tree.walk io .de (.node false none (.numbered 4) (plainFields elems)) ks).res ∧
      Tree.node false none (.numbered 4) (plainFields es) = (Tree.walk io .de (.node false none (.numbered 4) (plainFields elems)) ks).tree := by
  simp only [Impls.tuple4.deserialize_by_key, Impls.KeyLookup.numbered, nonZeroNew, keysNextM, lookupOfGen, Tree.walk]
  try simp +decide only [↓reduceIte]
  cases hnext : ks.next (.numbered 4) with
  | error e =>
    cases e with
    | panic s => exact absurd hnext (hnp s)
    | _ => exact ⟨_, _, rfl, by simp [resOfGen, anyOfGen, anyView, travToGen, travOfGen], rfl⟩
  | ok p =>
    obtain ⟨i, ks'⟩ := p
    have hi := next_lt ks _ i ks' hnext
    simp only [Lookup.len, List.length_cons, List.length_nil] at hi
    have hget : elems[i]? = some elems[i] := List.getElem?_eq_getElem (by omega)
    have hi' : i = 0 ∨ i = 1 ∨ i = 2 ∨ i = 3 := by omega
    rcases hi' with rfl | rfl | rfl | rfl
    · simp only [applyAt, hget, goFld_plain io .de elems _ ks' _ hget]
      exact ⟨_, _, rfl, by rw [resOfGen_incr, (h0 _ _).1], by rw [(h0 _ _).2]⟩
    · simp only [applyAt, hget, goFld_plain io .de elems _ ks' _ hget]
      exact ⟨_, _, rfl, by rw [resOfGen_incr, (h1 _ _).1], by rw [(h1 _ _).2]⟩
    · simp only [applyAt, hget, goFld_plain io .de elems _ ks' _ hget]
      exact ⟨_, _, rfl, by rw [resOfGen_incr, (h2 _ _).1], by rw [(h2 _ _).2]⟩
    · simp only [applyAt, hget, goFld_plain io .de elems _ ks' _ hget]
      exact ⟨_, _, rfl, by rw [resOfGen_incr, (h3 _ _).1], by rw [(h3 _ _).2]⟩

theorem tuple4_ref_tie (io : Io) (elems : List Tree) (hlen : elems.length = 4) (ks : KeySrc)
    (hnp : ∀ s, ks.next (.numbered 4) ≠ .error (.panic s))
    (c0 c1 c2 c3 : Tree → KeySrc → Except Traversal Unit)
    (h0 : ∀ t ks, anyOfGen (c0 t ks) = anyView (t.walk io .refAny ks).res) (h1 : ∀ t ks, anyOfGen (c1 t ks) = anyView (t.walk io .refAny ks).res) (h2 : ∀ t ks, anyOfGen (c2 t ks) = anyView (t.walk io .refAny ks).res) (h3 : ∀ t ks, anyOfGen (c3 t ks) = anyView (t.walk io .refAny ks).res) :
    ∃ r, Impls.tuple4.ref_any_by_key keysNextM c0 c1 c2 c3 elems ks = .val r ∧
      anyOfGen r = anyView (Tree.walk io .refAny (.node false none (.numbered 4) (plainFields elems)) ks).res := by
  simp only [Impls.tuple4.ref_any_by_key, Impls.KeyLookup.numbered, nonZeroNew, keysNextM, lookupOfGen, Tree.walk]
  try simp +decide only [↓reduceIte]
  cases hnext : ks.next (.numbered 4) with
  | error e =>
    cases e with
    | panic s => exact absurd hnext (hnp s)
    | _ => exact ⟨_, rfl, by simp [resOfGen, anyOfGen, anyView, travToGen, travOfGen]⟩
  | ok p =>
    obtain ⟨i, ks'⟩ := p
    have hi := next_lt ks _ i ks' hnext
    simp only [Lookup.len, List.length_cons, List.length_nil] at hi
    have hget : elems[i]? = some elems[i] := List.getElem?_eq_getElem (by omega)
    have hi' : i = 0 ∨ i = 1 ∨ i = 2 ∨ i = 3 := by omega
    rcases hi' with rfl | rfl | rfl | rfl
    · simp only [applyAtR, hget, goFld_plain io .refAny elems _ ks' _ hget]
      refine ⟨_, rfl, ?_⟩
      rw [anyView_incr, ← h0]
      cases c0 elems[0] ks' with
      | ok u => cases u; rfl
      | error e => simp [anyOfGen, Except.mapError, increment_tie]
    · simp only [applyAtR, hget, goFld_plain io .refAny elems _ ks' _ hget]
      refine ⟨_, rfl, ?_⟩
      rw [anyView_incr, ← h1]
      cases c1 elems[1] ks' with
      | ok u => cases u; rfl
      | error e => simp [anyOfGen, Except.mapError, increment_tie]
    · simp only [applyAtR, hget, goFld_plain io .refAny elems _ ks' _ hget]
      refine ⟨_, rfl, ?_⟩
      rw [anyView_incr, ← h2]
      cases c2 elems[2] ks' with
      | ok u => cases u; rfl
      | error e => simp [anyOfGen, Except.mapError, increment_tie]
    · simp only [applyAtR, hget, goFld_plain io .refAny elems _ ks' _ hget]
      refine ⟨_, rfl, ?_⟩
      rw [anyView_incr, ← h3]
      cases c3 elems[3] ks' with
      | ok u => cases u; rfl
      | error e => simp [anyOfGen, Except.mapError, increment_tie]

theorem tuple4_mut_tie (io : Io) (elems : List Tree) (hlen : elems.length = 4) (ks : KeySrc)
    (hnp : ∀ s, ks.next (.numbered 4) ≠ .error (.panic s))
    (c0 c1 c2 c3 : Tree → KeySrc → Except Traversal Unit × Tree)
    (h0 : ∀ t ks, anyOfGen (c0 t ks).1 = anyView (t.walk io .mutAny ks).res ∧ (c0 t ks).2 = (t.walk io .mutAny ks).tree) (h1 : ∀ t ks, anyOfGen (c1 t ks).1 = anyView (t.walk io .mutAny ks).res ∧ (c1 t ks).2 = (t.walk io .mutAny ks).tree) (h2 : ∀ t ks, anyOfGen (c2 t ks).1 = anyView (t.walk io .mutAny ks).res ∧ (c2 t ks).2 = (t.walk io .mutAny ks).tree) (h3 : ∀ t ks, anyOfGen (c3 t ks).1 = anyView (t.walk io .mutAny ks).res ∧ (c3 t ks).2 = (t.walk io .mutAny ks).tree) :
    ∃ es r, Impls.tuple4.mut_any_by_key keysNextM c0 c1 c2 c3 elems ks = .val (es, r) ∧
      anyOfGen r = anyView (Tree.walk io .mutAny (.node false none (.numbered 4) (plainFields elems)) ks).res ∧
      Tree.node false none (.numbered 4) (plainFields es) = (Tree.walk io .mutAny (.node false none (.numbered 4) (plainFields elems)) ks).tree := by
  simp only [Impls.tuple4.mut_any_by_key, Impls.KeyLookup.numbered, nonZeroNew, keysNextM, lookupOfGen, Tree.walk]
  try simp +decide only [↓reduceIte]
  cases hnext : ks.next (.numbered 4) with
  | error e =>
    cases e with
    | panic s => exact absurd hnext (hnp s)
    | _ => exact ⟨_, _, rfl, by simp [resOfGen, anyOfGen, anyView, travToGen, travOfGen], rfl⟩
  | ok p =>
    obtain ⟨i, ks'⟩ := p
    have hi := next_lt ks _ i ks' hnext
    simp only [Lookup.len, List.length_cons, List.length_nil] at hi
    have hget : elems[i]? = some elems[i] := List.getElem?_eq_getElem (by omega)
    have hi' : i = 0 ∨ i = 1 ∨ i = 2 ∨ i = 3 := by omega
    rcases hi' with rfl | rfl | rfl | rfl
    · simp only [applyAt, hget, goFld_plain io .mutAny elems _ ks' _ hget]
      refine ⟨_, _, rfl, ?_, by rw [(h0 _ _).2]⟩
      rw [anyView_incr, ← (h0 _ _).1]
      cases (c0 elems[0] ks').1 with
      | ok u => cases u; rfl
      | error e => simp [anyOfGen, Except.mapError, increment_tie]
    · simp only [applyAt, hget, goFld_plain io .mutAny elems _ ks' _ hget]
      refine ⟨_, _, rfl, ?_, by rw [(h1 _ _).2]⟩
      rw [anyView_incr, ← (h1 _ _).1]
      cases (c1 elems[1] ks').1 with
      | ok u => cases u; rfl
      | error e => simp [anyOfGen, Except.mapError, increment_tie]
    · simp only [applyAt, hget, goFld_plain io .mutAny elems _ ks' _ hget]
      refine ⟨_, _, rfl, ?_, by rw [(h2 _ _).2]⟩
      rw [anyView_incr, ← (h2 _ _).1]
      cases (c2 elems[2] ks').1 with
      | ok u => cases u; rfl
      | error e => simp [anyOfGen, Except.mapError, increment_tie]
    · simp only [applyAt, hget, goFld_plain io .mutAny elems _ ks' _ hget]
      refine ⟨_, _, rfl, ?_, by rw [(h3 _ _).2]⟩
      rw [anyView_incr, ← (h3 _ _).1]
      cases (c3 elems[3] ks').1 with
      | ok u => cases u; rfl
      | error e => simp [anyOfGen, Except.mapError, increment_tie]

theorem tuple5_ser_tie (io : Io) (elems : List Tree) (hlen : elems.length = 5) (ks : KeySrc)
    (hnp : ∀ s, ks.next (.numbered 5) ≠ .error (.panic s))
    (c0 c1 c2 c3 c4 : Tree → KeySrc → Except (Error Unit) Nat)
    (h0 : ∀ t ks, resOfGen (c0 t ks) = (t.walk io .ser ks).res) (h1 : ∀ t ks, resOfGen (c1 t ks) = (t.walk io .ser ks).res) (h2 : ∀ t ks, resOfGen (c2 t ks) = (t.walk io .ser ks).res) (h3 : ∀ t ks, resOfGen (c3 t ks) = (t.walk io .ser ks).res) (h4 : ∀ t ks, resOfGen (c4 t ks) = (t.walk io .ser ks).res) :
    ∃ r, Impls.tuple5.serialize_by_key keysNextM c0 c1 c2 c3 c4 elems ks = .val r ∧
      resOfGen r = (Tree.walk io .ser (.node false none (.numbered 5) (plainFields elems)) ks).res := by
  simp only [Impls.tuple5.serialize_by_key, Impls.KeyLookup.numbered, nonZeroNew, keysNextM, lookupOfGen, Tree.walk]
  try simp +decide only [↓reduceIte]
  cases hnext : ks.next (.numbered 5) with
  | error e =>
    cases e with
    | panic s => exact absurd hnext (hnp s)
    | _ => exact ⟨_, rfl, by simp [resOfGen, anyOfGen, anyView, travToGen, travOfGen]⟩
  | ok p =>
    obtain ⟨i, ks'⟩ := p
    have hi := next_lt ks _ i ks' hnext
    simp only [Lookup.len, List.length_cons, List.length_nil] at hi
    have hget : elems[i]? = some elems[i] := List.getElem?_eq_getElem (by omega)
    have hi' : i = 0 ∨ i = 1 ∨ i = 2 ∨ i = 3 ∨ i = 4 := by omega
    rcases hi' with rfl | rfl | rfl | rfl | rfl
    · simp only [applyAtR, hget, goFld_plain io .ser elems _ ks' _ hget]
      exact ⟨_, rfl, by rw [resOfGen_incr, h0]⟩
    · simp only [applyAtR, hget, goFld_plain io .ser elems _ ks' _ hget]
      exact ⟨_, rfl, by rw [resOfGen_incr, h1]⟩
    · simp only [applyAtR, hget, goFld_plain io .ser elems _ ks' _ hget]
      exact ⟨_, rfl, by rw [resOfGen_incr, h2]⟩
    · simp only [applyAtR, hget, goFld_plain io .ser elems _ ks' _ hget]
      exact ⟨_, rfl, by rw [resOfGen_incr, h3]⟩
    · simp only [applyAtR, hget, goFld_plain io .ser elems _ ks' _ hget]
      exact ⟨_, rfl, by rw [resOfGen_incr, h4]⟩

theorem tuple5_de_tie (io : Io) (elems : List Tree) (hlen : elems.length = 5) (ks : KeySrc)
    (hnp : ∀ s, ks.next (.numbered 5) ≠ .error (.panic s))
    (c0 c1 c2 c3 c4 : Tree → KeySrc → Except (Error Unit) Nat × Tree)
    (h0 : ∀ t ks, resOfGen (c0 t ks).1 = (t.walk io .de ks).res ∧ (c0 t ks).2 = (t.walk io .de ks).tree) (h1 : ∀ t ks, resOfGen (c1 t ks).1 = (t.walk io .de ks).res ∧ (c1 t ks).2 = (t.walk io .de ks).tree) (h2 : ∀ t ks, resOfGen (c2 t ks).1 = (t.walk io .de ks).res ∧ (c2 t ks).2 = (t.walk io .de ks).tree) (h3 : ∀ t ks, resOfGen (c3 t ks).1 = (t.walk io .de ks).res ∧ (c3 t ks).2 = (t.walk io .de ks).tree) (h4 : ∀ t ks, resOfGen (c4 t ks).1 = (t.walk io .de ks).res ∧ (c4 t ks).2 = (t.walk io .de ks).tree) :
    ∃ es r, Impls.tuple5.deserialize_by_key keysNextM c0 c1 c2 c3 c4 elems ks = .val (es, r) ∧
      resOfGen r = (Tree.walk io .de (.node false none (.numbered 5) (plainFields elems)) ks).res ∧
      Tree.node false none (.numbered 5) (plainFields es) = (Tree.walk io .de (.node false none (.numbered 5) (plainFields elems)) ks).tree := by
  simp only [Impls.tuple5.deserialize_by_key, Impls.KeyLookup.numbered, nonZeroNew, keysNextM, lookupOfGen, Tree.walk]
  try simp +decide only [↓reduceIte]
  cases hnext : ks.next (.numbered 5) with
  | error e =>
    cases e with
    | panic s => exact absurd hnext (hnp s)
    | _ => exact ⟨_, _, rfl, by simp [resOfGen, anyOfGen, anyView, travToGen, travOfGen], rfl⟩
  | ok p =>
    obtain ⟨i, ks'⟩ := p
    have hi := next_lt ks _ i ks' hnext
    simp only [Lookup.len, List.length_cons, List.length_nil] at hi
    have hget : elems[i]? = some elems[i] := List.getElem?_eq_getElem (by omega)
    have hi' : i = 0 ∨ i = 1 ∨ i = 2 ∨ i = 3 ∨ i = 4 := by omega
    rcases hi' with rfl | rfl | rfl | rfl | rfl
    · simp only [applyAt, hget, goFld_plain io .de elems _ ks' _ hget]
      exact ⟨_, _, rfl, by rw [resOfGen_incr, (h0 _ _).1], by rw [(h0 _ _).2]⟩
    · simp only [applyAt, hget, goFld_plain io .de elems _ ks' _ hget]
      exact ⟨_, _, rfl, by rw [resOfGen_incr, (h1 _ _).1], by rw [(h1 _ _).2]⟩
    · simp only [applyAt, hget, goFld_plain io .de elems _ ks' _ hget]
      exact ⟨_, _, rfl, by rw [resOfGen_incr, (h2 _ _).1], by rw [(h2 _ _).2]⟩
    · simp only [applyAt, hget, goFld_plain io .de elems _ ks' _ hget]
      exact ⟨_, _, rfl, by rw [resOfGen_incr, (h3 _ _).1], by rw [(h3 _ _).2]⟩
    · simp only [applyAt, hget, goFld_plain io .de elems _ ks' _ hget]
      exact ⟨_, _, rfl, by rw [resOfGen_incr, (h4 _ _).1], by rw [(h4 _ _).2]⟩

theorem tuple5_ref_tie (io : Io) (elems : List Tree) (hlen : elems.length = 5) (ks : KeySrc)
    (hnp : ∀ s, ks.next (.numbered 5) ≠ .error (.panic s))
    (c0 c1 c2 c3 c4 : Tree → KeySrc → Except Traversal Unit)
    (h0 : ∀ t ks, anyOfGen (c0 t ks) = anyView (t.walk io .refAny ks).res) (h1 : ∀ t ks, anyOfGen (c1 t ks) = anyView (t.walk io .refAny ks).res) (h2 : ∀ t ks, anyOfGen (c2 t ks) = anyView (t.walk io .refAny ks).res) (h3 : ∀ t ks, anyOfGen (c3 t ks) = anyView (t.walk io .refAny ks).res) (h4 : ∀ t ks, anyOfGen (c4 t ks) = anyView (t.walk io .refAny ks).res) :
    ∃ r, Impls.tuple5.ref_any_by_key keysNextM c0 c1 c2 c3 c4 elems ks = .val r ∧
      anyOfGen r = anyView (Tree.walk io .refAny (.node false none (.numbered 5) (plainFields elems)) ks).res := by
  simp only [Impls.tuple5.ref_any_by_key, Impls.KeyLookup.numbered, nonZeroNew, keysNextM, lookupOfGen, Tree.walk]
  try simp +decide only [↓reduceIte]
  cases hnext : ks.next (.numbered 5) with
  | error e =>
    cases e with
    | panic s => exact absurd hnext (hnp s)
    | _ => exact ⟨_, rfl, by simp [resOfGen, anyOfGen, anyView, travToGen, travOfGen]⟩
  | ok p =>
    obtain ⟨i, ks'⟩ := p
    have hi := next_lt ks _ i ks' hnext
    simp only [Lookup.len, List.length_cons, List.length_nil] at hi
    have hget : elems[i]? = some elems[i] := List.getElem?_eq_getElem (by omega)
    have hi' : i = 0 ∨ i = 1 ∨ i = 2 ∨ i = 3 ∨ i = 4 := by omega
    rcases hi' with rfl | rfl | rfl | rfl | rfl
    · simp only [applyAtR, hget, goFld_plain io .refAny elems _ ks' _ hget]
      refine ⟨_, rfl, ?_⟩
      rw [anyView_incr, ← h0]
      cases c0 elems[0] ks' with
      | ok u => cases u; rfl
      | error e => simp [anyOfGen, Except.mapError, increment_tie]
    · simp only [applyAtR, hget, goFld_plain io .refAny elems _ ks' _ hget]
      refine ⟨_, rfl, ?_⟩
      rw [anyView_incr, ← h1]
      cases c1 elems[1] ks' with
      | ok u => cases u; rfl
      | error e => simp [anyOfGen, Except.mapError, increment_tie]
    · simp only [applyAtR, hget, goFld_plain io .refAny elems _ ks' _ hget]
      refine ⟨_, rfl, ?_⟩
      rw [anyView_incr, ← h2]
      cases c2 elems[2] ks' with
      | ok u => cases u; rfl
      | error e => simp [anyOfGen, Except.mapError, increment_tie]
    · simp only [applyAtR, hget, goFld_plain io .refAny elems _ ks' _ hget]
      refine ⟨_, rfl, ?_⟩
      rw [anyView_incr, ← h3]
      cases c3 elems[3] ks' with
      | ok u => cases u; rfl
      | error e => simp [anyOfGen, Except.mapError, increment_tie]
    · simp only [applyAtR, hget, goFld_plain io .refAny elems _ ks' _ hget]
      refine ⟨_, rfl, ?_⟩
      rw [anyView_incr, ← h4]
      cases c4 elems[4] ks' with
      | ok u => cases u; rfl
      | error e => simp [anyOfGen, Except.mapError, increment_tie]

theorem tuple5_mut_tie (io : Io) (elems : List Tree) (hlen : elems.length = 5) (ks : KeySrc)
    (hnp : ∀ s, ks.next (.numbered 5) ≠ .error (.panic s))
    (c0 c1 c2 c3 c4 : Tree → KeySrc → Except Traversal Unit × Tree)
    (h0 : ∀ t ks, anyOfGen (c0 t ks).1 = anyView (t.walk io .mutAny ks).res ∧ (c0 t ks).2 = (t.walk io .mutAny ks).tree) (h1 : ∀ t ks, anyOfGen (c1 t ks).1 = anyView (t.walk io .mutAny ks).res ∧ (c1 t ks).2 = (t.walk io .mutAny ks).tree) (h2 : ∀ t ks, anyOfGen (c2 t ks).1 = anyView (t.walk io .mutAny ks).res ∧ (c2 t ks).2 = (t.walk io .mutAny ks).tree) (h3 : ∀ t ks, anyOfGen (c3 t ks).1 = anyView (t.walk io .mutAny ks).res ∧ (c3 t ks).2 = (t.walk io .mutAny ks).tree) (h4 : ∀ t ks, anyOfGen (c4 t ks).1 = anyView (t.walk io .mutAny ks).res ∧ (c4 t ks).2 = (t.walk io .mutAny ks).tree) :
    ∃ es r, Impls.tuple5.mut_any_by_key keysNextM c0 c1 c2 c3 c4 elems ks = .val (es, r) ∧
      anyOfGen r = anyView (Tree.walk io .mutAny (.node false none (.numbered 5) (plainFields elems)) ks).res ∧
      Tree.node false none (.numbered 5) (plainFields es) = (Tree.walk io .mutAny (.node false none (.numbered 5) (plainFields elems)) ks).tree := by
  simp only [Impls.tuple5.mut_any_by_key, Impls.KeyLookup.numbered, nonZeroNew, keysNextM, lookupOfGen, Tree.walk]
  try simp +decide only [↓reduceIte]
  cases hnext : ks.next (.numbered 5) with
  | error e =>
    cases e with
    | panic s => exact absurd hnext (hnp s)
    | _ => exact ⟨_, _, rfl, by simp [resOfGen, anyOfGen, anyView, travToGen, travOfGen], rfl⟩
  | ok p =>
    obtain ⟨i, ks'⟩ := p
    have hi := next_lt ks _ i ks' hnext
    simp only [Lookup.len, List.length_cons, List.length_nil] at hi
    have hget : elems[i]? = some elems[i] := List.getElem?_eq_getElem (by omega)
    have hi' : i = 0 ∨ i = 1 ∨ i = 2 ∨ i = 3 ∨ i = 4 := by omega
    rcases hi' with rfl | rfl | rfl | rfl | rfl
    · simp only [applyAt, hget, goFld_plain io .mutAny elems _ ks' _ hget]
      refine ⟨_, _, rfl, ?_, by rw [(h0 _ _).2]⟩
      rw [anyView_incr, ← (h0 _ _).1]
      cases (c0 elems[0] ks').1 with
      | ok u => cases u; rfl
      | error e => simp [anyOfGen, Except.mapError, increment_tie]
    · simp only [applyAt, hget, goFld_plain io .mutAny elems _ ks' _ hget]
      refine ⟨_, _, rfl, ?_, by rw [(h1 _ _).2]⟩
      rw [anyView_incr, ← (h1 _ _).1]
      cases (c1 elems[1] ks').1 with
      | ok u => cases u; rfl
      | error e => simp [anyOfGen, Except.mapError, increment_tie]
    · simp only [applyAt, hget, goFld_plain io .mutAny elems _ ks' _ hget]
      refine ⟨_, _, rfl, ?_, by rw [(h2 _ _).2]⟩
      rw [anyView_incr, ← (h2 _ _).1]
      cases (c2 elems[2] ks').1 with
      | ok u => cases u; rfl
      | error e => simp [anyOfGen, Except.mapError, increment_tie]
    · simp only [applyAt, hget, goFld_plain io .mutAny elems _ ks' _ hget]
      refine ⟨_, _, rfl, ?_, by rw [(h3 _ _).2]⟩
      rw [anyView_incr, ← (h3 _ _).1]
      cases (c3 elems[3] ks').1 with
      | ok u => cases u; rfl
      | error e => simp [anyOfGen, Except.mapError, increment_tie]
    · simp only [applyAt, hget, goFld_plain io .mutAny elems _ ks' _ hget]
      refine ⟨_, _, rfl, ?_, by rw [(h4 _ _).2]⟩
      rw [anyView_incr, ← (h4 _ _).1]
      cases (c4 elems[4] ks').1 with
      | ok u => cases u; rfl
      | error e => simp [anyOfGen, Except.mapError, increment_tie]

theorem tuple6_ser_tie (io : Io) (elems : List Tree) (hlen : elems.length = 6) (ks : KeySrc)
    (hnp : ∀ s, ks.next (.numbered 6) ≠ .error (.panic s))
    (c0 c1 c2 c3 c4 c5 : Tree → KeySrc → Except (Error Unit) Nat)
    (h0 : ∀ t ks, resOfGen (c0 t ks) = (t.walk io .ser ks).res) (h1 : ∀ t ks, resOfGen (c1 t ks) = (t.walk io .ser ks).res) (h2 : ∀ t ks, resOfGen (c2 t ks) = (t.walk io .ser ks).res) (h3 : ∀ t ks, resOfGen (c3 t ks) = (t.walk io .ser ks).res) (h4 : ∀ t ks, resOfGen (c4 t ks) = (t.walk io .ser ks).res) (h5 : ∀ t ks, resOfGen (c5 t ks) = (t.walk io .ser ks).res) :
    ∃ r, Impls.tuple6.serialize_by_key keysNextM c0 c1 c2 c3 c4 c5 elems ks = .val r ∧
      resOfGen r = (Tree.walk io .ser (.node false none (.numbered 6) (plainFields elems)) ks).res := by
  simp only [Impls.tuple6.serialize_by_key, Impls.KeyLookup.numbered, nonZeroNew, keysNextM, lookupOfGen, Tree.walk]
  try simp +decide only [↓reduceIte]
  cases hnext : ks.next (.numbered 6) with
  | error e =>
    cases e with
    | panic s => exact absurd hnext (hnp s)
    | _ => exact ⟨_, rfl, by simp [resOfGen, anyOfGen, anyView, travToGen, travOfGen]⟩
  | ok p =>
    obtain ⟨i, ks'⟩ := p
    have hi := next_lt ks _ i ks' hnext
    simp only [Lookup.len, List.length_cons, List.length_nil] at hi
    have hget : elems[i]? = some elems[i] := List.getElem?_eq_getElem (by omega)
    have hi' : i = 0 ∨ i = 1 ∨ i = 2 ∨ i = 3 ∨ i = 4 ∨ i = 5 := by omega
    rcases hi' with rfl | rfl | rfl | rfl | rfl | rfl
    · simp only [applyAtR, hget, goFld_plain io .ser elems _ ks' _ hget]
      exact ⟨_, rfl, by rw [resOfGen_incr, h0]⟩
    · simp only [applyAtR, hget, goFld_plain io .ser elems _ ks' _ hget]
      exact ⟨_, rfl, by rw [resOfGen_incr, h1]⟩
    · simp only [applyAtR, hget, goFld_plain io .ser elems _ ks' _ hget]
      exact ⟨_, rfl, by rw [resOfGen_incr, h2]⟩
    · simp only [applyAtR, hget, goFld_plain io .ser elems _ ks' _ hget]
      exact ⟨_, rfl, by rw [resOfGen_incr, h3]⟩
    · simp only [applyAtR, hget, goFld_plain io .ser elems _ ks' _ hget]
      exact ⟨_, rfl, by rw [resOfGen_incr, h4]⟩
    · simp only [applyAtR, hget, goFld_plain io .ser elems _ ks' _ hget]
      exact ⟨_, rfl, by rw [resOfGen_incr, h5]⟩

theorem tuple6_de_tie (io : Io) (elems : List Tree) (hlen : elems.length = 6) (ks : KeySrc)
    (hnp : ∀ s, ks.next (.numbered 6) ≠ .error (.panic s))
    (c0 c1 c2 c3 c4 c5 : Tree → KeySrc → Except (Error Unit) Nat × Tree)
    (h0 : ∀ t ks, resOfGen (c0 t ks).1 = (t.walk io .de ks).res ∧ (c0 t ks).2 = (t.walk io .de ks).tree) (h1 : ∀ t ks, resOfGen (c1 t ks).1 = (t.walk io .de ks).res ∧ (c1 t ks).2 = (t.walk io .de ks).tree) (h2 : ∀ t ks, resOfGen (c2 t ks).1 = (t.walk io .de ks).res ∧ (c2 t ks).2 = (t.walk io .de ks).tree) (h3 : ∀ t ks, resOfGen (c3 t ks).1 = (t.walk io .de ks).res ∧ (c3 t ks).2 = (t.walk io .de ks).tree) (h4 : ∀ t ks, resOfGen (c4 t ks).1 = (t.walk io .de ks).res ∧ (c4 t ks).2 = (t.walk io .de ks).tree) (h5 : ∀ t ks, resOfGen (c5 t ks).1 = (t.walk io .de ks).res ∧ (c5 t ks).2 = (t.walk io .de ks).tree) :
    ∃ es r, Impls.tuple6.deserialize_by_key keysNextM c0 c1 c2 c3 c4 c5 elems ks = .val (es, r) ∧
      resOfGen r = (Tree.walk io .de (.node false none (.numbered 6) (plainFields elems)) ks).res ∧
      Tree.node false none (.numbered 6) (plainFields es) = (Tree.walk io .de (.node false none (.numbered 6) (plainFields elems)) ks).tree := by
  simp only [Impls.tuple6.deserialize_by_key, Impls.KeyLookup.numbered, nonZeroNew, keysNextM, lookupOfGen, Tree.walk]
  try simp +decide only [↓reduceIte]
  cases hnext : ks.next (.numbered 6) with
  | error e =>
    cases e with
    | panic s => exact absurd hnext (hnp s)
    | _ => exact ⟨_, _, rfl, by simp [resOfGen, anyOfGen, anyView, travToGen, travOfGen], rfl⟩
  | ok p =>
    obtain ⟨i, ks'⟩ := p
    have hi := next_lt ks _ i ks' hnext
    simp only [Lookup.len, List.length_cons, List.length_nil] at hi
    have hget : elems[i]? = some elems[i] := List.getElem?_eq_getElem (by omega)
    have hi' : i = 0 ∨ i = 1 ∨ i = 2 ∨ i = 3 ∨ i = 4 ∨ i = 5 := by omega
    rcases hi' with rfl | rfl | rfl | rfl | rfl | rfl
    · simp only [applyAt, hget, goFld_plain io .de elems _ ks' _ hget]
      exact ⟨_, _, rfl, by rw [resOfGen_incr, (h0 _ _).1], by rw [(h0 _ _).2]⟩
    · simp only [applyAt, hget, goFld_plain io .de elems _ ks' _ hget]
      exact ⟨_, _, rfl, by rw [resOfGen_incr, (h1 _ _).1], by rw [(h1 _ _).2]⟩
    · simp only [applyAt, hget, goFld_plain io .de elems _ ks' _ hget]
      exact ⟨_, _, rfl, by rw [resOfGen_incr, (h2 _ _).1], by rw [(h2 _ _).2]⟩
    · simp only [applyAt, hget, goFld_plain io .de elems _ ks' _ hget]
      exact ⟨_, _, rfl, by rw [resOfGen_incr, (h3 _ _).1], by rw [(h3 _ _).2]⟩
    · simp only [applyAt, hget, goFld_plain io .de elems _ ks' _ hget]
      exact ⟨_, _, rfl, by rw [resOfGen_incr, (h4 _ _).1], by rw [(h4 _ _).2]⟩
    · simp only [applyAt, hget, goFld_plain io .de elems _ ks' _ hget]
      exact ⟨_, _, rfl, by rw [resOfGen_incr, (h5 _ _).1], by rw [(h5 _ _).2]⟩

theorem tuple6_ref_tie (io : Io) (elems : List Tree) (hlen : elems.length = 6) (ks : KeySrc)
    (hnp : ∀ s, ks.next (.numbered 6) ≠ .error (.panic s))
    (c0 c1 c2 c3 c4 c5 : Tree → KeySrc → Except Traversal Unit)
    (h0 : ∀ t ks, anyOfGen (c0 t ks) = anyView (t.walk io .refAny ks).res) (h1 : ∀ t ks, anyOfGen (c1 t ks) = anyView (t.walk io .refAny ks).res) (h2 : ∀ t ks, anyOfGen (c2 t ks) = anyView (t.walk io .refAny ks).res) (h3 : ∀ t ks, anyOfGen (c3 t ks) = anyView (t.walk io .refAny ks).res) (h4 : ∀ t ks, anyOfGen (c4 t ks) = anyView (t.walk io .refAny ks).res) (h5 : ∀ t ks, anyOfGen (c5 t ks) = anyView (t.walk io .refAny ks).res) :
    ∃ r, Impls.tuple6.ref_any_by_key keysNextM c0 c1 c2 c3 c4 c5 elems ks = .val r ∧
      anyOfGen r = anyView (Tree.walk io .refAny (.node false none (.numbered 6) (plainFields elems)) ks).res := by
  simp only [Impls.tuple6.ref_any_by_key, Impls.KeyLookup.numbered, nonZeroNew, keysNextM, lookupOfGen, Tree.walk]
  try simp +decide only [↓reduceIte]
  cases hnext : ks.next (.numbered 6) with
  | error e =>
    cases e with
    | panic s => exact absurd hnext (hnp s)
    | _ => exact ⟨_, rfl, by simp [resOfGen, anyOfGen, anyView, travToGen, travOfGen]⟩
  | ok p =>
    obtain ⟨i, ks'⟩ := p
    have hi := next_lt ks _ i ks' hnext
    simp only [Lookup.len, List.length_cons, List.length_nil] at hi
    have hget : elems[i]? = some elems[i] := List.getElem?_eq_getElem (by omega)
    have hi' : i = 0 ∨ i = 1 ∨ i = 2 ∨ i = 3 ∨ i = 4 ∨ i = 5 := by omega
    rcases hi' with rfl | rfl | rfl | rfl | rfl | rfl
    · simp only [applyAtR, hget, goFld_plain io .refAny elems _ ks' _ hget]
      refine ⟨_, rfl, ?_⟩
      rw [anyView_incr, ← h0]
      cases c0 elems[0] ks' with
      | ok u => cases u; rfl
      | error e => simp [anyOfGen, Except.mapError, increment_tie]
    · simp only [applyAtR, hget, goFld_plain io .refAny elems _ ks' _ hget]
      refine ⟨_, rfl, ?_⟩
      rw [anyView_incr, ← h1]
      cases c1 elems[1] ks' with
      | ok u => cases u; rfl
      | error e => simp [anyOfGen, Except.mapError, increment_tie]
    · simp only [applyAtR, hget, goFld_plain io .refAny elems _ ks' _ hget]
      refine ⟨_, rfl, ?_⟩
      rw [anyView_incr, ← h2]
      cases c2 elems[2] ks' with
      | ok u => cases u; rfl
      | error e => simp [anyOfGen, Except.mapError, increment_tie]
    · simp only [applyAtR, hget, goFld_plain io .refAny elems _ ks' _ hget]
      refine ⟨_, rfl, ?_⟩
      rw [anyView_incr, ← h3]
      cases c3 elems[3] ks' with
      | ok u => cases u; rfl
      | error e => simp [anyOfGen, Except.mapError, increment_tie]
    · simp only [applyAtR, hget, goFld_plain io .refAny elems _ ks' _ hget]
      refine ⟨_, rfl, ?_⟩
      rw [anyView_incr, ← h4]
      cases c4 elems[4] ks' with
      | ok u => cases u; rfl
      | error e => simp [anyOfGen, Except.mapError, increment_tie]
    · simp only [applyAtR, hget, goFld_plain io .refAny elems _ ks' _ hget]
      refine ⟨_, rfl, ?_⟩
      rw [anyView_incr, ← h5]
      cases c5 elems[5] ks' with
      | ok u => cases u; rfl
      | error e => simp [anyOfGen, Except.mapError, increment_tie]

theorem tuple6_mut_tie (io : Io) (elems : List Tree) (hlen : elems.length = 6) (ks : KeySrc)
    (hnp : ∀ s, ks.next (.numbered 6) ≠ .error (.panic s))
    (c0 c1 c2 c3 c4 c5 : Tree → KeySrc → Except Traversal Unit × Tree)
    (h0 : ∀ t ks, anyOfGen (c0 t ks).1 = anyView (t.walk io .mutAny ks).res ∧ (c0 t ks).2 = (t.walk io .mutAny ks).tree) (h1 : ∀ t ks, anyOfGen (c1 t ks).1 = anyView (t.walk io .mutAny ks).res ∧ (c1 t ks).2 = (t.walk io .mutAny ks).tree) (h2 : ∀ t ks, anyOfGen (c2 t ks).1 = anyView (t.walk io .mutAny ks).res ∧ (c2 t ks).2 = (t.walk io .mutAny ks).tree) (h3 : ∀ t ks, anyOfGen (c3 t ks).1 = anyView (t.walk io .mutAny ks).res ∧ (c3 t ks).2 = (t.walk io .mutAny ks).tree) (h4 : ∀ t ks, anyOfGen (c4 t ks).1 = anyView (t.walk io .mutAny ks).res ∧ (c4 t ks).2 = (t.walk io .mutAny ks).tree) (h5 : ∀ t ks, anyOfGen (c5 t ks).1 = anyView (t.walk io .mutAny ks).res ∧ (c5 t ks).2 = (t.walk io .mutAny ks).tree) :
    ∃ es r, Impls.tuple6.mut_any_by_key keysNextM c0 c1 c2 c3 c4 c5 elems ks = .val (es, r) ∧
      anyOfGen r = anyView (Tree.walk io .mutAny (.node false none (.numbered 6) (plainFields elems)) ks).res ∧
      Tree.node false none (.numbered 6) (plainFields es) = (Tree.walk io .mutAny (.node false none (.numbered 6) (plainFields elems)) ks).tree := by
  simp only [Impls.tuple6.mut_any_by_key, Impls.KeyLookup.numbered, nonZeroNew, keysNextM, lookupOfGen, Tree.walk]
  try simp +decide only [↓reduceIte]
  cases hnext : ks.next (.numbered 6) with
  | error e =>
    cases e with
    | panic s => exact absurd hnext (hnp s)
    | _ => exact ⟨_, _, rfl, by simp [resOfGen, anyOfGen, anyView, travToGen, travOfGen], rfl⟩
  | ok p =>
    obtain ⟨i, ks'⟩ := p
    have hi := next_lt ks _ i ks' hnext
    simp only [Lookup.len, List.length_cons, List.length_nil] at hi
    have hget : elems[i]? = some elems[i] := List.getElem?_eq_getElem (by omega)
    have hi' : i = 0 ∨ i = 1 ∨ i = 2 ∨ i = 3 ∨ i = 4 ∨ i = 5 := by omega
    rcases hi' with rfl | rfl | rfl | rfl | rfl | rfl
    · simp only [applyAt, hget, goFld_plain io .mutAny elems _ ks' _ hget]
      refine ⟨_, _, rfl, ?_, by rw [(h0 _ _).2]⟩
      rw [anyView_incr, ← (h0 _ _).1]
      cases (c0 elems[0] ks').1 with
      | ok u => cases u; rfl
      | error e => simp [anyOfGen, Except.mapError, increment_tie]
    · simp only [applyAt, hget, goFld_plain io .mutAny elems _ ks' _ hget]
      refine ⟨_, _, rfl, ?_, by rw [(h1 _ _).2]⟩
      rw [anyView_incr, ← (h1 _ _).1]
      cases (c1 elems[1] ks').1 with
      | ok u => cases u; rfl
      | error e => simp [anyOfGen, Except.mapError, increment_tie]
    · simp only [applyAt, hget, goFld_plain io .mutAny elems _ ks' _ hget]
      refine ⟨_, _, rfl, ?_, by rw [(h2 _ _).2]⟩
      rw [anyView_incr, ← (h2 _ _).1]
      cases (c2 elems[2] ks').1 with
      | ok u => cases u; rfl
      | error e => simp [anyOfGen, Except.mapError, increment_tie]
    · simp only [applyAt, hget, goFld_plain io .mutAny elems _ ks' _ hget]
      refine ⟨_, _, rfl, ?_, by rw [(h3 _ _).2]⟩
      rw [anyView_incr, ← (h3 _ _).1]
      cases (c3 elems[3] ks').1 with
      | ok u => cases u; rfl
      | error e => simp [anyOfGen, Except.mapError, increment_tie]
    · simp only [applyAt, hget, goFld_plain io .mutAny elems _ ks' _ hget]
      refine ⟨_, _, rfl, ?_, by rw [(h4 _ _).2]⟩
      rw [anyView_incr, ← (h4 _ _).1]
      cases (c4 elems[4] ks').1 with
      | ok u => cases u; rfl
      | error e => simp [anyOfGen, Except.mapError, increment_tie]
    · simp only [applyAt, hget, goFld_plain io .mutAny elems _ ks' _ hget]
      refine ⟨_, _, rfl, ?_, by rw [(h5 _ _).2]⟩
      rw [anyView_incr, ← (h5 _ _).1]
      cases (c5 elems[5] ks').1 with
      | ok u => cases u; rfl
      | error e => simp [anyOfGen, Except.mapError, increment_tie]

theorem tuple7_ser_tie (io : Io) (elems : List Tree) (hlen : elems.length = 7) (ks : KeySrc)
    (hnp : ∀ s, ks.next (.numbered 7) ≠ .error (.panic s))
    (c0 c1 c2 c3 c4 c5 c6 : Tree → KeySrc → Except (Error Unit) Nat)
    (h0 : ∀ t ks, resOfGen (c0 t ks) = (t.walk io .ser ks).res) (h1 : ∀ t ks, resOfGen (c1 t ks) = (t.walk io .ser ks).res) (h2 : ∀ t ks, resOfGen (c2 t ks) = (t.walk io .ser ks).res) (h3 : ∀ t ks, resOfGen (c3 t ks) = (t.walk io .ser ks).res) (h4 : ∀ t ks, resOfGen (c4 t ks) = (t.walk io .ser ks).res) (h5 : ∀ t ks, resOfGen (c5 t ks) = (t.walk io .ser ks).res) (h6 : ∀ t ks, resOfGen (c6 t ks) = (t.walk io .ser ks).res) :
    ∃ r, Impls.tuple7.serialize_by_key keysNextM c0 c1 c2 c3 c4 c5 c6 elems ks = .val r ∧
      resOfGen r = (Tree.walk io .ser (.node false none (.numbered 7) (plainFields elems)) ks).res := by
  simp only [Impls.tuple7.serialize_by_key, Impls.KeyLookup.numbered, nonZeroNew, keysNextM, lookupOfGen, Tree.walk]
  try simp +decide only [↓reduceIte]
  cases hnext : ks.next (.numbered 7) with
  | error e =>
    cases e with
    | panic s => exact absurd hnext (hnp s)
    | _ => exact ⟨_, rfl, by simp [resOfGen, anyOfGen, anyView, travToGen, travOfGen]⟩
  | ok p =>
    obtain ⟨i, ks'⟩ := p
    have hi := next_lt ks _ i ks' hnext
    simp only [Lookup.len, List.length_cons, List.length_nil] at hi
    have hget : elems[i]? = some elems[i] := List.getElem?_eq_getElem (by omega)
    have hi' : i = 0 ∨ i = 1 ∨ i = 2 ∨ i = 3 ∨ i = 4 ∨ i = 5 ∨ i = 6 := by omega
    rcases hi' with rfl | rfl | rfl | rfl | rfl | rfl | rfl
    · simp only [applyAtR, hget, goFld_plain io .ser elems _ ks' _ hget]
      exact ⟨_, rfl, by rw [resOfGen_incr, h0]⟩
    · simp only [applyAtR, hget, goFld_plain io .ser elems _ ks' _ hget]
      exact ⟨_, rfl, by rw [resOfGen_incr, h1]⟩
    · simp only [applyAtR, hget, goFld_plain io .ser elems _ ks' _ hget]
      exact ⟨_, rfl, by rw [resOfGen_incr, h2]⟩
    · simp only [applyAtR, hget, goFld_plain io .ser elems _ ks' _ hget]
      exact ⟨_, rfl, by rw [resOfGen_incr, h3]⟩
    · simp only [applyAtR, hget, goFld_plain io .ser elems _ ks' _ hget]
      exact ⟨_, rfl, by rw [resOfGen_incr, h4]⟩
    · simp only [applyAtR, hget, goFld_plain io .ser elems _ ks' _ hget]
      exact ⟨_, rfl, by rw [resOfGen_incr, h5]⟩
    · simp only [applyAtR, hget, goFld_plain io .ser elems _ ks' _ hget]
      exact ⟨_, rfl, by rw [resOfGen_incr, h6]⟩

theorem tuple7_de_tie (io : Io) (elems : List Tree) (hlen : elems.length = 7) (ks : KeySrc)
    (hnp : ∀ s, ks.next (.numbered 7) ≠ .error (.panic s))
    (c0 c1 c2 c3 c4 c5 c6 : Tree → KeySrc → Except (Error Unit) Nat × Tree)
    (h0 : ∀ t ks, resOfGen (c0 t ks).1 = (t.walk io .de ks).res ∧ (c0 t ks).2 = (t.walk io .de ks).tree) (h1 : ∀ t ks, resOfGen (c1 t ks).1 = (t.walk io .de ks).res ∧ (c1 t ks).2 = (t.walk io .de ks).tree) (h2 : ∀ t ks, resOfGen (c2 t ks).1 = (t.walk io .de ks).res ∧ (c2 t ks).2 = (t.walk io .de ks).tree) (h3 : ∀ t ks, resOfGen (c3 t ks).1 = (t.walk io .de ks).res ∧ (c3 t ks).2 = (t.walk io .de ks).tree) (h4 : ∀ t ks, resOfGen (c4 t ks).1 = (t.walk io .de ks).res ∧ (c4 t ks).2 = (t.walk io .de ks).tree) (h5 : ∀ t ks, resOfGen (c5 t ks).1 = (t.walk io .de ks).res ∧ (c5 t ks).2 = (t.walk io .de ks).tree) (h6 : ∀ t ks, resOfGen (c6 t ks).1 = (t.walk io .de ks).res ∧ (c6 t ks).2 = (t.walk io .de ks).tree) :
    ∃ es r, Impls.tuple7.deserialize_by_key keysNextM c0 c1 c2 c3 c4 c5 c6 elems ks = .val (es, r) ∧
      resOfGen r = (Tree.walk io .de (.node false none (.numbered 7) (plainFields elems)) ks).res ∧
      Tree.node false none (.numbered 7) (plainFields es) = (Tree.walk io .de (.node false none (.numbered 7) (plainFields elems)) ks).tree := by
  simp only [Impls.tuple7.deserialize_by_key, Impls.KeyLookup.numbered, nonZeroNew, keysNextM, lookupOfGen, Tree.walk]
  try simp +decide only [↓reduceIte]
  cases hnext : ks.next (.numbered 7) with
  | error e =>
    cases e with
    | panic s => exact absurd hnext (hnp s)
    | _ => exact ⟨_, _, rfl, by simp [resOfGen, anyOfGen, anyView, travToGen, travOfGen], rfl⟩
  | ok p =>
    obtain ⟨i, ks'⟩ := p
    have hi := next_lt ks _ i ks' hnext
    simp only [Lookup.len, List.length_cons, List.length_nil] at hi
    have hget : elems[i]? = some elems[i] := List.getElem?_eq_getElem (by omega)
    have hi' : i = 0 ∨ i = 1 ∨ i = 2 ∨ i = 3 ∨ i = 4 ∨ i = 5 ∨ i = 6 := by omega
    rcases hi' with rfl | rfl | rfl | rfl | rfl | rfl | rfl
    · simp only [applyAt, hget, goFld_plain io .de elems _ ks' _ hget]
      exact ⟨_, _, rfl, by rw [resOfGen_incr, (h0 _ _).1], by rw [(h0 _ _).2]⟩
    · simp only [applyAt, hget, goFld_plain io .de elems _ ks' _ hget]
      exact ⟨_, _, rfl, by rw [resOfGen_incr, (h1 _ _).1], by rw [(h1 _ _).2]⟩
    · simp only [applyAt, hget, goFld_plain io .de elems _ ks' _ hget]
      exact ⟨_, _, rfl, by rw [resOfGen_incr, (h2 _ _).1], by rw [(h2 _ _).2]⟩
    · simp only [applyAt, hget, goFld_plain io .de elems _ ks' _ hget]
      exact ⟨_, _, rfl, by rw [resOfGen_incr, (h3 _ _).1], by rw [(h3 _ _).2]⟩
    · simp only [applyAt, hget, goFld_plain io .de elems _ ks' _ hget]
      exact ⟨_, _, rfl, by rw [resOfGen_incr, (h4 _ _).1], by rw [(h4 _ _).2]⟩
    · simp only [applyAt, hget, goFld_plain io .de elems _ ks' _ hget]
      exact ⟨_, _, rfl, by rw [resOfGen_incr, (h5 _ _).1], by rw [(h5 _ _).2]⟩
    · simp only [applyAt, hget, goFld_plain io .de elems _ ks' _ hget]
      exact ⟨_, _, rfl, by rw [resOfGen_incr, (h6 _ _).1], by rw [(h6 _ _).2]⟩

theorem tuple7_ref_tie (io : Io) (elems : List Tree) (hlen : elems.length = 7) (ks : KeySrc)
    (hnp : ∀ s, ks.next (.numbered 7) ≠ .error (.panic s))
    (c0 c1 c2 c3 c4 c5 c6 : Tree → KeySrc → Except Traversal Unit)
    (h0 : ∀ t ks, anyOfGen (c0 t ks) = anyView (t.walk io .refAny ks).res) (h1 : ∀ t ks, anyOfGen (c1 t ks) = anyView (t.walk io .refAny ks).res) (h2 : ∀ t ks, anyOfGen (c2 t ks) = anyView (t.walk io .refAny ks).res) (h3 : ∀ t ks, anyOfGen (c3 t ks) = anyView (t.walk io .refAny ks).res) (h4 : ∀ t ks, anyOfGen (c4 t ks) = anyView (t.walk io .refAny ks).res) (h5 : ∀ t ks, anyOfGen (c5 t ks) = anyView (t.walk io .refAny ks).res) (h6 : ∀ t ks, anyOfGen (c6 t ks) = anyView (t.walk io .refAny ks).res) :
    ∃ r, Impls.tuple7.ref_any_by_key keysNextM c0 c1 c2 c3 c4 c5 c6 elems ks = .val r ∧
      anyOfGen r = anyView (Tree.walk io .refAny (.node false none (.numbered 7) (plainFields elems)) ks).res := by
  simp only [Impls.tuple7.ref_any_by_key, Impls.KeyLookup.numbered, nonZeroNew, keysNextM, lookupOfGen, Tree.walk]
  try simp +decide only [↓reduceIte]
  cases hnext : ks.next (.numbered 7) with
  | error e =>
    cases e with
    | panic s => exact absurd hnext (hnp s)
    | _ => exact ⟨_, rfl, by simp [resOfGen, anyOfGen, anyView, travToGen, travOfGen]⟩
  | ok p =>
    obtain ⟨i, ks'⟩ := p
    have hi := next_lt ks _ i ks' hnext
    simp only [Lookup.len, List.length_cons, List.length_nil] at hi
    have hget : elems[i]? = some elems[i] := List.getElem?_eq_getElem (by omega)
    have hi' : i = 0 ∨ i = 1 ∨ i = 2 ∨ i = 3 ∨ i = 4 ∨ i = 5 ∨ i = 6 := by omega
    rcases hi' with rfl | rfl | rfl | rfl | rfl | rfl | rfl
    · simp only [applyAtR, hget, goFld_plain io .refAny elems _ ks' _ hget]
      refine ⟨_, rfl, ?_⟩
      rw [anyView_incr, ← h0]
      cases c0 elems[0] ks' with
      | ok u => cases u; rfl
      | error e => simp [anyOfGen, Except.mapError, increment_tie]
    · simp only [applyAtR, hget, goFld_plain io .refAny elems _ ks' _ hget]
      refine ⟨_, rfl, ?_⟩
      rw [anyView_incr, ← h1]
      cases c1 elems[1] ks' with
      | ok u => cases u; rfl
      | error e => simp [anyOfGen, Except.mapError, increment_tie]
    · simp only [applyAtR, hget, goFld_plain io .refAny elems _ ks' _ hget]
      refine ⟨_, rfl, ?_⟩
      rw [anyView_incr, ← h2]
      cases c2 elems[2] ks' with
      | ok u => cases u; rfl
      | error e => simp [anyOfGen, Except.mapError, increment_tie]
    · simp only [applyAtR, hget, goFld_plain io .refAny elems _ ks' _ hget]
      refine ⟨_, rfl, ?_⟩
      rw [anyView_incr, ← h3]
      cases c3 elems[3] ks' with
      | ok u => cases u; rfl
      | error e => simp [anyOfGen, Except.mapError, increment_tie]
    · simp only [applyAtR, hget, goFld_plain io .refAny elems _ ks' _ hget]
      refine ⟨_, rfl, ?_⟩
      rw [anyView_incr, ← h4]
      cases c4 elems[4] ks' with
      | ok u => cases u; rfl
      | error e => simp [anyOfGen, Except.mapError, increment_tie]
    · simp only [applyAtR, hget, goFld_plain io .refAny elems _ ks' _ hget]
      refine ⟨_, rfl, ?_⟩
      rw [anyView_incr, ← h5]
      cases c5 elems[5] ks' with
      | ok u => cases u; rfl
      | error e => simp [anyOfGen, Except.mapError, increment_tie]
    · simp only [applyAtR, hget, goFld_plain io .refAny elems _ ks' _ hget]
      refine ⟨_, rfl, ?_⟩
      rw [anyView_incr, ← h6]
      cases c6 elems[6] ks' with
      | ok u => cases u; rfl
      | error e => simp [anyOfGen, Except.mapError, increment_tie]

theorem tuple7_mut_tie (io : Io) (elems : List Tree) (hlen : elems.length = 7) (ks : KeySrc)
    (hnp : ∀ s, ks.next (.numbered 7) ≠ .error (.panic s))
    (c0 c1 c2 c3 c4 c5 c6 : Tree → KeySrc → Except Traversal Unit × Tree)
    (h0 : ∀ t ks, anyOfGen (c0 t ks).1 = anyView (t.walk io .mutAny ks).res ∧ (c0 t ks).2 = (t.walk io .mutAny ks).tree) (h1 : ∀ t ks, anyOfGen (c1 t ks).1 = anyView (t.walk io .mutAny ks).res ∧ (c1 t ks).2 = (t.walk io .mutAny ks).tree) (h2 : ∀ t ks, anyOfGen (c2 t ks).1 = anyView (t.walk io .mutAny ks).res ∧ (c2 t ks).2 = (t.walk io .mutAny ks).tree) (h3 : ∀ t ks, anyOfGen (c3 t ks).1 = anyView (t.walk io .mutAny ks).res ∧ (c3 t ks).2 = (t.walk io .mutAny ks).tree) (h4 : ∀ t ks, anyOfGen (c4 t ks).1 = anyView (t.walk io .mutAny ks).res ∧ (c4 t ks).2 = (t.walk io .mutAny ks).tree) (h5 : ∀ t ks, anyOfGen (c5 t ks).1 = anyView (t.walk io .mutAny ks).res ∧ (c5 t ks).2 = (t.walk io .mutAny ks).tree) (h6 : ∀ t ks, anyOfGen (c6 t ks).1 = anyView (t.walk io .mutAny ks).res ∧ (c6 t ks).2 = (t.walk io .mutAny ks).tree) :
    ∃ es r, Impls.tuple7.mut_any_by_key keysNextM c0 c1 c2 c3 c4 c5 c6 elems ks = .val (es, r) ∧
      anyOfGen r = anyView (Tree.walk io .mutAny (.node false none (.numbered 7) (plainFields elems)) ks).res ∧
      Tree.node false none (.numbered 7) (plainFields es) = (Tree.walk io .mutAny (.node false none (.numbered 7) (plainFields elems)) ks).tree := by
  simp only [Impls.tuple7.mut_any_by_key, Impls.KeyLookup.numbered, nonZeroNew, keysNextM, lookupOfGen, Tree.walk]
  try simp +decide only [↓reduceIte]
  cases hnext : ks.next (.numbered 7) with
  | error e =>
    cases e with
    | panic s => exact absurd hnext (hnp s)
    | _ => exact ⟨_, _, rfl, by simp [resOfGen, anyOfGen, anyView, travToGen, travOfGen], rfl⟩
  | ok p =>
    obtain ⟨i, ks'⟩ := p
    have hi := next_lt ks _ i ks' hnext
    simp only [Lookup.len, List.length_cons, List.length_nil] at hi
    have hget : elems[i]? = some elems[i] := List.getElem?_eq_getElem (by omega)
    have hi' : i = 0 ∨ i = 1 ∨ i = 2 ∨ i = 3 ∨ i = 4 ∨ i = 5 ∨ i = 6 := by omega
    rcases hi' with rfl | rfl | rfl | rfl | rfl | rfl | rfl
    · simp only [applyAt, hget, goFld_plain io .mutAny elems _ ks' _ hget]
      refine ⟨_, _, rfl, ?_, by rw [(h0 _ _).2]⟩
      rw [anyView_incr, ← (h0 _ _).1]
      cases (c0 elems[0] ks').1 with
      | ok u => cases u; rfl
      | error e => simp [anyOfGen, Except.mapError, increment_tie]
    · simp only [applyAt, hget, goFld_plain io .mutAny elems _ ks' _ hget]
      refine ⟨_, _, rfl, ?_, by rw [(h1 _ _).2]⟩
      rw [anyView_incr, ← (h1 _ _).1]
      cases (c1 elems[1] ks').1 with
      | ok u => cases u; rfl
      | error e => simp [anyOfGen, Except.mapError, increment_tie]
    · simp only [applyAt, hget, goFld_plain io .mutAny elems _ ks' _ hget]
      refine ⟨_, _, rfl, ?_, by rw [(h2 _ _).2]⟩
      rw [anyView_incr, ← (h2 _ _).1]
      cases (c2 elems[2] ks').1 with
      | ok u => cases u; rfl
      | error e => simp [anyOfGen, Except.mapError, increment_tie]
    · simp only [applyAt, hget, goFld_plain io .mutAny elems _ ks' _ hget]
      refine ⟨_, _, rfl, ?_, by rw [(h3 _ _).2]⟩
      rw [anyView_incr, ← (h3 _ _).1]
      cases (c3 elems[3] ks').1 with
      | ok u => cases u; rfl
      | error e => simp [anyOfGen, Except.mapError, increment_tie]
    · simp only [applyAt, hget, goFld_plain io .mutAny elems _ ks' _ hget]
      refine ⟨_, _, rfl, ?_, by rw [(h4 _ _).2]⟩
      rw [anyView_incr, ← (h4 _ _).1]
      cases (c4 elems[4] ks').1 with
      | ok u => cases u; rfl
      | error e => simp [anyOfGen, Except.mapError, increment_tie]
    · simp only [applyAt, hget, goFld_plain io .mutAny elems _ ks' _ hget]
      refine ⟨_, _, rfl, ?_, by rw [(h5 _ _).2]⟩
      rw [anyView_incr, ← (h5 _ _).1]
      cases (c5 elems[5] ks').1 with
      | ok u => cases u; rfl
      | error e => simp [anyOfGen, Except.mapError, increment_tie]
    · simp only [applyAt, hget, goFld_plain io .mutAny elems _ ks' _ hget]
      refine ⟨_, _, rfl, ?_, by rw [(h6 _ _).2]⟩
      rw [anyView_incr, ← (h6 _ _).1]
      cases (c6 elems[6] ks').1 with
      | ok u => cases u; rfl
      | error e => simp [anyOfGen, Except.mapError, increment_tie]

theorem tuple8_ser_tie (io : Io) (elems : List Tree) (hlen : elems.length = 8) (ks : KeySrc)
    (hnp : ∀ s, ks.next (.numbered 8) ≠ .error (.panic s))
    (c0 c1 c2 c3 c4 c5 c6 c7 : Tree → KeySrc → Except (Error Unit) Nat)
    (h0 : ∀ t ks, resOfGen (c0 t ks) = (t.walk io .ser ks).res) (h1 : ∀ t ks, resOfGen (c1 t ks) = (t.walk io .ser ks).res) (h2 : ∀ t ks, resOfGen (c2 t ks) = (t.walk io .ser ks).res) (h3 : ∀ t ks, resOfGen (c3 t ks) = (t.walk io .ser ks).res) (h4 : ∀ t ks, resOfGen (c4 t ks) = (t.walk io .ser ks).res) (h5 : ∀ t ks, resOfGen (c5 t ks) = (t.walk io .ser ks).res) (h6 : ∀ t ks, resOfGen (c6 t ks) = (t.walk io .ser ks).res) (h7 : ∀ t ks, resOfGen (c7 t ks) = (t.walk io .ser ks).res) :
    ∃ r, Impls.tuple8.serialize_by_key keysNextM c0 c1 c2 c3 c4 c5 c6 c7 elems ks = .val r ∧
      resOfGen r = (Tree.walk io .ser (.node false none (.numbered 8) (plainFields elems)) ks).res := by
  simp only [Impls.tuple8.serialize_by_key, Impls.KeyLookup.numbered, nonZeroNew, keysNextM, lookupOfGen, Tree.walk]
  try simp +decide only [↓reduceIte]
  cases hnext : ks.next (.numbered 8) with
  | error e =>
    cases e with
    | panic s => exact absurd hnext (hnp s)
    | _ => exact ⟨_, rfl, by simp [resOfGen, anyOfGen, anyView, travToGen, travOfGen]⟩
  | ok p =>
    obtain ⟨i, ks'⟩ := p
    have hi := next_lt ks _ i ks' hnext
    simp only [Lookup.len, List.length_cons, List.length_nil] at hi
    have hget : elems[i]? = some elems[i] := List.getElem?_eq_getElem (by omega)
    have hi' : i = 0 ∨ i = 1 ∨ i = 2 ∨ i = 3 ∨ i = 4 ∨ i = 5 ∨ i = 6 ∨ i = 7 := by omega
    rcases hi' with rfl | rfl | rfl | rfl | rfl | rfl | rfl | rfl
    · simp only [applyAtR, hget, goFld_plain io .ser elems _ ks' _ hget]
      exact ⟨_, rfl, by rw [resOfGen_incr, h0]⟩
    · simp only [applyAtR, hget, goFld_plain io .ser elems _ ks' _ hget]
      exact ⟨_, rfl, by rw [resOfGen_incr, h1]⟩
    · simp only [applyAtR, hget, goFld_plain io .ser elems _ ks' _ hget]
      exact ⟨_, rfl, by rw [resOfGen_incr, h2]⟩
    · simp only [applyAtR, hget, goFld_plain io .ser elems _ ks' _ hget]
      exact ⟨_, rfl, by rw [resOfGen_incr, h3]⟩
    · simp only [applyAtR, hget, goFld_plain io .ser elems _ ks' _ hget]
      exact ⟨_, rfl, by rw [resOfGen_incr, h4]⟩
    · simp only [applyAtR, hget, goFld_plain io .ser elems _ ks' _ hget]
      exact ⟨_, rfl, by rw [resOfGen_incr, h5]⟩
    · simp only [applyAtR, hget, goFld_plain io .ser elems _ ks' _ hget]
      exact ⟨_, rfl, by rw [resOfGen_incr, h6]⟩
    · simp only [applyAtR, hget, goFld_plain io .ser elems _ ks' _ hget]
      exact ⟨_, rfl, by rw [resOfGen_incr, h7]⟩

theorem tuple8_de_tie (io : Io) (elems : List Tree) (hlen : elems.length = 8) (ks : KeySrc)
    (hnp : ∀ s, ks.next (.numbered 8) ≠ .error (.panic s))
    (c0 c1 c2 c3 c4 c5 c6 c7 : Tree → KeySrc → Except (Error Unit) Nat × Tree)
    (h0 : ∀ t ks, resOfGen (c0 t ks).1 = (t.walk io .de ks).res ∧ (c0 t ks).2 = (t.walk io .de ks).tree) (h1 : ∀ t ks, resOfGen (c1 t ks).1 = (t.walk io .de ks).res ∧ (c1 t ks).2 = (t.walk io .de ks).tree) (h2 : ∀ t ks, resOfGen (c2 t ks).1 = (t.walk io .de ks).res ∧ (c2 t ks).2 = (t.walk io .de ks).tree) (h3 : ∀ t ks, resOfGen (c3 t ks).1 = (t.walk io .de ks).res ∧ (c3 t ks).2 = (t.walk io .de ks).tree) (h4 : ∀ t ks, resOfGen (c4 t ks).1 = (t.walk io .de ks).res ∧ (c4 t ks).2 = (t.walk io .de ks).tree) (h5 : ∀ t ks, resOfGen (c5 t ks).1 = (t.walk io .de ks).res ∧ (c5 t ks).2 = (t.walk io .de ks).tree) (h6 : ∀ t ks, resOfGen (c6 t ks).1 = (t.walk io .de ks).res ∧ (c6 t ks).2 = (t.walk io .de ks).tree) (h7 : ∀ t ks, resOfGen (c7 t ks).1 = (t.walk io .de ks).res ∧ (c7 t ks).2 = (t.walk io .de ks).tree) :
    ∃ es r, Impls.tuple8.deserialize_by_key keysNextM c0 c1 c2 c3 c4 c5 c6 c7 elems ks = .val (es, r) ∧
      resOfGen r = (Tree.walk io .de (.node false none (.numbered 8) (plainFields elems)) ks).res ∧
      Tree.node false none (.numbered 8) (plainFields es) = (Tree.walk io .de (.node false none (.numbered 8) (plainFields elems)) ks).tree := by
  simp only [Impls.tuple8.deserialize_by_key, Impls.KeyLookup.numbered, nonZeroNew, keysNextM, lookupOfGen, Tree.walk]
  try simp +decide only [↓reduceIte]
  cases hnext : ks.next (.numbered 8) with
  | error e =>
    cases e with
    | panic s => exact absurd hnext (hnp s)
    | _ => exact ⟨_, _, rfl, by simp [resOfGen, anyOfGen, anyView, travToGen, travOfGen], rfl⟩
  | ok p =>
    obtain ⟨i, ks'⟩ := p
    have hi := next_lt ks _ i ks' hnext
    simp only [Lookup.len, List.length_cons, List.length_nil] at hi
    have hget : elems[i]? = some elems[i] := List.getElem?_eq_getElem (by omega)
    have hi' : i = 0 ∨ i = 1 ∨ i = 2 ∨ i = 3 ∨ i = 4 ∨ i = 5 ∨ i = 6 ∨ i = 7 := by omega
    rcases hi' with rfl | rfl | rfl | rfl | rfl | rfl | rfl | rfl
    · simp only [applyAt, hget, goFld_plain io .de elems _ ks' _ hget]
      exact ⟨_, _, rfl, by rw [resOfGen_incr, (h0 _ _).1], by rw [(h0 _ _).2]⟩
    · simp only [applyAt, hget, goFld_plain io .de elems _ ks' _ hget]
      exact ⟨_, _, rfl, by rw [resOfGen_incr, (h1 _ _).1], by rw [(h1 _ _).2]⟩
    · simp only [applyAt, hget, goFld_plain io .de elems _ ks' _ hget]
      exact ⟨_, _, rfl, by rw [resOfGen_incr, (h2 _ _).1], by rw [(h2 _ _).2]⟩
    · simp only [applyAt, hget, goFld_plain io .de elems _ ks' _ hget]
      exact ⟨_, _, rfl, by rw [resOfGen_incr, (h3 _ _).1], by rw [(h3 _ _).2]⟩
    · simp only [applyAt, hget, goFld_plain io .de elems _ ks' _ hget]
      exact ⟨_, _, rfl, by rw [resOfGen_incr, (h4 _ _).1], by rw [(h4 _ _).2]⟩
    · simp only [applyAt, hget, goFld_plain io .de elems _ ks' _ hget]
      exact ⟨_, _, rfl, by rw [resOfGen_incr, (h5 _ _).1], by rw [(h5 _ _).2]⟩
    · simp only [applyAt, hget, goFld_plain io .de elems _ ks' _ hget]
      exact ⟨_, _, rfl, by rw [resOfGen_incr, (h6 _ _).1], by rw [(h6 _ _).2]⟩
    · simp only [applyAt, hget, goFld_plain io .de elems _ ks' _ hget]
      exact ⟨_, _, rfl, by rw [resOfGen_incr, (h7 _ _).1], by rw [(h7 _ _).2]⟩

theorem tuple8_ref_tie (io : Io) (elems : List Tree) (hlen : elems.length = 8) (ks : KeySrc)
    (hnp : ∀ s, ks.next (.numbered 8) ≠ .error (.panic s))
    (c0 c1 c2 c3 c4 c5 c6 c7 : Tree → KeySrc → Except Traversal Unit)
    (h0 : ∀ t ks, anyOfGen (c0 t ks) = anyView (t.walk io .refAny ks).res) (h1 : ∀ t ks, anyOfGen (c1 t ks) = anyView (t.walk io .refAny ks).res) (h2 : ∀ t ks, anyOfGen (c2 t ks) = anyView (t.walk io .refAny ks).res) (h3 : ∀ t ks, anyOfGen (c3 t ks) = anyView (t.walk io .refAny ks).res) (h4 : ∀ t ks, anyOfGen (c4 t ks) = anyView (t.walk io .refAny ks).res) (h5 : ∀ t ks, anyOfGen (c5 t ks) = anyView (t.walk io .refAny ks).res) (h6 : ∀ t ks, anyOfGen (c6 t ks) = anyView (t.walk io .refAny ks).res) (h7 : ∀ t ks, anyOfGen (c7 t ks) = anyView (t.walk io .refAny ks).res) :
    ∃ r, Impls.tuple8.ref_any_by_key keysNextM c0 c1 c2 c3 c4 c5 c6 c7 elems ks = .val r ∧
      anyOfGen r = anyView (Tree.walk io .refAny (.node false none (.numbered 8) (plainFields elems)) ks).res := by
  simp only [Impls.tuple8.ref_any_by_key, Impls.KeyLookup.numbered, nonZeroNew, keysNextM, lookupOfGen, Tree.walk]
  try simp +decide only [↓reduceIte]
  cases hnext : ks.next (.numbered 8) with
  | error e =>
    cases e with
    | panic s => exact absurd hnext (hnp s)
    | _ => exact ⟨_, rfl, by simp [resOfGen, anyOfGen, anyView, travToGen, travOfGen]⟩
  | ok p =>
    obtain ⟨i, ks'⟩ := p
    have hi := next_lt ks _ i ks' hnext
    simp only [Lookup.len, List.length_cons, List.length_nil] at hi
    have hget : elems[i]? = some elems[i] := List.getElem?_eq_getElem (by omega)
    have hi' : i = 0 ∨ i = 1 ∨ i = 2 ∨ i = 3 ∨ i = 4 ∨ i = 5 ∨ i = 6 ∨ i = 7 := by omega
    rcases hi' with rfl | rfl | rfl | rfl | rfl | rfl | rfl | rfl
    · simp only [applyAtR, hget, goFld_plain io .refAny elems _ ks' _ hget]
      refine ⟨_, rfl, ?_⟩
      rw [anyView_incr, ← h0]
      cases c0 elems[0] ks' with
      | ok u => cases u; rfl
      | error e => simp [anyOfGen, Except.mapError, increment_tie]
    · simp only [applyAtR, hget, goFld_plain io .refAny elems _ ks' _ hget]
      refine ⟨_, rfl, ?_⟩
      rw [anyView_incr, ← h1]
      cases c1 elems[1] ks' with
      | ok u => cases u; rfl
      | error e => simp [anyOfGen, Except.mapError, increment_tie]
    · simp only [applyAtR, hget, goFld_plain io .refAny elems _ ks' _ hget]
      refine ⟨_, rfl, ?_⟩
      rw [anyView_incr, ← h2]
      cases c2 elems[2] ks' with
      | ok u => cases u; rfl
      | error e => simp [anyOfGen, Except.mapError, increment_tie]
    · simp only [applyAtR, hget, goFld_plain io .refAny elems _ ks' _ hget]
      refine ⟨_, rfl, ?_⟩
      rw [anyView_incr, ← h3]
      cases c3 elems[3] ks' with
      | ok u => cases u; rfl
      | error e => simp [anyOfGen, Except.mapError, increment_tie]
    · simp only [applyAtR, hget, goFld_plain io .refAny elems _ ks' _ hget]
      refine ⟨_, rfl, ?_⟩
      rw [anyView_incr, ← h4]
      cases c4 elems[4] ks' with
      | ok u => cases u; rfl
      | error e => simp [anyOfGen, Except.mapError, increment_tie]
    · simp only [applyAtR, hget, goFld_plain io .refAny elems _ ks' _ hget]
      refine ⟨_, rfl, ?_⟩
      rw [anyView_incr, ← h5]
      cases c5 elems[5] ks' with
      | ok u => cases u; rfl
      | error e => simp [anyOfGen, Except.mapError, increment_tie]
    · simp only [applyAtR, hget, goFld_plain io .refAny elems _ ks' _ hget]
      refine ⟨_, rfl, ?_⟩
      rw [anyView_incr, ← h6]
      cases c6 elems[6] ks' with
      | ok u => cases u; rfl
      | error e => simp [anyOfGen, Except.mapError, increment_tie]
    · simp only [applyAtR, hget, goFld_plain io .refAny elems _ ks' _ hget]
      refine ⟨_, rfl, ?_⟩
      rw [anyView_incr, ← h7]
      cases c7 elems[7] ks' with
      | ok u => cases u; rfl
      | error e => simp [anyOfGen, Except.mapError, increment_tie]

theorem tuple8_mut_tie (io : Io) (elems : List Tree) (hlen : elems.length = 8) (ks : KeySrc)
    (hnp : ∀ s, ks.next (.numbered 8) ≠ .error (.panic s))
    (c0 c1 c2 c3 c4 c5 c6 c7 : Tree → KeySrc → Except Traversal Unit × Tree)
    (h0 : ∀ t ks, anyOfGen (c0 t ks).1 = anyView (t.walk io .mutAny ks).res ∧ (c0 t ks).2 = (t.walk io .mutAny ks).tree) (h1 : ∀ t ks, anyOfGen (c1 t ks).1 = anyView (t.walk io .mutAny ks).res ∧ (c1 t ks).2 = (t.walk io .mutAny ks).tree) (h2 : ∀ t ks, anyOfGen (c2 t ks).1 = anyView (t.walk io .mutAny ks).res ∧ (c2 t ks).2 = (t.walk io .mutAny ks).tree) (h3 : ∀ t ks, anyOfGen (c3 t ks).1 = anyView (t.walk io .mutAny ks).res ∧ (c3 t ks).2 = (t.walk io .mutAny ks).tree) (h4 : ∀ t ks, anyOfGen (c4 t ks).1 = anyView (t.walk io .mutAny ks).res ∧ (c4 t ks).2 = (t.walk io .mutAny ks).tree) (h5 : ∀ t ks, anyOfGen (c5 t ks).1 = anyView (t.walk io .mutAny ks).res ∧ (c5 t ks).2 = (t.walk io .mutAny ks).tree) (h6 : ∀ t ks, anyOfGen (c6 t ks).1 = anyView (t.walk io .mutAny ks).res ∧ (c6 t ks).2 = (t.walk io .mutAny ks).tree) (h7 : ∀ t ks, anyOfGen (c7 t ks).1 = anyView (t.walk io .mutAny ks).res ∧ (c7 t ks).2 = (t.walk io .mutAny ks).tree) :
    ∃ es r, Impls.tuple8.mut_any_by_key keysNextM c0 c1 c2 c3 c4 c5 c6 c7 elems ks = .val (es, r) ∧
      anyOfGen r = anyView (Tree.walk io .mutAny (.node false none (.numbered 8) (plainFields elems)) ks).res ∧
      Tree.node false none (.numbered 8) (plainFields es) = (Tree.walk io .mutAny (.node false none (.numbered 8) (plainFields elems)) ks).tree := by
  simp only [Impls.tuple8.mut_any_by_key, Impls.KeyLookup.numbered, nonZeroNew, keysNextM, lookupOfGen, Tree.walk]
  try simp +decide only [↓reduceIte]
  cases hnext : ks.next (.numbered 8) with
  | error e =>
    cases e with
    | panic s => exact absurd hnext (hnp s)
    | _ => exact ⟨_, _, rfl, by simp [resOfGen, anyOfGen, anyView, travToGen, travOfGen], rfl⟩
  | ok p =>
    obtain ⟨i, ks'⟩ := p
    have hi := next_lt ks _ i ks' hnext
    simp only [Lookup.len, List.length_cons, List.length_nil] at hi
    have hget : elems[i]? = some elems[i] := List.getElem?_eq_getElem (by omega)
    have hi' : i = 0 ∨ i = 1 ∨ i = 2 ∨ i = 3 ∨ i = 4 ∨ i = 5 ∨ i = 6 ∨ i = 7 := by omega
    rcases hi' with rfl | rfl | rfl | rfl | rfl | rfl | rfl | rfl
    · simp only [applyAt, hget, goFld_plain io .mutAny elems _ ks' _ hget]
      refine ⟨_, _, rfl, ?_, by rw [(h0 _ _).2]⟩
      rw [anyView_incr, ← (h0 _ _).1]
      cases (c0 elems[0] ks').1 with
      | ok u => cases u; rfl
      | error e => simp [anyOfGen, Except.mapError, increment_tie]
    · simp only [applyAt, hget, goFld_plain io .mutAny elems _ ks' _ hget]
      refine ⟨_, _, rfl, ?_, by rw [(h1 _ _).2]⟩
      rw [anyView_incr, ← (h1 _ _).1]
      cases (c1 elems[1] ks').1 with
      | ok u => cases u; rfl
      | error e => simp [anyOfGen, Except.mapError, increment_tie]
    · simp only [applyAt, hget, goFld_plain io .mutAny elems _ ks' _ hget]
      refine ⟨_, _, rfl, ?_, by rw [(h2 _ _).2]⟩
      rw [anyView_incr, ← (h2 _ _).1]
      cases (c2 elems[2] ks').1 with
      | ok u => cases u; rfl
      | error e => simp [anyOfGen, Except.mapError, increment_tie]
    · simp only [applyAt, hget, goFld_plain io .mutAny elems _ ks' _ hget]
      refine ⟨_, _, rfl, ?_, by rw [(h3 _ _).2]⟩
      rw [anyView_incr, ← (h3 _ _).1]
      cases (c3 elems[3] ks').1 with
      | ok u => cases u; rfl
      | error e => simp [anyOfGen, Except.mapError, increment_tie]
    · simp only [applyAt, hget, goFld_plain io .mutAny elems _ ks' _ hget]
      refine ⟨_, _, rfl, ?_, by rw [(h4 _ _).2]⟩
      rw [anyView_incr, ← (h4 _ _).1]
      cases (c4 elems[4] ks').1 with
      | ok u => cases u; rfl
      | error e => simp [anyOfGen, Except.mapError, increment_tie]
    · simp only [applyAt, hget, goFld_plain io .mutAny elems _ ks' _ hget]
      refine ⟨_, _, rfl, ?_, by rw [(h5 _ _).2]⟩
      rw [anyView_incr, ← (h5 _ _).1]
      cases (c5 elems[5] ks').1 with
      | ok u => cases u; rfl
      | error e => simp [anyOfGen, Except.mapError, increment_tie]
    · simp only [applyAt, hget, goFld_plain io .mutAny elems _ ks' _ hget]
      refine ⟨_, _, rfl, ?_, by rw [(h6 _ _).2]⟩
      rw [anyView_incr, ← (h6 _ _).1]
      cases (c6 elems[6] ks').1 with
      | ok u => cases u; rfl
      | error e => simp [anyOfGen, Except.mapError, increment_tie]
    · simp only [applyAt, hget, goFld_plain io .mutAny elems _ ks' _ hget]
      refine ⟨_, _, rfl, ?_, by rw [(h7 _ _).2]⟩
      rw [anyView_incr, ← (h7 _ _).1]
      cases (c7 elems[7] ks').1 with
      | ok u => cases u; rfl
      | error e => simp [anyOfGen, Except.mapError, increment_tie]

theorem Range_ser_tie (io : Io) (elems : List Tree) (hlen : elems.length = 2) (ks : KeySrc)
    (hnp : ∀ s, ks.next (.named ["start", "end"]) ≠ .error (.panic s))
    (c0 : Tree → KeySrc → Except (Error Unit) Nat)
    (h0 : ∀ t ks, resOfGen (c0 t ks) = (t.walk io .ser ks).res) :
    ∃ r, Impls.Range.serialize_by_key keysNextM c0 elems ks = .val r ∧
      resOfGen r = (Tree.walk io .ser (.node false none (.named ["start", "end"]) (plainFields elems)) ks).res := by
  simp only [Impls.Range.serialize_by_key, Impls.RANGE_LOOKUP, Impls.KeyLookup.numbered, nonZeroNew, keysNextM, lookupOfGen, Tree.walk]
  try simp +decide only [↓reduceIte]
  cases hnext : ks.next (.named ["start", "end"]) with
  | error e =>
    cases e with
    | panic s => exact absurd hnext (hnp s)
    | _ => exact ⟨_, rfl, by simp [resOfGen, anyOfGen, anyView, travToGen, travOfGen]⟩
  | ok p =>
    obtain ⟨i, ks'⟩ := p
    have hi := next_lt ks _ i ks' hnext
    simp only [Lookup.len, List.length_cons, List.length_nil] at hi
    have hget : elems[i]? = some elems[i] := List.getElem?_eq_getElem (by omega)
    have hi' : i = 0 ∨ i = 1 := by omega
    rcases hi' with rfl | rfl
    · simp only [applyAtR, hget, goFld_plain io .ser elems _ ks' _ hget]
      exact ⟨_, rfl, by rw [resOfGen_incr, h0]⟩
    · simp only [applyAtR, hget, goFld_plain io .ser elems _ ks' _ hget]
      exact ⟨_, rfl, by rw [resOfGen_incr, h0]⟩

theorem Range_de_tie (io : Io) (elems : List Tree) (hlen : elems.length = 2) (ks : KeySrc)
    (hnp : ∀ s, ks.next (.named ["start", "end"]) ≠ .error (.panic s))
    (c0 : Tree → KeySrc → Except (Error Unit) Nat × Tree)
    (h0 : ∀ t ks, resOfGen (c0 t ks).1 = (t.walk io .de ks).res ∧ (c0 t ks).2 = (t.walk io .de ks).tree) :
    ∃ es r, Impls.Range.deserialize_by_key keysNextM c0 elems ks = .val (es, r) ∧
      resOfGen r = (Tree.walk io .de (.node false none (.named ["start", "end"]) (plainFields elems)) ks).res ∧
      Tree.node false none (.named ["start", "end"]) (plainFields es) = (Tree.walk io .de (.node false none (.named ["start", "end"]) (plainFields elems)) ks).tree := by
  simp only [Impls.Range.deserialize_by_key, Impls.RANGE_LOOKUP, Impls.KeyLookup.numbered, nonZeroNew, keysNextM, lookupOfGen, Tree.walk]
  try simp +decide only [↓reduceIte]
  cases hnext : ks.next (.named ["start", "end"]) with
  | error e =>
    cases e with
    | panic s => exact absurd hnext (hnp s)
    | _ => exact ⟨_, _, rfl, by simp [resOfGen, anyOfGen, anyView, travToGen, travOfGen], rfl⟩
  | ok p =>
    obtain ⟨i, ks'⟩ := p
    have hi := next_lt ks _ i ks' hnext
    simp only [Lookup.len, List.length_cons, List.length_nil] at hi
    have hget : elems[i]? = some elems[i] := List.getElem?_eq_getElem (by omega)
    have hi' : i = 0 ∨ i = 1 := by omega
    rcases hi' with rfl | rfl
    · simp only [applyAt, hget, goFld_plain io .de elems _ ks' _ hget]
      exact ⟨_, _, rfl, by rw [resOfGen_incr, (h0 _ _).1], by rw [(h0 _ _).2]⟩
    · simp only [applyAt, hget, goFld_plain io .de elems _ ks' _ hget]
      exact ⟨_, _, rfl, by rw [resOfGen_incr, (h0 _ _).1], by rw [(h0 _ _).2]⟩

theorem Range_ref_tie (io : Io) (elems : List Tree) (hlen : elems.length = 2) (ks : KeySrc)
    (hnp : ∀ s, ks.next (.named ["start", "end"]) ≠ .error (.panic s))
    (c0 : Tree → KeySrc → Except Traversal Unit)
    (h0 : ∀ t ks, anyOfGen (c0 t ks) = anyView (t.walk io .refAny ks).res) :
    ∃ r, Impls.Range.ref_any_by_key keysNextM c0 elems ks = .val r ∧
      anyOfGen r = anyView (Tree.walk io .refAny (.node false none (.named ["start", "end"]) (plainFields elems)) ks).res := by
  simp only [Impls.Range.ref_any_by_key, Impls.RANGE_LOOKUP, Impls.KeyLookup.numbered, nonZeroNew, keysNextM, lookupOfGen, Tree.walk]
  try simp +decide only [↓reduceIte]
  cases hnext : ks.next (.named ["start", "end"]) with
  | error e =>
    cases e with
    | panic s => exact absurd hnext (hnp s)
    | _ => exact ⟨_, rfl, by simp [resOfGen, anyOfGen, anyView, travToGen, travOfGen]⟩
  | ok p =>
    obtain ⟨i, ks'⟩ := p
    have hi := next_lt ks _ i ks' hnext
    simp only [Lookup.len, List.length_cons, List.length_nil] at hi
    have hget : elems[i]? = some elems[i] := List.getElem?_eq_getElem (by omega)
    have hi' : i = 0 ∨ i = 1 := by omega
    rcases hi' with rfl | rfl
    · simp only [applyAtR, hget, goFld_plain io .refAny elems _ ks' _ hget]
      refine ⟨_, rfl, ?_⟩
      rw [anyView_incr, ← h0]
      cases c0 elems[0] ks' with
      | ok u => cases u; rfl
      | error e => simp [anyOfGen, Except.mapError, increment_tie]
    · simp only [applyAtR, hget, goFld_plain io .refAny elems _ ks' _ hget]
      refine ⟨_, rfl, ?_⟩
      rw [anyView_incr, ← h0]
      cases c0 elems[1] ks' with
      | ok u => cases u; rfl
      | error e => simp [anyOfGen, Except.mapError, increment_tie]

theorem Range_mut_tie (io : Io) (elems : List Tree) (hlen : elems.length = 2) (ks : KeySrc)
    (hnp : ∀ s, ks.next (.named ["start", "end"]) ≠ .error (.panic s))
    (c0 : Tree → KeySrc → Except Traversal Unit × Tree)
    (h0 : ∀ t ks, anyOfGen (c0 t ks).1 = anyView (t.walk io .mutAny ks).res ∧ (c0 t ks).2 = (t.walk io .mutAny ks).tree) :
    ∃ es r, Impls.Range.mut_any_by_key keysNextM c0 elems ks = .val (es, r) ∧
      anyOfGen r = anyView (Tree.walk io .mutAny (.node false none (.named ["start", "end"]) (plainFields elems)) ks).res ∧
      Tree.node false none (.named ["start", "end"]) (plainFields es) = (Tree.walk io .mutAny (.node false none (.named ["start", "end"]) (plainFields elems)) ks).tree := by
  simp only [Impls.Range.mut_any_by_key, Impls.RANGE_LOOKUP, Impls.KeyLookup.numbered, nonZeroNew, keysNextM, lookupOfGen, Tree.walk]
  try simp +decide only [↓reduceIte]
  cases hnext : ks.next (.named ["start", "end"]) with
  | error e =>
    cases e with
    | panic s => exact absurd hnext (hnp s)
    | _ => exact ⟨_, _, rfl, by simp [resOfGen, anyOfGen, anyView, travToGen, travOfGen], rfl⟩
  | ok p =>
    obtain ⟨i, ks'⟩ := p
    have hi := next_lt ks _ i ks' hnext
    simp only [Lookup.len, List.length_cons, List.length_nil] at hi
    have hget : elems[i]? = some elems[i] := List.getElem?_eq_getElem (by omega)
    have hi' : i = 0 ∨ i = 1 := by omega
    rcases hi' with rfl | rfl
    · simp only [applyAt, hget, goFld_plain io .mutAny elems _ ks' _ hget]
      refine ⟨_, _, rfl, ?_, by rw [(h0 _ _).2]⟩
      rw [anyView_incr, ← (h0 _ _).1]
      cases (c0 elems[0] ks').1 with
      | ok u => cases u; rfl
      | error e => simp [anyOfGen, Except.mapError, increment_tie]
    · simp only [applyAt, hget, goFld_plain io .mutAny elems _ ks' _ hget]
      refine ⟨_, _, rfl, ?_, by rw [(h0 _ _).2]⟩
      rw [anyView_incr, ← (h0 _ _).1]
      cases (c0 elems[1] ks').1 with
      | ok u => cases u; rfl
      | error e => simp [anyOfGen, Except.mapError, increment_tie]

theorem RangeFrom_ser_tie (io : Io) (elems : List Tree) (hlen : elems.length = 1) (ks : KeySrc)
    (hnp : ∀ s, ks.next (.named ["start"]) ≠ .error (.panic s))
    (c0 : Tree → KeySrc → Except (Error Unit) Nat)
    (h0 : ∀ t ks, resOfGen (c0 t ks) = (t.walk io .ser ks).res) :
    ∃ r, Impls.RangeFrom.serialize_by_key keysNextM c0 elems ks = .val r ∧
      resOfGen r = (Tree.walk io .ser (.node false none (.named ["start"]) (plainFields elems)) ks).res := by
  simp only [Impls.RangeFrom.serialize_by_key, Impls.RANGE_FROM_LOOKUP, Impls.KeyLookup.numbered, nonZeroNew, keysNextM, lookupOfGen, Tree.walk]
  try simp +decide only [↓reduceIte]
  cases hnext : ks.next (.named ["start"]) with
  | error e =>
    cases e with
    | panic s => exact absurd hnext (hnp s)
    | _ => exact ⟨_, rfl, by simp [resOfGen, anyOfGen, anyView, travToGen, travOfGen]⟩
  | ok p =>
    obtain ⟨i, ks'⟩ := p
    have hi := next_lt ks _ i ks' hnext
    simp only [Lookup.len, List.length_cons, List.length_nil] at hi
    have hget : elems[i]? = some elems[i] := List.getElem?_eq_getElem (by omega)
    obtain rfl : i = 0 := by omega
    simp only [applyAtR, hget, goFld_plain io .ser elems _ ks' _ hget]
    exact ⟨_, rfl, by rw [resOfGen_incr, h0]⟩

theorem RangeFrom_de_tie (io : Io) (elems : List Tree) (hlen : elems.length = 1) (ks : KeySrc)
    (hnp : ∀ s, ks.next (.named ["start"]) ≠ .error (.panic s))
    (c0 : Tree → KeySrc → Except (Error Unit) Nat × Tree)
    (h0 : ∀ t ks, resOfGen (c0 t ks).1 = (t.walk io .de ks).res ∧ (c0 t ks).2 = (t.walk io .de ks).tree) :
    ∃ es r, Impls.RangeFrom.deserialize_by_key keysNextM c0 elems ks = .val (es, r) ∧
      resOfGen r = (Tree.walk io .de (.node false none (.named ["start"]) (plainFields elems)) ks).res ∧
      Tree.node false none (.named ["start"]) (plainFields es) = (Tree.walk io .de (.node false none (.named ["start"]) (plainFields elems)) ks).tree := by
  simp only [Impls.RangeFrom.deserialize_by_key, Impls.RANGE_FROM_LOOKUP, Impls.KeyLookup.numbered, nonZeroNew, keysNextM, lookupOfGen, Tree.walk]
  try simp +decide only [↓reduceIte]
  cases hnext : ks.next (.named ["start"]) with
  | error e =>
    cases e with
    | panic s => exact absurd hnext (hnp s)
    | _ => exact ⟨_, _, rfl, by simp [resOfGen, anyOfGen, anyView, travToGen, travOfGen], rfl⟩
  | ok p =>
    obtain ⟨i, ks'⟩ := p
    have hi := next_lt ks _ i ks' hnext
    simp only [Lookup.len, List.length_cons, List.length_nil] at hi
    have hget : elems[i]? = some elems[i] := List.getElem?_eq_getElem (by omega)
    obtain rfl : i = 0 := by omega
    simp only [applyAt, hget, goFld_plain io .de elems _ ks' _ hget]
    exact ⟨_, _, rfl, by rw [resOfGen_incr, (h0 _ _).1], by rw [(h0 _ _).2]⟩

theorem RangeFrom_ref_tie (io : Io) (elems : List Tree) (hlen : elems.length = 1) (ks : KeySrc)
    (hnp : ∀ s, ks.next (.named ["start"]) ≠ .error (.panic s))
    (c0 : Tree → KeySrc → Except Traversal Unit)
    (h0 : ∀ t ks, anyOfGen (c0 t ks) = anyView (t.walk io .refAny ks).res) :
    ∃ r, Impls.RangeFrom.ref_any_by_key keysNextM c0 elems ks = .val r ∧
      anyOfGen r = anyView (Tree.walk io .refAny (.node false none (.named ["start"]) (plainFields elems)) ks).res := by
  simp only [Impls.RangeFrom.ref_any_by_key, Impls.RANGE_FROM_LOOKUP, Impls.KeyLookup.numbered, nonZeroNew, keysNextM, lookupOfGen, Tree.walk]
  try simp +decide only [↓reduceIte]
  cases hnext : ks.next (.named ["start"]) with
  | error e =>
    cases e with
    | panic s => exact absurd hnext (hnp s)
    | _ => exact ⟨_, rfl, by simp [resOfGen, anyOfGen, anyView, travToGen, travOfGen]⟩
  | ok p =>
    obtain ⟨i, ks'⟩ := p
    have hi := next_lt ks _ i ks' hnext
    simp only [Lookup.len, List.length_cons, List.length_nil] at hi
    have hget : elems[i]? = some elems[i] := List.getElem?_eq_getElem (by omega)
    obtain rfl : i = 0 := by omega
    simp only [applyAtR, hget, goFld_plain io .refAny elems _ ks' _ hget]
    refine ⟨_, rfl, ?_⟩
    rw [anyView_incr, ← h0]
    cases c0 elems[0] ks' with
    | ok u => cases u; rfl
    | error e => simp [anyOfGen, Except.mapError, increment_tie]

theorem RangeFrom_mut_tie (io : Io) (elems : List Tree) (hlen : elems.length = 1) (ks : KeySrc)
    (hnp : ∀ s, ks.next (.named ["start"]) ≠ .error (.panic s))
    (c0 : Tree → KeySrc → Except Traversal Unit × Tree)
    (h0 : ∀ t ks, anyOfGen (c0 t ks).1 = anyView (t.walk io .mutAny ks).res ∧ (c0 t ks).2 = (t.walk io .mutAny ks).tree) :
    ∃ es r, Impls.RangeFrom.mut_any_by_key keysNextM c0 elems ks = .val (es, r) ∧
      anyOfGen r = anyView (Tree.walk io .mutAny (.node false none (.named ["start"]) (plainFields elems)) ks).res ∧
      Tree.node false none (.named ["start"]) (plainFields es) = (Tree.walk io .mutAny (.node false none (.named ["start"]) (plainFields elems)) ks).tree := by
  simp only [Impls.RangeFrom.mut_any_by_key, Impls.RANGE_FROM_LOOKUP, Impls.KeyLookup.numbered, nonZeroNew, keysNextM, lookupOfGen, Tree.walk]
  try simp +decide only [↓reduceIte]
  cases hnext : ks.next (.named ["start"]) with
  | error e =>
    cases e with
    | panic s => exact absurd hnext (hnp s)
    | _ => exact ⟨_, _, rfl, by simp [resOfGen, anyOfGen, anyView, travToGen, travOfGen], rfl⟩
  | ok p =>
    obtain ⟨i, ks'⟩ := p
    have hi := next_lt ks _ i ks' hnext
    simp only [Lookup.len, List.length_cons, List.length_nil] at hi
    have hget : elems[i]? = some elems[i] := List.getElem?_eq_getElem (by omega)
    obtain rfl : i = 0 := by omega
    simp only [applyAt, hget, goFld_plain io .mutAny elems _ ks' _ hget]
    refine ⟨_, _, rfl, ?_, by rw [(h0 _ _).2]⟩
    rw [anyView_incr, ← (h0 _ _).1]
    cases (c0 elems[0] ks').1 with
    | ok u => cases u; rfl
    | error e => simp [anyOfGen, Except.mapError, increment_tie]

theorem RangeTo_ser_tie (io : Io) (elems : List Tree) (hlen : elems.length = 1) (ks : KeySrc)
    (hnp : ∀ s, ks.next (.named ["end"]) ≠ .error (.panic s))
    (c0 : Tree → KeySrc → Except (Error Unit) Nat)
    (h0 : ∀ t ks, resOfGen (c0 t ks) = (t.walk io .ser ks).res) :
    ∃ r, Impls.RangeTo.serialize_by_key keysNextM c0 elems ks = .val r ∧
      resOfGen r = (Tree.walk io .ser (.node false none (.named ["end"]) (plainFields elems)) ks).res := by
  simp only [Impls.RangeTo.serialize_by_key, Impls.RANGE_TO_LOOKUP, Impls.KeyLookup.numbered, nonZeroNew, keysNextM, lookupOfGen, Tree.walk]
  try simp +decide only [↓reduceIte]
  cases hnext : ks.next (.named ["end"]) with
  | error e =>
    cases e with
    | panic s => exact absurd hnext (hnp s)
    | _ => exact ⟨_, rfl, by simp [resOfGen, anyOfGen, anyView, travToGen, travOfGen]⟩
  | ok p =>
    obtain ⟨i, ks'⟩ := p
    have hi := next_lt ks _ i ks' hnext
    simp only [Lookup.len, List.length_cons, List.length_nil] at hi
    have hget : elems[i]? = some elems[i] := List.getElem?_eq_getElem (by omega)
    obtain rfl : i = 0 := by omega
    simp only [applyAtR, hget, goFld_plain io .ser elems _ ks' _ hget]
    exact ⟨_, rfl, by rw [resOfGen_incr, h0]⟩

theorem RangeTo_de_tie (io : Io) (elems : List Tree) (hlen : elems.length = 1) (ks : KeySrc)
    (hnp : ∀ s, ks.next (.named ["end"]) ≠ .error (.panic s))
    (c0 : Tree → KeySrc → Except (Error Unit) Nat × Tree)
    (h0 : ∀ t ks, resOfGen (c0 t ks).1 = (t.walk io .de ks).res ∧ (c0 t ks).2 = (t.walk io .de ks).tree) :
    ∃ es r, Impls.RangeTo.deserialize_by_key keysNextM c0 elems ks = .val (es, r) ∧
      resOfGen r = (Tree.walk io .de (.node false none (.named ["end"]) (plainFields elems)) ks).res ∧
      Tree.node false none (.named ["end"]) (plainFields es) = (Tree.walk io .de (.node false none (.named ["end"]) (plainFields elems)) ks).tree := by
  simp only [Impls.RangeTo.deserialize_by_key, Impls.RANGE_TO_LOOKUP, Impls.KeyLookup.numbered, nonZeroNew, keysNextM, lookupOfGen, Tree.walk]
  try simp +decide only [↓reduceIte]
  cases hnext : ks.next (.named ["end"]) with
  | error e =>
    cases e with
    | panic s => exact absurd hnext (hnp s)
    | _ => exact ⟨_, _, rfl, by simp [resOfGen, anyOfGen, anyView, travToGen, travOfGen], rfl⟩
  | ok p =>
    obtain ⟨i, ks'⟩ := p
    have hi := next_lt ks _ i ks' hnext
    simp only [Lookup.len, List.length_cons, List.length_nil] at hi
    have hget : elems[i]? = some elems[i] := List.getElem?_eq_getElem (by omega)
    obtain rfl : i = 0 := by omega
    simp only [applyAt, hget, goFld_plain io .de elems _ ks' _ hget]
    exact ⟨_, _, rfl, by rw [resOfGen_incr, (h0 _ _).1], by rw [(h0 _ _).2]⟩

theorem RangeTo_ref_tie (io : Io) (elems : List Tree) (hlen : elems.length = 1) (ks : KeySrc)
    (hnp : ∀ s, ks.next (.named ["end"]) ≠ .error (.panic s))
    (c0 : Tree → KeySrc → Except Traversal Unit)
    (h0 : ∀ t ks, anyOfGen (c0 t ks) = anyView (t.walk io .refAny ks).res) :
    ∃ r, Impls.RangeTo.ref_any_by_key keysNextM c0 elems ks = .val r ∧
      anyOfGen r = anyView (Tree.walk io .refAny (.node false none (.named ["end"]) (plainFields elems)) ks).res := by
  simp only [Impls.RangeTo.ref_any_by_key, Impls.RANGE_TO_LOOKUP, Impls.KeyLookup.numbered, nonZeroNew, keysNextM, lookupOfGen, Tree.walk]
  try simp +decide only [↓reduceIte]
  cases hnext : ks.next (.named ["end"]) with
  | error e =>
    cases e with
    | panic s => exact absurd hnext (hnp s)
    | _ => exact ⟨_, rfl, by simp [resOfGen, anyOfGen, anyView, travToGen, travOfGen]⟩
  | ok p =>
    obtain ⟨i, ks'⟩ := p
    have hi := next_lt ks _ i ks' hnext
    simp only [Lookup.len, List.length_cons, List.length_nil] at hi
    have hget : elems[i]? = some elems[i] := List.getElem?_eq_getElem (by omega)
    obtain rfl : i = 0 := by omega
    simp only [applyAtR, hget, goFld_plain io .refAny elems _ ks' _ hget]
    refine ⟨_, rfl, ?_⟩
    rw [anyView_incr, ← h0]
    cases c0 elems[0] ks' with
    | ok u => cases u; rfl
    | error e => simp [anyOfGen, Except.mapError, increment_tie]

theorem RangeTo_mut_tie (io : Io) (elems : List Tree) (hlen : elems.length = 1) (ks : KeySrc)
    (hnp : ∀ s, ks.next (.named ["end"]) ≠ .error (.panic s))
    (c0 : Tree → KeySrc → Except Traversal Unit × Tree)
    (h0 : ∀ t ks, anyOfGen (c0 t ks).1 = anyView (t.walk io .mutAny ks).res ∧ (c0 t ks).2 = (t.walk io .mutAny ks).tree) :
    ∃ es r, Impls.RangeTo.mut_any_by_key keysNextM c0 elems ks = .val (es, r) ∧
      anyOfGen r = anyView (Tree.walk io .mutAny (.node false none (.named ["end"]) (plainFields elems)) ks).res ∧
      Tree.node false none (.named ["end"]) (plainFields es) = (Tree.walk io .mutAny (.node false none (.named ["end"]) (plainFields elems)) ks).tree := by
  simp only [Impls.RangeTo.mut_any_by_key, Impls.RANGE_TO_LOOKUP, Impls.KeyLookup.numbered, nonZeroNew, keysNextM, lookupOfGen, Tree.walk]
  try simp +decide only [↓reduceIte]
  cases hnext : ks.next (.named ["end"]) with
  | error e =>
    cases e with
    | panic s => exact absurd hnext (hnp s)
    | _ => exact ⟨_, _, rfl, by simp [resOfGen, anyOfGen, anyView, travToGen, travOfGen], rfl⟩
  | ok p =>
    obtain ⟨i, ks'⟩ := p
    have hi := next_lt ks _ i ks' hnext
    simp only [Lookup.len, List.length_cons, List.length_nil] at hi
    have hget : elems[i]? = some elems[i] := List.getElem?_eq_getElem (by omega)
    obtain rfl : i = 0 := by omega
    simp only [applyAt, hget, goFld_plain io .mutAny elems _ ks' _ hget]
    refine ⟨_, _, rfl, ?_, by rw [(h0 _ _).2]⟩
    rw [anyView_incr, ← (h0 _ _).1]
    cases (c0 elems[0] ks').1 with
    | ok u => cases u; rfl
    | error e => simp [anyOfGen, Except.mapError, increment_tie]

theorem RangeInclusive_ser_tie (io : Io) (elems : List Tree) (hlen : elems.length = 2) (ks : KeySrc)
    (hnp : ∀ s, ks.next (.named ["start", "end"]) ≠ .error (.panic s))
    (c0 : Tree → KeySrc → Except (Error Unit) Nat)
    (h0 : ∀ t ks, resOfGen (c0 t ks) = (t.walk io .ser ks).res) :
    ∃ r, Impls.RangeInclusive.serialize_by_key keysNextM c0 elems ks = .val r ∧
      resOfGen r = (Tree.walk io .ser (.node false none (.named ["start", "end"]) (plainFields elems)) ks).res := by
  simp only [Impls.RangeInclusive.serialize_by_key, Impls.RANGE_LOOKUP, Impls.KeyLookup.numbered, nonZeroNew, keysNextM, lookupOfGen, Tree.walk]
  try simp +decide only [↓reduceIte]
  cases hnext : ks.next (.named ["start", "end"]) with
  | error e =>
    cases e with
    | panic s => exact absurd hnext (hnp s)
    | _ => exact ⟨_, rfl, by simp [resOfGen, anyOfGen, anyView, travToGen, travOfGen]⟩
  | ok p =>
    obtain ⟨i, ks'⟩ := p
    have hi := next_lt ks _ i ks' hnext
    simp only [Lookup.len, List.length_cons, List.length_nil] at hi
    have hget : elems[i]? = some elems[i] := List.getElem?_eq_getElem (by omega)
    have hi' : i = 0 ∨ i = 1 := by omega
    rcases hi' with rfl | rfl
    · simp only [applyAtR, hget, goFld_plain io .ser elems _ ks' _ hget]
      exact ⟨_, rfl, by rw [resOfGen_incr, h0]⟩
    · simp only [applyAtR, hget, goFld_plain io .ser elems _ ks' _ hget]
      exact ⟨_, rfl, by rw [resOfGen_incr, h0]⟩

/-- all tuple value-level ties as one statement -/
def TupleValueTies : Prop :=
  type_of% @tuple1_ser_tie ∧
  type_of% @tuple1_de_tie ∧
  type_of% @tuple1_ref_tie ∧
  type_of% @tuple1_mut_tie ∧
  type_of% @tuple2_ser_tie ∧
  type_of% @tuple2_de_tie ∧
  type_of% @tuple2_ref_tie ∧
  type_of% @tuple2_mut_tie ∧
  type_of% @tuple3_ser_tie ∧
  type_of% @tuple3_de_tie ∧
  type_of% @tuple3_ref_tie ∧
  type_of% @tuple3_mut_tie ∧
  type_of% @tuple4_ser_tie ∧
  type_of% @tuple4_de_tie ∧
  type_of% @tuple4_ref_tie ∧
  type_of% @tuple4_mut_tie ∧
  type_of% @tuple5_ser_tie ∧
  type_of% @tuple5_de_tie ∧
  type_of% @tuple5_ref_tie ∧
  type_of% @tuple5_mut_tie ∧
  type_of% @tuple6_ser_tie ∧
  type_of% @tuple6_de_tie ∧
  type_of% @tuple6_ref_tie ∧
  type_of% @tuple6_mut_tie ∧
  type_of% @tuple7_ser_tie ∧
  type_of% @tuple7_de_tie ∧
  type_of% @tuple7_ref_tie ∧
  type_of% @tuple7_mut_tie ∧
  type_of% @tuple8_ser_tie ∧
  type_of% @tuple8_de_tie ∧
  type_of% @tuple8_ref_tie ∧
  type_of% @tuple8_mut_tie ∧
  type_of% @Range_ser_tie ∧
  type_of% @Range_de_tie ∧
  type_of% @Range_ref_tie ∧
  type_of% @Range_mut_tie ∧
  type_of% @RangeFrom_ser_tie ∧
  type_of% @RangeFrom_de_tie ∧
  type_of% @RangeFrom_ref_tie ∧
  type_of% @RangeFrom_mut_tie ∧
  type_of% @RangeTo_ser_tie ∧
  type_of% @RangeTo_de_tie ∧
  type_of% @RangeTo_ref_tie ∧
  type_of% @RangeTo_mut_tie ∧
  type_of% @RangeInclusive_ser_tie

theorem tupleValueTies : TupleValueTies :=
  ⟨@tuple1_ser_tie, @tuple1_de_tie, @tuple1_ref_tie, @tuple1_mut_tie, @tuple2_ser_tie, @tuple2_de_tie, @tuple2_ref_tie, @tuple2_mut_tie, @tuple3_ser_tie, @tuple3_de_tie, @tuple3_ref_tie, @tuple3_mut_tie, @tuple4_ser_tie, @tuple4_de_tie, @tuple4_ref_tie, @tuple4_mut_tie, @tuple5_ser_tie, @tuple5_de_tie, @tuple5_ref_tie, @tuple5_mut_tie, @tuple6_ser_tie, @tuple6_de_tie, @tuple6_ref_tie, @tuple6_mut_tie, @tuple7_ser_tie, @tuple7_de_tie, @tuple7_ref_tie, @tuple7_mut_tie, @tuple8_ser_tie, @tuple8_de_tie, @tuple8_ref_tie, @tuple8_mut_tie, @Range_ser_tie, @Range_de_tie, @Range_ref_tie, @Range_mut_tie, @RangeFrom_ser_tie, @RangeFrom_de_tie, @RangeFrom_ref_tie, @RangeFrom_mut_tie, @RangeTo_ser_tie, @RangeTo_de_tie, @RangeTo_ref_tie, @RangeTo_mut_tie, @RangeInclusive_ser_tie⟩

end MiniconfVerif.GenTie
