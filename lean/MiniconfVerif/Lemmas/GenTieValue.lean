import MiniconfVerif.Lemmas.GenTieImpls
import MiniconfVerif.Model.Tree

/-! Value-level ties: `Tree.walk` at an array agrees with `TreeSerialize` / `TreeDeserialize` / `TreeAny` of `[T; N]`
**as translated from impls.rs** (`Gen/Impls.lean`); the children's by-key functions are related by hypothesis. -/
namespace MiniconfVerif.GenTie
open MiniconfVerif MiniconfVerif.Gen MiniconfVerif.Gen.Core

/-- `Result<&dyn Any, Traversal>` carries no depth: the model's result seen through `TreeAny` -/
def anyView : Res → Option (Except Trav Unit)
  | .ok _ => some (.ok ())
  | .trav e => some (.error e)
  | _ => none

def anyOfGen : Except Traversal Unit → Option (Except Trav Unit)
  | .ok () => some (.ok ())
  | .error e => some (.error (travOfGen e))

theorem anyView_incr (r : Res) : anyView r.incr = (anyView r).map (fun x => match x with
    | .ok () => .ok ()
    | .error e => .error e.incr) := by
  cases r <;> simp [anyView, Res.incr]

theorem goArr_get (io : Io) (op : Op) : ∀ (es : List Tree) (i : Nat) (ks : KeySrc) (t : Tree), es[i]? = some t →
    Tree.walk.goArr io op es i ks = (t.walk io op ks, es.set i (t.walk io op ks).tree)
  | [], i, ks, t, h => by simp at h
  | e :: r, 0, ks, t, h => by
    simp only [List.getElem?_cons_zero, Option.some.injEq] at h
    subst h
    simp [Tree.walk.goArr]
  | e :: r, i + 1, ks, t, h => by
    simp only [List.getElem?_cons_succ] at h
    simp [Tree.walk.goArr, goArr_get io op r i ks t h]

section
variable (io : Io) (elems : List Tree) (ks : KeySrc) (hn : 0 < elems.length)
  (hnp : ∀ s, ks.next (.homog elems.length) ≠ .error (.panic s))
include hn hnp

/-- `<[T; N] as TreeSerialize>::serialize_by_key` -/
theorem array_ser_tie (childSer : Tree → KeySrc → Except (Error Unit) Nat)
    (h : ∀ t ks, resOfGen (childSer t ks) = (t.walk io .ser ks).res) :
    ∃ r, Impls.array.serialize_by_key keysNextM elems.length childSer elems ks = .val r ∧
      resOfGen r = (Tree.walk io .ser (.array elems) ks).res := by
  have hne : elems.length ≠ 0 := by omega
  simp only [Impls.array.serialize_by_key, Impls.KeyLookup.homogeneous, nonZeroNew, hne, if_false, keysNextM,
    lookupOfGen, Tree.walk]
  cases hnext : ks.next (.homog elems.length) with
  | error e =>
    cases e with
    | panic s => exact absurd hnext (hnp s)
    | _ => exact ⟨_, rfl, by simp [resOfGen, travToGen, travOfGen]⟩
  | ok p =>
    obtain ⟨i, ks'⟩ := p
    have hi := next_lt ks _ i ks' hnext
    simp only [Lookup.len] at hi
    have hget : elems[i]? = some elems[i] := List.getElem?_eq_getElem hi
    simp only [applyAtR, hget, goArr_get io .ser elems i ks' _ hget]
    exact ⟨_, rfl, by rw [resOfGen_incr, h]⟩

/-- `<[T; N] as TreeDeserialize>::deserialize_by_key`: result and the array with the addressed element replaced -/
theorem array_de_tie (childDe : Tree → KeySrc → Except (Error Unit) Nat × Tree)
    (h : ∀ t ks, resOfGen (childDe t ks).1 = (t.walk io .de ks).res ∧ (childDe t ks).2 = (t.walk io .de ks).tree) :
    ∃ es r, Impls.array.deserialize_by_key keysNextM elems.length childDe elems ks = .val (es, r) ∧
      resOfGen r = (Tree.walk io .de (.array elems) ks).res ∧ Tree.array es = (Tree.walk io .de (.array elems) ks).tree := by
  have hne : elems.length ≠ 0 := by omega
  simp only [Impls.array.deserialize_by_key, Impls.KeyLookup.homogeneous, nonZeroNew, hne, if_false, keysNextM,
    lookupOfGen, Tree.walk]
  cases hnext : ks.next (.homog elems.length) with
  | error e =>
    cases e with
    | panic s => exact absurd hnext (hnp s)
    | _ => exact ⟨_, _, rfl, by simp [resOfGen, travToGen, travOfGen], rfl⟩
  | ok p =>
    obtain ⟨i, ks'⟩ := p
    have hi := next_lt ks _ i ks' hnext
    simp only [Lookup.len] at hi
    have hget : elems[i]? = some elems[i] := List.getElem?_eq_getElem hi
    simp only [applyAt, hget, goArr_get io .de elems i ks' _ hget]
    exact ⟨_, _, rfl, by rw [resOfGen_incr, (h _ _).1], by rw [(h _ _).2]⟩

/-- `<[T; N] as TreeAny>::ref_any_by_key` -/
theorem array_ref_tie (childRef : Tree → KeySrc → Except Traversal Unit)
    (h : ∀ t ks, anyOfGen (childRef t ks) = anyView (t.walk io .refAny ks).res) :
    ∃ r, Impls.array.ref_any_by_key keysNextM elems.length childRef elems ks = .val r ∧
      anyOfGen r = anyView (Tree.walk io .refAny (.array elems) ks).res := by
  have hne : elems.length ≠ 0 := by omega
  simp only [Impls.array.ref_any_by_key, Impls.KeyLookup.homogeneous, nonZeroNew, hne, if_false, keysNextM,
    lookupOfGen, Tree.walk]
  cases hnext : ks.next (.homog elems.length) with
  | error e =>
    cases e with
    | panic s => exact absurd hnext (hnp s)
    | _ => exact ⟨_, rfl, by simp [anyOfGen, anyView, travToGen, travOfGen]⟩
  | ok p =>
    obtain ⟨i, ks'⟩ := p
    have hi := next_lt ks _ i ks' hnext
    simp only [Lookup.len] at hi
    have hget : elems[i]? = some elems[i] := List.getElem?_eq_getElem hi
    simp only [applyAtR, hget, goArr_get io .refAny elems i ks' _ hget]
    refine ⟨_, rfl, ?_⟩
    rw [anyView_incr, ← h]
    cases childRef elems[i] ks' with
    | ok u => cases u; rfl
    | error e => simp [anyOfGen, Except.mapError, increment_tie]

/-- `<[T; N] as TreeAny>::mut_any_by_key` -/
theorem array_mut_tie (childMut : Tree → KeySrc → Except Traversal Unit × Tree)
    (h : ∀ t ks, anyOfGen (childMut t ks).1 = anyView (t.walk io .mutAny ks).res ∧
      (childMut t ks).2 = (t.walk io .mutAny ks).tree) :
    ∃ es r, Impls.array.mut_any_by_key keysNextM elems.length childMut elems ks = .val (es, r) ∧
      anyOfGen r = anyView (Tree.walk io .mutAny (.array elems) ks).res ∧
      Tree.array es = (Tree.walk io .mutAny (.array elems) ks).tree := by
  have hne : elems.length ≠ 0 := by omega
  simp only [Impls.array.mut_any_by_key, Impls.KeyLookup.homogeneous, nonZeroNew, hne, if_false, keysNextM,
    lookupOfGen, Tree.walk]
  cases hnext : ks.next (.homog elems.length) with
  | error e =>
    cases e with
    | panic s => exact absurd hnext (hnp s)
    | _ => exact ⟨_, _, rfl, by simp [anyOfGen, anyView, travToGen, travOfGen], rfl⟩
  | ok p =>
    obtain ⟨i, ks'⟩ := p
    have hi := next_lt ks _ i ks' hnext
    simp only [Lookup.len] at hi
    have hget : elems[i]? = some elems[i] := List.getElem?_eq_getElem hi
    simp only [applyAt, hget, goArr_get io .mutAny elems i ks' _ hget]
    refine ⟨_, _, rfl, ?_, by rw [(h _ _).2]⟩
    rw [anyView_incr, ← (h _ _).1]
    cases (childMut elems[i] ks').1 with
    | ok u => cases u; rfl
    | error e => simp [anyOfGen, Except.mapError, increment_tie]

end

end MiniconfVerif.GenTie

namespace MiniconfVerif.GenTie
open MiniconfVerif MiniconfVerif.Gen MiniconfVerif.Gen.Core

/-- the fields of a tuple: no attributes -/
def plainFields (elems : List Tree) : List (Attrs × Tree) := elems.map fun t => (({} : Attrs), t)

theorem applyValidator_plain (op : Op) (o : Out) : applyValidator ({} : Attrs) op o = o := by
  cases op <;> simp [applyValidator] <;> split <;> simp_all

theorem goFld_plain (io : Io) (op : Op) : ∀ (es : List Tree) (i : Nat) (ks : KeySrc) (t : Tree), es[i]? = some t →
    Tree.walk.goFld io op (plainFields es) i ks = (t.walk io op ks, plainFields (es.set i (t.walk io op ks).tree))
  | [], i, ks, t, h => by simp at h
  | e :: r, 0, ks, t, h => by
    simp only [List.getElem?_cons_zero, Option.some.injEq] at h
    subst h
    cases op <;> simp [plainFields, Tree.walk.goFld, Attrs.deny, Attrs.getter, getterLog, applyValidator_plain]
  | e :: r, i + 1, ks, t, h => by
    simp only [List.getElem?_cons_succ] at h
    have := goFld_plain io op r i ks t h
    simp only [plainFields] at this
    simp [plainFields, Tree.walk.goFld, this]

end MiniconfVerif.GenTie

namespace MiniconfVerif.GenTie
open MiniconfVerif MiniconfVerif.Gen MiniconfVerif.Gen.Core

/-- the runtime state of an `Option<T>` in the model: `closed` = `None` (the inner tree then only carries the type) -/
def optSelf (closed : Bool) (inner : Tree) : Option Tree := if closed then none else some inner

/-- **`Option<T>`**: `None` is `Absent(0)` before any key is consumed; `Some` delegates to the value, which is put
back after a `&mut` access -/
theorem option_tie (io : Io) (closed : Bool) (inner : Tree) (ks : KeySrc)
    (childSer : Tree → KeySrc → Except (Error Unit) Nat) (childDe : Tree → KeySrc → Except (Error Unit) Nat × Tree)
    (childRef : Tree → KeySrc → Except Traversal Unit) (childMut : Tree → KeySrc → Except Traversal Unit × Tree)
    (hs : ∀ t ks, resOfGen (childSer t ks) = (t.walk io .ser ks).res)
    (hd : ∀ t ks, resOfGen (childDe t ks).1 = (t.walk io .de ks).res ∧ (childDe t ks).2 = (t.walk io .de ks).tree)
    (hr : ∀ t ks, anyOfGen (childRef t ks) = anyView (t.walk io .refAny ks).res)
    (hm : ∀ t ks, anyOfGen (childMut t ks).1 = anyView (t.walk io .mutAny ks).res ∧
      (childMut t ks).2 = (t.walk io .mutAny ks).tree) :
    resOfGen (Impls.Option.serialize_by_key childSer (optSelf closed inner) ks) =
      (Tree.walk io .ser (.gate .option closed inner) ks).res ∧
    (let r := Impls.Option.deserialize_by_key childDe (optSelf closed inner) ks
     resOfGen r.2 = (Tree.walk io .de (.gate .option closed inner) ks).res ∧
     (match r.1 with
      | some t' => Tree.gate .option false t' = (Tree.walk io .de (.gate .option closed inner) ks).tree
      | none => Tree.gate .option true inner = (Tree.walk io .de (.gate .option closed inner) ks).tree)) ∧
    anyOfGen (Impls.Option.ref_any_by_key childRef (optSelf closed inner) ks) =
      anyView (Tree.walk io .refAny (.gate .option closed inner) ks).res ∧
    (let r := Impls.Option.mut_any_by_key childMut (optSelf closed inner) ks
     anyOfGen r.2 = anyView (Tree.walk io .mutAny (.gate .option closed inner) ks).res ∧
     (match r.1 with
      | some t' => Tree.gate .option false t' = (Tree.walk io .mutAny (.gate .option closed inner) ks).tree
      | none => Tree.gate .option true inner = (Tree.walk io .mutAny (.gate .option closed inner) ks).tree)) := by
  cases closed with
  | true =>
    simp [optSelf, Impls.Option.serialize_by_key, Impls.Option.deserialize_by_key, Impls.Option.ref_any_by_key,
      Impls.Option.mut_any_by_key, Tree.walk, gateErr, resOfGen, anyOfGen, anyView, travOfGen]
  | false =>
    simp only [optSelf, Bool.false_eq_true, if_false, Impls.Option.serialize_by_key, Impls.Option.deserialize_by_key,
      Impls.Option.ref_any_by_key, Impls.Option.mut_any_by_key, Tree.walk, gateErr]
    exact ⟨hs _ _, ⟨(hd _ _).1, by rw [(hd _ _).2]⟩, hr _ _, ⟨(hm _ _).1, by rw [(hm _ _).2]⟩⟩

end MiniconfVerif.GenTie
