import MiniconfVerif.Gen.Wrappers
import MiniconfVerif.Model.Tree

/-! The value-level impls of the transparent wrappers **as translated from miniconf/src/impls.rs** (`Gen/Wrappers.lean`: per
wrapper and operation, the accessor used and the answer when it fails) against the model's `gateErr` (`Model/Tree.lean`),
which is what `Tree.walk` — and through it every value-level theorem of C01 / C02 / C05 / C12 — uses for a wrapper node.

What makes an accessor fail is `std`'s semantics and is stated here by hand (`accFails`), over the runtime states a
wrapper can be in (`RState`); `closedOf` says which of them the model's single `closed` flag stands for. -/
namespace MiniconfVerif.GenTie
open MiniconfVerif MiniconfVerif.Gen.Wrappers

/-- runtime states of a wrapper -/
inductive RState where
  | plain          -- Some / unique / alive / unpoisoned / not borrowed
  | isNone         -- `Option::None`
  | mutBorrowed    -- a `RefMut` guard is alive (e.g. leaked)
  | shrBorrowed    -- a shared `Ref` guard is alive
  | shared         -- another `Rc` / `Arc` / `Weak` points to the same allocation
  | dangling       -- `Weak` whose value is gone
  | poisoned       -- `Mutex` / `RwLock` poisoned
  deriving DecidableEq, Repr, Inhabited

/-- `std`: in which state an accessor does not yield the value -/
def accFails : Acc → RState → Bool
  | .direct, _ => false
  | .asRef, s | .asMut, s => s = .isNone
  | .tryBorrow, s => s = .mutBorrowed                       -- shared borrows may coexist
  | .tryBorrowMut, s => s = .mutBorrowed || s = .shrBorrowed
  | .uniqueMut, s => s = .shared
  | .upgrade, s => s = .dangling
  | .lock, s | .read, s | .write, s | .lockGetMut, s => s = .poisoned

/-- the states each wrapper kind can be in -/
def statesOf : GateKind → List RState
  | .option => [.plain, .isNone]
  | .refCell => [.plain, .mutBorrowed, .shrBorrowed]
  | .refRefCell => [.plain, .mutBorrowed]                   -- the model has one flag: a shared borrow is not represented for `&RefCell`
  | .rc | .arc => [.plain, .shared]
  | .rcWeak | .arcWeak => [.plain, .dangling]
  | .mutex | .refMutex | .rwLock | .refRwLock => [.plain, .poisoned]
  | _ => [.plain]

/-- the model's `closed` flag of a wrapper node -/
def closedOf : RState → Bool
  | .plain | .shrBorrowed => false
  | _ => true

/-- the strong reference type a `Weak` upgrades to -/
def strongOf : GateKind → GateKind
  | .rcWeak => .rc
  | .arcWeak => .arc
  | g => g

/-- what a translated impl answers before the wrapped value's own by-key function runs (`none`: it delegates) -/
def behErr (g : GateKind) (op : Op) (s : RState) : Beh → Option Trav
  | .direct => none
  | .refuse t => some t
  | .via .upgrade onFail =>
    if accFails .upgrade s then some onFail
    else
      -- the delegate is the impl for `Rc<T>` / `Arc<T>` on the freshly upgraded reference, which is never unique (the
      -- `Weak` itself still points to the allocation)
      match wrapperBeh (strongOf g) op with
      | some (.via a t) => if accFails a .shared then some t else none
      | some (.refuse t) => some t
      | _ => none
  | .via a onFail => if accFails a s then some onFail else none

/-- **Every value-level wrapper impl as translated answers what the model's `gateErr` says**, for every wrapper kind, every
operation the source implements for it and every runtime state the wrapper can be in. -/
theorem wrappers_tie (g : GateKind) (op : Op) (b : Beh) (s : RState)
    (hb : wrapperBeh g op = some b) (hs : s ∈ statesOf g) :
    behErr g op s b = gateErr g op (closedOf s) := by
  cases g <;> cases op <;> simp [wrapperBeh] at hb <;> subst hb <;>
    simp [statesOf] at hs <;> (try rcases hs with rfl | rfl | rfl) <;> (try rcases hs with rfl | rfl) <;> (try subst hs) <;>
    simp [behErr, gateErr, accFails, closedOf, wrapperBeh, strongOf]

end MiniconfVerif.GenTie
