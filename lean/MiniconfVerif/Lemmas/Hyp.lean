import MiniconfVerif.Lemmas.WalkTotal
import MiniconfVerif.Lemmas.IdxWalk

/-! Soundness of the decidable hypothesis checks of `Model/Hyp.lean`. -/
namespace MiniconfVerif
set_option autoImplicit false

theorem Lookup.fitsB_sound (lk : Lookup) (h : lk.fitsB = true) : lk.fits := by
  simpa [Lookup.fitsB, Lookup.fits] using h

mutual
theorem Schema.wfB_sound : ∀ (s : Schema), s.wfB = true → s.WF
  | .leaf, _ => trivial
  | .node lk cs, h => by
    simp only [Schema.wfB, Bool.and_eq_true, decide_eq_true_eq] at h
    obtain ⟨⟨⟨h1, h2⟩, h3⟩, h4⟩ := h
    refine ⟨h1, h2, ?_, Schema.wfB_go_sound cs h4⟩
    cases lk with
    | named ns => simpa using h3
    | numbered n => trivial
    | homog n => simp at h3
  | .array n c, h => by
    simp only [Schema.wfB, Bool.and_eq_true, decide_eq_true_eq] at h
    exact ⟨h.1, Schema.wfB_sound c h.2⟩
theorem Schema.wfB_go_sound : ∀ (cs : List Schema), Schema.wfB.go cs = true → Schema.WF.wfList cs
  | [], _ => trivial
  | c :: cs, h => by
    simp only [Schema.wfB.go, Bool.and_eq_true] at h
    exact ⟨Schema.wfB_sound c h.1, Schema.wfB_go_sound cs h.2⟩
end

mutual
theorem Schema.fitsB_sound : ∀ (s : Schema), s.fitsB = true → s.Fits
  | .leaf, _ => trivial
  | .node lk cs, h => by
    simp only [Schema.fitsB, Bool.and_eq_true] at h
    exact ⟨Lookup.fitsB_sound lk h.1, Schema.fitsB_go_sound cs h.2⟩
  | .array n c, h => by
    simp only [Schema.fitsB, Bool.and_eq_true] at h
    exact ⟨Lookup.fitsB_sound _ h.1, Schema.fitsB_sound c h.2⟩
theorem Schema.fitsB_go_sound : ∀ (cs : List Schema), Schema.fitsB.go cs = true → Schema.Fits.fitsList cs
  | [], _ => trivial
  | c :: cs, h => by
    simp only [Schema.fitsB.go, Bool.and_eq_true] at h
    exact ⟨Schema.fitsB_sound c h.1, Schema.fitsB_go_sound cs h.2⟩
end

mutual
theorem Schema.beq_sound : ∀ (s s' : Schema), s.beq s' = true → s = s'
  | .leaf, .leaf, _ => rfl
  | .leaf, .node _ _, h => by simp [Schema.beq] at h
  | .leaf, .array _ _, h => by simp [Schema.beq] at h
  | .node _ _, .leaf, h => by simp [Schema.beq] at h
  | .node _ _, .array _ _, h => by simp [Schema.beq] at h
  | .array _ _, .leaf, h => by simp [Schema.beq] at h
  | .array _ _, .node _ _, h => by simp [Schema.beq] at h
  | .node lk cs, .node lk' cs', h => by
    simp only [Schema.beq, Bool.and_eq_true, decide_eq_true_eq] at h
    rw [h.1, Schema.beq_go_sound cs cs' h.2]
  | .array n c, .array n' c', h => by
    simp only [Schema.beq, Bool.and_eq_true, decide_eq_true_eq] at h
    rw [h.1, Schema.beq_sound c c' h.2]
theorem Schema.beq_go_sound : ∀ (cs cs' : List Schema), Schema.beq.go cs cs' = true → cs = cs'
  | [], [], _ => rfl
  | [], _ :: _, h => by simp [Schema.beq.go] at h
  | _ :: _, [], h => by simp [Schema.beq.go] at h
  | c :: cs, c' :: cs', h => by
    simp only [Schema.beq.go, Bool.and_eq_true] at h
    rw [Schema.beq_sound c c' h.1, Schema.beq_go_sound cs cs' h.2]
end

mutual
theorem Tree.wfB_sound : ∀ (t : Tree), t.wfB = true → t.WF
  | .leaf _ _, _ => trivial
  | .gate _ _ inner, h => Tree.wfB_sound inner h
  | .array elems, h => Tree.wfB_arr_sound elems h
  | .node flat _ lk fs, h => by
    simp only [Tree.wfB, Bool.and_eq_true] at h
    refine ⟨?_, Tree.wfB_fs_sound fs h.2⟩
    cases flat <;> simpa using h.1
theorem Tree.wfB_arr_sound : ∀ (es : List Tree), Tree.wfB.goArr es = true → Tree.WF.wfArr es
  | [], _ => trivial
  | t :: rest, h => by
    simp only [Tree.wfB.goArr, Bool.and_eq_true] at h
    refine ⟨Tree.wfB_sound t h.1.1, ?_, Tree.wfB_arr_sound rest h.2⟩
    intro u hu
    cases rest with
    | nil => simp at hu
    | cons u' rest' =>
      simp only [List.head?_cons, Option.mem_def, Option.some.injEq] at hu
      subst hu
      exact Schema.beq_sound _ _ h.1.2
theorem Tree.wfB_fs_sound : ∀ (fs : List (Attrs × Tree)), Tree.wfB.goFs fs = true → Tree.WF.wfFs fs
  | [], _ => trivial
  | (_, t) :: rest, h => by
    simp only [Tree.wfB.goFs, Bool.and_eq_true] at h
    exact ⟨Tree.wfB_sound t h.1, Tree.wfB_fs_sound rest h.2⟩
end

mutual
theorem Tree.fitsB_sound : ∀ (t : Tree), t.fitsB = true → t.Fits
  | .leaf _ _, _ => trivial
  | .gate _ _ inner, h => Tree.fitsB_sound inner h
  | .array elems, h => by
    simp only [Tree.fitsB, Bool.and_eq_true] at h
    exact ⟨Lookup.fitsB_sound _ h.1, Tree.fitsB_arr_sound elems h.2⟩
  | .node _ _ lk fs, h => by
    simp only [Tree.fitsB, Bool.and_eq_true] at h
    exact ⟨Lookup.fitsB_sound _ h.1, Tree.fitsB_fs_sound fs h.2⟩
theorem Tree.fitsB_arr_sound : ∀ (es : List Tree), Tree.fitsB.goArr es = true → Tree.Fits.fitsArr es
  | [], _ => trivial
  | t :: rest, h => by
    simp only [Tree.fitsB.goArr, Bool.and_eq_true] at h
    exact ⟨Tree.fitsB_sound t h.1, Tree.fitsB_arr_sound rest h.2⟩
theorem Tree.fitsB_fs_sound : ∀ (fs : List (Attrs × Tree)), Tree.fitsB.goFs fs = true → Tree.Fits.fitsFs fs
  | [], _ => trivial
  | (_, t) :: rest, h => by
    simp only [Tree.fitsB.goFs, Bool.and_eq_true] at h
    exact ⟨Tree.fitsB_sound t h.1, Tree.fitsB_fs_sound rest h.2⟩
end

end MiniconfVerif
